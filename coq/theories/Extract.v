(* Extraction: ExtrOcamlBasic only (bool, option, unit, list, prod, sumbool,
   sumor map to OCaml's own types); nat/N/positive stay inductive. *)
From Coq Require Extraction ExtrOcamlBasic.
From PTA Require Import Sx Dispatch.
Extraction "../ocaml/gen/model.ml" run.
