(* GlobProofs.v — the glob->regex converter followed by Python's re.match
   (on the fragment the converter emits) is the four-case glob semantics. *)
From Coq Require Import List NArith Bool Lia.
From PTA Require Import Sx Glob.
Import ListNotations.
Open Scope N_scope.

Definition no_newline (s : str) : Prop := ~ In NL s.

(* the documented meaning of a glob-style pattern *)
Definition glob_spec (p s : str) : Prop :=
  exists pre post, s = pre ++ glob_body p ++ post
    /\ (starts_star p = false -> pre = [])
    /\ (ends_star p = false -> post = []).

Definition post_txt (q : rpost) : str := match q with PStar => [DOT; STAR] | PDollar => [DOLLAR] end.

Lemma is_special_BSL : is_special BSL = true.  Proof. reflexivity. Qed.
Lemma is_special_DOT : is_special DOT = true.  Proof. reflexivity. Qed.

Lemma not_special_neq c d : is_special c = false -> is_special d = true -> N.eqb c d = false.
Proof.
  intros Hc Hd. destruct (N.eqb_spec c d) as [->|]; [congruence|reflexivity].
Qed.

Lemma parse_items_escape b q fuel :
  (length b < fuel)%nat ->
  parse_items fuel (re_escape b ++ post_txt q) = Some (b, q).
Proof.
  revert fuel; induction b as [|c b IH]; intros fuel Hf.
  - destruct fuel as [|fuel]; [simpl in Hf; lia|]. destruct q; reflexivity.
  - destruct fuel as [|fuel]; [simpl in Hf; lia|].
    simpl in Hf. assert (Hf' : (length b < fuel)%nat) by lia.
    specialize (IH fuel Hf').
    cbn [re_escape flat_map]. fold (re_escape b). unfold escape_char.
    destruct (is_special c) eqn:Hs.
    + cbn [app parse_items]. rewrite N.eqb_refl, Hs. rewrite IH. reflexivity.
    + cbn [app].
      destruct (re_escape b ++ post_txt q) as [|d r'] eqn:Hr.
      { exfalso. destruct (re_escape b); destruct q; discriminate. }
      cbn [parse_items].
      rewrite (not_special_neq c BSL Hs is_special_BSL).
      rewrite (not_special_neq c DOT Hs is_special_DOT). cbn [andb].
      rewrite Hs, IH. reflexivity.
Qed.

Lemma parse_items_dotstar_nonempty fuel r :
  r <> [] -> parse_items fuel (DOT :: STAR :: r) = None.
Proof.
  intros Hr. destruct fuel as [|fuel]; [reflexivity|].
  destruct r as [|x r]; [congruence|]. reflexivity.
Qed.

Lemma ends_star_cons c p : p <> [] -> ends_star (c :: p) = ends_star p.
Proof.
  intros Hp. unfold ends_star. cbn [rev].
  destruct (rev p) eqn:Hr.
  - exfalso. apply Hp. rewrite <- (rev_involutive p), Hr. reflexivity.
  - reflexivity.
Qed.

Theorem parse_convert p : parse_regex (glob_to_regex p) = Some (ast_of p).
Proof.
  unfold glob_to_regex, ast_of.
  set (q := if ends_star p then PStar else PDollar).
  assert (Hq : (if ends_star p then [DOT; STAR] else [DOLLAR]) = post_txt q)
    by (unfold q; destruct (ends_star p); reflexivity).
  rewrite Hq.
  destruct (starts_star p) eqn:Hs.
  - unfold parse_regex. cbn [app].
    rewrite parse_items_dotstar_nonempty.
    2:{ destruct (re_escape (glob_body p)); destruct q; discriminate. }
    rewrite !N.eqb_refl. cbn [andb].
    rewrite parse_items_escape; [reflexivity|].
    rewrite app_length.
    assert (length (glob_body p) <= length (re_escape (glob_body p)))%nat.
    { induction (glob_body p) as [|c b IH]; [simpl; lia|].
      cbn [re_escape flat_map]. fold (re_escape b). rewrite app_length.
      unfold escape_char. destruct (is_special c); simpl in *; lia. }
    lia.
  - unfold parse_regex. cbn [app].
    rewrite parse_items_escape; [reflexivity|].
    rewrite app_length.
    assert (length (glob_body p) <= length (re_escape (glob_body p)))%nat.
    { induction (glob_body p) as [|c b IH]; [simpl; lia|].
      cbn [re_escape flat_map]. fold (re_escape b). rewrite app_length.
      unfold escape_char. destruct (is_special c); simpl in *; lia. }
    lia.
Qed.

Lemma strip_prefix_spec b s rest : strip_prefix b s = Some rest <-> s = b ++ rest.
Proof.
  revert s; induction b as [|x b IH]; intros s; simpl.
  - split; [intros [= ->]; reflexivity | intros ->; reflexivity].
  - destruct s as [|y s]; [split; discriminate|].
    destruct (N.eqb_spec x y) as [->|Hn].
    + rewrite IH. split; [intros ->; reflexivity | intros [= ->]; reflexivity].
    + split; [discriminate | intros [= -> _]; congruence].
Qed.

Lemma match_here_spec b q s :
  match_here b q s = true <-> exists rest, s = b ++ rest /\ post_ok q rest = true.
Proof.
  unfold match_here. destruct (strip_prefix b s) as [rest|] eqn:Hs.
  - apply strip_prefix_spec in Hs. split.
    + intros H; exists rest; auto.
    + intros [rest' [He Hp]]. subst s. apply app_inv_head in He. subst; auto.
  - split; [discriminate|]. intros [rest [He _]]. apply strip_prefix_spec in He. congruence.
Qed.

Lemma dotstar_spec b q s :
  match_after_dotstar b q s = true <->
  exists pre rest, s = pre ++ b ++ rest /\ ~ In NL pre /\ post_ok q rest = true.
Proof.
  induction s as [|c s IH]; cbn [match_after_dotstar].
  - rewrite orb_false_r, match_here_spec. split.
    + intros [rest [He Hp]]. exists [], rest. simpl; auto.
    + intros [pre [rest [He [_ Hp]]]]. destruct pre; [|discriminate]. exists rest; auto.
  - rewrite orb_true_iff, andb_true_iff, negb_true_iff, IH, match_here_spec. split.
    + intros [[rest [He Hp]] | [Hc [pre [rest [He [Hn Hp]]]]]].
      * exists [], rest; simpl; auto.
      * exists (c :: pre), rest. subst s. split; [reflexivity|]. split; auto.
        intros [Hx|Hx]; [|auto]. subst c. rewrite N.eqb_refl in Hc. discriminate.
    + intros [pre [rest [He [Hn Hp]]]]. destruct pre as [|x pre].
      * left. exists rest; auto.
      * right. injection He as -> ->. split.
        -- destruct (N.eqb_spec x NL) as [->|]; [exfalso; apply Hn; left; reflexivity|reflexivity].
        -- exists pre, rest. split; [reflexivity|]. split; auto. intros Hx; apply Hn; right; auto.
Qed.

Lemma post_ok_dollar_nonl rest : ~ In NL rest -> (post_ok PDollar rest = true <-> rest = []).
Proof.
  intros Hn. destruct rest as [|c [|d r]]; simpl; split; auto; try discriminate.
  intros Hc. apply N.eqb_eq in Hc. subst. exfalso; apply Hn; left; reflexivity.
Qed.

Theorem rx_match_glob_spec p s :
  no_newline s -> (rx_match (ast_of p) s = true <-> glob_spec p s).
Proof.
  intros Hn. unfold rx_match, ast_of, glob_spec. cbn [rx_pre rx_body rx_post].
  destruct (starts_star p) eqn:Hs.
  - rewrite dotstar_spec. split.
    + intros [pre [rest [He [_ Hp]]]]. exists pre, rest. split; auto. split; [discriminate|].
      intros He'. rewrite He' in Hp. apply post_ok_dollar_nonl in Hp; auto.
      intros Hi. apply Hn. subst s. rewrite !in_app_iff; auto.
    + intros [pre [rest [He [_ Hr]]]]. exists pre, rest. split; auto. split.
      * intros Hi. apply Hn. subst s. rewrite in_app_iff; auto.
      * destruct (ends_star p); [reflexivity|]. rewrite Hr by reflexivity. reflexivity.
  - rewrite match_here_spec. split.
    + intros [rest [He Hp]]. exists [], rest. split; auto. split; auto.
      intros He'. rewrite He' in Hp. apply post_ok_dollar_nonl in Hp; auto.
      intros Hi. apply Hn. subst s. rewrite in_app_iff; auto.
    + intros [pre [rest [He [Hpre Hr]]]]. rewrite Hpre in He by reflexivity. exists rest. split; auto.
      destruct (ends_star p); [reflexivity|]. rewrite Hr by reflexivity. reflexivity.
Qed.

Theorem glob_match_spec p s :
  no_newline s -> (glob_match p s = true <-> glob_spec p s).
Proof.
  intros Hn. unfold glob_match. rewrite parse_convert. apply rx_match_glob_spec; assumption.
Qed.

(* escaping is injective: no two different texts have the same regex *)
Theorem ast_of_injective_on_regex p1 p2 :
  glob_to_regex p1 = glob_to_regex p2 -> ast_of p1 = ast_of p2.
Proof.
  intros H. pose proof (parse_convert p1) as H1. rewrite H, parse_convert in H1. congruence.
Qed.

(* ---- the four shapes, in the property's own words ---- *)
Lemma ends_star_app_star t : ends_star (t ++ [STAR]) = true.
Proof. unfold ends_star. rewrite rev_app_distr. reflexivity. Qed.

Lemma glob_exact p s :
  no_newline s -> starts_star p = false -> ends_star p = false ->
  (glob_match p s = true <-> s = p).
Proof.
  intros Hn Hs He. rewrite glob_match_spec by assumption. unfold glob_spec, glob_body. rewrite Hs, He.
  split.
  - intros [pre [post [H [Hp Hq]]]]. rewrite Hp, Hq in H by reflexivity. rewrite app_nil_r in H. exact H.
  - intros ->. exists [], []. rewrite app_nil_r. auto.
Qed.

Lemma glob_suffix t s :
  no_newline s -> ends_star (STAR :: t) = false ->
  (glob_match (STAR :: t) s = true <-> exists pre, s = pre ++ t).
Proof.
  intros Hn He. rewrite glob_match_spec by assumption. unfold glob_spec, glob_body. rewrite He.
  cbn [starts_star tl]. rewrite N.eqb_refl. split.
  - intros [pre [post [H [_ Hq]]]]. rewrite Hq in H by reflexivity. rewrite app_nil_r in H. eauto.
  - intros [pre ->]. exists pre, []. rewrite app_nil_r. split; auto. split; [discriminate|auto].
Qed.

Lemma glob_prefix t s :
  no_newline s -> starts_star (t ++ [STAR]) = false ->
  (glob_match (t ++ [STAR]) s = true <-> exists post, s = t ++ post).
Proof.
  intros Hn Hs. rewrite glob_match_spec by assumption. unfold glob_spec, glob_body.
  rewrite Hs, ends_star_app_star, removelast_last. split.
  - intros [pre [post [H [Hp _]]]]. rewrite Hp in H by reflexivity. eauto.
  - intros [post ->]. exists [], post. split; auto. split; [auto|discriminate].
Qed.

Lemma glob_infix t s :
  no_newline s ->
  (glob_match (STAR :: t ++ [STAR]) s = true <-> exists pre post, s = pre ++ t ++ post).
Proof.
  intros Hn. rewrite glob_match_spec by assumption. unfold glob_spec, glob_body.
  change (STAR :: t ++ [STAR]) with ((STAR :: t) ++ [STAR]).
  rewrite ends_star_app_star. cbn [starts_star app tl]. rewrite N.eqb_refl, removelast_last. split.
  - intros [pre [post [H _]]]. eauto.
  - intros [pre [post ->]]. exists pre, post. split; auto. split; discriminate.
Qed.

(* regex metacharacters in the text are literal: the body of the parsed regex is the text itself *)
Lemma glob_text_literal p : rx_body (ast_of p) = glob_body p.
Proof. reflexivity. Qed.
