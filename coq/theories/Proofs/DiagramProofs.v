(* DiagramProofs.v — C06 (semantic level of the PlantUML parser) and C07 (DiagramRule = conformance). *)
From Coq Require Import List Bool Arith Lia NArith Permutation.
From PTA Require Import Sx Names Graph Search Rule SpecRule Label Puml Diagram.
From PTA Require Import NamesProofs SearchProofs RuleProofs LabelProofs GraphProofs.
Import ListNotations.

(* ================= C06 ================= *)
Lemma smemb_spec s l : smemb s l = true <-> In s l.
Proof.
  unfold smemb. rewrite existsb_exists. split.
  - intros [x [Hx He]]. destruct (str_eqb_spec s x); [subst; auto|discriminate].
  - intros H. exists s. split; auto. destruct (str_eqb_spec s s); congruence.
Qed.

Lemma in_sdedup s l : In s (sdedup l) <-> In s l.
Proof.
  induction l as [|x l IH]; simpl; [tauto|]. destruct (smemb x l) eqn:E.
  - rewrite IH. split; [auto|]. intros [<-|H]; auto. apply smemb_spec; auto.
  - simpl. rewrite IH. tauto.
Qed.

Lemma spair_eqb_spec p q : reflect (p = q) (spair_eqb p q).
Proof.
  destruct p as [a b], q as [c d]. unfold spair_eqb. cbn [fst snd].
  destruct (str_eqb_spec a c), (str_eqb_spec b d); constructor; congruence.
Qed.

Lemma in_spdedup p l : In p (spdedup l) <-> In p l.
Proof.
  induction l as [|x l IH]; simpl; [tauto|]. destruct (existsb (spair_eqb x) l) eqn:E.
  - rewrite IH. split; [auto|]. intros [<-|H]; auto. apply existsb_exists in E. destruct E as [y [Hy He]].
    destruct (spair_eqb_spec x y); [subst; auto|discriminate].
  - simpl. rewrite IH. tauto.
Qed.

(* what an alias stands for *)
Lemma lookup_alias_hit al a n :
  NoDup (map fst al) -> In (a, n) al -> lookup_alias al a = n.
Proof.
  unfold lookup_alias. induction al as [|[a' n'] al IH]; [intros _ []|]. cbn [map fst]. intros Hnd Hin.
  inversion Hnd as [|? ? Hni Hnd']; subst. cbn [find fst]. destruct (str_eqb_spec a' a) as [->|Hne].
  - destruct Hin as [[= <-]|Hin]; [reflexivity|]. exfalso. apply Hni. apply in_map_iff. exists (a, n). auto.
  - destruct Hin as [[= -> _]|Hin]; [congruence|]. apply IH; auto.
Qed.

Lemma lookup_alias_miss al s : ~ In s (map fst al) -> lookup_alias al s = s.
Proof.
  unfold lookup_alias. induction al as [|[a' n'] al IH]; [reflexivity|]. cbn [map fst find]. intros Hn.
  destruct (str_eqb_spec a' s) as [->|Hne]; [exfalso; apply Hn; left; reflexivity|]. apply IH. intros H; apply Hn; right; exact H.
Qed.

(* the parsed relation: exactly the drawn arrows with both ends resolved to component names,
   whichever way (name or alias) each end is written and wherever the declaring line stands *)
Theorem parse_lines_relation ls a b :
  In (a, b) (snd (parse_lines ls)) <->
  exists x y, In (PArrow x y) ls /\ a = lookup_alias (aliases_of ls) x /\ b = lookup_alias (aliases_of ls) y.
Proof.
  unfold parse_lines. cbn [snd]. rewrite in_spdedup, in_map_iff. split.
  - intros [[x y] [E Hi]]. cbn [fst snd] in E. injection E as <- <-. unfold arrows in Hi. apply in_flat_map in Hi.
    destruct Hi as [l [Hl Hi]]. destruct l as [n al|x' y'|]; try (destruct Hi; fail).
    destruct Hi as [E|[]]. injection E as E1 E2. rewrite E1, E2 in Hl. exists x, y. auto.
  - intros [x [y [Hi [-> ->]]]]. exists (x, y). split; [reflexivity|]. unfold arrows. apply in_flat_map.
    exists (PArrow x y). split; [exact Hi|left; reflexivity].
Qed.

(* the parsed components: every declared component and every (resolved) end of an arrow - nothing else *)
Theorem parse_lines_components ls c :
  In c (fst (parse_lines ls)) <->
  (exists al, In (PDecl c al) ls) \/
  (exists x y, In (PArrow x y) ls /\ (c = lookup_alias (aliases_of ls) x \/ c = lookup_alias (aliases_of ls) y)).
Proof.
  unfold parse_lines. cbn [fst]. rewrite in_sdedup, in_app_iff, in_map_iff, in_flat_map. split.
  - intros [[[n al] [E Hi]]|[[a b] [Hi Hc]]].
    + cbn [fst] in E. subst n. left. unfold decls in Hi. apply in_flat_map in Hi. destruct Hi as [l [Hl Hi]].
      destruct l as [n' al'|x y|]; try (destruct Hi; fail). destruct Hi as [E|[]]. injection E as E1 E2. rewrite E1, E2 in Hl. eauto.
    + right. apply in_map_iff in Hi. destruct Hi as [[x y] [E Hi]]. cbn [fst snd] in E. injection E as <- <-.
      unfold arrows in Hi. apply in_flat_map in Hi. destruct Hi as [l [Hl Hi]].
      destruct l as [n al|x' y'|]; try (destruct Hi; fail). destruct Hi as [E|[]]. injection E as E1 E2. rewrite E1, E2 in Hl.
      exists x, y. split; [exact Hl|]. cbn [fst snd] in Hc. destruct Hc as [<-|[<-|[]]]; auto.
  - intros [[al Hd]|[x [y [Hi Hc]]]].
    + left. exists (c, al). split; [reflexivity|]. unfold decls. apply in_flat_map. exists (PDecl c al). split; [exact Hd|left; reflexivity].
    + right. exists (lookup_alias (aliases_of ls) x, lookup_alias (aliases_of ls) y). split.
      * apply in_map_iff. exists (x, y). split; [reflexivity|]. unfold arrows. apply in_flat_map. exists (PArrow x y). split; [exact Hi|left; reflexivity].
      * cbn [fst snd]. destruct Hc as [->| ->]; [left|right; left]; reflexivity.
Qed.

(* order of lines is irrelevant *)
Lemma aliases_perm ls ls' : Permutation ls ls' -> Permutation (aliases_of ls) (aliases_of ls').
Proof.
  unfold aliases_of. induction 1; simpl.
  - constructor.
  - apply Permutation_app_head. assumption.
  - rewrite !app_assoc. apply Permutation_app_tail. apply Permutation_app_comm.
  - eapply Permutation_trans; eauto.
Qed.

Lemma lookup_alias_perm al al' s :
  NoDup (map fst al) -> Permutation al al' -> lookup_alias al s = lookup_alias al' s.
Proof.
  intros Hnd Hp.
  assert (Hnd' : NoDup (map fst al')) by (eapply Permutation_NoDup; [apply Permutation_map; exact Hp|exact Hnd]).
  destruct (in_dec (fun a b => match str_eqb_spec a b with ReflectT _ e => left e | ReflectF _ n => right n end) s (map fst al)) as [Hi|Hn].
  - apply in_map_iff in Hi. destruct Hi as [[a n] [E Hi]]. cbn [fst] in E. subst a.
    rewrite (lookup_alias_hit al s n Hnd Hi). symmetry. apply lookup_alias_hit; auto. eapply Permutation_in; eauto.
  - rewrite (lookup_alias_miss al s Hn). symmetry. apply lookup_alias_miss.
    intros Hi. apply Hn. eapply Permutation_in; [apply Permutation_sym, Permutation_map; exact Hp|exact Hi].
Qed.

Theorem parse_lines_order_independent ls ls' :
  NoDup (map fst (aliases_of ls)) -> Permutation ls ls' ->
  (forall c, In c (fst (parse_lines ls)) <-> In c (fst (parse_lines ls'))) /\
  (forall e, In e (snd (parse_lines ls)) <-> In e (snd (parse_lines ls'))).
Proof.
  intros Hnd Hp.
  assert (Hl : forall s, lookup_alias (aliases_of ls) s = lookup_alias (aliases_of ls') s)
    by (intros s; apply lookup_alias_perm; [exact Hnd|apply aliases_perm; exact Hp]).
  assert (Hin : forall l, In l ls <-> In l ls') by (intros l; split; apply Permutation_in; [exact Hp|apply Permutation_sym; exact Hp]).
  split.
  - intros c. rewrite !parse_lines_components. setoid_rewrite Hin. setoid_rewrite Hl. reflexivity.
  - intros [a b]. rewrite !parse_lines_relation. setoid_rewrite Hin. setoid_rewrite Hl. reflexivity.
Qed.

(* ================= C07 ================= *)
Section C07.
Context {comp : Type} (ceqb : comp -> comp -> bool).
Hypothesis ceqb_spec : forall x y, reflect (x = y) (ceqb x y).
Variable rmatch : N -> list comp -> bool.
Notation name := (list comp).
Notation graph := (@graph comp).
Notation pdeps := (@pdeps comp).
Notation outcome := (@outcome comp).
Notation sp_edge := (sp_edge ceqb).
Notation sp_other := (sp_other ceqb).

Lemma aggregate_pass (os : list outcome) failed acc :
  aggregate os failed acc = Pass <-> failed = false /\ forall o, In o os -> o = Pass.
Proof.
  revert failed acc; induction os as [|o os IH]; intros failed acc; cbn [aggregate].
  - destruct failed; split; try discriminate; intuition; try discriminate. destruct H0.
  - destruct o as [|ls|e].
    + rewrite IH. split; intros [H1 H2]; split; auto.
      * intros o [<-|Ho]; auto.
      * intros o Ho; apply H2; right; exact Ho.
    + rewrite IH. split; [intros [H _]; discriminate|]. intros [_ H2]. specialize (H2 (Fail ls) (or_introl eq_refl)). discriminate.
    + split; [discriminate|]. intros [_ H]. specialize (H (Err e) (or_introl eq_refl)). discriminate.
Qed.

(* a well-formed diagram on an architecture: components exist, are pairwise unrelated, arrows join distinct components *)
Record dwf (g : graph) (d : pdeps) : Prop := {
  dw_graph : wf_graph g;
  dw_exist : forall c, In c (pd_mods d) -> memb ceqb c (nodes g) = true;
  dw_unrel : pw_unrel ceqb (pd_mods d);
  dw_rel : forall a b, In (a, b) (pd_rel d) -> In a (pd_mods d) /\ In b (pd_mods d) /\ a <> b
}.

Lemma in_targets (d : pdeps) a b : In b (targets ceqb d a) <-> In (a, b) (pd_rel d).
Proof.
  unfold targets. rewrite (in_dedup ceqb ceqb_spec), in_flat_map. split.
  - intros [[x y] [Hi Hb]]. cbn [fst snd] in Hb. destruct (name_eqb_spec ceqb ceqb_spec x a) as [->|]; [|destruct Hb].
    destruct Hb as [<-|[]]. exact Hi.
  - intros Hi. exists (a, b). split; [exact Hi|]. cbn [fst snd]. rewrite (name_eqb_refl ceqb ceqb_spec). left; reflexivity.
Qed.

Lemma in_dependors (d : pdeps) a : In a (dependors ceqb d) <-> exists b, In (a, b) (pd_rel d).
Proof.
  unfold dependors. rewrite (in_dedup ceqb ceqb_spec), in_map_iff. split.
  - intros [[x y] [<- Hi]]. eauto.
  - intros [b Hi]. exists (a, b). auto.
Qed.

Lemma in_non_targets (d : pdeps) a b :
  In b (non_targets ceqb d a) <-> In b (pd_mods d) /\ b <> a /\ ~ In (a, b) (pd_rel d).
Proof.
  unfold non_targets. rewrite filter_In, andb_true_iff, !negb_true_iff, (name_eqb_neq ceqb ceqb_spec), (memb_false ceqb ceqb_spec), in_targets. tauto.
Qed.

Lemma pw_unrel_sub (l : list name) x : pw_unrel ceqb l -> forall sub, NoDup sub -> (forall y, In y sub -> In y l /\ y <> x) -> In x l ->
  pw_unrel ceqb (x :: sub).
Proof.
  intros Hl sub Hnd Hsub Hx. cbn [pw_unrel]. split.
  - intros y Hy. destruct (Hsub y Hy) as [Hyl Hne]. apply (pw_unrel_in ceqb l); auto.
  - induction sub as [|y sub IH]; [exact I|]. inversion Hnd as [|? ? Hni Hnd']; subst. cbn [pw_unrel]. split.
    + intros z Hz. apply (pw_unrel_in ceqb l); auto.
      * apply (Hsub y); left; reflexivity.
      * apply (Hsub z); right; exact Hz.
      * intros ->. contradiction.
    + apply IH; auto. intros z Hz. apply Hsub. right; exact Hz.
Qed.

Lemma NoDup_dedup (l : list name) : NoDup (dedup ceqb l).
Proof.
  induction l as [|x l IH]; simpl; [constructor|]. destruct (memb ceqb x l) eqn:E; [exact IH|].
  constructor; [|exact IH]. rewrite (in_dedup ceqb ceqb_spec). apply (memb_false ceqb ceqb_spec). exact E.
Qed.

Lemma NoDup_filter {X} (f : X -> bool) l : NoDup l -> NoDup (filter f l).
Proof.
  induction 1 as [|x l Hn Hnd IH]; simpl; [constructor|]. destruct (f x); [|exact IH].
  constructor; [|exact IH]. rewrite filter_In. tauto.
Qed.

Lemma pw_unrel_NoDup (l : list name) : pw_unrel ceqb l -> NoDup l.
Proof.
  induction l as [|x l IH]; [constructor|]. cbn [pw_unrel]. intros [Hx Hl]. constructor; [|apply IH; exact Hl].
  intros Hi. specialize (Hx x Hi). rewrite (related_refl ceqb ceqb_spec) in Hx. discriminate.
Qed.

(* each generated rule is a strict rule *)
Lemma strict_rule g d a (os : list name) :
  dwf g d -> In a (pd_mods d) -> NoDup os -> os <> [] -> (forall b, In b os -> In b (pd_mods d) /\ b <> a) ->
  strict ceqb g [Named a] (map Named os).
Proof.
  intros W Ha Hnd Hne Hos. constructor.
  - exact (dw_graph _ _ W).
  - intros f Hf. unfold exists_f. apply in_app_iff in Hf. destruct Hf as [[<-|[]]|Hf].
    + exact (dw_exist _ _ W a Ha).
    + apply in_map_iff in Hf. destruct Hf as [b [<- Hb]]. apply (dw_exist _ _ W b). apply (Hos b Hb).
  - cbn [map app fid]. rewrite map_map. cbn [fid]. rewrite map_id.
    apply (pw_unrel_sub (pd_mods d) a (dw_unrel _ _ W) os Hnd Hos Ha).
  - discriminate.
  - destruct os; [congruence|discriminate].
Qed.

Lemma rule_cfg_is_mk_cfg (only : bool) a (os : list name) :
  rule_cfg (negb only) only false a os = mk_cfg (if only then ShouldOnly else Should) true false [Named a] (map Named os).
Proof. unfold rule_cfg, mk_cfg. cbn [map to_u]. rewrite map_map. destruct only; reflexivity. Qed.

Lemma rule_cfg_not_is_mk_cfg a (os : list name) :
  rule_cfg false false true a os = mk_cfg ShouldNot true false [Named a] (map Named os).
Proof. unfold rule_cfg, mk_cfg. cbn [map to_u]. rewrite map_map. reflexivity. Qed.

Lemma verdict_pass_iff g v a (os : list name) :
  strict ceqb g [Named a] (map Named os) ->
  (verdict ceqb rmatch g (mk_cfg v true false [Named a] (map Named os)) = Pass <->
   spec_holds ceqb g v true false [Named a] (map Named os) = true).
Proof.
  intros Hs. rewrite (strict_verdict ceqb ceqb_spec rmatch g v true false _ _ Hs).
  destruct (spec_holds ceqb g v true false [Named a] (map Named os)); split; try reflexivity; discriminate.
Qed.

Lemma forallb_map_named (f : @filt comp -> bool) (os : list name) :
  forallb f (map Named os) = true <-> forall b, In b os -> f (Named b) = true.
Proof.
  rewrite forallb_forall. split.
  - intros H b Hb. apply H. apply in_map. exact Hb.
  - intros H x Hx. apply in_map_iff in Hx. destruct Hx as [b [<- Hb]]. apply H. exact Hb.
Qed.

(* C07: a DiagramRule passes exactly when the imports conform to the diagram *)
Theorem diagram_conformance g (only : bool) d :
  dwf g d ->
  (diagram_apply ceqb rmatch g only None d = Pass <->
   (forall a b, In a (pd_mods d) -> In b (pd_mods d) -> a <> b ->
      (sp_edge g true (Named a) (Named b) = true <-> In (a, b) (pd_rel d))) /\
   (only = true -> forall a, In a (dependors ceqb d) ->
      sp_other g true (Named a) (map Named (targets ceqb d a)) = false)).
Proof.
  intros W. unfold diagram_apply. cbn [prefix_deps]. rewrite aggregate_pass.
  assert (Hshould : forall a, In a (dependors ceqb d) ->
            (verdict ceqb rmatch g (rule_cfg (negb only) only false a (targets ceqb d a)) = Pass <->
             (forall b, In (a, b) (pd_rel d) -> sp_edge g true (Named a) (Named b) = true) /\
             (only = true -> sp_other g true (Named a) (map Named (targets ceqb d a)) = false))).
  { intros a Ha. apply in_dependors in Ha. destruct Ha as [b0 Hb0].
    assert (Hs : strict ceqb g [Named a] (map Named (targets ceqb d a))).
    { apply (strict_rule g d a); auto.
      - apply (dw_rel _ _ W a b0 Hb0).
      - apply NoDup_dedup.
      - intros E. assert (Hi : In b0 (targets ceqb d a)) by (apply in_targets; exact Hb0). rewrite E in Hi. destruct Hi.
      - intros b Hb. apply in_targets in Hb. destruct (dw_rel _ _ W a b Hb) as [_ [H1 H2]]. split; auto. }
    rewrite rule_cfg_is_mk_cfg, (verdict_pass_iff g _ a _ Hs).
    destruct only; cbn [spec_holds forallb].
    - rewrite !andb_true_r, andb_true_iff, negb_true_iff, forallb_map_named. setoid_rewrite in_targets. split.
      + intros [H1 H2]. split; auto.
      + intros [H1 H2]. split; auto.
    - rewrite !andb_true_r, forallb_map_named. setoid_rewrite in_targets. split.
      + intros H1. split; [auto|discriminate].
      + intros [H1 _]. exact H1. }
  assert (Hnot : forall a, In a (pd_mods d) -> non_targets ceqb d a <> [] ->
            (verdict ceqb rmatch g (rule_cfg false false true a (non_targets ceqb d a)) = Pass <->
             (forall b, In b (pd_mods d) -> b <> a -> ~ In (a, b) (pd_rel d) -> sp_edge g true (Named a) (Named b) = false))).
  { intros a Ha Hne.
    assert (Hs : strict ceqb g [Named a] (map Named (non_targets ceqb d a))).
    { apply (strict_rule g d a); auto.
      - unfold non_targets. apply NoDup_filter. apply pw_unrel_NoDup. exact (dw_unrel _ _ W).
      - intros b Hb. apply in_non_targets in Hb. tauto. }
    rewrite rule_cfg_not_is_mk_cfg, (verdict_pass_iff g _ a _ Hs). cbn [spec_holds forallb].
    rewrite andb_true_r, forallb_map_named. setoid_rewrite in_non_targets. setoid_rewrite negb_true_iff. split.
    - intros H b H1 H2 H3. apply H. auto.
    - intros H b [H1 [H2 H3]]. apply H; auto. }
  split.
  - intros [_ Hall].
    assert (Hrule : forall c, In c (diagram_rules ceqb only d) -> verdict ceqb rmatch g c = Pass).
    { intros c Hc. apply Hall. apply in_map. exact Hc. }
    split.
    + intros a b Ha Hb Hab. split.
      * intros He. destruct (in_dec (fun p q => match pair_eqb_spec ceqb ceqb_spec p q with ReflectT _ e => left e | ReflectF _ n => right n end) (a, b) (pd_rel d)) as [Hi|Hn]; [exact Hi|]. exfalso.
        assert (Hnt : In b (non_targets ceqb d a)) by (apply in_non_targets; auto).
        assert (Hne : non_targets ceqb d a <> []) by (intros E; rewrite E in Hnt; destruct Hnt).
        assert (Hc : In (rule_cfg false false true a (non_targets ceqb d a)) (diagram_rules ceqb only d)).
        { unfold diagram_rules. apply in_app_iff. right. apply in_flat_map. exists a. split; [exact Ha|].
          destruct (non_targets ceqb d a); [congruence|]. left; reflexivity. }
        apply Hrule in Hc. pose proof (proj1 (Hnot a Ha Hne) Hc) as Hc'. rewrite (Hc' b Hb (fun E => Hab (eq_sym E)) Hn) in He. discriminate.
      * intros Hi.
        assert (Hd : In a (dependors ceqb d)) by (apply in_dependors; eauto).
        assert (Hc : In (rule_cfg (negb only) only false a (targets ceqb d a)) (diagram_rules ceqb only d)).
        { unfold diagram_rules. apply in_app_iff. left. apply in_map_iff. exists a. auto. }
        apply Hrule in Hc. pose proof (proj1 (Hshould a Hd) Hc) as Hc'. apply (proj1 Hc'). exact Hi.
    + intros Ho a Hd.
      assert (Hc : In (rule_cfg (negb only) only false a (targets ceqb d a)) (diagram_rules ceqb only d)).
      { unfold diagram_rules. apply in_app_iff. left. apply in_map_iff. exists a. auto. }
      apply Hrule in Hc. pose proof (proj1 (Hshould a Hd) Hc) as Hc'. apply (proj2 Hc'). exact Ho.
  - intros [Hedge Hother]. split; [reflexivity|]. intros o Ho. apply in_map_iff in Ho. destruct Ho as [c [<- Hc]].
    unfold diagram_rules in Hc. apply in_app_iff in Hc. destruct Hc as [Hc|Hc].
    + apply in_map_iff in Hc. destruct Hc as [a [<- Hd]]. apply (proj2 (Hshould a Hd)). split.
      * intros b Hi. destruct (dw_rel _ _ W a b Hi) as [Ha [Hb Hab]]. apply (Hedge a b Ha Hb Hab). exact Hi.
      * intros Ho. apply Hother; auto.
    + apply in_flat_map in Hc. destruct Hc as [a [Ha Hc]].
      destruct (non_targets ceqb d a) as [|n ns] eqn:En; [destruct Hc|]. destruct Hc as [<-|[]].
      rewrite <- En. apply (proj2 (Hnot a Ha (ltac:(rewrite En; discriminate)))).
      intros b Hb Hba Hn. destruct (sp_edge g true (Named a) (Named b)) eqn:Ee; [|reflexivity].
      exfalso. apply Hn. apply (Hedge a b Ha Hb (fun E => Hba (eq_sym E))). exact Ee.
Qed.

(* with_base_module(p) behaves exactly like writing every component as p.name *)
Theorem base_module_is_prefixing g only p d :
  diagram_apply ceqb rmatch g only (Some p) d =
  diagram_apply ceqb rmatch g only None {| pd_mods := map (app p) (pd_mods d); pd_rel := map (fun e => (p ++ fst e, p ++ snd e)) (pd_rel d) |}.
Proof. reflexivity. Qed.

(* the aggregated error contains the message of every violated pairwise rule, and nothing stops at the first one *)
Lemma aggregate_lines (os : list outcome) failed acc l :
  (forall o, In o os -> forall e, o <> Err e) ->
  (exists ls, aggregate os failed acc = Fail ls /\ In l ls) <->
  ((failed = true \/ exists ls0, In (Fail ls0) os) /\ (In l acc \/ exists ls0, In (Fail ls0) os /\ In l ls0)).
Proof.
  revert failed acc; induction os as [|o os IH]; intros failed acc Hne; cbn [aggregate].
  - destruct failed.
    + split.
      * intros [ls [[= <-] Hl]]. split; auto.
      * intros [_ [Hl|[ls0 [[] _]]]]. eauto.
    + split; [intros [ls [H _]]; discriminate|]. intros [[H|[ls0 []]] _]. discriminate.
  - assert (Hne' : forall o0, In o0 os -> forall e, o0 <> Err e) by (intros o0 Ho0; apply Hne; right; exact Ho0).
    destruct o as [|ls1|e].
    + rewrite (IH failed acc Hne'). split.
      * intros [[H|[ls0 H]] [H2|[ls2 [H2 H3]]]]; (split; [first [left; exact H|right; exists ls0; right; exact H]|]);
          first [left; exact H2|right; exists ls2; split; [right; exact H2|exact H3]].
      * intros [[H|[ls0 [H|H]]] [H2|[ls2 [[H2|H2] H3]]]]; try discriminate;
          (split; [first [left; exact H|right; exists ls0; exact H]|]);
          first [left; exact H2|right; exists ls2; split; [exact H2|exact H3]].
    + rewrite (IH true (acc ++ ls1) Hne'). rewrite in_app_iff. split.
      * intros [_ [[H2|H2]|[ls2 [H2 H3]]]]; (split; [right; exists ls1; left; reflexivity|]).
        -- left; exact H2.
        -- right. exists ls1. split; [left; reflexivity|exact H2].
        -- right. exists ls2. split; [right; exact H2|exact H3].
      * intros [_ [H2|[ls2 [[H2|H2] H3]]]]; (split; [left; reflexivity|]).
        -- left; left; exact H2.
        -- injection H2 as <-. left; right; exact H3.
        -- right. exists ls2. auto.
    + exfalso. apply (Hne (Err e) (or_introl eq_refl) e). reflexivity.
Qed.

End C07.
