(* SearchProofs.v — on rules whose filters are pairwise unrelated the
   exclusion-set bookkeeping of the three graph queries collapses to the
   documented comprehensions of SpecRule.v. *)
From Coq Require Import List Bool Arith Lia.
From PTA Require Import Names Graph Search SpecRule NamesProofs.
Import ListNotations.

Section SearchProofs.
Context {comp : Type} (ceqb : comp -> comp -> bool).
Hypothesis ceqb_spec : forall x y, reflect (x = y) (ceqb x y).
Notation name := (list comp).
Notation name_eqb := (name_eqb ceqb).
Notation prefixb := (prefixb ceqb).
Notation related := (related ceqb).
Notation memb := (memb ceqb).
Notation removeb := (removeb ceqb).
Notation graph := (@graph comp).
Notation filt := (@filt comp).
Notation inD := (inD ceqb).
Notation desc_incl := (desc_incl ceqb).
Notation filt_eqb := (filt_eqb ceqb).
Notation exists_f := (exists_f ceqb).

Definition wf_graph (g : graph) : Prop :=
  forall a b, In (a, b) (imps g) -> In a (nodes g) /\ In b (nodes g).

Fixpoint pw_unrel (l : list name) : Prop :=
  match l with
  | [] => True
  | x :: r => (forall y, In y r -> related x y = false) /\ pw_unrel r
  end.

Definition unrel_from (d : filt) (us : list filt) : Prop :=
  forall u, In u us -> related (fid d) (fid u) = false.

Lemma pw_unrel_app l1 l2 :
  pw_unrel (l1 ++ l2) <->
  pw_unrel l1 /\ pw_unrel l2 /\ forall x y, In x l1 -> In y l2 -> related x y = false.
Proof.
  induction l1 as [|a l1 IH]; simpl.
  - split; [intros H; split; [exact I|split; [exact H|intros ? ? []]] | tauto].
  - rewrite IH. split.
    + intros [Ha [H1 [H2 H12]]]. split; [split; auto|]. { intros y Hy; apply Ha, in_app_iff; auto. }
      split; auto. intros x y [<-|Hx] Hy; [apply Ha, in_app_iff; auto|auto].
    + intros [[Ha H1] [H2 H12]]. split.
      * intros y Hy; apply in_app_iff in Hy; destruct Hy; auto.
      * split; auto.
Qed.

Lemma pw_unrel_in l x y : pw_unrel l -> In x l -> In y l -> x <> y -> related x y = false.
Proof.
  induction l as [|a l IH]; simpl; [intros _ []|].
  intros [Ha Hl] [<-|Hx] [<-|Hy] Hn; auto; try congruence.
  rewrite (related_sym ceqb). auto.
Qed.

Lemma pw_unrel_filt (l : list filt) o v :
  pw_unrel (map fid l) -> In o l -> In v l -> o <> v -> related (fid o) (fid v) = false.
Proof.
  induction l as [|a l IH]; simpl; [intros _ []|].
  intros [Ha Hl] [<-|Ho] [<-|Hv] Hn; auto; try congruence.
  - apply Ha, in_map; auto.
  - rewrite (related_sym ceqb). apply Ha, in_map; auto.
Qed.

Lemma filt_eqb_spec f1 f2 : reflect (f1 = f2) (filt_eqb f1 f2).
Proof.
  destruct f1 as [a|a], f2 as [b|b]; simpl; try (constructor; congruence);
    destruct (name_eqb_spec ceqb ceqb_spec a b); constructor; congruence.
Qed.

Lemma in_desc_incl g n x : In x (desc_incl g n) <-> In x (nodes g) /\ prefixb n x = true.
Proof. unfold Search.desc_incl; now rewrite filter_In. Qed.

Lemma memb_desc_incl g n x : In x (nodes g) -> memb x (desc_incl g n) = prefixb n x.
Proof.
  intros Hx. apply eq_iff_eq_true. rewrite (memb_spec ceqb ceqb_spec), in_desc_incl. tauto.
Qed.

Lemma inD_spec f m : inD f m = true <-> prefixb (fid f) m = true /\ (fparent f = true -> m <> fid f).
Proof.
  unfold Search.inD. rewrite andb_true_iff, negb_true_iff, andb_false_iff. split.
  - intros [Hp H]. split; auto. intros Hf ->. destruct H as [H|H]; [congruence|].
    rewrite (name_eqb_refl ceqb ceqb_spec) in H. discriminate.
  - intros [Hp H]. split; auto. destruct (fparent f); auto. right.
    apply (name_eqb_neq ceqb ceqb_spec). intros E. apply H; auto.
Qed.

Lemma inD_prefix f m : inD f m = true -> prefixb (fid f) m = true.
Proof. intros H; apply inD_spec in H; tauto. Qed.

(* a module below d is in no D(u) for u unrelated to d *)
Lemma inD_unrelated d u x :
  related (fid d) (fid u) = false -> prefixb (fid d) x = true -> inD u x = false.
Proof.
  intros Hr Hp. destruct (inD u x) eqn:E; [|reflexivity].
  apply inD_prefix in E. rewrite (unrelated_below ceqb ceqb_spec _ _ _ Hr Hp) in E. discriminate.
Qed.

(* ---- get_dependency_between_modules ---- *)
Lemma in_parent_ids2 (d u : filt) x :
  In x (parent_ids [d; u]) <-> (fparent d = true /\ x = fid d) \/ (fparent u = true /\ x = fid u).
Proof.
  unfold parent_ids. cbn [filter]. destruct (fparent d), (fparent u); cbn [map In]; intuition congruence.
Qed.

Lemma q_between_char g d u :
  wf_graph g -> exists_f g d = true -> exists_f g u = true -> related (fid d) (fid u) = false ->
  q_between ceqb g d u = Ok (filter (fun e => inD d (fst e) && inD u (snd e)) (imps g)).
Proof.
  intros Hwf Hd Hu Hr. unfold q_between. rewrite Hu, Hd. cbn [andb]. f_equal.
  apply filter_ext_in. intros [a b] Hi. cbn [fst snd]. destruct (Hwf _ _ Hi) as [Ha Hb].
  rewrite (memb_desc_incl g _ _ Ha), (memb_desc_incl g _ _ Hb).
  apply eq_iff_eq_true. rewrite !andb_true_iff, !negb_true_iff, !inD_spec.
  rewrite !(memb_false ceqb ceqb_spec), !in_parent_ids2.
  assert (Hr' : related (fid u) (fid d) = false) by (now rewrite (related_sym ceqb)).
  split.
  - intros [[[Hpa Hpb] Hxa] Hxb]. split; (split; [assumption|]).
    + intros Hf E. apply Hxa. left; auto.
    + intros Hf E. apply Hxb. right; auto.
  - intros [[Hpa Hna] [Hpb Hnb]]. split; [split; [split; assumption|]|].
    + intros [[Hf E]|[Hf E]]; [apply Hna; auto|]. subst a.
      pose proof (unrelated_below ceqb ceqb_spec _ _ _ Hr Hpa) as X.
      rewrite (prefixb_refl ceqb ceqb_spec) in X. discriminate.
    + intros [[Hf E]|[Hf E]]; [|apply Hnb; auto]. subst b.
      pose proof (unrelated_below ceqb ceqb_spec _ _ _ Hr' Hpb) as X.
      rewrite (prefixb_refl ceqb ceqb_spec) in X. discriminate.
Qed.

(* ---- exclusion sets ---- *)
Lemma fold_remove_in x (us : list filt) e :
  In x (remove_parent_ids ceqb us e) <->
  In x e /\ forall u, In u us -> fparent u = true -> x <> fid u.
Proof.
  unfold remove_parent_ids. revert e; induction us as [|u us IH]; intros e; simpl.
  - split; [intros H; split; auto; intros ? [] | tauto].
  - rewrite IH. destruct (fparent u) eqn:Hp.
    + rewrite (in_removeb ceqb ceqb_spec). split.
      * intros [[Hi Hn] H]. split; auto. intros v [<-|Hv] Hpv; auto.
      * intros [Hi H]. split; [split; auto|]; intros; apply H; auto.
    + split; intros [Hi H]; split; auto. intros v [<-|Hv] Hpv; [congruence|auto].
Qed.

Lemma in_excl_base g self others x :
  In x (excl_base ceqb g self others) <->
  exists o, In o others /\ o <> self /\ In x (nodes g) /\ prefixb (fid o) x = true.
Proof.
  unfold excl_base. rewrite in_flat_map. split.
  - intros [o [Ho Hx]]. destruct (filt_eqb_spec o self) as [->|Hn]; [destruct Hx|].
    apply in_desc_incl in Hx. exists o; tauto.
  - intros [o [Ho [Hn [Hx Hp]]]]. exists o. split; auto.
    destruct (filt_eqb_spec o self); [congruence|]. apply in_desc_incl; auto.
Qed.

(* with pairwise unrelated others (all unrelated to self): excluded = in some D(o) *)
Lemma in_excl_unrelated g self others x :
  unrel_from self others -> pw_unrel (map fid others) -> In x (nodes g) ->
  (In x (remove_parent_ids ceqb others (excl_base ceqb g self others)) <->
   exists o, In o others /\ inD o x = true).
Proof.
  intros Hsu Hpw Hx. rewrite fold_remove_in, in_excl_base. split.
  - intros [[o [Ho [Hn [_ Hp]]]] Hrm]. exists o. split; auto. apply inD_spec. split; auto.
  - intros [o [Ho Hd]]. apply inD_spec in Hd. destruct Hd as [Hp Hne]. split.
    + exists o. repeat split; auto. intros ->. specialize (Hsu _ Ho).
      now rewrite (related_refl ceqb ceqb_spec) in Hsu.
    + intros v Hv Hpv Ex. destruct (filt_eqb_spec o v) as [Eov|Hov]; [subst o; exact (Hne Hpv Ex)|]. subst x.
      assert (R : related (fid o) (fid v) = false) by (apply (pw_unrel_filt others); auto).
      unfold Names.related in R. rewrite Hp in R. discriminate.
Qed.

Lemma filter_not_self d us : unrel_from d us -> filter (fun u => negb (filt_eqb u d)) us = us.
Proof.
  intros H. induction us as [|u us IH]; simpl; [reflexivity|].
  destruct (filt_eqb_spec u d) as [->|Hn].
  - specialize (H d (or_introl eq_refl)). now rewrite (related_refl ceqb ceqb_spec) in H.
  - simpl. f_equal. apply IH. intros v Hv; apply H; right; auto.
Qed.

Lemma others_exist_true g self others :
  (forall o, In o others -> exists_f g o = true) -> others_exist ceqb g self others = true.
Proof.
  intros H. unfold others_exist. apply forallb_forall. intros o Ho. rewrite (H o Ho). apply orb_true_r.
Qed.

Lemma forallb_negb_inD (us : list filt) b :
  forallb (fun O => negb (inD O b)) us = true <-> forall u, In u us -> inD u b = false.
Proof.
  rewrite forallb_forall. split; intros H u Hu; specialize (H u Hu); [now apply negb_true_iff in H | now apply negb_true_iff].
Qed.

(* ---- any_dependency_to_module_other_than ---- *)
Lemma q_other_out_char g d us :
  wf_graph g -> exists_f g d = true -> (forall u, In u us -> exists_f g u = true) ->
  unrel_from d us -> pw_unrel (map fid us) ->
  q_other_out ceqb g d us = Ok (filter (fun e => is_other ceqb true d us e) (imps g)).
Proof.
  intros Hwf Hd Hus Hdu Hpw. unfold q_other_out. rewrite (others_exist_true g d us Hus), Hd. cbn [andb].
  f_equal. apply filter_ext_in. intros [a b] Hi. cbn [fst snd]. destruct (Hwf _ _ Hi) as [Ha Hb].
  rewrite (memb_desc_incl g _ _ Ha), (memb_desc_incl g _ _ Hb).
  unfold is_other, inside. cbn [fst snd].
  unfold excl_out. rewrite (filter_not_self d us Hdu).
  set (E := excl_base ceqb g d us).
  assert (Hex : forall x, In x (nodes g) ->
            (memb x (remove_parent_ids ceqb us (if fparent d then fid d :: E else E)) = true <->
             (fparent d = true /\ x = fid d) \/ exists o, In o us /\ inD o x = true)).
  { intros x Hx. rewrite (memb_spec ceqb ceqb_spec). rewrite fold_remove_in.
    pose proof (in_excl_unrelated g d us x Hdu Hpw Hx) as Hbase. rewrite fold_remove_in in Hbase. fold E in Hbase.
    split.
    - intros [Hin Hrm]. destruct (fparent d) eqn:Hfd.
      + destruct Hin as [<-|Hin]; [left; auto|]. right. apply Hbase. split; auto.
      + right. apply Hbase. split; auto.
    - intros [[Hfd ->]|Hex]. 
      + rewrite Hfd. split; [left; reflexivity|]. intros u Hu _ E'.
        specialize (Hdu u Hu). rewrite E' in Hdu. now rewrite (related_refl ceqb ceqb_spec) in Hdu.
      + apply Hbase in Hex. destruct Hex as [Hin Hrm]. split; auto. destruct (fparent d); [right|]; auto. }
  apply eq_iff_eq_true. rewrite !andb_true_iff, !negb_true_iff.
  rewrite forallb_negb_inD. rewrite inD_spec.
  split.
  - intros [[[Hpa Hax] Hbx] Hbn]. split; [split|]; auto.
    + split; auto. intros Hfd ->. apply not_true_iff_false in Hax. apply Hax. apply Hex; auto.
    + intros u Hu. destruct (inD u b) eqn:Eb; auto. apply not_true_iff_false in Hbx. exfalso. apply Hbx.
      apply Hex; auto. right. exists u; auto.
  - intros [[[Hpa Hna] Hbn] Hnu]. split; [split; [split; auto|]|auto].
    + apply not_true_iff_false. intros Hm. apply Hex in Hm; auto. destruct Hm as [[Hfd ->]|[o [Ho Hdo]]].
      * apply Hna; auto.
      * rewrite (inD_unrelated d o a (Hdu o Ho) Hpa) in Hdo. discriminate.
    + apply not_true_iff_false. intros Hm. apply Hex in Hm; auto. destruct Hm as [[Hfd ->]|[o [Ho Hdo]]].
      * rewrite (prefixb_refl ceqb ceqb_spec) in Hbn. discriminate.
      * rewrite (Hnu o Ho) in Hdo. discriminate.
Qed.

(* ---- any_other_dependency_to_module_than ---- *)
Lemma q_other_in_char g ds u :
  wf_graph g -> exists_f g u = true -> (forall d, In d ds -> exists_f g d = true) ->
  unrel_from u ds -> pw_unrel (map fid ds) ->
  q_other_in ceqb g ds u = Ok (filter (fun e => is_other ceqb false u ds (snd e, fst e)) (imps g)).
Proof.
  intros Hwf Hu Hds Hud Hpw. unfold q_other_in. rewrite (others_exist_true g u ds Hds), Hu. cbn [andb].
  f_equal. apply filter_ext_in. intros [p n] Hi. cbn [fst snd]. destruct (Hwf _ _ Hi) as [Hp Hn].
  unfold is_other, inside. cbn [fst snd].
  assert (Hnf : forall x, In x (nodes g) ->
            memb x (if fparent u then removeb (fid u) (desc_incl g (fid u)) else desc_incl g (fid u)) = inD u x).
  { intros x Hx. apply eq_iff_eq_true. rewrite (memb_spec ceqb ceqb_spec), inD_spec.
    destruct (fparent u) eqn:Hfu.
    - rewrite (in_removeb ceqb ceqb_spec), in_desc_incl. split; [intros [[_ H1] H2]; auto | intros [H1 H2]; auto].
    - rewrite in_desc_incl. split; [intros [_ H1]; split; auto; discriminate | tauto]. }
  rewrite (Hnf n Hn), (Hnf p Hp).
  apply eq_iff_eq_true. rewrite !andb_true_iff, !negb_true_iff, forallb_negb_inD.
  pose proof (in_excl_unrelated g u ds p Hud Hpw Hp) as Hex.
  split.
  - intros [[Hin Hpx] Hpn]. split; [split|]; auto.
    intros d Hd. destruct (inD d p) eqn:Ed; auto. apply (memb_false ceqb ceqb_spec) in Hpx.
    exfalso. apply Hpx. apply Hex. exists d; auto.
  - intros [[Hin Hpn] Hnd]. split; [split|]; auto.
    apply (memb_false ceqb ceqb_spec). intros Hm. apply Hex in Hm. destruct Hm as [d [Hd Hdp]].
    rewrite (Hnd d Hd) in Hdp. discriminate.
Qed.

End SearchProofs.
