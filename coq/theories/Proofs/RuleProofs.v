(* RuleProofs.v — on strict rules (pairwise unrelated, existing, name-based
   filters, one verb) Rule.assert_applies computes exactly the documented
   semantics: verdict (C01) and message lines (C03). *)
From Coq Require Import List Bool Arith Lia NArith.
From PTA Require Import Names Graph Search Rule SpecRule SpecLines NamesProofs SearchProofs.
Import ListNotations.

Section RuleProofs.
Context {comp : Type} (ceqb : comp -> comp -> bool).
Hypothesis ceqb_spec : forall x y, reflect (x = y) (ceqb x y).
Variable rmatch : N -> list comp -> bool.
Notation name := (list comp).
Notation graph := (@graph comp).
Notation filt := (@filt comp).
Notation ufilt := (@ufilt comp).
Notation line := (@line comp).
Notation inD := (inD ceqb).
Notation related := (related ceqb).
Notation exists_f := (exists_f ceqb).
Notation filt_eqb := (filt_eqb ceqb).
Notation sp_edge := (sp_edge ceqb).
Notation sp_other := (sp_other ceqb).
Notation is_other := (is_other ceqb).

Definition to_u (f : filt) : ufilt := match f with Named n => UNamed n | SubOf n => USubOf n end.

(* the configuration the fluent API builds for a complete single-verb rule *)
Definition mk_cfg (v : verb) (imp exc : bool) (Ss Os : list filt) : @cfg comp :=
  {| c_subj := Some (map to_u Ss); c_obj := Some (map to_u Os);
     c_should := match v with Should => true | _ => false end;
     c_only := match v with ShouldOnly => true | _ => false end;
     c_not := match v with ShouldNot => true | _ => false end;
     c_exc := exc; c_imp := Some imp; c_any := false |}.

Record strict (g : graph) (Ss Os : list filt) : Prop := {
  st_wf : wf_graph g;
  st_exist : forall f, In f (Ss ++ Os) -> exists_f g f = true;
  st_unrel : pw_unrel ceqb (map fid (Ss ++ Os));
  st_subj : Ss <> [];
  st_obj : Os <> []
}.

(* ---- regex conversion is the identity on name filters ---- *)
Lemma regexes_plain (fs : list filt) : regexes (map to_u fs) = [].
Proof. induction fs as [|[n|n] fs IH]; simpl; auto. Qed.
Lemma plain_to_u (fs : list filt) : plain (map to_u fs) = fs.
Proof. induction fs as [|[n|n] fs IH]; simpl; congruence. Qed.
Lemma convert_plain g (fs : list filt) : convert rmatch g (map to_u fs) = Ok fs.
Proof.
  unfold convert. rewrite regexes_plain, plain_to_u. cbn [forallb].
  assert (H : filter (fun n : name => existsb (fun r => rmatch r n) []) (nodes g) = []).
  { induction (nodes g); simpl; auto. }
  rewrite H. reflexivity.
Qed.

Lemma map_res_ok {X Y} (f : X -> res Y) (h : X -> Y) l :
  (forall x, In x l -> f x = Ok (h x)) -> map_res f l = Ok (map h l).
Proof.
  induction l as [|x l IH]; intros H; simpl; [reflexivity|].
  rewrite (H x (or_introl eq_refl)). simpl. rewrite IH by (intros; apply H; right; auto). reflexivity.
Qed.

(* ---- unrelatedness bookkeeping ---- *)
Lemma strict_pair g Ss Os S O : strict g Ss Os -> In S Ss -> In O Os -> related (fid S) (fid O) = false.
Proof.
  intros H HS HO. pose proof (st_unrel _ _ _ H) as Hu. rewrite map_app in Hu.
  apply pw_unrel_app in Hu. destruct Hu as [_ [_ Hu]]. apply Hu; apply in_map; auto.
Qed.
Lemma strict_unrel_from_S g Ss Os S : strict g Ss Os -> In S Ss -> unrel_from ceqb S Os.
Proof. intros H HS O HO. eapply strict_pair; eauto. Qed.
Lemma strict_pw_Os g Ss Os : strict g Ss Os -> pw_unrel ceqb (map fid Os).
Proof. intros H. pose proof (st_unrel _ _ _ H) as Hu. rewrite map_app in Hu. apply pw_unrel_app in Hu. tauto. Qed.
Lemma strict_pw_Ss g Ss Os : strict g Ss Os -> pw_unrel ceqb (map fid Ss).
Proof. intros H. pose proof (st_unrel _ _ _ H) as Hu. rewrite map_app in Hu. apply pw_unrel_app in Hu. tauto. Qed.
Lemma strict_exS g Ss Os S : strict g Ss Os -> In S Ss -> exists_f g S = true.
Proof. intros H HS. apply (st_exist _ _ _ H), in_app_iff; auto. Qed.
Lemma strict_exO g Ss Os O : strict g Ss Os -> In O Os -> exists_f g O = true.
Proof. intros H HO. apply (st_exist _ _ _ H), in_app_iff; auto. Qed.

(* ---- the three public queries on a strict rule ---- *)
Definition edges_of (g : graph) (imp : bool) (S O : filt) : list (name * name) :=
  filter (fun e => let xy := orient imp e in inD S (fst xy) && inD O (snd xy)) (imps g).
Definition others_of (g : graph) (imp : bool) (S : filt) (Os : list filt) : list (name * name) :=
  filter (fun e => is_other imp S Os (orient imp e)) (imps g).

Lemma get_dependencies_strict g Ss Os (imp : bool) :
  strict g Ss Os ->
  get_dependencies ceqb g (if imp then Ss else Os) (if imp then Os else Ss) =
  Ok (map (fun du => (du, if imp then edges_of g true (fst du) (snd du) else edges_of g false (snd du) (fst du)))
          (list_prod (if imp then Ss else Os) (if imp then Os else Ss))).
Proof.
  intros H. unfold get_dependencies. apply map_res_ok. intros [d u] Hdu. cbn [fst snd].
  apply in_prod_iff in Hdu. destruct Hdu as [Hd Hu]. destruct imp.
  - rewrite (q_between_char ceqb ceqb_spec g d u (st_wf _ _ _ H)); eauto using strict_exS, strict_exO, strict_pair.
  - rewrite (q_between_char ceqb ceqb_spec g d u (st_wf _ _ _ H)); eauto using strict_exS, strict_exO.
    + simpl. f_equal. f_equal. unfold edges_of. apply filter_ext. intros [a b]. cbn. apply andb_comm.
    + rewrite (related_sym ceqb). eapply strict_pair; eauto.
Qed.

Lemma other_out_strict g Ss Os :
  strict g Ss Os ->
  other_out_all ceqb g Ss Os = Ok (map (fun S => (S, others_of g true S Os)) Ss).
Proof.
  intros H. unfold other_out_all. apply map_res_ok. intros S HS.
  rewrite (q_other_out_char ceqb ceqb_spec g S Os (st_wf _ _ _ H));
    eauto using strict_exS, strict_exO, strict_unrel_from_S, strict_pw_Os.
Qed.

Lemma other_in_strict g Ss Os :
  strict g Ss Os ->
  other_in_all ceqb g Os Ss = Ok (map (fun S => (S, others_of g false S Os)) Ss).
Proof.
  intros H. unfold other_in_all. apply map_res_ok. intros S HS.
  rewrite (q_other_in_char ceqb ceqb_spec g Os S (st_wf _ _ _ H));
    eauto using strict_exS, strict_exO, strict_unrel_from_S, strict_pw_Os.
Qed.


(* ---- emptiness of a query result = the spec's existential ---- *)
Lemma is_nil_true {X} (l : list X) : is_nil l = true <-> l = [].
Proof. destruct l; simpl; split; congruence. Qed.

Lemma filter_nil_existsb {X} (p : X -> bool) l : filter p l = [] <-> existsb p l = false.
Proof.
  induction l as [|x l IH]; simpl; [tauto|]. destruct (p x); simpl; [split; discriminate|exact IH].
Qed.

Lemma edges_of_nil g imp S O : edges_of g imp S O = [] <-> sp_edge g imp S O = false.
Proof. apply filter_nil_existsb. Qed.
Lemma others_of_nil g imp S Os : others_of g imp S Os = [] <-> sp_other g imp S Os = false.
Proof. apply filter_nil_existsb. Qed.

Definition conc (imp : bool) (e : name * name) : line :=
  let xy := orient imp e in LConc (fst xy) (snd xy).

Lemma unorient_orient imp (e : name * name) : unorient imp (orient imp e) = e.
Proof. destruct imp, e; reflexivity. Qed.
Lemma orient_unorient imp (e : name * name) : orient imp (unorient imp e) = e.
Proof. destruct imp, e; reflexivity. Qed.

(* ---- the explicit-dependency table of a strict rule, direction-independent view ---- *)
Definition expl_table (g : graph) (imp : bool) (Ss Os : list filt) :=
  map (fun du => (du, if imp then edges_of g true (fst du) (snd du) else edges_of g false (snd du) (fst du)))
      (list_prod (if imp then Ss else Os) (if imp then Os else Ss)).

Lemma in_expl_table g imp Ss Os kv :
  In kv (expl_table g imp Ss Os) <->
  exists S O, In S Ss /\ In O Os /\ kv = ((if imp then (S, O) else (O, S)), edges_of g imp S O).
Proof.
  unfold expl_table. rewrite in_map_iff. split.
  - intros [[d u] [<- Hdu]]. apply in_prod_iff in Hdu. destruct Hdu as [Hd Hu]. destruct imp.
    + exists d, u. auto.
    + exists u, d. auto.
  - intros [S [O [HS [HO ->]]]]. destruct imp.
    + exists (S, O). split; auto. apply in_prod_iff; auto.
    + exists (O, S). split; auto. apply in_prod_iff; auto.
Qed.

Lemma in_realised_expl g imp Ss Os l :
  In l (realised imp (expl_table g imp Ss Os)) <->
  exists S O e, In S Ss /\ In O Os /\ In e (edges_of g imp S O) /\ l = conc imp e.
Proof.
  unfold realised. rewrite in_flat_map. split.
  - intros [kv [Hkv Hl]]. apply in_expl_table in Hkv. destruct Hkv as [S [O [HS [HO ->]]]].
    cbn [snd] in Hl. apply in_map_iff in Hl. destruct Hl as [e [<- He]].
    exists S, O, e. repeat split; auto; unfold conc, orient, swap_pair; destruct imp; reflexivity.
  - intros [S [O [e [HS [HO [He ->]]]]]].
    exists ((if imp then (S, O) else (O, S)), edges_of g imp S O). split.
    + apply in_expl_table. exists S, O. auto.
    + cbn [snd]. apply in_map_iff. exists e. split; auto;
      unfold conc, orient, swap_pair; destruct imp; reflexivity.
Qed.

Definition missing_os (imp : bool) (r : list ((filt * filt) * list (name * name))) (s : filt) : list filt :=
  flat_map (fun kv => let so := if imp then fst kv else swap_pair (fst kv) in
                      if filt_eqb (fst so) s && is_nil (snd kv) then [snd so] else []) r.

Lemma in_missing_os g imp Ss Os s O :
  In O (missing_os imp (expl_table g imp Ss Os) s) <->
  In s Ss /\ In O Os /\ sp_edge g imp s O = false.
Proof.
  unfold missing_os. rewrite in_flat_map. split.
  - intros [kv [Hkv HO]]. apply in_expl_table in Hkv. destruct Hkv as [S [O' [HS [HO' ->]]]].
    assert (HO2 : In O (if filt_eqb S s && is_nil (edges_of g imp S O') then [O'] else []))
      by (destruct imp; exact HO).
    clear HO. destruct (filt_eqb_spec ceqb ceqb_spec S s) as [->|]; [|destruct HO2]. cbn [andb] in HO2.
    destruct (is_nil (edges_of g imp s O')) eqn:En; [|destruct HO2]. destruct HO2 as [<-|[]].
    apply is_nil_true, edges_of_nil in En. auto.
  - intros [HS [HO He]]. exists ((if imp then (s, O) else (O, s)), edges_of g imp s O). split.
    + apply in_expl_table. exists s, O. auto.
    + assert (G : In O (if filt_eqb s s && is_nil (edges_of g imp s O) then [O] else [])).
      { destruct (filt_eqb_spec ceqb ceqb_spec s s); [|congruence].
        apply edges_of_nil, is_nil_true in He. rewrite He. left; reflexivity. }
      destruct imp; exact G.
Qed.

Lemma missing_explicit_unfold imp Ss r :
  missing_explicit ceqb imp Ss r =
  flat_map (fun s => if is_nil (missing_os imp r s) then [] else [LMissing s (missing_os imp r s)]) Ss.
Proof. reflexivity. Qed.

Lemma in_missing_explicit g imp Ss Os l :
  In l (missing_explicit ceqb imp Ss (expl_table g imp Ss Os)) <->
  exists s, In s Ss /\ missing_os imp (expl_table g imp Ss Os) s <> [] /\
            l = LMissing s (missing_os imp (expl_table g imp Ss Os) s).
Proof.
  rewrite missing_explicit_unfold, in_flat_map.
  set (r := expl_table g imp Ss Os). split.
  - intros [s [Hs Hl]]. destruct (missing_os imp r s) as [|f os] eqn:E; cbn [is_nil] in Hl; [destruct Hl|].
    destruct Hl as [<-|[]]. exists s. split; auto. rewrite E. split; [discriminate|reflexivity].
  - intros [s [Hs [Hn ->]]]. exists s. split; auto.
    destruct (missing_os imp r s) as [|f os] eqn:E; [congruence|]. left; reflexivity.
Qed.

Definition other_table (g : graph) (imp : bool) (Ss Os : list filt) :=
  map (fun S => (S, others_of g imp S Os)) Ss.

Lemma in_realised_other g imp Ss Os l :
  In l (realised imp (other_table g imp Ss Os)) <->
  exists S e, In S Ss /\ In e (others_of g imp S Os) /\ l = conc imp e.
Proof.
  unfold realised, other_table. rewrite in_flat_map. split.
  - intros [kv [Hkv Hl]]. apply in_map_iff in Hkv. destruct Hkv as [S [<- HS]]. cbn [snd] in Hl.
    apply in_map_iff in Hl. destruct Hl as [e [<- He]]. exists S, e. repeat split; auto; unfold conc, orient, swap_pair; destruct imp; reflexivity.
  - intros [S [e [HS [He ->]]]]. exists (S, others_of g imp S Os). split; [apply in_map_iff; eauto|].
    cbn [snd]. apply in_map_iff. exists e. split; auto; unfold conc, orient, swap_pair; destruct imp; reflexivity.
Qed.

Lemma in_missing_any g imp Ss Os l :
  In l (missing_any Os (other_table g imp Ss Os)) <->
  exists S, In S Ss /\ sp_other g imp S Os = false /\ l = LMissingAny S Os.
Proof.
  unfold missing_any, other_table. rewrite in_flat_map. split.
  - intros [kv [Hkv Hl]]. apply in_map_iff in Hkv. destruct Hkv as [S [<- HS]]. cbn [fst snd] in Hl.
    destruct (is_nil (others_of g imp S Os)) eqn:E; [|destruct Hl]. destruct Hl as [<-|[]].
    apply is_nil_true, others_of_nil in E. eauto.
  - intros [S [HS [He ->]]]. exists (S, others_of g imp S Os). split; [apply in_map_iff; eauto|].
    cbn [fst snd]. apply others_of_nil, is_nil_true in He. rewrite He. left; reflexivity.
Qed.

(* ---- violations of a strict rule, bucket by bucket ---- *)
Definition strict_lines (g : graph) (v : verb) (imp exc : bool) (Ss Os : list filt) : list line :=
  (if need_edge v exc then missing_explicit ceqb imp Ss (expl_table g imp Ss Os) else [])
  ++ (if forbid_other v exc then realised imp (other_table g imp Ss Os) else [])
  ++ (if forbid_edge v exc then realised imp (expl_table g imp Ss Os) else [])
  ++ (if need_other v exc then missing_any Os (other_table g imp Ss Os) else []).

Lemma violations_strict g v imp exc Ss Os :
  strict g Ss Os ->
  exists ls, violations ceqb g (mk_cfg v imp exc Ss Os) imp Ss Os = Ok ls /\
             forall l, In l ls <-> In l (strict_lines g v imp exc Ss Os).
Proof.
  intros H.
  pose proof (get_dependencies_strict g Ss Os imp H) as HE. fold (expl_table g imp Ss Os) in HE.
  assert (HO : (if imp then other_out_all ceqb g (if imp then Ss else Os) (if imp then Os else Ss)
                else other_in_all ceqb g (if imp then Ss else Os) (if imp then Os else Ss))
               = Ok (other_table g imp Ss Os)).
  { destruct imp; [apply other_out_strict | apply other_in_strict]; exact H. }
  unfold violations, expl_required, expl_forbidden, other_required, other_forbidden, strict_lines.
  destruct v, exc; cbn [mk_cfg c_should c_only c_not c_exc negb andb orb need_edge forbid_edge need_other forbid_other];
    rewrite ?HE, ?HO; cbn [bind]; eexists; (split; [reflexivity|]);
    intros l; rewrite ?app_nil_r, ?in_app_iff; cbn [app In]; rewrite ?in_app_iff; tauto.
Qed.

(* ---- C03: the lines are exactly the violating set ---- *)
(* equality of report lines up to the order in which a line lists its objects *)
Definition line_same (l l' : line) : Prop :=
  match l, l' with
  | LConc x y, LConc x' y' => x = x' /\ y = y'
  | LMissing s os, LMissing s' os' => s = s' /\ forall O, In O os <-> In O os'
  | LMissingAny s os, LMissingAny s' os' => s = s' /\ os = os'
  | _, _ => False
  end.

Lemma strict_lines_sound g v imp exc Ss Os l :
  strict g Ss Os -> In l (strict_lines g v imp exc Ss Os) -> violating ceqb g v imp exc Ss Os l.
Proof.
  intros H. unfold strict_lines. rewrite !in_app_iff.
  destruct l as [x y|s os|s os]; cbn [violating].
  - intros [Hl|[Hl|[Hl|Hl]]].
    + destruct (need_edge v exc); [|destruct Hl]. apply in_missing_explicit in Hl. destruct Hl as [s [_ [_ Hl]]]. discriminate.
    + destruct (forbid_other v exc) eqn:Ef; [|destruct Hl]. apply in_realised_other in Hl.
      destruct Hl as [S [e [HS [He Hl]]]]. unfold conc in Hl. injection Hl as -> ->.
      unfold others_of in He. apply filter_In in He. destruct He as [Hi Ho].
      rewrite <- surjective_pairing, unorient_orient. split; [exact Hi|]. exists S. split; [exact HS|]. right.
      split; [reflexivity|]. exact Ho.
    + destruct (forbid_edge v exc) eqn:Ef; [|destruct Hl]. apply in_realised_expl in Hl.
      destruct Hl as [S [O [e [HS [HO [He Hl]]]]]]. unfold conc in Hl. injection Hl as -> ->.
      unfold edges_of in He. apply filter_In in He. destruct He as [Hi Ho]. apply andb_true_iff in Ho.
      rewrite <- surjective_pairing, unorient_orient. split; [exact Hi|]. exists S. split; [exact HS|]. left.
      split; [reflexivity|]. split; [exact (proj1 Ho)|]. exists O. split; [exact HO|exact (proj2 Ho)].
    + destruct (need_other v exc); [|destruct Hl]. apply in_missing_any in Hl. destruct Hl as [S [_ [_ Hl]]]. discriminate.
  - intros [Hl|[Hl|[Hl|Hl]]].
    + destruct (need_edge v exc) eqn:En; [|destruct Hl]. apply in_missing_explicit in Hl.
      destruct Hl as [s' [Hs [Hne Hl]]]. injection Hl as -> ->. split; auto. split; auto. split; auto.
      intros O. rewrite in_missing_os. tauto.
    + destruct (forbid_other v exc); [|destruct Hl]. apply in_realised_other in Hl. destruct Hl as [? [? [_ [_ Hl]]]]. discriminate.
    + destruct (forbid_edge v exc); [|destruct Hl]. apply in_realised_expl in Hl. destruct Hl as [? [? [? [_ [_ [_ Hl]]]]]]. discriminate.
    + destruct (need_other v exc); [|destruct Hl]. apply in_missing_any in Hl. destruct Hl as [? [_ [_ Hl]]]. discriminate.
  - intros [Hl|[Hl|[Hl|Hl]]].
    + destruct (need_edge v exc); [|destruct Hl]. apply in_missing_explicit in Hl. destruct Hl as [? [_ [_ Hl]]]. discriminate.
    + destruct (forbid_other v exc); [|destruct Hl]. apply in_realised_other in Hl. destruct Hl as [? [? [_ [_ Hl]]]]. discriminate.
    + destruct (forbid_edge v exc); [|destruct Hl]. apply in_realised_expl in Hl. destruct Hl as [? [? [? [_ [_ [_ Hl]]]]]]. discriminate.
    + destruct (need_other v exc) eqn:En; [|destruct Hl]. apply in_missing_any in Hl.
      destruct Hl as [S [HS [Ho Hl]]]. injection Hl as -> ->. auto.
Qed.

Lemma strict_lines_complete g v imp exc Ss Os l :
  strict g Ss Os -> violating ceqb g v imp exc Ss Os l ->
  exists l', In l' (strict_lines g v imp exc Ss Os) /\ line_same l l'.
Proof.
  intros H. unfold strict_lines.
  destruct l as [x y|s os|s os]; cbn [violating].
  - intros [Hi [S [HS [[Ef [Hx [O [HO Hy]]]]|[Ef Ho]]]]].
    + exists (LConc x y). split; [|simpl; auto]. rewrite !in_app_iff. right; right; left. rewrite Ef.
      apply in_realised_expl. exists S, O, (unorient imp (x, y)). repeat split; auto.
      * unfold edges_of. apply filter_In. split; auto. rewrite orient_unorient. cbn [fst snd]. now rewrite Hx, Hy.
      * unfold conc. now rewrite orient_unorient.
    + exists (LConc x y). split; [|simpl; auto]. rewrite !in_app_iff. right; left. rewrite Ef.
      apply in_realised_other. exists S, (unorient imp (x, y)). repeat split; auto.
      * unfold others_of. apply filter_In. split; auto. now rewrite orient_unorient.
      * unfold conc. now rewrite orient_unorient.
  - intros [En [Hs [Hne Hos]]].
    exists (LMissing s (missing_os imp (expl_table g imp Ss Os) s)). split.
    + rewrite !in_app_iff. left. rewrite En. apply in_missing_explicit. exists s. split; auto. split; auto.
      destruct os as [|O os]; [congruence|]. intros E.
      assert (HO : In O (missing_os imp (expl_table g imp Ss Os) s)).
      { apply in_missing_os. destruct (Hos O) as [Hf _]. specialize (Hf (or_introl eq_refl)). tauto. }
      rewrite E in HO. destruct HO.
    + simpl. split; auto. intros O. rewrite in_missing_os, Hos. tauto.
  - intros [En [Hs [-> Ho]]]. exists (LMissingAny s Os). split; [|simpl; auto].
    rewrite !in_app_iff. right; right; right. rewrite En. apply in_missing_any. exists s. auto.
Qed.


(* ---- C01: verdict ---- *)
Definition no_lines (ls : list line) : Prop := forall l, ~ In l ls.

Lemma no_lines_nil (ls : list line) : no_lines ls <-> ls = [].
Proof.
  split; [|intros -> l []]. destruct ls as [|l ls]; [reflexivity|]. intros H. exfalso. apply (H l). left; reflexivity.
Qed.

Lemma bucket_missing_explicit g imp Ss Os :
  no_lines (missing_explicit ceqb imp Ss (expl_table g imp Ss Os)) <->
  forallb (fun S => forallb (sp_edge g imp S) Os) Ss = true.
Proof.
  rewrite forallb_forall. split.
  - intros Hn S HS. apply forallb_forall. intros O HO. destruct (sp_edge g imp S O) eqn:E; [reflexivity|].
    exfalso. apply (Hn (LMissing S (missing_os imp (expl_table g imp Ss Os) S))).
    apply in_missing_explicit. exists S. split; auto. split; auto.
    intros En. assert (HI : In O (missing_os imp (expl_table g imp Ss Os) S)) by (apply in_missing_os; auto).
    rewrite En in HI. destruct HI.
  - intros Hf l Hl. apply in_missing_explicit in Hl. destruct Hl as [s [Hs [Hne _]]].
    destruct (missing_os imp (expl_table g imp Ss Os) s) as [|O os] eqn:E; [congruence|].
    assert (HI : In O (missing_os imp (expl_table g imp Ss Os) s)) by (rewrite E; left; reflexivity).
    apply in_missing_os in HI. destruct HI as [_ [HO He]].
    specialize (Hf s Hs). rewrite forallb_forall in Hf. rewrite (Hf O HO) in He. discriminate.
Qed.

Lemma bucket_realised_expl g imp Ss Os :
  no_lines (realised imp (expl_table g imp Ss Os)) <->
  forallb (fun S => forallb (fun O => negb (sp_edge g imp S O)) Os) Ss = true.
Proof.
  rewrite forallb_forall. split.
  - intros Hn S HS. apply forallb_forall. intros O HO. apply negb_true_iff.
    apply edges_of_nil. destruct (edges_of g imp S O) as [|e es] eqn:E; [reflexivity|].
    exfalso. apply (Hn (conc imp e)). apply in_realised_expl. exists S, O, e. rewrite E. simpl; auto.
  - intros Hf l Hl. apply in_realised_expl in Hl. destruct Hl as [S [O [e [HS [HO [He _]]]]]].
    specialize (Hf S HS). rewrite forallb_forall in Hf. specialize (Hf O HO). apply negb_true_iff, edges_of_nil in Hf.
    rewrite Hf in He. destruct He.
Qed.

Lemma bucket_realised_other g imp Ss Os :
  no_lines (realised imp (other_table g imp Ss Os)) <->
  forallb (fun S => negb (sp_other g imp S Os)) Ss = true.
Proof.
  rewrite forallb_forall. split.
  - intros Hn S HS. apply negb_true_iff. apply others_of_nil.
    destruct (others_of g imp S Os) as [|e es] eqn:E; [reflexivity|].
    exfalso. apply (Hn (conc imp e)). apply in_realised_other. exists S, e. rewrite E. simpl; auto.
  - intros Hf l Hl. apply in_realised_other in Hl. destruct Hl as [S [e [HS [He _]]]].
    specialize (Hf S HS). apply negb_true_iff, others_of_nil in Hf. rewrite Hf in He. destruct He.
Qed.

Lemma bucket_missing_any g imp Ss Os :
  no_lines (missing_any Os (other_table g imp Ss Os)) <->
  forallb (fun S => sp_other g imp S Os) Ss = true.
Proof.
  rewrite forallb_forall. split.
  - intros Hn S HS. destruct (sp_other g imp S Os) eqn:E; [reflexivity|].
    exfalso. apply (Hn (LMissingAny S Os)). apply in_missing_any. exists S. auto.
  - intros Hf l Hl. apply in_missing_any in Hl. destruct Hl as [S [HS [He _]]].
    rewrite (Hf S HS) in He. discriminate.
Qed.

Lemma no_lines_app (l1 l2 : list line) : no_lines (l1 ++ l2) <-> no_lines l1 /\ no_lines l2.
Proof.
  unfold no_lines. split.
  - intros H. split; intros l Hl; apply (H l), in_app_iff; auto.
  - intros [H1 H2] l Hl. apply in_app_iff in Hl. destruct Hl; [eapply H1|eapply H2]; eauto.
Qed.

Lemma no_lines_nil_list : no_lines [].
Proof. intros l []. Qed.

Lemma strict_lines_empty g v imp exc Ss Os :
  no_lines (strict_lines g v imp exc Ss Os) <-> spec_holds ceqb g v imp exc Ss Os = true.
Proof.
  unfold strict_lines. rewrite !no_lines_app.
  destruct v, exc; cbn [need_edge forbid_edge need_other forbid_other negb spec_holds];
    rewrite ?andb_true_iff, <- ?bucket_missing_explicit, <- ?bucket_realised_expl,
            <- ?bucket_realised_other, <- ?bucket_missing_any;
    pose proof no_lines_nil_list; tauto.
Qed.

Definition is_pass (o : @outcome comp) : bool := match o with Pass => true | _ => false end.
Definition is_err (o : @outcome comp) : bool := match o with Err _ => true | _ => false end.
Definition lines_of (o : @outcome comp) : list line := match o with Fail ls => ls | _ => [] end.

Lemma map_to_u_nonempty (fs : list filt) : fs <> [] -> is_empty_opt (Some (map to_u fs)) = false.
Proof. destruct fs; [congruence|reflexivity]. Qed.

Lemma assert_applies_strict g v imp exc Ss Os :
  strict g Ss Os ->
  exists ls, violations ceqb g (mk_cfg v imp exc Ss Os) imp Ss Os = Ok ls /\
             (forall l, In l ls <-> In l (strict_lines g v imp exc Ss Os)) /\
             assert_applies ceqb rmatch g (mk_cfg v imp exc Ss Os) =
             (mk_cfg v imp exc Ss Os, match ls with [] => Pass | _ => Fail ls end).
Proof.
  intros H. destruct (violations_strict g v imp exc Ss Os H) as [ls [Hv Hls]].
  exists ls. split; [exact Hv|]. split; [exact Hls|].
  unfold assert_applies.
  assert (Hany : c_any (mk_cfg v imp exc Ss Os) = false) by reflexivity.
  rewrite Hany. cbn [andb].
  assert (Hca : convert_aliases ceqb (mk_cfg v imp exc Ss Os) = mk_cfg v imp exc Ss Os)
    by (unfold convert_aliases; rewrite Hany; reflexivity).
  rewrite Hca.
  assert (Hreq : required_present (mk_cfg v imp exc Ss Os) = true).
  { unfold required_present. cbn [mk_cfg c_should c_only c_not c_imp c_subj c_obj].
    rewrite (map_to_u_nonempty Ss (st_subj _ _ _ H)), (map_to_u_nonempty Os (st_obj _ _ _ H)).
    destruct v; reflexivity. }
  rewrite Hreq. cbn [negb].
  assert (Hcons : behavior_consistent (mk_cfg v imp exc Ss Os) = true) by (destruct v, exc; reflexivity).
  rewrite Hcons. cbn [negb].
  cbn [mk_cfg c_imp c_subj c_obj opt_list]. rewrite !convert_plain.
  change (violations ceqb g (mk_cfg v imp exc Ss Os) imp Ss Os) with (violations ceqb g (mk_cfg v imp exc Ss Os) imp Ss Os).
  rewrite Hv. destruct ls; reflexivity.
Qed.

Theorem strict_verdict g v imp exc Ss Os :
  strict g Ss Os ->
  verdict ceqb rmatch g (mk_cfg v imp exc Ss Os) =
    if spec_holds ceqb g v imp exc Ss Os then Pass
    else Fail (lines_of (verdict ceqb rmatch g (mk_cfg v imp exc Ss Os))).
Proof.
  intros H. destruct (assert_applies_strict g v imp exc Ss Os H) as [ls [_ [Hls Ha]]].
  unfold verdict. rewrite Ha. cbn [snd].
  pose proof (strict_lines_empty g v imp exc Ss Os) as He.
  destruct (spec_holds ceqb g v imp exc Ss Os).
  - assert (Hn : no_lines ls). { intros l Hl. apply Hls in Hl. revert l Hl. apply He. reflexivity. }
    apply no_lines_nil in Hn. rewrite Hn. reflexivity.
  - destruct ls as [|l ls]; [|reflexivity]. exfalso.
    assert (Hn : no_lines (strict_lines g v imp exc Ss Os)). { intros l Hl. apply Hls in Hl. destruct Hl. }
    apply He in Hn. discriminate.
Qed.

Theorem strict_total g v imp exc Ss Os :
  strict g Ss Os -> is_err (verdict ceqb rmatch g (mk_cfg v imp exc Ss Os)) = false.
Proof.
  intros H. rewrite (strict_verdict g v imp exc Ss Os H). destruct (spec_holds ceqb g v imp exc Ss Os); reflexivity.
Qed.

Theorem strict_report_sound g v imp exc Ss Os l :
  strict g Ss Os -> In l (lines_of (verdict ceqb rmatch g (mk_cfg v imp exc Ss Os))) ->
  violating ceqb g v imp exc Ss Os l.
Proof.
  intros H. destruct (assert_applies_strict g v imp exc Ss Os H) as [ls [_ [Hls Ha]]].
  unfold verdict. rewrite Ha. cbn [snd]. intros Hl.
  apply (strict_lines_sound g v imp exc Ss Os l H). apply Hls. destruct ls; [destruct Hl|exact Hl].
Qed.

Theorem strict_report_complete g v imp exc Ss Os l :
  strict g Ss Os -> violating ceqb g v imp exc Ss Os l ->
  exists l', In l' (lines_of (verdict ceqb rmatch g (mk_cfg v imp exc Ss Os))) /\ line_same l l'.
Proof.
  intros H Hv. destruct (assert_applies_strict g v imp exc Ss Os H) as [ls [_ [Hls Ha]]].
  destruct (strict_lines_complete g v imp exc Ss Os l H Hv) as [l' [Hl' Hs]].
  exists l'. split; [|exact Hs]. unfold verdict. rewrite Ha. cbn [snd].
  apply Hls in Hl'. destruct ls; [destruct Hl'|exact Hl'].
Qed.

(* no import unrelated to the rule's subjects is ever reported *)
Theorem strict_report_about_subject g v imp exc Ss Os x y :
  strict g Ss Os -> In (LConc x y) (lines_of (verdict ceqb rmatch g (mk_cfg v imp exc Ss Os))) ->
  exists S, In S Ss /\ inD S x = true.
Proof.
  intros H Hl. apply (strict_report_sound g v imp exc Ss Os _ H) in Hl. cbn [violating] in Hl.
  destruct Hl as [_ [S [HS [[_ [Hx _]]|[_ Ho]]]]]; exists S; split; auto.
  unfold SpecRule.is_other in Ho. cbn [fst snd] in Ho. apply andb_true_iff in Ho. destruct Ho as [Ho _].
  apply andb_true_iff in Ho. tauto.
Qed.

End RuleProofs.
