(* LabelProofs.v — the string layer: dotted rendering turns the component prefix
   order into "equal, or starts with name + '.'" (C14's string half), and the
   label function picks the most specific aliased module (C17). *)
From Coq Require Import List Bool Arith Lia NArith Sorted Permutation.
From PTA Require Import Sx Names Search Label NamesProofs.
Import ListNotations.
Open Scope N_scope.

Definition no_dot (c : str) : Prop := ~ In DOTC c.
Definition wf_comps (n : list str) : Prop := n <> [] /\ forall c, In c n -> no_dot c.

Lemma str_eqb_spec a b : reflect (a = b) (str_eqb a b).
Proof.
  revert b; induction a as [|x a IH]; intros [|y b]; simpl; try (constructor; congruence).
  destruct (N.eqb_spec x y) as [->|Hn]; simpl.
  - destruct (IH b) as [->|Hn]; constructor; congruence.
  - constructor; congruence.
Qed.

Lemma starts_with_spec p s : starts_with p s = true <-> exists t, s = p ++ t.
Proof.
  revert s; induction p as [|x p IH]; intros s; simpl.
  - split; eauto.
  - destruct s as [|y s]; [split; [discriminate|intros [t Ht]; discriminate]|].
    rewrite andb_true_iff, IH. destruct (N.eqb_spec x y) as [->|Hn].
    + split; [intros [_ [t ->]]; eauto | intros [t Ht]; injection Ht as ->; eauto].
    + split; [intros [H _]; discriminate | intros [t Ht]; injection Ht as -> _; congruence].
Qed.

(* splitting at the first dot is unique when the heads contain no dot *)
Lemma dot_split_unique x y s t :
  no_dot x -> no_dot y -> x ++ DOTC :: s = y ++ DOTC :: t -> x = y /\ s = t.
Proof.
  revert y; induction x as [|a x IH]; intros [|b y] Hx Hy H; simpl in H.
  - injection H as <-. auto.
  - injection H as Hb _. exfalso. apply Hy. left. auto.
  - injection H as Ha _. exfalso. apply Hx. left. auto.
  - injection H as -> H. destruct (IH y) as [-> ->]; auto.
    + intros Hi; apply Hx; right; exact Hi.
    + intros Hi; apply Hy; right; exact Hi.
Qed.

Lemma render_cons (c : str) (r : list str) : r <> [] -> render (c :: r) = c ++ DOTC :: render r.
Proof. destruct r; [congruence|reflexivity]. Qed.

Lemma render_single (c : str) : render [c] = c.
Proof. reflexivity. Qed.

Lemma in_render_dot (c : str) r : r <> [] -> In DOTC (render (c :: r)).
Proof. intros H. rewrite render_cons by exact H. apply in_app_iff. right. left. reflexivity. Qed.

(* the component prefix order, read on dotted strings *)
Theorem render_prefix a b :
  wf_comps a -> wf_comps b ->
  key_matches (render a) (render b) = prefixb str_eqb a b.
Proof.
  revert b. induction a as [|c a IH]; intros b [Ha Hca] [Hb Hcb]; [congruence|].
  destruct b as [|d b]; [congruence|].
  assert (Hc : no_dot c) by (apply Hca; left; reflexivity).
  assert (Hd : no_dot d) by (apply Hcb; left; reflexivity).
  cbn [prefixb]. unfold key_matches.
  destruct a as [|c2 a'].
  - (* a = [c] *)
    cbn [prefixb]. rewrite andb_true_r, render_single.
    destruct b as [|d2 b'].
    + rewrite render_single.
      assert (Hs : starts_with (c ++ [DOTC]) d = false).
      { apply not_true_iff_false. intros H. apply starts_with_spec in H. destruct H as [t ->].
        apply Hd. rewrite <- app_assoc. apply in_app_iff. right. left. reflexivity. }
      rewrite Hs, orb_false_r. destruct (str_eqb_spec d c), (str_eqb_spec c d); congruence.
    + rewrite render_cons by discriminate.
      assert (He : str_eqb (d ++ DOTC :: render (d2 :: b')) c = false).
      { apply not_true_iff_false. intros H. destruct (str_eqb_spec (d ++ DOTC :: render (d2 :: b')) c) as [E|]; [|discriminate].
        apply Hc. rewrite <- E. apply in_app_iff. right. left. reflexivity. }
      rewrite He. cbn [orb].
      apply eq_iff_eq_true. rewrite starts_with_spec. split.
      * intros [t Ht]. rewrite <- app_assoc in Ht. cbn [app] in Ht. symmetry in Ht.
        apply dot_split_unique in Ht; auto. destruct Ht as [-> _].
        destruct (str_eqb_spec d d); congruence.
      * intros H. destruct (str_eqb_spec c d) as [->|]; [|discriminate].
        exists (render (d2 :: b')). rewrite <- app_assoc. reflexivity.
  - (* a = c :: c2 :: a' *)
    rewrite (render_cons c (c2 :: a')) by discriminate.
    destruct b as [|d2 b'].
    + rewrite render_single. cbn [prefixb]. rewrite andb_false_r.
      assert (He : str_eqb d (c ++ DOTC :: render (c2 :: a')) = false).
      { apply not_true_iff_false. intros H. destruct (str_eqb_spec d (c ++ DOTC :: render (c2 :: a'))) as [E|]; [|discriminate].
        apply Hd. rewrite E. apply in_app_iff. right. left. reflexivity. }
      assert (Hs : starts_with ((c ++ DOTC :: render (c2 :: a')) ++ [DOTC]) d = false).
      { apply not_true_iff_false. intros H. apply starts_with_spec in H. destruct H as [t ->].
        apply Hd. rewrite <- !app_assoc. apply in_app_iff. right. left. reflexivity. }
      rewrite He, Hs. reflexivity.
    + rewrite (render_cons d (d2 :: b')) by discriminate.
      assert (IH' : key_matches (render (c2 :: a')) (render (d2 :: b')) = prefixb str_eqb (c2 :: a') (d2 :: b')).
      { apply IH; split; try discriminate; intros x Hx; [apply Hca|apply Hcb]; right; exact Hx. }
      rewrite <- IH'. unfold key_matches.
      apply eq_iff_eq_true. rewrite !orb_true_iff, andb_true_iff, ?orb_true_iff, !starts_with_spec. split.
      * intros [H|[t Ht]].
        -- destruct (str_eqb_spec (d ++ DOTC :: render (d2 :: b')) (c ++ DOTC :: render (c2 :: a'))) as [E|]; [|discriminate].
           apply dot_split_unique in E; auto. destruct E as [-> E]. split.
           ++ destruct (str_eqb_spec c c); congruence.
           ++ left. rewrite E. destruct (str_eqb_spec (render (c2 :: a')) (render (c2 :: a'))); congruence.
        -- rewrite <- !app_assoc in Ht. cbn [app] in Ht. symmetry in Ht. apply dot_split_unique in Ht; auto.
           destruct Ht as [-> Ht]. split.
           ++ destruct (str_eqb_spec d d); congruence.
           ++ right. exists t. symmetry. rewrite <- app_assoc. exact Ht.
      * intros [Hcd H]. destruct (str_eqb_spec c d) as [->|]; [|discriminate]. destruct H as [H|[t Ht]].
        -- left. destruct (str_eqb_spec (render (d2 :: b')) (render (c2 :: a'))) as [->|]; [|discriminate].
           destruct (str_eqb_spec (d ++ DOTC :: render (c2 :: a')) (d ++ DOTC :: render (c2 :: a'))); congruence.
        -- right. exists t. rewrite Ht. rewrite <- !app_assoc. reflexivity.
Qed.

(* a strictly more specific aliased module has a strictly longer rendered name *)
Lemma render_length_prefix a b :
  wf_comps a -> wf_comps b -> prefixb str_eqb a b = true -> (length (render a) <= length (render b))%nat.
Proof.
  intros Ha Hb Hp. rewrite <- (render_prefix a b Ha Hb) in Hp. unfold key_matches in Hp.
  apply orb_true_iff in Hp. destruct Hp as [Hp|Hp].
  - destruct (str_eqb_spec (render b) (render a)) as [->|]; [lia|discriminate].
  - apply starts_with_spec in Hp. destruct Hp as [t ->]. rewrite !app_length. lia.
Qed.

Lemma render_length_sprefix a b :
  wf_comps a -> wf_comps b -> prefixb str_eqb a b = true -> render a <> render b ->
  (length (render a) < length (render b))%nat.
Proof.
  intros Ha Hb Hp Hne. rewrite <- (render_prefix a b Ha Hb) in Hp. unfold key_matches in Hp.
  apply orb_true_iff in Hp. destruct Hp as [Hp|Hp].
  - destruct (str_eqb_spec (render b) (render a)) as [E|]; [congruence|discriminate].
  - apply starts_with_spec in Hp. destruct Hp as [t ->]. rewrite !app_length. simpl. lia.
Qed.

(* ---- sorting by length, longest first ---- *)
Definition len_ge (x y : str * str) : Prop := (length (fst y) <= length (fst x))%nat.

Lemma insert_in ka l x : In x (insert_by_len ka l) <-> x = ka \/ In x l.
Proof.
  induction l as [|kb l IH]; simpl; [intuition|].
  destruct (Nat.ltb (length (fst kb)) (length (fst ka))); simpl; [intuition|]. rewrite IH. intuition.
Qed.

Lemma insert_sorted ka l : StronglySorted len_ge l -> StronglySorted len_ge (insert_by_len ka l).
Proof.
  induction 1 as [|kb l Hs IH Hall]; simpl.
  - constructor; constructor.
  - destruct (Nat.ltb_spec (length (fst kb)) (length (fst ka))) as [Hlt|Hge].
    + constructor; [constructor; assumption|]. constructor.
      * unfold len_ge. lia.
      * rewrite Forall_forall in *. intros y Hy. specialize (Hall y Hy). unfold len_ge in *. lia.
    + constructor; [exact IH|]. rewrite Forall_forall in *. intros y Hy. apply insert_in in Hy.
      destruct Hy as [->|Hy]; [unfold len_ge; lia|auto].
Qed.

Lemma sort_in l x : In x (sort_by_len_desc l) <-> In x l.
Proof.
  unfold sort_by_len_desc. rewrite (in_rev l x). induction (rev l) as [|ka r IH]; simpl; [tauto|].
  rewrite insert_in, IH. intuition.
Qed.

Lemma sort_sorted l : StronglySorted len_ge (sort_by_len_desc l).
Proof.
  unfold sort_by_len_desc. induction (rev l) as [|ka r IH]; simpl; [constructor|]. apply insert_sorted. exact IH.
Qed.

(* the first match of a longest-first list is a longest match *)
Lemma find_sorted_longest (P : str * str -> bool) l x :
  StronglySorted len_ge l -> find P l = Some x ->
  In x l /\ P x = true /\ forall y, In y l -> P y = true -> len_ge x y.
Proof.
  induction 1 as [|z l Hs IH Hall]; simpl; [discriminate|].
  destruct (P z) eqn:Ez.
  - intros [= <-]. split; [left; reflexivity|]. split; [exact Ez|].
    intros y [<-|Hy] _; [unfold len_ge; lia|]. rewrite Forall_forall in Hall. apply Hall. exact Hy.
  - intros Hf. destruct (IH Hf) as [Hi [Hp Hl]]. split; [right; exact Hi|]. split; [exact Hp|].
    intros y [<-|Hy] Py; [congruence|]. apply Hl; assumption.
Qed.

(* ---- C17: the label ---- *)
Definition ralias (al : list (list str * str)) : list (str * str) :=
  map (fun ka => (render (fst ka), snd ka)) al.

Lemma prefix_lengths (k k' m : list str) :
  wf_comps k -> wf_comps k' -> wf_comps m ->
  prefixb str_eqb k m = true -> prefixb str_eqb k' m = true ->
  (length (render k') <= length (render k))%nat -> (length k' <= length k)%nat.
Proof.
  intros Hk Hk' Hm Hp Hp' Hlen.
  destruct (prefixb_comparable str_eqb str_eqb_spec _ _ _ Hp Hp') as [H|H].
  - (* k is at or above k' *)
    destruct (Nat.le_gt_cases (length k') (length k)) as [|Hgt]; [assumption|]. exfalso.
    assert (Hne : render k <> render k').
    { intros E. assert (Hb : prefixb str_eqb k' k = true).
      { rewrite <- (render_prefix k' k Hk' Hk). unfold key_matches. rewrite E.
        destruct (str_eqb_spec (render k') (render k')); [reflexivity|congruence]. }
      pose proof (prefixb_antisym str_eqb str_eqb_spec _ _ H Hb) as Ekk. subst. lia. }
    pose proof (render_length_sprefix k k' Hk Hk' H Hne). lia.
  - apply (prefixb_spec str_eqb str_eqb_spec) in H. destruct H as [c ->]. rewrite app_length. lia.
Qed.

Theorem label_unaliased (al : list (list str * str)) (m : list str) :
  (forall ka, In ka al -> wf_comps (fst ka)) -> wf_comps m ->
  (forall ka, In ka al -> prefixb str_eqb (fst ka) m = false) ->
  label (ralias al) (render m) = render m.
Proof.
  intros Hal Hm Hno. unfold label.
  destruct (find _ (sort_by_len_desc (ralias al))) as [x|] eqn:E; [|reflexivity].
  exfalso. apply find_some in E. destruct E as [Hin Hp]. apply (proj1 (sort_in _ _)) in Hin. unfold ralias in Hin.
  apply in_map_iff in Hin. destruct Hin as [ka [<- Hka]]. cbn [fst] in Hp.
  rewrite (render_prefix (fst ka) m (Hal ka Hka) Hm) in Hp. exact (eq_true_false_abs _ Hp (Hno ka Hka)).
Qed.

Theorem label_most_specific (al : list (list str * str)) (m : list str) :
  (forall ka, In ka al -> wf_comps (fst ka)) -> wf_comps m ->
  (exists ka, In ka al /\ prefixb str_eqb (fst ka) m = true) ->
  exists k a, In (k, a) al /\ prefixb str_eqb k m = true /\
    (forall k' a', In (k', a') al -> prefixb str_eqb k' m = true -> (length k' <= length k)%nat) /\
    label (ralias al) (render m) = a ++ skipn (length (render k)) (render m).
Proof.
  intros Hal Hm [ka0 [Hka0 Hp0]]. unfold label.
  destruct (find _ (sort_by_len_desc (ralias al))) as [x|] eqn:E.
  - destruct (find_sorted_longest _ _ _ (sort_sorted (ralias al)) E) as [Hin [Hp Hlong]].
    apply (proj1 (sort_in _ _)) in Hin. unfold ralias in Hin. apply in_map_iff in Hin. destruct Hin as [[k a] [<- Hka]].
    cbn [fst snd] in *. exists k, a. split; [exact Hka|].
    rewrite (render_prefix k m (Hal _ Hka) Hm) in Hp. split; [exact Hp|]. split; [|reflexivity].
    intros k' a' Hk' Hp'.
    apply (prefix_lengths k k' m (Hal _ Hka) (Hal _ Hk') Hm Hp Hp').
    specialize (Hlong (render k', a')). unfold len_ge in Hlong. cbn [fst] in Hlong. apply Hlong.
    + apply (proj2 (sort_in _ _)). unfold ralias. apply in_map_iff. exists (k', a'). auto.
    + rewrite (render_prefix k' m (Hal _ Hk') Hm). exact Hp'.
  - exfalso. pose proof (find_none _ _ E (render (fst ka0), snd ka0)) as Hn.
    assert (Hin : In (render (fst ka0), snd ka0) (sort_by_len_desc (ralias al))).
    { apply (proj2 (sort_in _ _)). unfold ralias. apply in_map_iff. exists ka0. auto. }
    specialize (Hn Hin). cbn [fst] in Hn. rewrite (render_prefix (fst ka0) m (Hal _ Hka0) Hm) in Hn. exact (eq_true_false_abs _ Hp0 Hn).
Qed.

(* every module is labelled exactly once; an alias for a module that does not exist is rejected, naming it *)
Theorem plot_labels_total aliases mods ls :
  plot_labels aliases mods = inr ls -> map fst ls = mods.
Proof.
  unfold plot_labels. destruct (find _ aliases); [discriminate|]. intros [= <-]. rewrite map_map. cbn. apply map_id.
Qed.

Theorem plot_labels_unknown aliases mods :
  (exists ka, In ka aliases /\ ~ In (fst ka) mods) ->
  exists k, plot_labels aliases mods = inl (Some k) /\ ~ In k mods /\ In k (map fst aliases).
Proof.
  intros [ka [Hka Hn]]. unfold plot_labels.
  destruct (find (fun ka0 => negb (existsb (str_eqb (fst ka0)) mods)) aliases) as [x|] eqn:E.
  - apply find_some in E. destruct E as [Hx Hp]. exists (fst x). split; [reflexivity|]. split; [|apply in_map; exact Hx].
    apply negb_true_iff in Hp. intros Hi. apply not_true_iff_false in Hp. apply Hp. apply existsb_exists.
    exists (fst x). split; [exact Hi|]. destruct (str_eqb_spec (fst x) (fst x)); congruence.
  - exfalso. pose proof (find_none _ _ E ka Hka) as Hf. apply negb_false_iff in Hf. apply existsb_exists in Hf.
    destruct Hf as [y [Hy He]]. destruct (str_eqb_spec (fst ka) y) as [Ey|]; [|discriminate]. rewrite Ey in Hn. contradiction.
Qed.

Theorem plot_labels_known aliases mods :
  (forall ka, In ka aliases -> In (fst ka) mods) -> exists ls, plot_labels aliases mods = inr ls.
Proof.
  intros H. unfold plot_labels.
  destruct (find (fun ka0 => negb (existsb (str_eqb (fst ka0)) mods)) aliases) as [x|] eqn:E; [|eauto].
  exfalso. apply find_some in E. destruct E as [Hx Hp]. apply negb_true_iff in Hp. apply not_true_iff_false in Hp. apply Hp.
  apply existsb_exists. exists (fst x). split; [apply H; exact Hx|]. destruct (str_eqb_spec (fst x) (fst x)); congruence.
Qed.

(* the remaining drawing options are handed on unchanged *)
Theorem draw_kwargs_passthrough kw p l k v :
  k <> K_SPACING -> k <> K_ALIASES -> k <> K_POS -> k <> K_LABELS ->
  (In (k, v) (draw_kwargs kw p l) <-> In (k, v) kw).
Proof.
  intros H0 H1 H2 H3. unfold draw_kwargs.
  assert (Hrm : forall k0 kw0, k <> k0 -> (In (k, v) (remove_kw k0 kw0) <-> In (k, v) kw0)).
  { intros k0 kw0 Hne. unfold remove_kw. rewrite filter_In. cbn [fst]. split; [tauto|]. intros Hi. split; [exact Hi|].
    apply negb_true_iff. apply N.eqb_neq. exact Hne. }
  assert (Hset : forall k0 v0 kw0, k <> k0 -> (In (k, v) (set_kw k0 v0 kw0) <-> In (k, v) kw0)).
  { intros k0 v0 kw0 Hne. unfold set_kw. destruct (existsb _ kw0).
    - rewrite in_map_iff. split.
      + intros [[k1 v1] [He Hi]]. cbn [fst] in He. destruct (N.eqb_spec k1 k0); [congruence|]. injection He as -> ->. exact Hi.
      + intros Hi. exists (k, v). split; [|exact Hi]. cbn [fst]. destruct (N.eqb_spec k k0); [congruence|reflexivity].
    - rewrite in_app_iff. split; [intros [Hi|[He|[]]]; [exact Hi|congruence] | auto]. }
  destruct (has_kw K_SPACING kw); destruct (has_kw K_ALIASES _);
    try rewrite (Hset K_LABELS) by assumption; try rewrite (Hrm K_ALIASES) by assumption;
    try rewrite (Hset K_POS) by assumption; try rewrite (Hrm K_SPACING) by assumption; tauto.
Qed.
