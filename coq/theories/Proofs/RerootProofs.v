(* RerootProofs.v - C04: a directory inside the project scanned as a project of its own (root_path = that directory)
   has the modules and the parsed files of the scan made from the outer root with module_path = that directory,
   each name with the outer prefix stripped - same order, same file bodies.  Nothing about a directory depends on
   what lies above the root that is handed to the scan. *)
From Coq Require Import List Bool.
From PTA Require Import Names Scan ScanProofs.
Import ListNotations.

Section Reroot.
Context {comp : Type} (ceqb : comp -> comp -> bool).
Notation name := (list comp).
Notation fsnode := (@fsnode comp).
Notation stmt := (@stmt comp).

Variable excl : name -> bool.
Variable r : comp.            (* outer root *)
Variable pre : name.          (* path from the outer root to the PARENT of the inner directory *)
Variable r' : comp.           (* the inner directory's own name *)

Definition inner_excl (q : name) : bool := excl (pre ++ r' :: q).
Definition lift (m : name) : name := (r :: pre) ++ m.
Definition lift_res (w : list name * list (name * list stmt)) : list name * list (name * list stmt) :=
  (map lift (fst w), map (fun ub => (lift (fst ub), snd ub)) (snd w)).

Lemma flat_map_fst_lift (l : list (list name * list (name * list stmt))) :
  flat_map fst (map lift_res l) = map lift (flat_map fst l).
Proof. induction l as [|w l IH]; cbn [map flat_map]; [reflexivity|]. rewrite map_app, IH. reflexivity. Qed.

Lemma flat_map_snd_lift (l : list (list name * list (name * list stmt))) :
  flat_map snd (map lift_res l) = map (fun ub => (lift (fst ub), snd ub)) (flat_map snd l).
Proof. induction l as [|w l IH]; cbn [map flat_map]; [reflexivity|]. rewrite map_app, IH. reflexivity. Qed.

Lemma path_assoc (path : name) (nm : comp) : (pre ++ r' :: path) ++ [nm] = pre ++ r' :: (path ++ [nm]).
Proof. rewrite <- app_assoc. reflexivity. Qed.

Lemma walk_reroot (n : fsnode) : forall path,
  walk excl r (pre ++ r' :: path) n = lift_res (walk inner_excl r' path n).
Proof.
  induction n as [nm py body|nm cs IH] using fsnode_ind'; intros path; cbn [walk]; rewrite path_assoc; unfold inner_excl at 1.
  - destruct (py && negb (excl (pre ++ r' :: path ++ [nm]))); [|reflexivity].
    unfold lift_res, lift; cbn [fst snd map app]. reflexivity.
  - destruct (excl (pre ++ r' :: path ++ [nm])); [reflexivity|].
    assert (Hm : map (walk excl r (pre ++ r' :: path ++ [nm])) cs = map lift_res (map (walk inner_excl r' (path ++ [nm])) cs)).
    { rewrite map_map. apply map_ext_in. intros c Hc. rewrite Forall_forall in IH. apply (IH c Hc). }
    rewrite Hm, flat_map_fst_lift, flat_map_snd_lift.
    unfold lift_res, lift; cbn [fst snd map app]. reflexivity.
Qed.

(* the whole walk: module_path = pre ++ [r'] from the outer root  vs  the inner directory's children as a tree of their own *)
Theorem inner_root_walk (tree cs : list fsnode) :
  subdir ceqb tree (pre ++ [r']) = Some cs ->
  walk_from ceqb excl r tree (pre ++ [r']) = option_map lift_res (walk_from ceqb inner_excl r' cs []).
Proof.
  intros Hs. unfold walk_from. rewrite Hs. cbn [subdir option_map].
  unfold inner_excl at 1. change (pre ++ [r']) with (pre ++ r' :: []).
  destruct (excl (pre ++ r' :: [])); [reflexivity|]. cbn [option_map].
  assert (Hm : map (walk excl r (pre ++ r' :: [])) cs = map lift_res (map (walk inner_excl r' []) cs)).
  { rewrite map_map. apply map_ext. intros c. apply walk_reroot. }
  rewrite Hm, flat_map_fst_lift, flat_map_snd_lift.
  unfold lift_res, lift; cbn [fst snd map app]. reflexivity.
Qed.

End Reroot.

(* ---- exclusion patterns matter only at or below module_path ---- *)
Section ExclBelow.
Context {comp : Type} (ceqb : comp -> comp -> bool).
Notation name := (list comp).
Notation fsnode := (@fsnode comp).

(* two exclusion predicates that agree on every path at or below [path] give the same walk from there *)
Lemma walk_excl_ext (e1 e2 : name -> bool) (root : comp) (n : fsnode) : forall path,
  (forall q, e1 (path ++ q) = e2 (path ++ q)) ->
  walk e1 root path n = walk e2 root path n.
Proof.
  induction n as [nm py body|nm cs IH] using fsnode_ind'; intros path H; cbn [walk].
  - rewrite (H [nm]). reflexivity.
  - rewrite (H [nm]). destruct (e2 (path ++ [nm])); [reflexivity|].
    assert (Hm : map (walk e1 root (path ++ [nm])) cs = map (walk e2 root (path ++ [nm])) cs).
    { apply map_ext_in. intros c Hc. rewrite Forall_forall in IH. apply (IH c Hc).
      intros q. rewrite <- !app_assoc. apply H. }
    rewrite Hm. reflexivity.
Qed.

(* ... hence a pattern that matches directories ABOVE module_path only (root_path's own directory included) is as good as
   no pattern: whatever the two predicates say about proper prefixes of [mp] *)
Theorem walk_from_excl_below (e1 e2 : name -> bool) (root : comp) (tree : list fsnode) (mp : name) :
  (forall q, e1 (mp ++ q) = e2 (mp ++ q)) ->
  walk_from ceqb e1 root tree mp = walk_from ceqb e2 root tree mp.
Proof.
  intros H. unfold walk_from. destruct (subdir ceqb tree mp) as [cs|]; [|reflexivity].
  pose proof (H []) as H0. rewrite app_nil_r in H0. rewrite H0.
  destruct (e2 mp); [reflexivity|].
  assert (Hm : map (walk e1 root mp) cs = map (walk e2 root mp) cs).
  { apply map_ext. intros c. apply walk_excl_ext. exact H. }
  rewrite Hm. reflexivity.
Qed.

End ExclBelow.

(* ---- a file exclusion acts on the walk and on nothing else ---- *)
Section ExclOnlyWalk.
Context {comp : Type} (ceqb : comp -> comp -> bool).
Notation name := (list comp).

Definition with_excl (c : @scan_cfg comp) (e : name -> bool) : @scan_cfg comp :=
  {| sc_root := sc_root c; sc_tree := sc_tree c; sc_mp := sc_mp c; sc_excl := e;
     sc_exclude_external := sc_exclude_external c; sc_ext_excl := sc_ext_excl c;
     sc_has_ext_excl := sc_has_ext_excl c; sc_limit := sc_limit c |}.

(* if another file exclusion predicate finds the same modules and files, the whole architecture is the same: external
   modules, their ancestors and the imports to them are never looked at by a file pattern *)
Theorem scan_excl_only_through_walk (c : @scan_cfg comp) (e : name -> bool) :
  walk_from ceqb e (sc_root c) (sc_tree c) (sc_mp c) = walk_from ceqb (sc_excl c) (sc_root c) (sc_tree c) (sc_mp c) ->
  scan ceqb (with_excl c e) = scan ceqb c.
Proof.
  intros H. unfold scan. cbn [with_excl sc_excl sc_root sc_tree sc_mp]. rewrite H. reflexivity.
Qed.

End ExclOnlyWalk.
