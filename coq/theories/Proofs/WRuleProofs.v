(* WRuleProofs.v — Rule.assert_applies evaluated over the worklist loops (Model/WRule.v) never runs out of fuel and has the
   outcome of the comprehension model (Model/Rule.v): the same class, the same error, and - for a violated rule - the same
   SET of report lines, on every graph that is closed under ancestors and whose imports are between nodes and never a
   hierarchy pair (every built graph: C01_built_graph_wellformed).  So every theorem about [verdict] speaks about the
   transcribed loops of breadth_first_searches.py as well. *)
From Coq Require Import List Bool Arith Lia NArith.
From PTA Require Import Names Graph Search Worklist Rule WRule NamesProofs SearchProofs GraphProofs WorklistProofs.
Import ListNotations.

Section WRuleProofs.
Context {comp : Type} (ceqb : comp -> comp -> bool).
Hypothesis ceqb_spec : forall x y, reflect (x = y) (ceqb x y).
Variable rmatch : N -> list comp -> bool.
Notation name := (list comp).
Notation graph := (@graph comp).
Notation filt := (@filt comp).
Notation cfg := (@cfg comp).
Notation line := (@line comp).

(* tables with the same keys in the same order and the same set of imports under each key *)
Definition keyed_equiv {K} (r1 r2 : list (K * list (name * name))) : Prop :=
  Forall2 (fun a b => fst a = fst b /\ (forall e, In e (snd a) <-> In e (snd b))) r1 r2.

Definition kres_equiv {K} (r1 r2 : res (list (K * list (name * name)))) : Prop :=
  match r1, r2 with
  | Ok a, Ok b => keyed_equiv a b
  | Er a, Er b => a = b
  | _, _ => False
  end.

Lemma map_ores_refines {X K} (f : X -> option (res (list (name * name)))) (f' : X -> res (list (name * name))) (key : X -> K) (l : list X) :
  (forall x, In x l -> exists r, f x = Some r /\ res_equiv r (f' x)) ->
  exists R, map_ores (fun x => tag_ores (key x) (f x)) l = Some R /\
            kres_equiv R (map_res (fun x => bind (f' x) (fun r => Ok (key x, r))) l).
Proof.
  induction l as [|x l IH]; intros H.
  - exists (Ok []). split; [reflexivity|]. constructor.
  - destruct (H x (or_introl eq_refl)) as [r [Hr He]].
    destruct IH as [R [HR HE]]; [intros y Hy; apply H; right; exact Hy|].
    cbn [map_ores map_res]. rewrite Hr.
    destruct r as [lx|ex]; destruct (f' x) as [lx'|ex'] eqn:Ef; cbn [res_equiv] in He; try contradiction; cbn [tag_ores bind].
    + rewrite HR. destruct R as [R0|eR]; destruct (map_res _ l) as [R0'|eR'] eqn:Em; cbn [kres_equiv] in HE; try contradiction; cbn [bind].
      * exists (Ok ((key x, lx) :: R0)). split; [reflexivity|]. cbn [kres_equiv]. constructor; [split; [reflexivity|exact He]|exact HE].
      * exists (Er eR). split; [reflexivity|]. exact HE.
    + exists (Er ex). split; [reflexivity|]. exact He.
Qed.

(* ---- the buckets depend on the tables only through keys, emptiness and sets of imports ---- *)
Lemma nil_iff_equiv {X} (l1 l2 : list X) : (forall e, In e l1 <-> In e l2) -> is_nil l1 = is_nil l2.
Proof.
  intros H. destruct l1 as [|a l1], l2 as [|b l2]; try reflexivity; exfalso.
  - apply (proj2 (H b)). left. reflexivity.
  - apply (proj1 (H a)). left. reflexivity.
Qed.

Lemma realised_equiv {K} imp (r1 r2 : list (K * list (name * name))) :
  keyed_equiv r1 r2 -> forall x : line, In x (realised imp r1) <-> In x (realised imp r2).
Proof.
  intros H x. unfold realised. induction H as [|a b r1 r2 [Hk Hs] _ IH]; [reflexivity|].
  cbn [flat_map]. rewrite !in_app_iff, IH. rewrite !in_map_iff.
  split; (intros [[e [He Hin]]|Hr]; [left; exists e; split; [exact He|apply Hs; exact Hin]|right; exact Hr]).
Qed.

Lemma flat_map_keyed {K Y} (h : K -> bool -> list Y) (r1 r2 : list (K * list (name * name))) :
  keyed_equiv r1 r2 ->
  flat_map (fun kv => h (fst kv) (is_nil (snd kv))) r1 = flat_map (fun kv => h (fst kv) (is_nil (snd kv))) r2.
Proof.
  intros H. induction H as [|a b r1 r2 [Hk Hs] _ IH]; [reflexivity|].
  cbn [flat_map]. rewrite IH, Hk, (nil_iff_equiv _ _ Hs). reflexivity.
Qed.

Lemma missing_explicit_equiv imp subjs (r1 r2 : list ((filt * filt) * list (name * name))) :
  keyed_equiv r1 r2 -> missing_explicit ceqb imp subjs r1 = missing_explicit ceqb imp subjs r2.
Proof.
  intros H. unfold missing_explicit. apply flat_map_ext. intros s. cbv zeta.
  pose (h := fun (k : filt * filt) (b : bool) =>
               if filt_eqb ceqb (fst (if imp then k else swap_pair k)) s && b then [snd (if imp then k else swap_pair k)] else []).
  pose proof (flat_map_keyed h r1 r2 H) as E. unfold h in E. cbv beta in E. rewrite E. reflexivity.
Qed.

Lemma missing_any_equiv objs (r1 r2 : list (filt * list (name * name))) :
  keyed_equiv r1 r2 -> missing_any objs r1 = missing_any objs r2.
Proof.
  intros H. unfold missing_any.
  pose (h := fun (k : filt) (b : bool) => if b then [LMissingAny k objs] else @nil line).
  pose proof (flat_map_keyed h r1 r2 H) as E. unfold h in E. cbv beta in E. exact E.
Qed.

Lemma in_app_equiv {X} (a a' b b' : list X) :
  (forall x, In x a <-> In x a') -> (forall x, In x b <-> In x b') -> forall x, In x (a ++ b) <-> In x (a' ++ b').
Proof. intros Ha Hb x. rewrite !in_app_iff, Ha, Hb. reflexivity. Qed.

Lemma on_equiv (b : bool) (l l' : list line) :
  (forall x, In x l <-> In x l') -> forall x, In x (if b then l else []) <-> In x (if b then l' else []).
Proof. intros H x. destruct b; [apply H|reflexivity]. Qed.

Lemma buckets_equiv c imp subjs objs e e' o o' :
  keyed_equiv e e' -> keyed_equiv o o' ->
  forall x, In x (buckets ceqb c imp subjs objs e o) <-> In x (buckets ceqb c imp subjs objs e' o').
Proof.
  intros He Ho. unfold buckets.
  rewrite (missing_explicit_equiv imp subjs e e' He), (missing_any_equiv objs o o' Ho).
  repeat (apply in_app_equiv; [first [apply on_equiv; apply realised_equiv; assumption | intros y; reflexivity]|]).
  apply on_equiv. apply realised_equiv. exact Ho.
Qed.

Lemma violations_buckets g c imp subjs objs :
  violations ceqb g c imp subjs objs =
  bind (if expl_required c || expl_forbidden c
        then get_dependencies ceqb g (if imp then subjs else objs) (if imp then objs else subjs) else Ok [])
    (fun e => bind (if other_required c || other_forbidden c
                    then (if imp then other_out_all ceqb g (if imp then subjs else objs) (if imp then objs else subjs)
                          else other_in_all ceqb g (if imp then subjs else objs) (if imp then objs else subjs))
                    else Ok [])
      (fun o => Ok (buckets ceqb c imp subjs objs e o))).
Proof.
  unfold violations, buckets.
  destruct (expl_required c || expl_forbidden c); destruct (other_required c || other_forbidden c); cbn [bind].
  - destruct (get_dependencies _ _ _ _) as [e|x]; cbn [bind]; [|reflexivity]. destruct imp.
    + destruct (other_out_all _ _ _ _) as [o|y]; reflexivity.
    + destruct (other_in_all _ _ _ _) as [o|y]; reflexivity.
  - destruct (get_dependencies _ _ _ _) as [e|x]; reflexivity.
  - destruct imp.
    + destruct (other_out_all _ _ _ _) as [o|y]; reflexivity.
    + destruct (other_in_all _ _ _ _) as [o|y]; reflexivity.
  - reflexivity.
Qed.

Definition outcome_equiv (o1 o2 : @outcome comp) : Prop :=
  match o1, o2 with
  | Pass, Pass => True
  | Fail l1, Fail l2 => forall x, In x l1 <-> In x l2
  | Err a, Err b => a = b
  | _, _ => False
  end.

Section OnGraph.
Variable g : graph.
Hypothesis Hwf : wf_graph g.
Hypothesis Hanc : forall n p, In n (nodes g) -> In p (proper_prefixes n) -> In p (nodes g).
Hypothesis Hnh : forall a b, In (a, b) (imps g) -> childb ceqb a b = false.

Lemma w_get_dependencies_refines ds us :
  exists R, w_get_dependencies ceqb g ds us = Some R /\ kres_equiv R (get_dependencies ceqb g ds us).
Proof.
  unfold w_get_dependencies, get_dependencies.
  apply (map_ores_refines (fun du => w_between ceqb g (fst du) (snd du)) (fun du => q_between ceqb g (fst du) (snd du)) (fun du => du)).
  intros du _. apply (w_between_refines ceqb ceqb_spec g Hwf Hanc Hnh).
Qed.

Lemma w_other_out_all_refines ds us :
  exists R, w_other_out_all ceqb g ds us = Some R /\ kres_equiv R (other_out_all ceqb g ds us).
Proof.
  unfold w_other_out_all, other_out_all.
  apply (map_ores_refines (fun d => w_other_out ceqb g d us) (fun d => q_other_out ceqb g d us) (fun d => d)).
  intros d _. apply (w_other_out_refines ceqb ceqb_spec g Hwf Hanc Hnh).
Qed.

Lemma w_other_in_all_refines ds us :
  exists R, w_other_in_all ceqb g ds us = Some R /\ kres_equiv R (other_in_all ceqb g ds us).
Proof.
  unfold w_other_in_all, other_in_all.
  apply (map_ores_refines (fun u => w_other_in ceqb g ds u) (fun u => q_other_in ceqb g ds u) (fun u => u)).
  intros u _. apply (w_other_in_refines ceqb ceqb_spec g Hwf Hanc Hnh).
Qed.

Theorem w_violations_refines c imp subjs objs :
  exists R, w_violations ceqb g c imp subjs objs = Some R /\ res_equiv R (violations ceqb g c imp subjs objs).
Proof.
  rewrite violations_buckets. unfold w_violations.
  set (ds := if imp then subjs else objs). set (us := if imp then objs else subjs).
  assert (HE : exists E, (if expl_required c || expl_forbidden c then w_get_dependencies ceqb g ds us else Some (Ok [])) = Some E /\
                         kres_equiv E (if expl_required c || expl_forbidden c then get_dependencies ceqb g ds us else Ok [])).
  { destruct (expl_required c || expl_forbidden c); [apply w_get_dependencies_refines|]. exists (Ok []). split; [reflexivity|constructor]. }
  assert (HO : exists O, (if other_required c || other_forbidden c then (if imp then w_other_out_all ceqb g ds us else w_other_in_all ceqb g ds us) else Some (Ok [])) = Some O /\
                         kres_equiv O (if other_required c || other_forbidden c then (if imp then other_out_all ceqb g ds us else other_in_all ceqb g ds us) else Ok [])).
  { destruct (other_required c || other_forbidden c); [destruct imp; [apply w_other_out_all_refines|apply w_other_in_all_refines]|].
    exists (Ok []). split; [reflexivity|constructor]. }
  destruct HE as [E [-> HE]]. destruct HO as [O [HOe HO]].
  destruct E as [e|x]; destruct (if expl_required c || expl_forbidden c then get_dependencies ceqb g ds us else Ok []) as [e'|x'];
    cbn [kres_equiv] in HE; try contradiction; cbn [bind].
  - rewrite HOe. destruct O as [o|y];
      destruct (if other_required c || other_forbidden c then (if imp then other_out_all ceqb g ds us else other_in_all ceqb g ds us) else Ok []) as [o'|y'];
      cbn [kres_equiv] in HO; try contradiction; cbn [bind].
    + exists (Ok (buckets ceqb c imp subjs objs e o)). split; [reflexivity|]. cbn [res_equiv]. apply buckets_equiv; assumption.
    + exists (Er y). split; [reflexivity|exact HO].
  - exists (Er x). split; [reflexivity|exact HE].
Qed.

(* the evaluation over the loops terminates and has the outcome of the comprehension model *)
Theorem w_assert_applies_refines c0 :
  exists o, w_assert_applies ceqb rmatch g c0 = Some o /\ outcome_equiv o (verdict ceqb rmatch g c0).
Proof.
  unfold w_assert_applies, verdict, assert_applies.
  destruct (c_any c0 && (c_should c0 || c_only c0)); [exists (Err EConfig); split; reflexivity|].
  destruct (negb (required_present (convert_aliases ceqb c0))); [exists (Err EConfig); split; reflexivity|].
  destruct (negb (behavior_consistent (convert_aliases ceqb c0))); [exists (Err EInconsistent); split; reflexivity|].
  destruct (c_any c0 && removed_unknown ceqb g (opt_list (c_subj c0))); [exists (Err ENoMatch); split; reflexivity|].
  cbn [snd].
  destruct (convert rmatch g (opt_list (c_subj (convert_aliases ceqb c0)))) as [subjs|e1]; [|exists (Err e1); split; reflexivity].
  destruct (convert rmatch g (opt_list (c_obj (convert_aliases ceqb c0)))) as [objs|e2]; [|exists (Err e2); split; reflexivity].
  destruct (w_violations_refines (convert_aliases ceqb c0) (match c_imp (convert_aliases ceqb c0) with Some b => b | None => true end) subjs objs)
    as [R [-> HR]].
  destruct R as [ls|e]; destruct (violations ceqb g _ _ subjs objs) as [ls'|e']; cbn [res_equiv] in HR; try contradiction.
  - destruct ls as [|l ls], ls' as [|l' ls'].
    + exists Pass. split; reflexivity.
    + exfalso. apply (proj2 (HR l')). left. reflexivity.
    + exfalso. apply (proj1 (HR l)). left. reflexivity.
    + exists (Fail (l :: ls)). split; [reflexivity|]. exact HR.
  - exists (Err e). split; [reflexivity|exact HR].
Qed.

End OnGraph.
End WRuleProofs.
