(* AlgebraProofs.v — C12: laws of the rule language, proved on the model for
   every graph and every rule (related modules, regexes, batches included). *)
From Coq Require Import List Bool Arith Lia NArith.
From PTA Require Import Names Graph Search Rule SpecRule NamesProofs SearchProofs RuleProofs.
Import ListNotations.

Section AlgebraProofs.
Context {comp : Type} (ceqb : comp -> comp -> bool).
Hypothesis ceqb_spec : forall x y, reflect (x = y) (ceqb x y).
Variable rmatch : N -> list comp -> bool.
Notation name := (list comp).
Notation graph := (@graph comp).
Notation filt := (@filt comp).
Notation ufilt := (@ufilt comp).
Notation line := (@line comp).
Notation outcome := (@outcome comp).
Notation filt_eqb := (filt_eqb ceqb).

(* a complete single-verb rule with user-level filters (names, sub-modules-of, regexes) *)
Definition mk_ucfg (v : verb) (imp exc : bool) (Ss Os : list ufilt) : @cfg comp :=
  {| c_subj := Some Ss; c_obj := Some Os;
     c_should := match v with Should => true | _ => false end;
     c_only := match v with ShouldOnly => true | _ => false end;
     c_not := match v with ShouldNot => true | _ => false end;
     c_exc := exc; c_imp := Some imp; c_any := false |}.

(* verdict class: 0 pass, 1 fail, 2 error *)
Definition vclass (o : outcome) : nat := match o with Pass => 0 | Fail _ => 1 | Err _ => 2 end.
Definition passes (o : outcome) : Prop := o = Pass.
Definition fails (o : outcome) : Prop := exists ls, o = Fail ls.

Definition V (g : graph) (c : @cfg comp) : outcome := verdict ceqb rmatch g c.

Definition of_viol (r : res (list line)) : outcome :=
  match r with Er e => Err e | Ok [] => Pass | Ok ls => Fail ls end.

Lemma verdict_unfold g v imp exc Ss Os :
  Ss <> [] -> Os <> [] ->
  V g (mk_ucfg v imp exc Ss Os) =
  match convert rmatch g Ss with
  | Er e => Err e
  | Ok ss => match convert rmatch g Os with
             | Er e => Err e
             | Ok os => of_viol (violations ceqb g (mk_ucfg v imp exc Ss Os) imp ss os)
             end
  end.
Proof.
  intros HS HO. unfold V, verdict, assert_applies.
  assert (Hany : c_any (mk_ucfg v imp exc Ss Os) = false) by reflexivity. rewrite Hany. cbn [andb].
  assert (Hca : convert_aliases ceqb (mk_ucfg v imp exc Ss Os) = mk_ucfg v imp exc Ss Os)
    by (unfold convert_aliases; rewrite Hany; reflexivity).
  rewrite Hca.
  assert (Hreq : required_present (mk_ucfg v imp exc Ss Os) = true).
  { unfold required_present. cbn [mk_ucfg c_should c_only c_not c_imp c_subj c_obj].
    destruct Ss; [congruence|]. destruct Os; [congruence|]. destruct v; reflexivity. }
  rewrite Hreq. cbn [negb].
  assert (Hcons : behavior_consistent (mk_ucfg v imp exc Ss Os) = true) by (destruct v, exc; reflexivity).
  rewrite Hcons. cbn [negb snd mk_ucfg c_imp c_subj c_obj opt_list].
  destruct (convert rmatch g Ss); [|reflexivity]. destruct (convert rmatch g Os); [|reflexivity].
  unfold of_viol. reflexivity.
Qed.

Lemma verdict_empty_side g v imp exc Ss Os :
  Ss = [] \/ Os = [] -> V g (mk_ucfg v imp exc Ss Os) = Err EConfig.
Proof.
  intros H. unfold V, verdict, assert_applies.
  assert (Hany : c_any (mk_ucfg v imp exc Ss Os) = false) by reflexivity. rewrite Hany. cbn [andb].
  assert (Hca : convert_aliases ceqb (mk_ucfg v imp exc Ss Os) = mk_ucfg v imp exc Ss Os)
    by (unfold convert_aliases; rewrite Hany; reflexivity).
  rewrite Hca.
  assert (Hreq : required_present (mk_ucfg v imp exc Ss Os) = false).
  { unfold required_present. cbn [mk_ucfg c_should c_only c_not c_imp c_subj c_obj].
    destruct H as [-> | ->]; destruct v; [destruct Os|destruct Os|destruct Os|destruct Ss|destruct Ss|destruct Ss]; reflexivity. }
  rewrite Hreq. reflexivity.
Qed.

(* ---- emptiness of the buckets ---- *)
Definition all_realised {K} (r : list (K * list (name * name))) : bool :=
  forallb (fun kv => negb (is_nil (snd kv))) r.
Definition none_realised {K} (r : list (K * list (name * name))) : bool :=
  forallb (fun kv => is_nil (snd kv)) r.

Lemma realised_nil {K} imp (r : list (K * list (name * name))) :
  realised imp r = [] <-> none_realised r = true.
Proof.
  unfold realised, none_realised. induction r as [|[k l] r IH]; simpl; [tauto|].
  rewrite andb_true_iff, <- IH. destruct l; simpl; [tauto|]. split; [discriminate|intros [? _]; discriminate].
Qed.

Lemma missing_any_nil objs (r : list (filt * list (name * name))) :
  missing_any objs r = [] <-> all_realised r = true.
Proof.
  unfold missing_any, all_realised. induction r as [|[k l] r IH]; simpl; [tauto|].
  rewrite andb_true_iff, <- IH. destruct l; simpl; [split; [discriminate|intros [? _]; discriminate]|tauto].
Qed.

(* keys of the query tables *)
Lemma map_res_keys {X K Y} (q : X -> res Y) (k : X -> K) xs r :
  map_res (fun x => bind (q x) (fun l => Ok (k x, l))) xs = Ok r -> map fst r = map k xs.
Proof.
  revert r. induction xs as [|x xs IH]; intros r; simpl.
  - intros [= <-]. reflexivity.
  - destruct (q x); simpl; [|discriminate].
    destruct (map_res (fun x0 => bind (q x0) (fun l => Ok (k x0, l))) xs) eqn:E; simpl; [|discriminate].
    intros [= <-]. simpl. f_equal. apply IH. reflexivity.
Qed.

Lemma get_dependencies_keys g ds us r :
  get_dependencies ceqb g ds us = Ok r -> map fst r = list_prod ds us.
Proof.
  unfold get_dependencies. intros H.
  apply (map_res_keys (fun du : filt * filt => q_between ceqb g (fst du) (snd du)) (fun du : filt * filt => du)) in H.
  rewrite map_id in H. exact H.
Qed.

Lemma other_out_keys g ds us r : other_out_all ceqb g ds us = Ok r -> map fst r = ds.
Proof.
  unfold other_out_all. intros H.
  apply (map_res_keys (fun d : filt => q_other_out ceqb g d us) (fun d : filt => d)) in H. rewrite map_id in H. exact H.
Qed.

Lemma other_in_keys g ds us r : other_in_all ceqb g ds us = Ok r -> map fst r = us.
Proof.
  unfold other_in_all. intros H.
  apply (map_res_keys (fun u : filt => q_other_in ceqb g ds u) (fun u : filt => u)) in H. rewrite map_id in H. exact H.
Qed.

(* "S does not import ..." lines exist iff some requested pair has no realisation *)
Lemma missing_explicit_nil (imp : bool) (subjs : list filt) (r : list ((filt * filt) * list (name * name))) :
  (forall kv, In kv r -> In (fst (if imp then fst kv else swap_pair (fst kv))) subjs) ->
  (missing_explicit ceqb imp subjs r = [] <-> all_realised r = true).
Proof.
  intros Hk. rewrite missing_explicit_unfold. unfold all_realised. rewrite forallb_forall. split.
  - intros Hn kv Hkv. destruct (is_nil (snd kv)) eqn:En; [|reflexivity]. exfalso.
    set (s := fst (if imp then fst kv else swap_pair (fst kv))).
    assert (Hs : In s subjs) by (apply Hk; exact Hkv).
    assert (Hos : missing_os ceqb imp r s <> []).
    { intros E. assert (HI : In (snd (if imp then fst kv else swap_pair (fst kv))) (missing_os ceqb imp r s)).
      { unfold missing_os. apply in_flat_map. exists kv. split; [exact Hkv|]. cbn zeta. fold s.
        destruct (filt_eqb_spec ceqb ceqb_spec s s); [|congruence]. rewrite En. left; reflexivity. }
      rewrite E in HI. destruct HI. }
    assert (HI : In (LMissing s (missing_os ceqb imp r s))
                    (flat_map (fun s0 => if is_nil (missing_os ceqb imp r s0) then [] else [LMissing s0 (missing_os ceqb imp r s0)]) subjs)).
    { apply in_flat_map. exists s. split; [exact Hs|]. destruct (missing_os ceqb imp r s); [congruence|]. left; reflexivity. }
    rewrite Hn in HI. destruct HI.
  - intros Ha. destruct (flat_map _ subjs) as [|l ls] eqn:E; [reflexivity|]. exfalso.
    assert (HI : In l (flat_map (fun s0 => if is_nil (missing_os ceqb imp r s0) then [] else [LMissing s0 (missing_os ceqb imp r s0)]) subjs))
      by (rewrite E; left; reflexivity).
    apply in_flat_map in HI. destruct HI as [s [_ Hl]].
    destruct (missing_os ceqb imp r s) as [|o os] eqn:Eo; [destruct Hl|].
    assert (Ho : In o (missing_os ceqb imp r s)) by (rewrite Eo; left; reflexivity).
    unfold missing_os in Ho. apply in_flat_map in Ho. destruct Ho as [kv [Hkv Ho]]. cbn zeta in Ho.
    specialize (Ha kv Hkv). apply negb_true_iff in Ha. rewrite Ha, andb_false_r in Ho. destruct Ho.
Qed.


(* ---- closed forms of [violations] per verb ---- *)
Definition importers_of (imp : bool) (ss os : list filt) := if imp then ss else os.
Definition importees_of (imp : bool) (ss os : list filt) := if imp then os else ss.
Definition other_query (g : graph) (imp : bool) (ss os : list filt) :=
  if imp then other_out_all ceqb g (importers_of imp ss os) (importees_of imp ss os)
  else other_in_all ceqb g (importers_of imp ss os) (importees_of imp ss os).
Definition expl_query (g : graph) (imp : bool) (ss os : list filt) :=
  get_dependencies ceqb g (importers_of imp ss os) (importees_of imp ss os).

Ltac viol_simpl :=
  unfold violations, expl_required, expl_forbidden, other_required, other_forbidden;
  cbn [mk_ucfg c_should c_only c_not c_exc negb andb orb].

Lemma viol_should g imp Ss Os ss os :
  violations ceqb g (mk_ucfg Should imp false Ss Os) imp ss os =
  bind (expl_query g imp ss os) (fun r => Ok (missing_explicit ceqb imp ss r)).
Proof.
  viol_simpl. unfold expl_query, importers_of, importees_of.
  destruct (get_dependencies ceqb g (if imp then ss else os) (if imp then os else ss)); cbn [bind app]; [|reflexivity].
  now rewrite !app_nil_r.
Qed.

Lemma viol_should_not g imp Ss Os ss os :
  violations ceqb g (mk_ucfg ShouldNot imp false Ss Os) imp ss os =
  bind (expl_query g imp ss os) (fun r => Ok (realised imp r)).
Proof.
  viol_simpl. unfold expl_query, importers_of, importees_of.
  destruct (get_dependencies ceqb g (if imp then ss else os) (if imp then os else ss)); cbn [bind app]; [|reflexivity].
  now rewrite !app_nil_r.
Qed.

Lemma viol_should_exc g imp Ss Os ss os :
  violations ceqb g (mk_ucfg Should imp true Ss Os) imp ss os =
  bind (other_query g imp ss os) (fun r => Ok (missing_any os r)).
Proof.
  viol_simpl. unfold other_query, importers_of, importees_of.
  destruct imp; cbv beta iota;
  [destruct (other_out_all ceqb g ss os) | destruct (other_in_all ceqb g os ss)];
  cbn [bind app]; try reflexivity; now rewrite ?app_nil_r.
Qed.

Lemma viol_should_not_exc g imp Ss Os ss os :
  violations ceqb g (mk_ucfg ShouldNot imp true Ss Os) imp ss os =
  bind (other_query g imp ss os) (fun r => Ok (realised imp r)).
Proof.
  viol_simpl. unfold other_query, importers_of, importees_of.
  destruct imp; cbv beta iota;
  [destruct (other_out_all ceqb g ss os) | destruct (other_in_all ceqb g os ss)];
  cbn [bind app]; try reflexivity; now rewrite ?app_nil_r.
Qed.

Lemma viol_should_only g imp Ss Os ss os :
  violations ceqb g (mk_ucfg ShouldOnly imp false Ss Os) imp ss os =
  bind (expl_query g imp ss os) (fun e => bind (other_query g imp ss os) (fun o =>
    Ok (realised imp o ++ missing_explicit ceqb imp ss e))).
Proof.
  viol_simpl. unfold expl_query, other_query, importers_of, importees_of.
  destruct (get_dependencies ceqb g (if imp then ss else os) (if imp then os else ss)); cbn [bind]; [|reflexivity].
  destruct imp; cbv beta iota;
  [destruct (other_out_all ceqb g ss os) | destruct (other_in_all ceqb g os ss)];
  cbn [bind app]; try reflexivity; now rewrite ?app_nil_r.
Qed.

Lemma viol_should_only_exc g imp Ss Os ss os :
  violations ceqb g (mk_ucfg ShouldOnly imp true Ss Os) imp ss os =
  bind (expl_query g imp ss os) (fun e => bind (other_query g imp ss os) (fun o =>
    Ok (realised imp e ++ missing_any os o))).
Proof.
  viol_simpl. unfold expl_query, other_query, importers_of, importees_of.
  destruct (get_dependencies ceqb g (if imp then ss else os) (if imp then os else ss)); cbn [bind]; [|reflexivity].
  destruct imp; cbv beta iota;
  [destruct (other_out_all ceqb g ss os) | destruct (other_in_all ceqb g os ss)];
  cbn [bind app]; try reflexivity; now rewrite ?app_nil_r.
Qed.

Lemma vclass_of_viol_ok ls : vclass (of_viol (Ok ls)) = if is_nil ls then 0 else 1.
Proof. destruct ls; reflexivity. Qed.

Lemma expl_keys_subject g imp ss os r :
  expl_query g imp ss os = Ok r ->
  forall kv, In kv r -> In (fst (if imp then fst kv else swap_pair (fst kv))) ss.
Proof.
  intros H kv Hkv. apply get_dependencies_keys in H.
  assert (Hk : In (fst kv) (list_prod (importers_of imp ss os) (importees_of imp ss os)))
    by (rewrite <- H; apply in_map; exact Hkv).
  destruct (fst kv) as [d u]. apply in_prod_iff in Hk. destruct imp; cbn in *; tauto.
Qed.

(* ---- duality ---- *)
Theorem duality g v A B :
  v <> ShouldOnly ->
  vclass (V g (mk_ucfg v true false A B)) = vclass (V g (mk_ucfg v false false B A)).
Proof.
  intros Hv.
  destruct A as [|a A']; [rewrite !verdict_empty_side by auto; reflexivity|].
  destruct B as [|b B']; [rewrite !verdict_empty_side by auto; reflexivity|].
  set (A := a :: A'). set (B := b :: B').
  rewrite !verdict_unfold by discriminate.
  destruct (convert rmatch g A) as [ss|e1]; destruct (convert rmatch g B) as [os|e2]; try reflexivity.
  destruct v; [| congruence |].
  - rewrite !viol_should. unfold expl_query, importers_of, importees_of.
    destruct (get_dependencies ceqb g ss os) as [r|e] eqn:E; cbn [bind]; [|reflexivity].
    rewrite !vclass_of_viol_ok.
    assert (H1 : missing_explicit ceqb true ss r = [] <-> all_realised r = true).
    { apply missing_explicit_nil. apply (expl_keys_subject g true ss os r). exact E. }
    assert (H2 : missing_explicit ceqb false os r = [] <-> all_realised r = true).
    { apply missing_explicit_nil. apply (expl_keys_subject g false os ss r). exact E. }
    destruct (missing_explicit ceqb true ss r) eqn:E1; destruct (missing_explicit ceqb false os r) eqn:E2; try reflexivity; exfalso.
    + assert (X : all_realised r = true) by (apply H1; reflexivity). apply H2 in X. discriminate.
    + assert (X : all_realised r = true) by (apply H2; reflexivity). apply H1 in X. discriminate.
  - rewrite !viol_should_not. unfold expl_query, importers_of, importees_of.
    destruct (get_dependencies ceqb g ss os) as [r|e] eqn:E; cbn [bind]; [|reflexivity].
    rewrite !vclass_of_viol_ok.
    pose proof (realised_nil true r) as H1. pose proof (realised_nil false r) as H2.
    destruct (realised true r) eqn:E1; destruct (realised false r) eqn:E2; try reflexivity; exfalso.
    + assert (X : none_realised r = true) by (apply H1; reflexivity). apply H2 in X. discriminate.
    + assert (X : none_realised r = true) by (apply H2; reflexivity). apply H1 in X. discriminate.
Qed.


(* ---- pass / fail in terms of the violation list ---- *)
Lemma passes_of_viol r : passes (of_viol r) <-> r = Ok [].
Proof.
  unfold passes, of_viol. destruct r as [[|l ls]|e]; split; try discriminate; try reflexivity; congruence.
Qed.
Lemma fails_of_viol r : fails (of_viol r) <-> exists l ls, r = Ok (l :: ls).
Proof.
  unfold fails, of_viol. destruct r as [[|l ls]|e]; split.
  - intros [x Hx]; discriminate.
  - intros [l [ls H]]; discriminate.
  - intros _. eauto.
  - intros _. eauto.
  - intros [x Hx]; discriminate.
  - intros [l [ls H]]; discriminate.
Qed.

(* ---- negation: one subject, one object ---- *)
Lemma convert_single (g : graph) (f : filt) : convert rmatch g [to_u f] = Ok [f].
Proof. exact (convert_plain rmatch g [f]). Qed.

Theorem negation g imp (s o : filt) :
  passes (V g (mk_ucfg Should imp false [to_u s] [to_u o])) <->
  fails (V g (mk_ucfg ShouldNot imp false [to_u s] [to_u o])).
Proof.
  rewrite !verdict_unfold by discriminate. rewrite !convert_single.
  rewrite passes_of_viol, fails_of_viol, viol_should, viol_should_not.
  destruct (expl_query g imp [s] [o]) as [r|e] eqn:E; cbn [bind].
  - assert (Hk := expl_keys_subject g imp [s] [o] r E).
    pose proof (missing_explicit_nil imp [s] r Hk) as H1. pose proof (realised_nil imp r) as H2.
    assert (Hr : exists k l, r = [(k, l)]).
    { unfold expl_query, get_dependencies, importers_of, importees_of in E.
      destruct imp; cbn in E;
      match type of E with context [q_between ?a ?b ?c ?d] => destruct (q_between a b c d) end;
        cbn in E; try discriminate; injection E as <-; eauto. }
    destruct Hr as [k [l ->]]. unfold all_realised, none_realised in *. cbn [forallb snd] in *.
    rewrite andb_true_r in *. split.
    + intros [= Hm]. apply H1 in Hm. destruct l; [discriminate|].
      destruct (realised imp [(k, p :: l)]) eqn:Er; [|eauto]. exfalso.
      assert (X : is_nil (p :: l) = true) by (apply H2; reflexivity). discriminate.
    + intros [x [xs [= Hx]]]. f_equal. apply H1. destruct l; [|reflexivity]. exfalso.
      cbn in Hx. discriminate.
  - split; [discriminate|]. intros [x [xs H]]; discriminate.
Qed.

Theorem negation_except g imp (s o : filt) :
  passes (V g (mk_ucfg Should imp true [to_u s] [to_u o])) <->
  fails (V g (mk_ucfg ShouldNot imp true [to_u s] [to_u o])).
Proof.
  rewrite !verdict_unfold by discriminate. rewrite !convert_single.
  rewrite passes_of_viol, fails_of_viol, viol_should_exc, viol_should_not_exc.
  destruct (other_query g imp [s] [o]) as [r|e] eqn:E; cbn [bind].
  - pose proof (missing_any_nil [o] r) as H1. pose proof (realised_nil imp r) as H2.
    assert (Hr : exists k l, r = [(k, l)]).
    { unfold other_query, other_out_all, other_in_all, importers_of, importees_of in E.
      destruct imp; cbn [map_res] in E;
        [destruct (q_other_out ceqb g s [o]) | destruct (q_other_in ceqb g [o] s)];
        cbn in E; try discriminate; injection E as <-; eauto. }
    destruct Hr as [k [l ->]]. unfold all_realised, none_realised in *. cbn [forallb snd] in *.
    rewrite andb_true_r in *. split.
    + intros [= Hm]. apply H1 in Hm. destruct l; [discriminate|].
      destruct (realised imp [(k, p :: l)]) eqn:Er; [|eauto]. exfalso.
      assert (X : is_nil (p :: l) = true) by (apply H2; reflexivity). discriminate.
    + intros [x [xs [= Hx]]]. f_equal. apply H1. destruct l; [|reflexivity]. exfalso.
      cbn in Hx. discriminate.
  - split; [discriminate|]. intros [x [xs H]]; discriminate.
Qed.

(* ---- decomposition of should_only ---- *)
Theorem should_only_decomposition g imp Ss Os :
  passes (V g (mk_ucfg ShouldOnly imp false Ss Os)) <->
  passes (V g (mk_ucfg Should imp false Ss Os)) /\ passes (V g (mk_ucfg ShouldNot imp true Ss Os)).
Proof.
  destruct Ss as [|a A']; [rewrite !verdict_empty_side by auto; unfold passes; intuition discriminate|].
  destruct Os as [|b B']; [rewrite !verdict_empty_side by auto; unfold passes; intuition discriminate|].
  rewrite !verdict_unfold by discriminate.
  destruct (convert rmatch g (a :: A')) as [ss|e1]; [|unfold passes; intuition discriminate].
  destruct (convert rmatch g (b :: B')) as [os|e2]; [|unfold passes; intuition discriminate].
  rewrite !passes_of_viol, viol_should_only, viol_should, viol_should_not_exc.
  destruct (expl_query g imp ss os) as [e|x]; destruct (other_query g imp ss os) as [o|y]; cbn [bind];
    try (intuition discriminate).
  split.
  - intros [= H]. apply app_eq_nil in H. destruct H as [-> ->]. auto.
  - intros [[= ->] [= ->]]. reflexivity.
Qed.

Theorem should_only_except_decomposition g imp Ss Os :
  passes (V g (mk_ucfg ShouldOnly imp true Ss Os)) <->
  passes (V g (mk_ucfg Should imp true Ss Os)) /\ passes (V g (mk_ucfg ShouldNot imp false Ss Os)).
Proof.
  destruct Ss as [|a A']; [rewrite !verdict_empty_side by auto; unfold passes; intuition discriminate|].
  destruct Os as [|b B']; [rewrite !verdict_empty_side by auto; unfold passes; intuition discriminate|].
  rewrite !verdict_unfold by discriminate.
  destruct (convert rmatch g (a :: A')) as [ss|e1]; [|unfold passes; intuition discriminate].
  destruct (convert rmatch g (b :: B')) as [os|e2]; [|unfold passes; intuition discriminate].
  rewrite !passes_of_viol, viol_should_only_exc, viol_should_exc, viol_should_not.
  destruct (expl_query g imp ss os) as [e|x]; destruct (other_query g imp ss os) as [o|y]; cbn [bind];
    try (intuition discriminate).
  split.
  - intros [= H]. apply app_eq_nil in H. destruct H as [-> ->]. auto.
  - intros [[= ->] [= ->]]. reflexivity.
Qed.

(* ---- the "anything" alias ---- *)
Definition any_cfg (imp : bool) (Ss : list ufilt) : @cfg comp :=
  {| c_subj := Some Ss; c_obj := None; c_should := false; c_only := false; c_not := true;
     c_exc := false; c_imp := Some imp; c_any := true |}.

Lemma removed_unknown_false g (Ss : list ufilt) :
  (forall f, In f Ss -> has_listed_ancestor ceqb Ss f = false) -> removed_unknown ceqb g Ss = false.
Proof.
  intros H. unfold removed_unknown. apply not_true_iff_false. intros E. apply existsb_exists in E.
  destruct E as [f [Hf E]]. rewrite (H f Hf) in E. discriminate.
Qed.

(* the alias is the 'except' rule over the subjects without listed ancestors, provided every subject that the rewrite
   removes is a module of the graph (fix D23: otherwise the outcome is an error, see alias_removed_unknown) *)
Theorem alias_anything g imp Ss :
  removed_unknown ceqb g Ss = false ->
  verdict ceqb rmatch g (any_cfg imp Ss) =
  verdict ceqb rmatch g (mk_ucfg ShouldNot imp true (drop_children ceqb Ss) (drop_children ceqb Ss)).
Proof.
  intros Hr. unfold verdict, assert_applies.
  set (c1 := mk_ucfg ShouldNot imp true (drop_children ceqb Ss) (drop_children ceqb Ss)).
  change (c_any (any_cfg imp Ss)) with true. change (c_should (any_cfg imp Ss)) with false.
  change (c_only (any_cfg imp Ss)) with false. change (c_any c1) with false.
  change (convert_aliases ceqb (any_cfg imp Ss)) with c1.
  change (convert_aliases ceqb c1) with c1.
  change (opt_list (c_subj (any_cfg imp Ss))) with Ss.
  cbn [andb orb]. rewrite Hr.
  destruct (negb (required_present c1)); [reflexivity|]. destruct (negb (behavior_consistent c1)); reflexivity.
Qed.

Theorem alias_removed_unknown g imp Ss :
  removed_unknown ceqb g Ss = true -> exists e, verdict ceqb rmatch g (any_cfg imp Ss) = Err e.
Proof.
  intros Hr. unfold verdict, assert_applies.
  set (c1 := mk_ucfg ShouldNot imp true (drop_children ceqb Ss) (drop_children ceqb Ss)).
  change (c_any (any_cfg imp Ss)) with true. change (c_should (any_cfg imp Ss)) with false.
  change (c_only (any_cfg imp Ss)) with false.
  change (convert_aliases ceqb (any_cfg imp Ss)) with c1.
  change (opt_list (c_subj (any_cfg imp Ss))) with Ss.
  cbn [andb orb]. rewrite Hr.
  destruct (negb (required_present c1)); [eexists; reflexivity|].
  destruct (negb (behavior_consistent c1)); eexists; reflexivity.
Qed.

Lemma drop_children_single (f : ufilt) : drop_children ceqb [f] = [f].
Proof.
  unfold drop_children, has_listed_ancestor. cbn [filter existsb].
  destruct (uname f) as [n|] eqn:E; [|reflexivity].
  assert (H : sprefixb ceqb n n = false).
  { unfold sprefixb. rewrite (name_eqb_refl ceqb ceqb_spec). apply andb_false_r. }
  rewrite H. reflexivity.
Qed.

Theorem alias_anything_single g imp (f : ufilt) :
  V g (any_cfg imp [f]) = V g (mk_ucfg ShouldNot imp true [f] [f]).
Proof.
  unfold V. rewrite alias_anything, drop_children_single; [reflexivity|].
  apply removed_unknown_false. intros f' [<-|[]]. unfold has_listed_ancestor. cbn [existsb].
  destruct (uname f) as [n|] eqn:E; [|reflexivity].
  assert (H : sprefixb ceqb n n = false).
  { unfold sprefixb. rewrite (name_eqb_refl ceqb ceqb_spec). apply andb_false_r. }
  rewrite H. reflexivity.
Qed.


(* ---- monotonicity in the import relation ---- *)
Definition add_import (g : graph) (e : name * name) : graph :=
  {| nodes := nodes g; imps := e :: imps g |}.

(* second table has the same keys and at least the realisations of the first *)
Definition grows {K} (r r' : list (K * list (name * name))) : Prop :=
  Forall2 (fun kv kv' => fst kv = fst kv' /\ (snd kv' = [] -> snd kv = [])) r r'.

Lemma filter_cons_nil {X} (p : X -> bool) x l : filter p (x :: l) = [] -> filter p l = [].
Proof. simpl. destruct (p x); [discriminate|auto]. Qed.

Lemma q_between_add g e d u :
  match q_between ceqb g d u with
  | Er x => q_between ceqb (add_import g e) d u = Er x
  | Ok l => exists l', q_between ceqb (add_import g e) d u = Ok l' /\ (l' = [] -> l = [])
  end.
Proof.
  unfold q_between. cbn [add_import nodes imps]. unfold exists_f, desc_incl. cbn [add_import nodes].
  destruct (_ && _); [|reflexivity]. eexists. split; [reflexivity|]. apply filter_cons_nil.
Qed.

Lemma q_other_out_add g e d us :
  match q_other_out ceqb g d us with
  | Er x => q_other_out ceqb (add_import g e) d us = Er x
  | Ok l => exists l', q_other_out ceqb (add_import g e) d us = Ok l' /\ (l' = [] -> l = [])
  end.
Proof.
  unfold q_other_out, others_exist, excl_out, excl_base, exists_f, desc_incl. cbn [add_import nodes imps].
  destruct (_ && _); [|reflexivity]. eexists. split; [reflexivity|]. apply filter_cons_nil.
Qed.

Lemma q_other_in_add g e ds u :
  match q_other_in ceqb g ds u with
  | Er x => q_other_in ceqb (add_import g e) ds u = Er x
  | Ok l => exists l', q_other_in ceqb (add_import g e) ds u = Ok l' /\ (l' = [] -> l = [])
  end.
Proof.
  unfold q_other_in, others_exist, excl_base, exists_f, desc_incl. cbn [add_import nodes imps].
  destruct (_ && _); [|reflexivity]. eexists. split; [reflexivity|]. apply filter_cons_nil.
Qed.

Lemma map_res_grows {X K} (q q' : X -> res (list (name * name))) (k : X -> K) xs :
  (forall x, match q x with
             | Er e => q' x = Er e
             | Ok l => exists l', q' x = Ok l' /\ (l' = [] -> l = [])
             end) ->
  match map_res (fun x => bind (q x) (fun l => Ok (k x, l))) xs with
  | Er e => map_res (fun x => bind (q' x) (fun l => Ok (k x, l))) xs = Er e
  | Ok r => exists r', map_res (fun x => bind (q' x) (fun l => Ok (k x, l))) xs = Ok r' /\ grows r r'
  end.
Proof.
  intros H. induction xs as [|x xs IH]; cbn [map_res].
  - exists []. split; [reflexivity|constructor].
  - specialize (H x). destruct (q x) as [l|e]; cbn [bind].
    + destruct H as [l' [-> Hl]]. cbn [bind].
      destruct (map_res (fun x0 => bind (q x0) (fun l0 => Ok (k x0, l0))) xs) as [r|e]; cbn [bind].
      * destruct IH as [r' [-> Hg]]. cbn [bind]. eexists. split; [reflexivity|]. constructor; [split; auto|exact Hg].
      * rewrite IH. reflexivity.
    + rewrite H. reflexivity.
Qed.

Lemma expl_query_add g e imp ss os :
  match expl_query g imp ss os with
  | Er x => expl_query (add_import g e) imp ss os = Er x
  | Ok r => exists r', expl_query (add_import g e) imp ss os = Ok r' /\ grows r r'
  end.
Proof.
  unfold expl_query, get_dependencies.
  apply (map_res_grows (fun du : filt * filt => q_between ceqb g (fst du) (snd du))
                       (fun du : filt * filt => q_between ceqb (add_import g e) (fst du) (snd du))
                       (fun du : filt * filt => du)).
  intros du. apply q_between_add.
Qed.

Lemma other_query_add g e imp ss os :
  match other_query g imp ss os with
  | Er x => other_query (add_import g e) imp ss os = Er x
  | Ok r => exists r', other_query (add_import g e) imp ss os = Ok r' /\ grows r r'
  end.
Proof.
  unfold other_query. destruct imp; unfold other_out_all, other_in_all.
  - apply (map_res_grows (fun d : filt => q_other_out ceqb g d (importees_of true ss os))
                         (fun d : filt => q_other_out ceqb (add_import g e) d (importees_of true ss os))
                         (fun d : filt => d)).
    intros d. apply q_other_out_add.
  - apply (map_res_grows (fun u : filt => q_other_in ceqb g (importers_of false ss os) u)
                         (fun u : filt => q_other_in ceqb (add_import g e) (importers_of false ss os) u)
                         (fun u : filt => u)).
    intros u. apply q_other_in_add.
Qed.

Lemma grows_all_realised {K} (r r' : list (K * list (name * name))) :
  grows r r' -> all_realised r = true -> all_realised r' = true.
Proof.
  unfold all_realised. induction 1 as [|kv kv' r r' [_ Hn] _ IH]; [auto|]. cbn [forallb].
  rewrite !andb_true_iff. intros [H1 H2]. split; auto.
  destruct (snd kv') eqn:E; [|reflexivity]. rewrite (Hn eq_refl) in H1. discriminate.
Qed.

Lemma grows_none_realised {K} (r r' : list (K * list (name * name))) :
  grows r r' -> none_realised r' = true -> none_realised r = true.
Proof.
  unfold none_realised. induction 1 as [|kv kv' r r' [_ Hn] _ IH]; [auto|]. cbn [forallb].
  rewrite !andb_true_iff. intros [H1 H2]. split; auto.
  apply is_nil_true in H1. rewrite (Hn H1). reflexivity.
Qed.

Lemma convert_add g e fs : convert rmatch (add_import g e) fs = convert rmatch g fs.
Proof. reflexivity. Qed.

(* a passing 'should' rule stays passing *)
Theorem monotone_should g e imp Ss Os :
  passes (V g (mk_ucfg Should imp false Ss Os)) -> passes (V (add_import g e) (mk_ucfg Should imp false Ss Os)).
Proof.
  destruct Ss as [|a A']; [rewrite !verdict_empty_side by auto; auto|].
  destruct Os as [|b B']; [rewrite !verdict_empty_side by auto; auto|].
  rewrite !verdict_unfold by discriminate. rewrite !convert_add.
  destruct (convert rmatch g (a :: A')) as [ss|e1]; [|auto].
  destruct (convert rmatch g (b :: B')) as [os|e2]; [|auto].
  rewrite !passes_of_viol, !viol_should.
  pose proof (expl_query_add g e imp ss os) as Hq.
  destruct (expl_query g imp ss os) as [r|x] eqn:E; cbn [bind]; [|discriminate].
  destruct Hq as [r' [E' Hg]]. rewrite E'. cbn [bind]. intros [= Hm]. f_equal.
  apply (missing_explicit_nil imp ss r' (expl_keys_subject (add_import g e) imp ss os r' E')).
  apply (grows_all_realised r r' Hg).
  apply (missing_explicit_nil imp ss r (expl_keys_subject g imp ss os r E)). exact Hm.
Qed.

Theorem monotone_should_except g e imp Ss Os :
  passes (V g (mk_ucfg Should imp true Ss Os)) -> passes (V (add_import g e) (mk_ucfg Should imp true Ss Os)).
Proof.
  destruct Ss as [|a A']; [rewrite !verdict_empty_side by auto; auto|].
  destruct Os as [|b B']; [rewrite !verdict_empty_side by auto; auto|].
  rewrite !verdict_unfold by discriminate. rewrite !convert_add.
  destruct (convert rmatch g (a :: A')) as [ss|e1]; [|auto].
  destruct (convert rmatch g (b :: B')) as [os|e2]; [|auto].
  rewrite !passes_of_viol, !viol_should_exc.
  pose proof (other_query_add g e imp ss os) as Hq.
  destruct (other_query g imp ss os) as [r|x] eqn:E; cbn [bind]; [|discriminate].
  destruct Hq as [r' [E' Hg]]. rewrite E'. cbn [bind]. intros [= Hm]. f_equal.
  apply missing_any_nil. apply (grows_all_realised r r' Hg). apply missing_any_nil in Hm. exact Hm.
Qed.

(* a failing 'should not' rule stays failing *)
Theorem monotone_should_not g e imp Ss Os :
  fails (V g (mk_ucfg ShouldNot imp false Ss Os)) -> fails (V (add_import g e) (mk_ucfg ShouldNot imp false Ss Os)).
Proof.
  destruct Ss as [|a A']; [rewrite !verdict_empty_side by auto; auto|].
  destruct Os as [|b B']; [rewrite !verdict_empty_side by auto; auto|].
  rewrite !verdict_unfold by discriminate. rewrite !convert_add.
  destruct (convert rmatch g (a :: A')) as [ss|e1]; [|auto].
  destruct (convert rmatch g (b :: B')) as [os|e2]; [|auto].
  rewrite !fails_of_viol, !viol_should_not.
  pose proof (expl_query_add g e imp ss os) as Hq.
  destruct (expl_query g imp ss os) as [r|x] eqn:E; cbn [bind]; [|intros [l [ls H]]; discriminate].
  destruct Hq as [r' [E' Hg]]. rewrite E'. cbn [bind]. intros [l [ls [= Hm]]].
  destruct (realised imp r') as [|l' ls'] eqn:Er; [|eauto]. exfalso.
  apply realised_nil in Er. apply (grows_none_realised r r' Hg) in Er. apply (realised_nil imp) in Er. congruence.
Qed.

Theorem monotone_should_not_except g e imp Ss Os :
  fails (V g (mk_ucfg ShouldNot imp true Ss Os)) -> fails (V (add_import g e) (mk_ucfg ShouldNot imp true Ss Os)).
Proof.
  destruct Ss as [|a A']; [rewrite !verdict_empty_side by auto; auto|].
  destruct Os as [|b B']; [rewrite !verdict_empty_side by auto; auto|].
  rewrite !verdict_unfold by discriminate. rewrite !convert_add.
  destruct (convert rmatch g (a :: A')) as [ss|e1]; [|auto].
  destruct (convert rmatch g (b :: B')) as [os|e2]; [|auto].
  rewrite !fails_of_viol, !viol_should_not_exc.
  pose proof (other_query_add g e imp ss os) as Hq.
  destruct (other_query g imp ss os) as [r|x] eqn:E; cbn [bind]; [|intros [l [ls H]]; discriminate].
  destruct Hq as [r' [E' Hg]]. rewrite E'. cbn [bind]. intros [l [ls [= Hm]]].
  destruct (realised imp r') as [|l' ls'] eqn:Er; [|eauto]. exfalso.
  apply realised_nil in Er. apply (grows_none_realised r r' Hg) in Er. apply (realised_nil imp) in Er. congruence.
Qed.

End AlgebraProofs.
