(* BuilderProofs.v — C13 for module rules: the fluent builder refines the
   specification automaton; a verdict is only ever produced for complete,
   non-contradictory histories; unknown names are lookup errors. *)
From Coq Require Import List Bool Arith Lia NArith.
From PTA Require Import Names Graph Search Rule SpecRule Builder NamesProofs SearchProofs RuleProofs AlgebraProofs.
Import ListNotations.

Section BuilderProofs.
Context {comp : Type} (ceqb : comp -> comp -> bool).
Hypothesis ceqb_spec : forall x y, reflect (x = y) (ceqb x y).
Variable rmatch : N -> list comp -> bool.
Notation name := (list comp).
Notation graph := (@graph comp).
Notation filt := (@filt comp).
Notation ufilt := (@ufilt comp).
Notation rcall := (@rcall comp).
Notation rstate := (@rstate comp).

Definition is_verdict (o : @outcome comp) : bool := match o with Err _ => false | _ => true end.
Definition is_some {X} (o : option X) : bool := match o with Some _ => true | None => false end.

(* what the specification automaton sees of a builder state *)
Definition absv (st : rstate) : sview :=
  let c := st_cfg st in
  {| v_side := st_next st;
     v_subj := negb (is_empty_opt (c_subj c)); v_obj := negb (is_empty_opt (c_obj c));
     v_should := c_should c; v_only := c_only c; v_not := c_not c;
     v_imp := is_some (c_imp c); v_any := c_any c |}.

Lemma is_empty_map {X Y} (f : X -> Y) (l : list X) :
  is_empty_opt (Some (map f l)) = match l with [] => true | _ => false end.
Proof. destruct l; reflexivity. Qed.

(* one step: the builder and the specification automaton agree (refinement) *)
Lemma rstep_sim st call :
  match rstep st call with
  | Ok st' => sstep (absv st) call = Some (absv st')
  | Er _ => sstep (absv st) call = None
  end.
Proof.
  destruct st as [c nx]. destruct call;
    try (destruct nx as [[|]|]); try (destruct ns); try (destruct rs);
    unfold rstep, set_modules, absv, set_dep, set_field; cbn; rewrite ?orb_false_r, ?orb_true_r; reflexivity.
Qed.

Lemma rbuild_sim calls : forall st,
  match rbuild st calls with
  | Ok st' => srun (absv st) calls = Some (absv st')
  | Er _ => srun (absv st) calls = None
  end.
Proof.
  induction calls as [|c calls IH]; intros st; cbn [rbuild srun]; [reflexivity|].
  pose proof (rstep_sim st c) as H. destruct (rstep st c) as [st'|e]; rewrite H; [apply IH|reflexivity].
Qed.

Lemma absv_init : absv rinit = sinit.
Proof. reflexivity. Qed.

(* should_not together with another verb is always inconsistent *)
Lemma inconsistent_verbs (c : @cfg comp) :
  c_not c = true -> (c_should c || c_only c) = true -> behavior_consistent c = false.
Proof.
  intros Hn Hv. unfold behavior_consistent, expl_required, expl_forbidden, other_required, other_forbidden.
  rewrite Hn, Hv. destruct (c_exc c), (c_only c); reflexivity.
Qed.

Lemma drop_children_empty (fs : list ufilt) : is_empty_opt (Some (drop_children ceqb fs)) = false -> is_empty_opt (Some fs) = false.
Proof. destruct fs; [intros H; exact H|reflexivity]. Qed.

(* assert_applies yields a verdict only on complete, consistent configurations *)
Lemma verdict_complete g (st : rstate) :
  is_verdict (snd (assert_applies ceqb rmatch g (st_cfg st))) = true -> complete (absv st) = true.
Proof.
  destruct st as [c nx]. cbn [st_cfg]. unfold assert_applies, complete, absv. cbn [st_cfg st_next v_subj v_obj v_should v_only v_not v_imp v_any].
  destruct (c_any c && (c_should c || c_only c)) eqn:Hg; [discriminate|].
  destruct (required_present (convert_aliases ceqb c)) eqn:Hr; cbn [negb]; [|discriminate].
  destruct (behavior_consistent (convert_aliases ceqb c)) eqn:Hc; cbn [negb]; [|discriminate].
  intros _. cbn [negb]. rewrite andb_true_r.
  unfold convert_aliases in Hr, Hc. destruct (c_any c) eqn:Ha; rewrite ?Ha in Hr, Hc.
  - (* alias: subject list rewritten, objects := subjects *)
    unfold required_present in Hr. cbn [c_should c_only c_not c_imp c_subj c_obj] in Hr.
    rewrite !andb_true_iff, !negb_true_iff in Hr. destruct Hr as [[[Hv Hi] Hs] _].
    assert (Hs' : is_empty_opt (c_subj c) = false).
    { destruct (c_subj c) as [fs|]; [|discriminate]. cbn [option_map] in Hs. apply drop_children_empty. exact Hs. }
    rewrite Hs', Hv. cbn [negb andb]. rewrite orb_true_r.
    destruct (c_imp c); [|discriminate]. cbn [is_some andb].
    destruct (c_not c) eqn:Hn; [|reflexivity]. cbn [andb].
    destruct (c_should c || c_only c) eqn:Hso; [|reflexivity]. discriminate Hg.
  - unfold required_present in Hr. rewrite !andb_true_iff, !negb_true_iff in Hr. destruct Hr as [[[Hv Hi] Hs] Ho].
    rewrite Hs, Ho, Hv. cbn [negb andb orb]. destruct (c_imp c); [|discriminate]. cbn [is_some andb].
    destruct (c_not c) eqn:Hn; [|reflexivity]. cbn [andb].
    destruct (c_should c || c_only c) eqn:Hso; [|reflexivity].
    rewrite (inconsistent_verbs c Hn Hso) in Hc. discriminate.
Qed.

(* C13 for Rule: every history that produces a verdict is complete and consistent *)
Theorem rule_history_verdict_complete g calls :
  is_verdict (run_rule ceqb rmatch g calls) = true -> spec_accepts calls = true.
Proof.
  unfold run_rule, spec_accepts. pose proof (rbuild_sim calls rinit) as H. rewrite absv_init in H.
  destruct (rbuild rinit calls) as [st|e]; [|discriminate]. rewrite H. apply verdict_complete.
Qed.

Corollary rule_history_incomplete_is_error g calls :
  spec_accepts calls = false -> exists e, run_rule ceqb rmatch g calls = Err e.
Proof.
  intros H. destruct (run_rule ceqb rmatch g calls) as [|ls|e] eqn:E; [| |eauto]; exfalso;
    assert (X : is_verdict (run_rule ceqb rmatch g calls) = true) by (rewrite E; reflexivity);
    apply rule_history_verdict_complete in X; congruence.
Qed.

(* ---- unknown names ---- *)
Lemma map_res_error {X Y} (f : X -> res Y) l x :
  In x l -> (exists e, f x = Er e) -> exists e, map_res f l = Er e.
Proof.
  induction l as [|y l IH]; [intros []|]. intros [->|Hin] Hx; cbn [map_res].
  - destruct Hx as [e ->]. cbn. eauto.
  - destruct (f y); cbn [bind]; [|eauto]. destruct (IH Hin Hx) as [e ->]. cbn. eauto.
Qed.

Lemma q_between_missing g d u : exists_f ceqb g d = false \/ exists_f ceqb g u = false -> q_between ceqb g d u = Er ELookup.
Proof. unfold q_between. intros [-> | ->]; [rewrite andb_false_r|]; reflexivity. Qed.

Lemma get_dependencies_missing g ds us f :
  ds <> [] -> us <> [] -> In f (ds ++ us) -> exists_f ceqb g f = false ->
  exists e, get_dependencies ceqb g ds us = Er e.
Proof.
  intros Hd Hu Hf Hm. unfold get_dependencies. apply in_app_iff in Hf. destruct Hf as [Hf|Hf].
  - destruct us as [|u us']; [congruence|]. apply (map_res_error _ _ (f, u)).
    + apply in_prod_iff. split; [exact Hf|left; reflexivity].
    + cbn [fst snd]. rewrite q_between_missing by auto. cbn. eauto.
  - destruct ds as [|d ds']; [congruence|]. apply (map_res_error _ _ (d, f)).
    + apply in_prod_iff. split; [left; reflexivity|exact Hf].
    + cbn [fst snd]. rewrite q_between_missing by auto. cbn. eauto.
Qed.

Lemma others_exist_missing g self others f :
  In f others -> exists_f ceqb g f = false -> exists_f ceqb g self = true -> others_exist ceqb g self others = false.
Proof.
  intros Hf Hm Hs. unfold others_exist. apply not_true_iff_false. intros H. rewrite forallb_forall in H.
  specialize (H f Hf). rewrite Hm, orb_false_r in H.
  destruct (filt_eqb_spec ceqb ceqb_spec f self) as [->|]; [congruence|discriminate].
Qed.

Lemma other_out_missing g ds us f :
  ds <> [] -> In f (ds ++ us) -> exists_f ceqb g f = false -> exists e, other_out_all ceqb g ds us = Er e.
Proof.
  intros Hd Hf Hm. unfold other_out_all. apply in_app_iff in Hf. destruct Hf as [Hf|Hf].
  - apply (map_res_error _ _ f Hf). unfold q_other_out. rewrite Hm, andb_false_r. cbn. eauto.
  - destruct ds as [|d ds']; [congruence|]. apply (map_res_error _ (d :: ds') d (or_introl eq_refl)).
    unfold q_other_out. destruct (exists_f ceqb g d) eqn:Ed; [|rewrite andb_false_r; cbn; eauto].
    rewrite (others_exist_missing g d us f Hf Hm Ed). cbn. eauto.
Qed.

Lemma other_in_missing g ds us f :
  us <> [] -> In f (ds ++ us) -> exists_f ceqb g f = false -> exists e, other_in_all ceqb g ds us = Er e.
Proof.
  intros Hu Hf Hm. unfold other_in_all. apply in_app_iff in Hf. destruct Hf as [Hf|Hf].
  - destruct us as [|u us']; [congruence|]. apply (map_res_error _ (u :: us') u (or_introl eq_refl)).
    unfold q_other_in. destruct (exists_f ceqb g u) eqn:Eu; [|rewrite andb_false_r; cbn; eauto].
    rewrite (others_exist_missing g u ds f Hf Hm Eu). cbn. eauto.
  - apply (map_res_error _ _ f Hf). unfold q_other_in. rewrite Hm, andb_false_r. cbn. eauto.
Qed.

Lemma filter_nil_forall {X} (P : X -> bool) l : filter P l = [] -> forall x, In x l -> P x = false.
Proof.
  induction l as [|y l IH]; simpl; [intros _ x []|]. destruct (P y) eqn:E; [discriminate|].
  intros H x [<-|Hx]; auto.
Qed.

Lemma convert_keeps_plain g fs r : convert rmatch g fs = Ok r -> forall f, In f (plain fs) -> In f r.
Proof.
  unfold convert. destruct (forallb _ _); [|discriminate]. intros [= <-] f Hf. apply in_app_iff. right. exact Hf.
Qed.

Lemma convert_nonempty g fs r : convert rmatch g fs = Ok r -> fs <> [] -> r <> [].
Proof.
  unfold convert. destruct fs as [|f fs']; [congruence|]. intros H _.
  destruct (forallb _ _) eqn:Ef; [|discriminate]. injection H as <-.
  destruct f as [n|n|p]; cbn [plain flat_map app].
  - intros E. apply app_eq_nil in E. destruct E as [_ E]. discriminate.
  - intros E. apply app_eq_nil in E. destruct E as [_ E]. discriminate.
  - cbn [regexes flat_map app forallb] in Ef. apply andb_true_iff in Ef. destruct Ef as [Ep _].
    apply existsb_exists in Ep. destruct Ep as [n [Hn Hp]]. intros E. apply app_eq_nil in E. destruct E as [E _].
    apply map_eq_nil in E.
    pose proof (filter_nil_forall _ _ E n Hn) as Hf. cbn in Hf. rewrite Hp in Hf. discriminate.
Qed.

(* a rule that mentions a module name absent from the architecture never yields a verdict *)
Theorem unknown_name_is_error g v imp exc Ss Os f :
  In f (plain Ss ++ plain Os) -> exists_f ceqb g f = false ->
  is_verdict (AlgebraProofs.V ceqb rmatch g (mk_ucfg v imp exc Ss Os)) = false.
Proof.
  intros Hf Hm.
  destruct Ss as [|s0 Ss']; [rewrite verdict_empty_side by auto; reflexivity|].
  destruct Os as [|o0 Os']; [rewrite verdict_empty_side by auto; reflexivity|].
  rewrite verdict_unfold by discriminate.
  destruct (convert rmatch g (s0 :: Ss')) as [ss|e1] eqn:Es; [|reflexivity].
  destruct (convert rmatch g (o0 :: Os')) as [os|e2] eqn:Eo; [|reflexivity].
  assert (Hss : ss <> []) by (eapply convert_nonempty; [exact Es|discriminate]).
  assert (Hos : os <> []) by (eapply convert_nonempty; [exact Eo|discriminate]).
  assert (Hin : In f (ss ++ os)).
  { apply in_app_iff in Hf. apply in_app_iff. destruct Hf as [Hf|Hf];
      [left; eapply convert_keeps_plain; eauto | right; eapply convert_keeps_plain; eauto]. }
  assert (Hin' : In f (os ++ ss)) by (apply in_app_iff; apply in_app_iff in Hin; tauto).
  assert (HE : exists e, expl_query ceqb g imp ss os = Er e).
  { unfold expl_query, importers_of, importees_of. destruct imp; apply (get_dependencies_missing _ _ _ f); auto. }
  assert (HO : exists e, other_query ceqb g imp ss os = Er e).
  { unfold other_query, importers_of, importees_of. destruct imp;
      [apply (other_out_missing _ _ _ f) | apply (other_in_missing _ _ _ f)]; auto. }
  destruct HE as [e1 HE], HO as [e2 HO].
  destruct v, exc;
    rewrite ?viol_should, ?viol_should_exc, ?viol_should_not, ?viol_should_not_exc, ?viol_should_only, ?viol_should_only_exc;
    rewrite ?HE, ?HO; reflexivity.
Qed.

(* A module list given again on the same side replaces the earlier one: the builder state after two consecutive
   module-list calls is the state after the second alone - wherever in a history they stand. *)
Lemma rstep_modules_twice (st : rstate) (c1 c2 : rcall) (st1 : rstate) :
  is_modules_call c1 = true -> is_modules_call c2 = true ->
  rstep st c1 = Ok st1 -> rstep st1 c2 = rstep st c2.
Proof.
  intros H1 H2 Hs. destruct st as [c nx].
  destruct c1; try discriminate H1; destruct c2; try discriminate H2;
    unfold rstep, set_modules in *; cbn [st_next st_cfg] in *;
    destruct nx as [[|]|]; try discriminate Hs; injection Hs as <-; reflexivity.
Qed.

Lemma rbuild_app (st : rstate) (h t : list rcall) :
  rbuild st (h ++ t) = match rbuild st h with Ok st' => rbuild st' t | Er e => Er e end.
Proof.
  revert st. induction h as [|c h IH]; intros st; cbn [app rbuild]; [reflexivity|].
  destruct (rstep st c) as [st'|e]; [apply IH|reflexivity].
Qed.

Lemma last_list_wins (g : graph) (h : list rcall) (c1 c2 : rcall) (t : list rcall) :
  is_modules_call c1 = true -> is_modules_call c2 = true ->
  (exists st, rbuild rinit (h ++ [c1]) = Ok st) ->
  run_rule ceqb rmatch g (h ++ c1 :: c2 :: t) = run_rule ceqb rmatch g (h ++ c2 :: t).
Proof.
  intros H1 H2 [st1 Hst]. unfold run_rule.
  rewrite rbuild_app in Hst. rewrite !rbuild_app.
  destruct (rbuild rinit h) as [st0|e]; [|discriminate Hst].
  cbn [rbuild] in *. destruct (rstep st0 c1) as [st1'|e1] eqn:E1; [|discriminate Hst].
  rewrite (rstep_modules_twice st0 c1 c2 st1' H1 H2 E1). reflexivity.
Qed.

End BuilderProofs.
