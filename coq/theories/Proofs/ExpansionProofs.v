(* ExpansionProofs.v — C11: regex specifications and batches equal their expansions. *)
From Coq Require Import List Bool Arith Lia NArith.
From PTA Require Import Names Graph Search Rule SpecRule NamesProofs SearchProofs RuleProofs AlgebraProofs.
Import ListNotations.

Section ExpansionProofs.
Context {comp : Type} (ceqb : comp -> comp -> bool).
Hypothesis ceqb_spec : forall x y, reflect (x = y) (ceqb x y).
Variable rmatch : N -> list comp -> bool.
Notation name := (list comp).
Notation graph := (@graph comp).
Notation filt := (@filt comp).
Notation ufilt := (@ufilt comp).
Notation V := (V ceqb rmatch).
Notation mk := (@mk_ucfg comp).

(* ---- regex = the list of matching modules ---- *)
Definition matching (g : graph) (p : N) : list name := filter (rmatch p) (nodes g).

Lemma filter_ext_nil {X} (f : X -> bool) l : (forall x, f x = false) -> filter f l = [].
Proof. intros H. induction l; simpl; [reflexivity|]. now rewrite H. Qed.

Lemma convert_regex g p :
  convert rmatch g [URegex p] = if existsb (rmatch p) (nodes g) then Ok (map Named (matching g p)) else Er ENoMatch.
Proof.
  unfold convert, matching. cbn [regexes flat_map app plain forallb]. rewrite andb_true_r.
  destruct (existsb (rmatch p) (nodes g)); [|reflexivity]. rewrite app_nil_r. f_equal. f_equal.
  apply filter_ext. intros n. cbn. apply orb_false_r.
Qed.

Lemma convert_names g (ns : list name) : convert rmatch g (map UNamed ns) = Ok (map Named ns).
Proof.
  replace (map UNamed ns) with (map (@to_u comp) (map Named ns)) by (rewrite map_map; reflexivity).
  apply convert_plain.
Qed.

Lemma existsb_matching g p : existsb (rmatch p) (nodes g) = negb (is_nil (matching g p)).
Proof.
  unfold matching. induction (nodes g) as [|n l IH]; simpl; [reflexivity|]. destruct (rmatch p n); simpl; auto.
Qed.

Lemma violations_flags g (c c' : @cfg comp) imp ss os :
  c_should c = c_should c' -> c_only c = c_only c' -> c_not c = c_not c' -> c_exc c = c_exc c' ->
  violations ceqb g c imp ss os = violations ceqb g c' imp ss os.
Proof.
  intros H1 H2 H3 H4. unfold violations, expl_required, expl_forbidden, other_required, other_forbidden.
  rewrite H1, H2, H3, H4. reflexivity.
Qed.

Theorem regex_subject_expansion g v imp exc p Os :
  matching g p <> [] ->
  V g (mk v imp exc [URegex p] Os) = V g (mk v imp exc (map UNamed (matching g p)) Os).
Proof.
  intros Hm. destruct Os as [|o Os'].
  { rewrite !verdict_empty_side by auto. reflexivity. }
  rewrite !verdict_unfold; try discriminate.
  2:{ intros E. apply map_eq_nil in E. auto. }
  rewrite convert_regex, convert_names, existsb_matching.
  destruct (matching g p) eqn:E; [congruence|]. cbn [is_nil negb].
  destruct (convert rmatch g (o :: Os')); [|reflexivity].
  f_equal; try (apply violations_flags; reflexivity).
Qed.

Theorem regex_object_expansion g v imp exc p Ss :
  matching g p <> [] ->
  V g (mk v imp exc Ss [URegex p]) = V g (mk v imp exc Ss (map UNamed (matching g p))).
Proof.
  intros Hm. destruct Ss as [|s Ss'].
  { rewrite !verdict_empty_side by auto. reflexivity. }
  rewrite !verdict_unfold; try discriminate.
  2:{ intros E. apply map_eq_nil in E. auto. }
  rewrite convert_regex, convert_names, existsb_matching.
  destruct (matching g p) eqn:E; [congruence|]. cbn [is_nil negb].
  destruct (convert rmatch g (s :: Ss')); [|reflexivity].
  f_equal; try (apply violations_flags; reflexivity).
Qed.

(* a regex that matches nothing never yields a verdict *)
Theorem regex_subject_no_match g v imp exc p Os :
  matching g p = [] -> is_err (V g (mk v imp exc [URegex p] Os)) = true.
Proof.
  intros Hm. destruct Os as [|o Os']; [rewrite verdict_empty_side by auto; reflexivity|].
  rewrite verdict_unfold by discriminate. rewrite convert_regex, existsb_matching, Hm. reflexivity.
Qed.

Theorem regex_object_no_match g v imp exc p Ss :
  matching g p = [] -> is_err (V g (mk v imp exc Ss [URegex p])) = true.
Proof.
  intros Hm. destruct Ss as [|s Ss']; [rewrite verdict_empty_side by auto; reflexivity|].
  rewrite verdict_unfold by discriminate. rewrite convert_regex, existsb_matching, Hm.
  destruct (convert rmatch g (s :: Ss')); reflexivity.
Qed.

(* ---- batches ---- *)
Lemma map_res_forall {X Y} (f : X -> res Y) (P : Y -> bool) xs :
  (exists r, map_res f xs = Ok r /\ forallb P r = true) <->
  (forall x, In x xs -> exists y, f x = Ok y /\ P y = true).
Proof.
  induction xs as [|x xs IH]; cbn [map_res].
  - split; [intros _ x []|]. intros _. exists []. auto.
  - split.
    + intros [r [Hr HP]]. destruct (f x) as [y|e] eqn:Ex; cbn [bind] in Hr; [|discriminate].
      destruct (map_res f xs) as [r'|e] eqn:Er; cbn [bind] in Hr; [|discriminate]. injection Hr as <-.
      cbn [forallb] in HP. apply andb_true_iff in HP. destruct HP as [Hy Hr'].
      intros x' [<-|Hx']; [eauto|]. apply IH; eauto.
    + intros H. destruct (H x (or_introl eq_refl)) as [y [Ey Hy]]. rewrite Ey. cbn [bind].
      assert (H' : forall x', In x' xs -> exists y', f x' = Ok y' /\ P y' = true) by (intros; apply H; right; auto).
      apply IH in H'. destruct H' as [r [-> Hr]]. cbn [bind]. exists (y :: r). split; [reflexivity|].
      cbn [forallb]. now rewrite Hy, Hr.
Qed.

Definition qb (g : graph) (imp : bool) (s o : filt) : res (list (name * name)) :=
  if imp then q_between ceqb g s o else q_between ceqb g o s.
Definition qo (g : graph) (imp : bool) (os : list filt) (s : filt) : res (list (name * name)) :=
  if imp then q_other_out ceqb g s os else q_other_in ceqb g os s.

(* what a passing verdict means, query by query *)
Definition edge_cond (g : graph) (imp : bool) (want : bool) (ss os : list filt) : Prop :=
  forall s o, In s ss -> In o os -> exists l, qb g imp s o = Ok l /\ (if want then negb (is_nil l) else is_nil l) = true.
Definition other_cond (g : graph) (imp : bool) (want : bool) (ss os : list filt) : Prop :=
  forall s, In s ss -> exists l, qo g imp os s = Ok l /\ (if want then negb (is_nil l) else is_nil l) = true.

Lemma expl_query_cond g imp (want : bool) ss os :
  (exists r, expl_query ceqb g imp ss os = Ok r /\
             forallb (fun kv => if want then negb (is_nil (snd kv)) else is_nil (snd kv)) r = true)
  <-> edge_cond g imp want ss os.
Proof.
  unfold expl_query, get_dependencies. rewrite map_res_forall. unfold edge_cond, qb, importers_of, importees_of. split.
  - intros H s o Hs Ho. destruct imp.
    + destruct (H (s, o)) as [y [Hy HP]]; [apply in_prod_iff; auto|]. cbn [fst snd] in Hy.
      destruct (q_between ceqb g s o) as [l|]; cbn [bind] in Hy; [|discriminate]. injection Hy as <-. eauto.
    + destruct (H (o, s)) as [y [Hy HP]]; [apply in_prod_iff; auto|]. cbn [fst snd] in Hy.
      destruct (q_between ceqb g o s) as [l|]; cbn [bind] in Hy; [|discriminate]. injection Hy as <-. eauto.
  - intros H [d u] Hdu. apply in_prod_iff in Hdu. destruct Hdu as [Hd Hu]. cbn [fst snd]. destruct imp.
    + destruct (H d u Hd Hu) as [l [-> Hl]]. cbn [bind]. eauto.
    + destruct (H u d Hu Hd) as [l [-> Hl]]. cbn [bind]. eauto.
Qed.

Lemma other_query_cond g imp (want : bool) ss os :
  (exists r, other_query ceqb g imp ss os = Ok r /\
             forallb (fun kv => if want then negb (is_nil (snd kv)) else is_nil (snd kv)) r = true)
  <-> other_cond g imp want ss os.
Proof.
  unfold other_query, other_out_all, other_in_all, other_cond, qo, importers_of, importees_of.
  destruct imp; rewrite map_res_forall; split.
  - intros H s Hs. destruct (H s Hs) as [y [Hy HP]].
    destruct (q_other_out ceqb g s os) as [l|]; cbn [bind] in Hy; [|discriminate]. injection Hy as <-. eauto.
  - intros H s Hs. destruct (H s Hs) as [l [-> Hl]]. cbn [bind]. eauto.
  - intros H s Hs. destruct (H s Hs) as [y [Hy HP]].
    destruct (q_other_in ceqb g os s) as [l|]; cbn [bind] in Hy; [|discriminate]. injection Hy as <-. eauto.
  - intros H s Hs. destruct (H s Hs) as [l [-> Hl]]. cbn [bind]. eauto.
Qed.

Definition pass_cond (g : graph) (v : verb) (imp exc : bool) (ss os : list filt) : Prop :=
  match v, exc with
  | Should, false => edge_cond g imp true ss os
  | ShouldNot, false => edge_cond g imp false ss os
  | Should, true => other_cond g imp true ss os
  | ShouldNot, true => other_cond g imp false ss os
  | ShouldOnly, false => edge_cond g imp true ss os /\ other_cond g imp false ss os
  | ShouldOnly, true => other_cond g imp true ss os /\ edge_cond g imp false ss os
  end.

Lemma V_plain g v imp exc (ss os : list filt) :
  ss <> [] -> os <> [] ->
  V g (mk v imp exc (map (@to_u comp) ss) (map (@to_u comp) os)) =
  of_viol (violations ceqb g (mk v imp exc (map (@to_u comp) ss) (map (@to_u comp) os)) imp ss os).
Proof.
  intros Hs Ho. rewrite verdict_unfold.
  - now rewrite !convert_plain.
  - destruct ss; [congruence|discriminate].
  - destruct os; [congruence|discriminate].
Qed.

Lemma passes_iff g v imp exc (ss os : list filt) :
  ss <> [] -> os <> [] ->
  (passes (V g (mk v imp exc (map (@to_u comp) ss) (map (@to_u comp) os))) <-> pass_cond g v imp exc ss os).
Proof.
  intros Hs Ho.
  assert (Hbase : forall v' exc', v' <> ShouldOnly ->
            (passes (V g (mk v' imp exc' (map (@to_u comp) ss) (map (@to_u comp) os))) <-> pass_cond g v' imp exc' ss os)).
  { intros v' exc' Hv'. rewrite (V_plain g v' imp exc' ss os Hs Ho), passes_of_viol.
    destruct v', exc'; try congruence; cbn [pass_cond].
    - rewrite viol_should_exc, <- other_query_cond. split.
      + destruct (other_query ceqb g imp ss os) as [r|]; cbn [bind]; [|discriminate]. intros [= H].
        exists r. split; [reflexivity|]. apply missing_any_nil in H. exact H.
      + intros [r [-> H]]. cbn [bind]. f_equal. apply missing_any_nil. exact H.
    - rewrite viol_should, <- expl_query_cond. split.
      + destruct (expl_query ceqb g imp ss os) as [r|] eqn:E; cbn [bind]; [|discriminate]. intros [= H].
        exists r. split; [reflexivity|].
        apply (missing_explicit_nil ceqb ceqb_spec imp ss r (expl_keys_subject ceqb g imp ss os r E)). exact H.
      + intros [r [E H]]. rewrite E. cbn [bind]. f_equal.
        apply (missing_explicit_nil ceqb ceqb_spec imp ss r (expl_keys_subject ceqb g imp ss os r E)). exact H.
    - rewrite viol_should_not_exc, <- other_query_cond. split.
      + destruct (other_query ceqb g imp ss os) as [r|]; cbn [bind]; [|discriminate]. intros [= H].
        exists r. split; [reflexivity|]. apply realised_nil in H. exact H.
      + intros [r [-> H]]. cbn [bind]. f_equal. apply realised_nil. exact H.
    - rewrite viol_should_not, <- expl_query_cond. split.
      + destruct (expl_query ceqb g imp ss os) as [r|]; cbn [bind]; [|discriminate]. intros [= H].
        exists r. split; [reflexivity|]. apply realised_nil in H. exact H.
      + intros [r [-> H]]. cbn [bind]. f_equal. apply realised_nil. exact H. }
  destruct v.
  - apply Hbase; discriminate.
  - destruct exc; cbn [pass_cond].
    + rewrite (should_only_except_decomposition ceqb rmatch), (Hbase Should true), (Hbase ShouldNot false) by discriminate. reflexivity.
    + rewrite (should_only_decomposition ceqb rmatch), (Hbase Should false), (Hbase ShouldNot true) by discriminate. reflexivity.
  - apply Hbase; discriminate.
Qed.

(* several subjects, explicitly given objects: the conjunction of the single-subject rules *)
Theorem batch_subjects g v imp exc (ss os : list filt) :
  ss <> [] -> os <> [] ->
  (passes (V g (mk v imp exc (map (@to_u comp) ss) (map (@to_u comp) os))) <->
   forall s, In s ss -> passes (V g (mk v imp exc [to_u s] (map (@to_u comp) os)))).
Proof.
  intros Hs Ho. rewrite (passes_iff g v imp exc ss os Hs Ho). split.
  - intros H s Hin. apply (passes_iff g v imp exc [s] os); [discriminate|exact Ho|].
    destruct v, exc; cbn [pass_cond] in *; unfold edge_cond, other_cond in *;
      repeat split; intros; repeat match goal with Hx : In _ [_] |- _ => destruct Hx as [<-|[]] end;
      try (apply H; assumption); try (apply (proj1 H); assumption); try (apply (proj2 H); assumption).
  - intros H.
    assert (H' : forall s, In s ss -> pass_cond g v imp exc [s] os).
    { intros s Hin. apply (passes_iff g v imp exc [s] os); [discriminate|exact Ho|]. apply H; exact Hin. }
    destruct v, exc; cbn [pass_cond] in *; unfold edge_cond, other_cond in *;
      repeat split; intros;
      match goal with Hx : In ?s ss |- _ => specialize (H' s Hx) end;
      try (apply H'; [left; reflexivity | assumption]); try (apply H'; left; reflexivity);
      try (apply (proj1 H'); [left; reflexivity | assumption]); try (apply (proj1 H'); left; reflexivity);
      try (apply (proj2 H'); [left; reflexivity | assumption]); try (apply (proj2 H'); left; reflexivity).
Qed.

(* plain should / should_not: several objects equal the conjunction over objects *)
Theorem batch_objects g v imp (ss os : list filt) :
  v <> ShouldOnly -> ss <> [] -> os <> [] ->
  (passes (V g (mk v imp false (map (@to_u comp) ss) (map (@to_u comp) os))) <->
   forall o, In o os -> passes (V g (mk v imp false (map (@to_u comp) ss) [to_u o]))).
Proof.
  intros Hv Hs Ho. rewrite (passes_iff g v imp false ss os Hs Ho). split.
  - intros H o Hin. apply (passes_iff g v imp false ss [o]); [exact Hs|discriminate|].
    destruct v; try congruence; cbn [pass_cond] in *; unfold edge_cond in *;
      intros s o' Hs' [<-|[]]; apply H; assumption.
  - intros H.
    assert (H' : forall o, In o os -> pass_cond g v imp false ss [o]).
    { intros o Hin. apply (passes_iff g v imp false ss [o]); [exact Hs|discriminate|]. apply H; exact Hin. }
    destruct v; try congruence; cbn [pass_cond] in *; unfold edge_cond in *;
      intros s o Hs' Ho'; apply (H' o Ho' s o Hs'); left; reflexivity.
Qed.

End ExpansionProofs.
