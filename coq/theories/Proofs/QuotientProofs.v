(* QuotientProofs.v — C09, second sentence: a strict rule whose named modules lie at or above
   the level limit (parents of 'sub modules of' strictly above it) has the same verdict on the
   flattened and on the full architecture.

   Route: both graphs are strict for the rule, so by RuleProofs.strict_verdict both verdicts
   are the documented semantics (SpecRule.spec_holds); the documented semantics only look at
   whether an import lies in D(S) x D(O) or in D(S) x "something else", and truncation neither
   moves a module into nor out of the subtree of a name above the limit.

   One hypothesis is needed beyond the property's wording: no import goes from a module to one
   of its own descendants (no_down_import).  Truncation turns such an import parent -> deep
   descendant into a parent -> direct child pair, which the graph backend cannot tell from the
   hierarchy edge (GraphProofs.quotient_imps carries the same side condition).  In a scanned
   project importers are files, so this needs a file and a directory of the same name. *)
From Coq Require Import List Bool Arith Lia NArith.
From PTA Require Import Names Graph Search Rule SpecRule SpecLines NamesProofs SearchProofs RuleProofs GraphProofs.
Import ListNotations.

Section QuotientProofs.
Context {comp : Type} (ceqb : comp -> comp -> bool).
Hypothesis ceqb_spec : forall x y, reflect (x = y) (ceqb x y).
Variable rmatch : N -> list comp -> bool.
Notation name := (list comp).
Notation graph := (@graph comp).
Notation filt := (@filt comp).
Notation prefixb := (prefixb ceqb).
Notation name_eqb := (name_eqb ceqb).
Notation related := (related ceqb).
Notation inD := (inD ceqb).
Notation childb := (childb ceqb).
Notation sp_edge := (sp_edge ceqb).
Notation sp_other := (sp_other ceqb).
Notation is_other := (is_other ceqb).
Notation inside := (inside ceqb).

Variable k : nat.
Notation fl := (flatten (Some k)).

(* "at or above level k; parents of 'sub modules of' strictly above" *)
Definition above (f : filt) : Prop :=
  length (fid f) + (if fparent f then 1 else 0) <= S k.

Lemma fl_prefix (n : name) : prefixb (fl n) n = true.
Proof. apply (flatten_prefix ceqb ceqb_spec). Qed.

Lemma fl_length (n : name) : length (fl n) = Nat.min (S k) (length n).
Proof. unfold flatten. apply firstn_length. Qed.

(* a short name that is a prefix of n is a prefix of the truncated n *)
Lemma prefix_fl (a n : name) : length a <= S k -> prefixb a n = true -> prefixb a (fl n) = true.
Proof.
  intros Hl H. apply (prefixb_spec ceqb ceqb_spec) in H. destruct H as [c ->].
  apply (prefixb_spec ceqb ceqb_spec). unfold flatten. rewrite firstn_app.
  rewrite (firstn_all2 a) by lia. eauto.
Qed.

Lemma prefix_fl_iff (a n : name) : length a <= S k -> prefixb a (fl n) = prefixb a n.
Proof.
  intros Hl. destruct (prefixb a n) eqn:E.
  - apply prefix_fl; assumption.
  - destruct (prefixb a (fl n)) eqn:E'; [|reflexivity].
    rewrite (prefixb_trans ceqb ceqb_spec _ _ _ E' (fl_prefix n)) in E. discriminate.
Qed.

Lemma fl_short (n : name) : length n <= S k -> fl n = n.
Proof. intros H. unfold flatten. apply firstn_all2. exact H. Qed.

(* truncation preserves membership in what a filter above the limit denotes, both ways *)
Lemma inD_fl (f : filt) (m : name) : above f -> inD f (fl m) = inD f m.
Proof.
  unfold above. intros Ha. unfold Search.inD.
  destruct f as [n|n]; cbn [fid fparent] in *.
  - rewrite prefix_fl_iff by lia. reflexivity.
  - rewrite prefix_fl_iff by lia. cbn [andb].
    destruct (prefixb n m) eqn:Hp; [|reflexivity]. cbn [andb]. f_equal.
    destruct (name_eqb_spec ceqb ceqb_spec n (fl m)) as [E|E], (name_eqb_spec ceqb ceqb_spec n m) as [E'|E']; try reflexivity.
    + (* n = fl m but n <> m: impossible because |n| <= k < S k *)
      exfalso. assert (Hl : length (fl m) = length n) by (rewrite <- E; reflexivity).
      rewrite fl_length in Hl. apply E'. rewrite E. apply fl_short. lia.
    + exfalso. apply E. subst m. symmetry. apply fl_short. lia.
Qed.

Lemma inside_fl imp (f : filt) (m : name) : above f -> inside imp f (fl m) = inside imp f m.
Proof.
  intros Ha. unfold SpecRule.inside. destruct imp; [|apply inD_fl; exact Ha].
  apply prefix_fl_iff. unfold above in Ha. lia.
Qed.

Lemma forallb_ext_in {X} (p q : X -> bool) l : (forall x, In x l -> p x = q x) -> forallb p l = forallb q l.
Proof. induction l as [|x l IH]; simpl; intros H; [reflexivity|]. rewrite H, IH; auto. Qed.

Lemma is_other_fl imp (S : filt) (Os : list filt) (s t : name) :
  above S -> (forall O, In O Os -> above O) ->
  is_other imp S Os (fl s, fl t) = is_other imp S Os (s, t).
Proof.
  intros HS HO. unfold SpecRule.is_other. cbn [fst snd].
  rewrite inD_fl, inside_fl by assumption. f_equal.
  apply forallb_ext_in. intros O Hin. rewrite inD_fl by (apply HO; exact Hin). reflexivity.
Qed.

Lemma orient_fl imp (x y : name) :
  orient imp (fl x, fl y) = (fl (fst (orient imp (x, y))), fl (snd (orient imp (x, y)))).
Proof. destruct imp; reflexivity. Qed.

(* two names with a common descendant-or-self are related *)
Lemma common_below_related (a b m : name) : prefixb a m = true -> prefixb b m = true -> related a b = true.
Proof.
  intros Ha Hb. unfold Names.related.
  destruct (prefixb_comparable ceqb ceqb_spec _ _ _ Ha Hb) as [H|H]; rewrite H; [reflexivity|apply orb_true_r].
Qed.

Variables (mods : list name) (imports : list (name * name)).
Notation gF := (build_graph ceqb mods imports None).
Notation gL := (build_graph ceqb mods imports (Some k)).

Hypothesis no_down_import : forall x y, In (x, y) imports -> prefixb x y = false.

Lemma wf_build lim : wf_graph (build_graph ceqb mods imports lim).
Proof.
  intros a b H. apply (in_build_imps ceqb ceqb_spec) in H.
  destruct H as [x [y [_ [_ [_ [_ [_ [_ [Ha [Hb _]]]]]]]]]]. cbn [nodes build_graph]. auto.
Qed.

Lemma gF_imports x y : In (x, y) (imps gF) -> In (x, y) imports.
Proof. intros H. apply (in_build_imps_nolimit ceqb ceqb_spec) in H. tauto. Qed.

(* an import of the full graph survives truncation as soon as its truncated ends differ and are no hierarchy pair *)
Lemma to_gL x y : In (x, y) (imps gF) -> fl x <> fl y -> childb (fl x) (fl y) = false -> In (fl x, fl y) (imps gL).
Proof.
  intros H Hne Hc. apply (quotient_imps ceqb ceqb_spec k mods imports).
  exists x, y. auto.
Qed.

Lemma from_gL a b : In (a, b) (imps gL) -> exists x y, In (x, y) (imps gF) /\ a = fl x /\ b = fl y.
Proof.
  intros H. apply (quotient_imps ceqb ceqb_spec k mods imports) in H.
  destruct H as [x [y [H [-> [-> _]]]]]. eauto.
Qed.

(* ---- edge requirement ---- *)
Lemma sp_edge_quotient imp (S O : filt) :
  above S -> above O -> related (fid S) (fid O) = false ->
  sp_edge gL imp S O = sp_edge gF imp S O.
Proof.
  intros HS HO Hun. unfold SpecRule.sp_edge.
  destruct (existsb _ (imps gF)) eqn:EF.
  - apply existsb_exists in EF. destruct EF as [[x y] [Hin Hp]]. apply existsb_exists.
    apply andb_true_iff in Hp. destruct Hp as [Hs Ho].
    assert (Hs' : prefixb (fid S) (fl (fst (orient imp (x, y)))) = true).
    { apply (inD_prefix ceqb ceqb_spec). rewrite inD_fl; assumption. }
    assert (Ho' : prefixb (fid O) (fl (snd (orient imp (x, y)))) = true).
    { apply (inD_prefix ceqb ceqb_spec). rewrite inD_fl; assumption. }
    exists (fl x, fl y). split.
    + apply to_gL; [exact Hin| |].
      * intros E. destruct imp; cbn [orient fst snd] in Hs', Ho'.
        -- rewrite E in Hs'. rewrite (common_below_related _ _ _ Hs' Ho') in Hun. discriminate.
        -- rewrite E in Ho'. rewrite (common_below_related _ _ _ Hs' Ho') in Hun. discriminate.
      * destruct (childb (fl x) (fl y)) eqn:Ec; [|reflexivity]. exfalso.
        unfold Graph.childb in Ec. apply andb_true_iff in Ec. destruct Ec as [Ec _].
        destruct imp; cbn [orient fst snd] in Hs', Ho'.
        -- pose proof (prefixb_trans ceqb ceqb_spec _ _ _ Hs' Ec) as H1.
           rewrite (common_below_related _ _ _ H1 Ho') in Hun. discriminate.
        -- pose proof (prefixb_trans ceqb ceqb_spec _ _ _ Ho' Ec) as H1.
           rewrite (common_below_related _ _ _ Hs' H1) in Hun. discriminate.
    + rewrite orient_fl. cbn [fst snd]. rewrite !inD_fl by assumption. rewrite Hs, Ho. reflexivity.
  - destruct (existsb _ (imps gL)) eqn:EL; [|reflexivity]. exfalso.
    apply existsb_exists in EL. destruct EL as [[a b] [Hin Hp]].
    destruct (from_gL a b Hin) as [x [y [HinF [-> ->]]]].
    rewrite orient_fl in Hp. cbn [fst snd] in Hp. rewrite !inD_fl in Hp by assumption.
    apply not_true_iff_false in EF. apply EF. apply existsb_exists. exists (x, y). auto.
Qed.

(* ---- "something else" requirement ---- *)
Lemma sp_other_quotient imp (S : filt) (Os : list filt) :
  above S -> (forall O, In O Os -> above O) ->
  sp_other gL imp S Os = sp_other gF imp S Os.
Proof.
  intros HS HO. unfold SpecRule.sp_other.
  destruct (existsb _ (imps gF)) eqn:EF.
  - apply existsb_exists in EF. destruct EF as [[x y] [Hin Hp]]. apply existsb_exists.
    exists (fl x, fl y). split.
    + pose proof Hp as Hp0.
      unfold SpecRule.is_other in Hp. apply andb_true_iff in Hp. destruct Hp as [Hp _].
      apply andb_true_iff in Hp. destruct Hp as [Hs Hns]. apply negb_true_iff in Hns.
      rewrite <- (inD_fl S _ HS) in Hs. rewrite <- (inside_fl imp S _ HS) in Hns.
      assert (HS' : length (fid S) <= Datatypes.S k) by (unfold above in HS; lia).
      apply to_gL; [exact Hin| |].
      * intros E. destruct imp; cbn [orient fst snd SpecRule.inside] in Hs, Hns.
        -- rewrite <- E in Hns. rewrite (inD_prefix ceqb ceqb_spec _ _ Hs) in Hns. discriminate.
        -- rewrite E in Hns. rewrite Hs in Hns. discriminate.
      * destruct (childb (fl x) (fl y)) eqn:Ec; [|reflexivity]. exfalso.
        destruct imp; cbn [orient fst snd SpecRule.inside] in Hs, Hns.
        -- unfold Graph.childb in Ec. apply andb_true_iff in Ec. destruct Ec as [Ec _].
           rewrite (prefixb_trans ceqb ceqb_spec _ _ _ (inD_prefix ceqb ceqb_spec _ _ Hs) Ec) in Hns. discriminate.
        -- (* be-imported direction: importer fl x is outside D(S), importee fl y inside, fl y = fl x ++ [c] *)
           apply (childb_spec ceqb ceqb_spec) in Ec. destruct Ec as [c Ec].
           pose proof (gF_imports _ _ Hin) as Himp. pose proof (no_down_import _ _ Himp) as Hnd.
           (* fl x is a proper prefix of fl y; if x were longer than S k then |fl x| = S k >= |fl y|, impossible *)
           assert (Hlx : length (fl x) < length (fl y)) by (rewrite Ec, app_length; simpl; lia).
           assert (Hx : fl x = x).
           { apply fl_short. rewrite !fl_length in Hlx. lia. }
           rewrite Hx in Ec.
           assert (Hxy : prefixb x y = true).
           { apply (prefixb_trans ceqb ceqb_spec _ (fl y)); [|apply fl_prefix].
             apply (prefixb_spec ceqb ceqb_spec). rewrite Ec. eauto. }
           rewrite Hxy in Hnd. discriminate.
    + rewrite orient_fl. rewrite is_other_fl by assumption.
      destruct (orient imp (x, y)) as [s t] eqn:Eo. exact Hp.
  - destruct (existsb _ (imps gL)) eqn:EL; [|reflexivity]. exfalso.
    apply existsb_exists in EL. destruct EL as [[a b] [Hin Hp]].
    destruct (from_gL a b Hin) as [x [y [HinF [-> ->]]]].
    rewrite orient_fl in Hp. rewrite is_other_fl in Hp by assumption.
    apply not_true_iff_false in EF. apply EF. apply existsb_exists. exists (x, y). split; [exact HinF|].
    destruct (orient imp (x, y)); exact Hp.
Qed.

(* ---- the documented semantics do not see the truncation ---- *)
Lemma forallb2_ext {X Y} (p q : X -> Y -> bool) (l1 : list X) (l2 : list Y) :
  (forall x y, In x l1 -> In y l2 -> p x y = q x y) ->
  forallb (fun x => forallb (p x) l2) l1 = forallb (fun x => forallb (q x) l2) l1.
Proof.
  intros H. apply forallb_ext_in. intros x Hx. apply forallb_ext_in. intros y Hy. apply H; assumption.
Qed.

Theorem spec_quotient v imp exc (Ss Os : list filt) :
  pw_unrel ceqb (map fid (Ss ++ Os)) ->
  (forall f, In f (Ss ++ Os) -> above f) ->
  spec_holds ceqb gL v imp exc Ss Os = spec_holds ceqb gF v imp exc Ss Os.
Proof.
  intros Hun Hab.
  assert (HabS : forall S, In S Ss -> above S) by (intros; apply Hab, in_or_app; auto).
  assert (HabO : forall O, In O Os -> above O) by (intros; apply Hab, in_or_app; auto).
  assert (Hrel : forall S O, In S Ss -> In O Os -> related (fid S) (fid O) = false).
  { intros S O HS HO. rewrite map_app in Hun. apply (pw_unrel_app ceqb) in Hun.
    destruct Hun as [_ [_ H]]. apply H; apply in_map; assumption. }
  assert (E1 : forallb (fun S => forallb (sp_edge gL imp S) Os) Ss = forallb (fun S => forallb (sp_edge gF imp S) Os) Ss).
  { apply forallb2_ext. intros S O HS HO. apply sp_edge_quotient; auto. }
  assert (E2 : forallb (fun S => forallb (fun O => negb (sp_edge gL imp S O)) Os) Ss
             = forallb (fun S => forallb (fun O => negb (sp_edge gF imp S O)) Os) Ss).
  { apply (forallb2_ext (fun S O => negb (sp_edge gL imp S O)) (fun S O => negb (sp_edge gF imp S O))).
    intros S O HS HO. f_equal. apply sp_edge_quotient; auto. }
  assert (E3 : forallb (fun S => sp_other gL imp S Os) Ss = forallb (fun S => sp_other gF imp S Os) Ss).
  { apply forallb_ext_in. intros S HS. apply sp_other_quotient; auto. }
  assert (E4 : forallb (fun S => negb (sp_other gL imp S Os)) Ss = forallb (fun S => negb (sp_other gF imp S Os)) Ss).
  { apply forallb_ext_in. intros S HS. f_equal. apply sp_other_quotient; auto. }
  unfold spec_holds. destruct v, exc; rewrite ?E1, ?E2, ?E3, ?E4; reflexivity.
Qed.

(* ---- strictness transfers to the flattened graph ---- *)
Lemma strict_flat (Ss Os : list filt) :
  strict ceqb gF Ss Os -> (forall f, In f (Ss ++ Os) -> above f) -> strict ceqb gL Ss Os.
Proof.
  intros [Hwf Hex Hun Hs Ho] Hab. constructor; auto.
  - apply wf_build.
  - intros f Hf. specialize (Hex f Hf). unfold Search.exists_f in *.
    apply (memb_spec ceqb ceqb_spec) in Hex. apply (memb_spec ceqb ceqb_spec).
    cbn [nodes build_graph] in *. apply (quotient_nodes ceqb ceqb_spec).
    exists (fid f). split; [exact Hex|]. symmetry. apply fl_short. specialize (Hab f Hf). unfold above in Hab. lia.
Qed.

(* C09: same verdict (pass / fail) on the flattened and on the full architecture *)
Theorem verdict_preserved v imp exc (Ss Os : list filt) :
  strict ceqb gF Ss Os -> (forall f, In f (Ss ++ Os) -> above f) ->
  (verdict ceqb rmatch gL (mk_cfg v imp exc Ss Os) = Pass <-> verdict ceqb rmatch gF (mk_cfg v imp exc Ss Os) = Pass) /\
  is_err (verdict ceqb rmatch gL (mk_cfg v imp exc Ss Os)) = false.
Proof.
  intros Hst Hab. pose proof (strict_flat Ss Os Hst Hab) as HstL.
  split; [|apply (strict_total ceqb ceqb_spec); exact HstL].
  rewrite (strict_verdict ceqb ceqb_spec rmatch gL v imp exc Ss Os HstL).
  rewrite (strict_verdict ceqb ceqb_spec rmatch gF v imp exc Ss Os Hst).
  rewrite spec_quotient by (auto; apply (st_unrel _ _ _ _ Hst)).
  destruct (spec_holds ceqb gF v imp exc Ss Os); [tauto|]. split; discriminate.
Qed.

End QuotientProofs.
