(* LabelRenameProofs.v — C14 for plot labels: the label of a module is "alias of the most
   specific aliased module + the remaining components", a statement about components only,
   hence invariant under every injective renaming of components that keeps them dot-free.
   Built on LabelProofs.label_most_specific / label_unaliased. *)
From Coq Require Import List Bool Arith Lia NArith.
From PTA Require Import Sx Names Search Label NamesProofs LabelProofs.
Import ListNotations.

(* what follows the alias: nothing for the aliased module itself, ".rest" below it *)
Definition rest_of (r : list str) : str := match r with [] => [] | _ => DOTC :: render r end.

Lemma render_app (k r : list str) : k <> [] -> r <> [] -> render (k ++ r) = render k ++ DOTC :: render r.
Proof.
  induction k as [|c k IH]; intros Hk Hr; [congruence|].
  destruct k as [|c2 k].
  - simpl app. rewrite render_cons by exact Hr. reflexivity.
  - change ((c :: c2 :: k) ++ r) with (c :: ((c2 :: k) ++ r)).
    rewrite render_cons by (simpl; discriminate). rewrite IH by (auto; discriminate).
    rewrite (render_cons c (c2 :: k)) by discriminate. rewrite <- app_assoc. reflexivity.
Qed.

Lemma skipn_app_exact {X} (a b : list X) : skipn (length a) (a ++ b) = b.
Proof. induction a; simpl; auto. Qed.

Lemma skipn_render (k r : list str) : k <> [] -> skipn (length (render k)) (render (k ++ r)) = rest_of r.
Proof.
  intros Hk. destruct r as [|c r].
  - rewrite app_nil_r. simpl. apply skipn_all.
  - rewrite render_app by (auto; discriminate). rewrite skipn_app_exact. reflexivity.
Qed.

Section Rename.
Variable f : str -> str.
Hypothesis f_inj : forall x y, f x = f y -> x = y.
Hypothesis f_nodot : forall c, no_dot c -> no_dot (f c).

Definition rn_aliases (al : list (list str * str)) : list (list str * str) :=
  map (fun ka => (map f (fst ka), snd ka)) al.

Lemma wf_map (n : list str) : wf_comps n -> wf_comps (map f n).
Proof.
  intros [Hn Hc]. split.
  - destruct n; [congruence|discriminate].
  - intros c Hin. apply in_map_iff in Hin. destruct Hin as [c0 [<- Hc0]]. apply f_nodot, Hc, Hc0.
Qed.

Lemma prefixb_map (a b : list str) : prefixb str_eqb (map f a) (map f b) = prefixb str_eqb a b.
Proof.
  revert b; induction a as [|x a IH]; intros b; [reflexivity|].
  destruct b as [|y b]; [reflexivity|]. simpl. rewrite IH. f_equal.
  destruct (str_eqb_spec (f x) (f y)) as [E|E], (str_eqb_spec x y) as [E'|E']; try reflexivity.
  - exfalso. apply E'. apply f_inj. exact E.
  - exfalso. apply E. congruence.
Qed.

(* two ancestors-or-self of m with equally many components are the same name *)
Lemma prefix_same_length (k k' m : list str) :
  prefixb str_eqb k m = true -> prefixb str_eqb k' m = true -> length k = length k' -> k = k'.
Proof.
  intros H H' Hl. apply (prefixb_spec str_eqb str_eqb_spec) in H. apply (prefixb_spec str_eqb str_eqb_spec) in H'.
  destruct H as [c ->]. destruct H' as [c' Hc'].
  assert (E : firstn (length k) (k ++ c) = firstn (length k) (k' ++ c')) by (rewrite Hc'; reflexivity).
  rewrite firstn_app, firstn_all, Nat.sub_diag in E. simpl in E. rewrite app_nil_r in E.
  rewrite Hl in E. rewrite firstn_app, firstn_all, Nat.sub_diag in E. simpl in E. rewrite app_nil_r in E. exact E.
Qed.

Lemma nodup_map_inj {X Y} (g : X -> Y) (l : list X) :
  (forall x y, g x = g y -> x = y) -> NoDup l -> NoDup (map g l).
Proof.
  intros Hg. induction l as [|x l IH]; intros Hnd; simpl; [constructor|].
  inversion Hnd as [|? ? Hn Hnd']; subst. constructor; [|apply IH; exact Hnd'].
  intros Hin. apply in_map_iff in Hin. destruct Hin as [y [Ey Hy]]. apply Hg in Ey. subst. contradiction.
Qed.

Lemma nodup_keys_unique (al : list (list str * str)) k a a' :
  NoDup (map fst al) -> In (k, a) al -> In (k, a') al -> a = a'.
Proof.
  induction al as [|[k0 a0] al IH]; intros Hnd H1 H2; [destruct H1|].
  simpl in Hnd. inversion Hnd as [|? ? Hnotin Hnd']; subst.
  destruct H1 as [E1|H1], H2 as [E2|H2].
  - congruence.
  - injection E1 as -> ->. exfalso. apply Hnotin. apply in_map_iff. exists (k, a'). auto.
  - injection E2 as -> ->. exfalso. apply Hnotin. apply in_map_iff. exists (k, a). auto.
  - apply IH; assumption.
Qed.

(* the label, stated on components: alias of the most specific aliased module + remaining components *)
Theorem label_components (al : list (list str * str)) (m : list str) k a :
  (forall ka, In ka al -> wf_comps (fst ka)) -> wf_comps m -> NoDup (map fst al) ->
  In (k, a) al -> prefixb str_eqb k m = true ->
  (forall k' a', In (k', a') al -> prefixb str_eqb k' m = true -> (length k' <= length k)%nat) ->
  label (ralias al) (render m) = a ++ rest_of (skipn (length k) m).
Proof.
  intros Hal Hm Hnd Hka Hp Hmax.
  destruct (label_most_specific al m Hal Hm) as [k1 [a1 [Hka1 [Hp1 [Hmax1 Hlab]]]]].
  { exists (k, a). auto. }
  assert (Ek : k1 = k).
  { apply (prefix_same_length k1 k m Hp1 Hp). apply Nat.le_antisymm; [apply (Hmax k1 a1) | apply (Hmax1 k a)]; assumption. }
  subst k1. rewrite (nodup_keys_unique al k a1 a Hnd Hka1 Hka) in Hlab. rewrite Hlab. f_equal.
  apply (prefixb_spec str_eqb str_eqb_spec) in Hp. destruct Hp as [r ->].
  rewrite skipn_app_exact. apply skipn_render. apply (proj1 (Hal _ Hka)).
Qed.

(* C14: under the renaming the label is the same alias followed by the renamed remaining components *)
Theorem label_rename_aliased (al : list (list str * str)) (m : list str) k a :
  (forall ka, In ka al -> wf_comps (fst ka)) -> wf_comps m -> NoDup (map fst al) ->
  In (k, a) al -> prefixb str_eqb k m = true ->
  (forall k' a', In (k', a') al -> prefixb str_eqb k' m = true -> (length k' <= length k)%nat) ->
  label (ralias al) (render m) = a ++ rest_of (skipn (length k) m) /\
  label (ralias (rn_aliases al)) (render (map f m)) = a ++ rest_of (map f (skipn (length k) m)).
Proof.
  intros Hal Hm Hnd Hka Hp Hmax. split; [apply (label_components al m k a); assumption|].
  assert (Hal' : forall ka, In ka (rn_aliases al) -> wf_comps (fst ka)).
  { intros ka Hin. apply in_map_iff in Hin. destruct Hin as [ka0 [<- Hin]]. apply wf_map, Hal, Hin. }
  assert (Hnd' : NoDup (map fst (rn_aliases al))).
  { unfold rn_aliases. rewrite map_map. cbn [fst]. rewrite <- (map_map fst (map f)).
    apply nodup_map_inj; [|exact Hnd].
    intros x. induction x as [|c x IH]; intros [|d y] E; try discriminate; [reflexivity|].
    injection E as E1 E2. f_equal; [apply f_inj; exact E1 | apply IH; exact E2]. }
  rewrite (label_components (rn_aliases al) (map f m) (map f k) a Hal' (wf_map m Hm) Hnd').
  - rewrite map_length, skipn_map. reflexivity.
  - apply in_map_iff. exists (k, a). auto.
  - rewrite prefixb_map. exact Hp.
  - intros k' a' Hin Hp'. apply in_map_iff in Hin. destruct Hin as [[k0 a0] [E Hin]]. injection E as <- <-.
    rewrite prefixb_map in Hp'. rewrite !map_length. apply (Hmax k0 a0); assumption.
Qed.

Theorem label_rename_unaliased (al : list (list str * str)) (m : list str) :
  (forall ka, In ka al -> wf_comps (fst ka)) -> wf_comps m ->
  (forall ka, In ka al -> prefixb str_eqb (fst ka) m = false) ->
  label (ralias al) (render m) = render m /\
  label (ralias (rn_aliases al)) (render (map f m)) = render (map f m).
Proof.
  intros Hal Hm Hno. split; [apply label_unaliased; assumption|].
  apply label_unaliased.
  - intros ka Hin. apply in_map_iff in Hin. destruct Hin as [ka0 [<- Hin]]. apply wf_map, Hal, Hin.
  - apply wf_map, Hm.
  - intros ka Hin. apply in_map_iff in Hin. destruct Hin as [ka0 [<- Hin]]. cbn [fst]. rewrite prefixb_map. apply Hno, Hin.
Qed.

End Rename.
