(* GraphProofs.v — what NetworkxGraph's construction computes: node set, import
   set, with and without level limit (C09), ancestor closure (C04). *)
From Coq Require Import List Bool Arith Lia NArith.
From PTA Require Import Names Graph Search NamesProofs SearchProofs.
Import ListNotations.

Section GraphProofs.
Context {comp : Type} (ceqb : comp -> comp -> bool).
Hypothesis ceqb_spec : forall x y, reflect (x = y) (ceqb x y).
Notation name := (list comp).
Notation name_eqb := (name_eqb ceqb).
Notation prefixb := (prefixb ceqb).
Notation memb := (memb ceqb).
Notation childb := (childb ceqb).
Notation graph := (@graph comp).

Lemma pair_eqb_spec (e f : name * name) : reflect (e = f) (pair_eqb ceqb e f).
Proof.
  destruct e as [a b], f as [c d]. unfold pair_eqb. cbn [fst snd].
  destruct (name_eqb_spec ceqb ceqb_spec a c), (name_eqb_spec ceqb ceqb_spec b d); constructor; congruence.
Qed.

Lemma pmemb_spec e l : pmemb ceqb e l = true <-> In e l.
Proof.
  unfold pmemb. rewrite existsb_exists. split.
  - intros [x [Hx He]]. destruct (pair_eqb_spec e x); [subst; auto|discriminate].
  - intros H. exists e. split; auto. destruct (pair_eqb_spec e e); congruence.
Qed.

Lemma in_pdedup e l : In e (pdedup ceqb l) <-> In e l.
Proof.
  induction l as [|x l IH]; simpl; [tauto|]. destruct (pmemb ceqb x l) eqn:E.
  - rewrite IH. split; [auto|]. intros [<-|H]; auto. apply pmemb_spec; auto.
  - simpl. rewrite IH. tauto.
Qed.

Lemma in_dedup n l : In n (dedup ceqb l) <-> In n l.
Proof.
  induction l as [|x l IH]; simpl; [tauto|]. destruct (Names.memb ceqb x l) eqn:E.
  - rewrite IH. split; [auto|]. intros [<-|H]; auto. apply (memb_spec ceqb ceqb_spec); auto.
  - simpl. rewrite IH. tauto.
Qed.

Lemma in_filter_map {X Y} (f : X -> option Y) l y : In y (filter_map f l) <-> exists x, In x l /\ f x = Some y.
Proof.
  induction l as [|x l IH]; simpl; [split; [intros []|intros [x [[] _]]]|].
  destruct (f x) as [y'|] eqn:E; simpl; rewrite IH; split.
  - intros [<-|[x' [H1 H2]]]; eauto.
  - intros [x' [[<-|H1] H2]]; [left; congruence|right; eauto].
  - intros [x' [H1 H2]]; eauto.
  - intros [x' [[<-|H1] H2]]; [congruence|eauto].
Qed.

(* ---- nodes ---- *)
Lemma in_add_node ns x n : In n (add_node ceqb ns x) <-> In n ns \/ n = x.
Proof.
  unfold add_node. destruct (memb x ns) eqn:E.
  - apply (memb_spec ceqb ceqb_spec) in E. split; [auto|]. intros [H| ->]; auto.
  - rewrite in_app_iff. simpl. intuition.
Qed.

Lemma in_fold_add_node xs ns n : In n (fold_left (add_node ceqb) xs ns) <-> In n ns \/ In n xs.
Proof.
  revert ns; induction xs as [|x xs IH]; intros ns; simpl; [tauto|]. rewrite IH, in_add_node. intuition.
Qed.

Definition fl (lim : option nat) : name -> name := flatten lim.
Lemma fl_none n : fl None n = n.  Proof. reflexivity. Qed.

Lemma in_add_module lim ns m n :
  In n (add_module ceqb lim ns m) <-> In n ns \/ n = fl lim m \/ exists p, In p (proper_prefixes m) /\ n = fl lim p.
Proof.
  unfold add_module. rewrite in_fold_add_node. cbn [map]. simpl. rewrite in_map_iff. unfold fl. split.
  - intros [H|[H|[p [H1 H2]]]]; eauto.
  - intros [H|[H|[p [H1 H2]]]]; eauto.
Qed.

Lemma in_fold_add_module lim mods ns n :
  In n (fold_left (add_module ceqb lim) mods ns) <->
  In n ns \/ exists m, In m mods /\ (n = fl lim m \/ exists p, In p (proper_prefixes m) /\ n = fl lim p).
Proof.
  revert ns; induction mods as [|m mods IH]; intros ns; simpl.
  - split; [auto|]. intros [H|[m [[] _]]]; auto.
  - rewrite IH, in_add_module. split.
    + intros [[H|H]|[m' [Hm H]]]; [auto|right; exists m; auto|right; exists m'; auto].
    + intros [H|[m' [[<-|Hm] H]]]; [auto|left; right; auto|right; exists m'; auto].
Qed.

Lemma in_add_importer lim ns e n :
  In n (add_importer ceqb lim ns e) <-> In n ns \/ exists p, In p (proper_prefixes (fst e)) /\ n = fl lim p.
Proof.
  unfold add_importer. rewrite in_fold_add_node, in_map_iff. unfold fl. split.
  - intros [H|[p [H1 H2]]]; eauto.
  - intros [H|[p [H1 H2]]]; eauto.
Qed.

Lemma in_fold_add_importer lim imports ns n :
  In n (fold_left (add_importer ceqb lim) imports ns) <->
  In n ns \/ exists e p, In e imports /\ In p (proper_prefixes (fst e)) /\ n = fl lim p.
Proof.
  revert ns; induction imports as [|e imports IH]; intros ns; simpl.
  - split; [auto|]. intros [H|[e [p [[] _]]]]; auto.
  - rewrite IH, in_add_importer. split.
    + intros [[H|[p H]]|[e' [p [He H]]]]; [auto|right; exists e, p; tauto|right; exists e', p; tauto].
    + intros [H|[e' [p [[<-|He] H]]]]; [auto|left; right; exists p; tauto|right; exists e', p; tauto].
Qed.

(* the node set: every module, every ancestor of a module, every ancestor of an importer - all flattened *)
Theorem in_build_nodes lim mods imports n :
  In n (build_nodes ceqb lim mods imports) <->
  (exists m, In m mods /\ (n = fl lim m \/ exists p, In p (proper_prefixes m) /\ n = fl lim p)) \/
  (exists e p, In e imports /\ In p (proper_prefixes (fst e)) /\ n = fl lim p).
Proof.
  unfold build_nodes. rewrite in_fold_add_importer, in_fold_add_module. simpl. tauto.
Qed.

(* ---- imports ---- *)
Theorem in_build_imps mods imports lim a b :
  In (a, b) (imps (build_graph ceqb mods imports lim)) <->
  exists x y, In (x, y) imports /\ a = fl lim x /\ b = fl lim y /\ a <> b /\
              In x (build_nodes ceqb None mods imports) /\ In y (build_nodes ceqb None mods imports) /\
              In a (build_nodes ceqb lim mods imports) /\ In b (build_nodes ceqb lim mods imports) /\ childb a b = false.
Proof.
  unfold build_graph. cbn [imps]. rewrite in_pdedup, in_filter_map. unfold keep_import, fl. split.
  - intros [[x y] [Hi Hk]]. cbn [fst snd] in Hk.
    destruct (memb x (build_nodes ceqb None mods imports) && memb y (build_nodes ceqb None mods imports)) eqn:Ef; cbn [negb] in Hk; [|discriminate].
    apply andb_true_iff in Ef. destruct Ef as [Hfx Hfy].
    destruct (name_eqb_spec ceqb ceqb_spec (flatten lim x) (flatten lim y)) as [E|Hne]; [discriminate|].
    destruct (memb (flatten lim x) _ && memb (flatten lim y) _ && negb (childb (flatten lim x) (flatten lim y))) eqn:Ec; [|discriminate].
    injection Hk as <- <-. apply andb_true_iff in Ec. destruct Ec as [Ec Hc]. apply andb_true_iff in Ec. destruct Ec as [Ha Hb].
    exists x, y. repeat split; auto; try (apply (memb_spec ceqb ceqb_spec); assumption). apply negb_true_iff. exact Hc.
  - intros [x [y [Hi [-> [-> [Hne [Hfx [Hfy [Ha [Hb Hc]]]]]]]]]]. exists (x, y). split; [exact Hi|]. cbn [fst snd].
    apply (memb_spec ceqb ceqb_spec) in Hfx. apply (memb_spec ceqb ceqb_spec) in Hfy. rewrite Hfx, Hfy. cbn [andb negb].
    destruct (name_eqb_spec ceqb ceqb_spec (flatten lim x) (flatten lim y)) as [E|_]; [congruence|].
    apply (memb_spec ceqb ceqb_spec) in Ha. apply (memb_spec ceqb ceqb_spec) in Hb. rewrite Ha, Hb, Hc. reflexivity.
Qed.

Theorem in_build_imps_nolimit mods imports a b :
  In (a, b) (imps (build_graph ceqb mods imports None)) <->
  In (a, b) imports /\ a <> b /\ In a (build_nodes ceqb None mods imports) /\ In b (build_nodes ceqb None mods imports) /\ childb a b = false.
Proof.
  rewrite in_build_imps. split.
  - intros [x [y [Hi [-> [-> H]]]]]. rewrite !fl_none in *. tauto.
  - intros [Hi H]. exists a, b. rewrite !fl_none. tauto.
Qed.

(* ---- proper prefixes ---- *)
Lemma in_proper_prefixes (p m : name) :
  In p (proper_prefixes m) <-> p <> [] /\ exists c, m = p ++ c /\ c <> [].
Proof.
  revert p. induction m as [|x m IH]; intros p; [simpl; split; [intros []|intros [Hp [c [Hc Hn]]]; symmetry in Hc; apply app_eq_nil in Hc; tauto]|].
  destruct m as [|y m'].
  - simpl. split; [intros []|]. intros [Hp [c [Hc Hn]]]. destruct p as [|z p]; [congruence|].
    injection Hc as -> Hc. symmetry in Hc. apply app_eq_nil in Hc. tauto.
  - change (proper_prefixes (x :: y :: m')) with ([x] :: map (cons x) (proper_prefixes (y :: m'))).
    simpl. rewrite in_map_iff. split.
    + intros [<-|[q [<- Hq]]].
      * split; [discriminate|]. exists (y :: m'). split; [reflexivity|discriminate].
      * apply IH in Hq. destruct Hq as [Hq [c [Hc Hn]]]. split; [discriminate|]. exists c. split; [|exact Hn].
        simpl. rewrite <- Hc. reflexivity.
    + intros [Hp [c [Hc Hn]]]. destruct p as [|z p]; [congruence|]. injection Hc as -> Hc.
      destruct p as [|w p'].
      * left. reflexivity.
      * right. exists (w :: p'). split; [reflexivity|]. apply IH. split; [discriminate|]. exists c. auto.
Qed.

(* without a limit the node set is closed under taking (non-empty) ancestors: the hierarchy is the name order *)
Theorem build_nodes_ancestor_closed mods imports n p :
  In n (build_nodes ceqb None mods imports) -> In p (proper_prefixes n) -> In p (build_nodes ceqb None mods imports).
Proof.
  intros Hn Hp. apply in_build_nodes in Hn. apply in_build_nodes. setoid_rewrite fl_none. setoid_rewrite fl_none in Hn.
  apply in_proper_prefixes in Hp. destruct Hp as [Hpn [c [Hc Hcn]]].
  assert (Htrans : forall m, In n (proper_prefixes m) -> In p (proper_prefixes m)).
  { intros m Hm. apply in_proper_prefixes in Hm. destruct Hm as [_ [c' [Hc' Hcn']]]. apply in_proper_prefixes.
    split; [exact Hpn|]. exists (c ++ c'). split; [rewrite Hc', Hc, <- app_assoc; reflexivity|].
    intros E. apply app_eq_nil in E. tauto. }
  destruct Hn as [[m [Hm [->|[q [Hq ->]]]]]|[e [q [He [Hq ->]]]]].
  - left. exists m. split; [exact Hm|]. right. exists p. split; [|reflexivity]. apply in_proper_prefixes. eauto.
  - left. exists m. split; [exact Hm|]. right. exists p. split; [|reflexivity]. apply Htrans. exact Hq.
  - right. exists e, p. split; [exact He|]. split; [|reflexivity]. apply Htrans. exact Hq.
Qed.

(* ---- level limit: truncation ---- *)
Lemma flatten_prefix k (n : name) : prefixb (flatten (Some k) n) n = true.
Proof. unfold flatten. apply (prefixb_spec ceqb ceqb_spec). exists (skipn (S k) n). symmetry. apply firstn_skipn. Qed.

Lemma childb_spec (a b : name) : childb a b = true <-> exists c, b = a ++ [c].
Proof.
  unfold Graph.childb. rewrite andb_true_iff, (prefixb_spec ceqb ceqb_spec), Nat.eqb_eq. split.
  - intros [[c ->] Hl]. rewrite app_length in Hl. destruct c as [|x [|y c]]; simpl in Hl; try lia. eauto.
  - intros [c ->]. split; [eauto|]. rewrite app_length. simpl. lia.
Qed.

Lemma flatten_child k (x y : name) :
  childb x y = true -> flatten (Some k) x = flatten (Some k) y \/ childb (flatten (Some k) x) (flatten (Some k) y) = true.
Proof.
  intros H. apply childb_spec in H. destruct H as [c ->]. unfold flatten.
  destruct (Nat.le_gt_cases (S k) (length x)) as [Hl|Hl].
  - left. rewrite firstn_app. replace (S k - length x)%nat with 0%nat by lia. simpl. rewrite app_nil_r. reflexivity.
  - right. rewrite (firstn_all2 x) by lia. rewrite firstn_all2 by (rewrite app_length; simpl; lia).
    apply childb_spec. eauto.
Qed.

(* C09: with a level limit the graph is the quotient of the unlimited graph under truncation *)
Theorem quotient_nodes k mods imports a :
  In a (build_nodes ceqb (Some k) mods imports) <->
  exists n, In n (build_nodes ceqb None mods imports) /\ a = flatten (Some k) n.
Proof.
  rewrite in_build_nodes. unfold fl. split.
  - intros [[m [Hm [->|[p [Hp ->]]]]]|[e [p [He [Hp ->]]]]].
    + exists m. split; [|reflexivity]. apply in_build_nodes. left. exists m. split; [exact Hm|]. left. reflexivity.
    + exists p. split; [|reflexivity]. apply in_build_nodes. left. exists m. split; [exact Hm|]. right. exists p. auto.
    + exists p. split; [|reflexivity]. apply in_build_nodes. right. exists e, p. auto.
  - intros [n [Hn ->]]. apply in_build_nodes in Hn. setoid_rewrite fl_none in Hn. fold (fl (Some k)).
    destruct Hn as [[m [Hm [->|[p [Hp ->]]]]]|[e [p [He [Hp ->]]]]].
    + left. exists m. auto.
    + left. exists m. split; [exact Hm|]. right. exists p. auto.
    + right. exists e, p. auto.
Qed.

Theorem quotient_imps k mods imports a b :
  (In (a, b) (imps (build_graph ceqb mods imports (Some k))) <->
   exists x y, In (x, y) (imps (build_graph ceqb mods imports None)) /\
               a = flatten (Some k) x /\ b = flatten (Some k) y /\ a <> b /\ childb a b = false).
Proof.
  rewrite in_build_imps. unfold fl. split.
  - intros [x [y [Hi [-> [-> [Hne [Hx [Hy [Ha [Hb Hc]]]]]]]]]]. exists x, y. split; [|auto].
    apply in_build_imps. exists x, y. rewrite !fl_none.
    repeat split; auto.
    + intros ->. apply Hne. reflexivity.
    + destruct (childb x y) eqn:Ec; [|reflexivity]. exfalso.
      destruct (flatten_child k x y Ec) as [E|E]; [apply Hne; exact E|congruence].
  - intros [x [y [Hi [-> [-> [Hne Hc]]]]]]. apply in_build_imps in Hi. setoid_rewrite fl_none in Hi.
    destruct Hi as [x' [y' [Hi [-> [-> [_ [Hx [Hy _]]]]]]]].
    exists x', y'. repeat split; auto; apply quotient_nodes; eauto.
Qed.

(* with or without a limit: the node set is closed under (non-empty) ancestors, imports are between nodes and never a hierarchy pair *)
Lemma proper_prefix_of_flatten lim (x p : name) :
  In p (proper_prefixes (fl lim x)) -> In p (proper_prefixes x) /\ fl lim p = p.
Proof.
  destruct lim as [k|]; [|rewrite fl_none; intros H; split; [exact H|apply fl_none]].
  intros H. apply in_proper_prefixes in H. destruct H as [Hp [c [Hc Hcn]]].
  pose proof (flatten_prefix k x) as Hfx. apply (prefixb_spec ceqb ceqb_spec) in Hfx. destruct Hfx as [t Ht].
  split.
  - apply in_proper_prefixes. split; [exact Hp|]. exists (c ++ t). split.
    + rewrite Ht at 1. unfold fl in Hc. rewrite Hc. rewrite <- app_assoc. reflexivity.
    + intros E. apply app_eq_nil in E. tauto.
  - unfold fl, flatten. apply firstn_all2.
    assert (Hl : length (fl (Some k) x) <= S k) by (unfold fl, flatten; rewrite firstn_length; lia).
    rewrite Hc, app_length in Hl. destruct c; [congruence|]. simpl in Hl. lia.
Qed.

Theorem build_nodes_ancestor_closed_lim lim mods imports n p :
  In n (build_nodes ceqb lim mods imports) -> In p (proper_prefixes n) -> In p (build_nodes ceqb lim mods imports).
Proof.
  intros Hn Hp. apply in_build_nodes in Hn. apply in_build_nodes.
  assert (Htrans : forall q m, In q (proper_prefixes m) -> In p (proper_prefixes q) -> In p (proper_prefixes m)).
  { intros q m Hq Hpq. apply in_proper_prefixes in Hq. destruct Hq as [_ [c' [Hc' Hcn']]].
    apply in_proper_prefixes in Hpq. destruct Hpq as [Hpn [c [Hc Hcn]]]. apply in_proper_prefixes.
    split; [exact Hpn|]. exists (c ++ c'). split; [rewrite Hc', Hc, <- app_assoc; reflexivity|].
    intros E. apply app_eq_nil in E. tauto. }
  destruct Hn as [[m [Hm [->|[q [Hq ->]]]]]|[e [q [He [Hq ->]]]]];
    apply proper_prefix_of_flatten in Hp; destruct Hp as [Hp Hfl].
  - left. exists m. split; [exact Hm|]. right. exists p. split; [exact Hp|symmetry; exact Hfl].
  - left. exists m. split; [exact Hm|]. right. exists p. split; [apply (Htrans q m Hq Hp)|symmetry; exact Hfl].
  - right. exists e, p. split; [exact He|]. split; [apply (Htrans q _ Hq Hp)|symmetry; exact Hfl].
Qed.

Theorem build_imps_between_nodes mods imports lim a b :
  In (a, b) (imps (build_graph ceqb mods imports lim)) ->
  In a (nodes (build_graph ceqb mods imports lim)) /\ In b (nodes (build_graph ceqb mods imports lim)).
Proof. intros H. apply in_build_imps in H. destruct H as [x [y [_ [_ [_ [_ [_ [_ [Ha [Hb _]]]]]]]]]]. cbn [nodes build_graph]. auto. Qed.

Theorem build_imps_no_hier mods imports lim a b :
  In (a, b) (imps (build_graph ceqb mods imports lim)) -> childb a b = false.
Proof. intros H. apply in_build_imps in H. destruct H as [x [y [_ [_ [_ [_ [_ [_ [_ [_ Hc]]]]]]]]]]. exact Hc. Qed.

End GraphProofs.
