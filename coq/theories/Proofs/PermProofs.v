(* PermProofs.v — C15: the verdict of a rule does not depend on the order (or
   duplication) in which subjects, objects, modules and imports are listed, and
   re-applying a rule object is the same as applying a fresh one. *)
From Coq Require Import List Bool Arith Lia NArith.
From PTA Require Import Names Graph Search Rule SpecRule NamesProofs SearchProofs RuleProofs AlgebraProofs ExpansionProofs.
Import ListNotations.

Section PermProofs.
Context {comp : Type} (ceqb : comp -> comp -> bool).
Hypothesis ceqb_spec : forall x y, reflect (x = y) (ceqb x y).
Variable rmatch : N -> list comp -> bool.
Notation name := (list comp).
Notation graph := (@graph comp).
Notation filt := (@filt comp).
Notation memb := (memb ceqb).
Notation V := (AlgebraProofs.V ceqb rmatch).
Notation mk := (@mk_ucfg comp).

(* same elements, order and multiplicity ignored (Python's set / dict view of a list) *)
Definition leq {X} (l l' : list X) : Prop := forall x, In x l <-> In x l'.
Definition graph_equiv (g g' : graph) : Prop := leq (nodes g) (nodes g') /\ leq (imps g) (imps g').

Lemma leq_refl {X} (l : list X) : leq l l.  Proof. intros x; tauto. Qed.
Lemma leq_sym {X} (l l' : list X) : leq l l' -> leq l' l.  Proof. intros H x; symmetry; apply H. Qed.

Lemma memb_leq n l l' : leq l l' -> memb n l = memb n l'.
Proof. intros H. apply eq_iff_eq_true. rewrite !(memb_spec ceqb ceqb_spec). apply H. Qed.

Lemma leq_filter {X} (f f' : X -> bool) l l' :
  leq l l' -> (forall x, In x l -> f x = f' x) -> leq (filter f l) (filter f' l').
Proof.
  intros H Hf x. rewrite !filter_In. split.
  - intros [Hi Hx]. split; [apply H; exact Hi|]. rewrite <- (Hf x Hi). exact Hx.
  - intros [Hi Hx]. assert (Hi' : In x l) by (apply H; exact Hi). split; [exact Hi'|]. rewrite (Hf x Hi'). exact Hx.
Qed.

Lemma leq_flat_map {X Y} (f f' : X -> list Y) l l' :
  leq l l' -> (forall x, In x l -> leq (f x) (f' x)) -> leq (flat_map f l) (flat_map f' l').
Proof.
  intros H Hf y. rewrite !in_flat_map. split.
  - intros [x [Hx Hy]]. exists x. split; [apply H; exact Hx|]. apply (Hf x Hx). exact Hy.
  - intros [x [Hx Hy]]. assert (Hx' : In x l) by (apply H; exact Hx). exists x. split; [exact Hx'|]. apply (Hf x Hx'). exact Hy.
Qed.

Lemma is_nil_leq {X} (l l' : list X) : leq l l' -> is_nil l = is_nil l'.
Proof.
  intros H. destruct l as [|x l], l' as [|y l']; try reflexivity; exfalso.
  - apply (H y). left; reflexivity.
  - apply (H x). left; reflexivity.
Qed.

Lemma forallb_leq {X} (f : X -> bool) l l' : leq l l' -> forallb f l = forallb f l'.
Proof.
  intros H. apply eq_iff_eq_true. rewrite !forallb_forall. split; intros Hf x Hx; apply Hf; apply H; exact Hx.
Qed.

Lemma desc_incl_leq g g' n : graph_equiv g g' -> leq (desc_incl ceqb g n) (desc_incl ceqb g' n).
Proof. intros [Hn _]. unfold desc_incl. apply leq_filter; [exact Hn|reflexivity]. Qed.

Lemma exists_f_equiv g g' f : graph_equiv g g' -> exists_f ceqb g f = exists_f ceqb g' f.
Proof. intros [Hn _]. unfold exists_f. apply memb_leq. exact Hn. Qed.

Lemma in_remove_parent_ids x (us : list filt) e :
  In x (remove_parent_ids ceqb us e) <-> In x e /\ forall u, In u us -> fparent u = true -> x <> fid u.
Proof. apply (fold_remove_in ceqb ceqb_spec). Qed.

Lemma remove_parent_ids_leq us us' e e' :
  leq us us' -> leq e e' -> leq (remove_parent_ids ceqb us e) (remove_parent_ids ceqb us' e').
Proof.
  intros Hu He x. rewrite !in_remove_parent_ids. split; intros [Hi Hr]; (split; [apply He; exact Hi|]);
    intros u Hu' Hp; apply Hr; auto; apply Hu; exact Hu'.
Qed.

Lemma excl_base_leq g g' self others others' :
  graph_equiv g g' -> leq others others' -> leq (excl_base ceqb g self others) (excl_base ceqb g' self others').
Proof.
  intros Hg Ho. unfold excl_base. apply leq_flat_map; [exact Ho|].
  intros o _. destruct (filt_eqb ceqb o self); [apply leq_refl|apply desc_incl_leq; exact Hg].
Qed.

Lemma others_exist_equiv g g' self others others' :
  graph_equiv g g' -> leq others others' -> others_exist ceqb g self others = others_exist ceqb g' self others'.
Proof.
  intros Hg Ho. unfold others_exist. rewrite (forallb_leq _ others others' Ho).
  apply eq_iff_eq_true. rewrite !forallb_forall. split; intros H o Hin; specialize (H o Hin);
    [rewrite <- (exists_f_equiv g g' o Hg)|rewrite (exists_f_equiv g g' o Hg)]; exact H.
Qed.

(* ---- the three queries: same Ok/error, same set of reported imports ---- *)
Definition res_equiv (r r' : res (list (name * name))) : Prop :=
  match r, r' with
  | Ok l, Ok l' => leq l l'
  | Er _, Er _ => True
  | _, _ => False
  end.

Lemma q_between_equiv g g' d u : graph_equiv g g' -> res_equiv (q_between ceqb g d u) (q_between ceqb g' d u).
Proof.
  intros Hg. unfold q_between. rewrite <- !(exists_f_equiv g g' _ Hg).
  destruct (exists_f ceqb g u && exists_f ceqb g d); [|exact I]. cbn. apply leq_filter; [apply Hg|].
  intros e _. rewrite !(memb_leq _ _ _ (desc_incl_leq g g' _ Hg)). reflexivity.
Qed.

Lemma leq_cons {X} (x : X) l l' : leq l l' -> leq (x :: l) (x :: l').
Proof. intros H y. simpl. rewrite (H y). tauto. Qed.

Lemma q_other_out_equiv g g' d us us' :
  graph_equiv g g' -> leq us us' -> res_equiv (q_other_out ceqb g d us) (q_other_out ceqb g' d us').
Proof.
  intros Hg Hu. unfold q_other_out. rewrite <- (others_exist_equiv g g' d us us' Hg Hu), <- (exists_f_equiv g g' d Hg).
  destruct (others_exist ceqb g d us && exists_f ceqb g d); [|exact I]. cbn. apply leq_filter; [apply Hg|].
  intros e _.
  assert (Hex : leq (excl_out ceqb g d us) (excl_out ceqb g' d us')).
  { unfold excl_out. apply remove_parent_ids_leq.
    - apply leq_filter; [exact Hu|reflexivity].
    - pose proof (excl_base_leq g g' d us us' Hg Hu) as Hb. destruct (fparent d); [apply leq_cons|]; exact Hb. }
  rewrite !(memb_leq _ _ _ Hex), !(memb_leq _ _ _ (desc_incl_leq g g' _ Hg)). reflexivity.
Qed.

Lemma removeb_leq n l l' : leq l l' -> leq (removeb ceqb n l) (removeb ceqb n l').
Proof. intros H. unfold removeb. apply leq_filter; [exact H|reflexivity]. Qed.

Lemma q_other_in_equiv g g' ds ds' u :
  graph_equiv g g' -> leq ds ds' -> res_equiv (q_other_in ceqb g ds u) (q_other_in ceqb g' ds' u).
Proof.
  intros Hg Hd. unfold q_other_in. rewrite <- (others_exist_equiv g g' u ds ds' Hg Hd), <- (exists_f_equiv g g' u Hg).
  destruct (others_exist ceqb g u ds && exists_f ceqb g u); [|exact I]. cbn. apply leq_filter; [apply Hg|].
  intros e _.
  assert (Hnf : leq (if fparent u then removeb ceqb (fid u) (desc_incl ceqb g (fid u)) else desc_incl ceqb g (fid u))
                    (if fparent u then removeb ceqb (fid u) (desc_incl ceqb g' (fid u)) else desc_incl ceqb g' (fid u))).
  { destruct (fparent u); [apply removeb_leq|]; apply desc_incl_leq; exact Hg. }
  assert (Hex : leq (remove_parent_ids ceqb ds (excl_base ceqb g u ds)) (remove_parent_ids ceqb ds' (excl_base ceqb g' u ds'))).
  { apply remove_parent_ids_leq; [exact Hd|apply excl_base_leq; assumption]. }
  rewrite !(memb_leq _ _ _ Hnf), !(memb_leq _ _ _ Hex). reflexivity.
Qed.

Lemma res_equiv_cond (r r' : res (list (name * name))) (want : bool) :
  res_equiv r r' ->
  ((exists l, r = Ok l /\ (if want then negb (is_nil l) else is_nil l) = true) <->
   (exists l, r' = Ok l /\ (if want then negb (is_nil l) else is_nil l) = true)).
Proof.
  destruct r as [l|e], r' as [l'|e']; cbn; intros H; try contradiction.
  - split; intros [x [[= <-] Hx]].
    + exists l'. split; [reflexivity|]. rewrite <- (is_nil_leq l l' H). exact Hx.
    + exists l. split; [reflexivity|]. rewrite (is_nil_leq l l' H). exact Hx.
  - split; intros [x [Hx _]]; discriminate.
Qed.

Lemma res_equiv_ok (r r' : res (list (name * name))) :
  res_equiv r r' -> ((exists l, r = Ok l) <-> (exists l, r' = Ok l)).
Proof.
  destruct r as [l|e], r' as [l'|e']; cbn; intros H; try contradiction; split; intros [x Hx]; eauto; discriminate.
Qed.

(* ---- passing is independent of listing order / duplication ---- *)
Theorem pass_cond_equiv g g' v imp exc ss ss' os os' :
  graph_equiv g g' -> leq ss ss' -> leq os os' ->
  (pass_cond ceqb g v imp exc ss os <-> pass_cond ceqb g' v imp exc ss' os').
Proof.
  intros Hg Hs Ho.
  assert (HE : forall want, edge_cond ceqb g imp want ss os <-> edge_cond ceqb g' imp want ss' os').
  { intros want. unfold edge_cond. split; intros H s o Hs' Ho'.
    - apply (res_equiv_cond (qb ceqb g imp s o) (qb ceqb g' imp s o)).
      + unfold qb. destruct imp; apply q_between_equiv; exact Hg.
      + apply H; [apply Hs|apply Ho]; assumption.
    - apply (res_equiv_cond (qb ceqb g imp s o) (qb ceqb g' imp s o)).
      + unfold qb. destruct imp; apply q_between_equiv; exact Hg.
      + apply H; [apply Hs|apply Ho]; assumption. }
  assert (HO : forall want, other_cond ceqb g imp want ss os <-> other_cond ceqb g' imp want ss' os').
  { intros want. unfold other_cond. split; intros H s Hs'.
    - apply (res_equiv_cond (qo ceqb g imp os s) (qo ceqb g' imp os' s)).
      + unfold qo. destruct imp; [apply q_other_out_equiv|apply q_other_in_equiv]; assumption.
      + apply H. apply Hs. exact Hs'.
    - apply (res_equiv_cond (qo ceqb g imp os s) (qo ceqb g' imp os' s)).
      + unfold qo. destruct imp; [apply q_other_out_equiv|apply q_other_in_equiv]; assumption.
      + apply H. apply Hs. exact Hs'. }
  destruct v, exc; cbn [pass_cond]; rewrite ?HE, ?HO; reflexivity.
Qed.

Lemma leq_nonempty {X} (l l' : list X) : leq l l' -> l <> [] -> l' <> [].
Proof. intros H Hn E. destruct l as [|x l]; [congruence|]. rewrite E in H. apply (H x). left; reflexivity. Qed.

Theorem passes_order_independent g g' v imp exc (ss ss' os os' : list filt) :
  graph_equiv g g' -> leq ss ss' -> leq os os' -> ss <> [] -> os <> [] ->
  (passes (V g (mk v imp exc (map (@to_u comp) ss) (map (@to_u comp) os))) <->
   passes (V g' (mk v imp exc (map (@to_u comp) ss') (map (@to_u comp) os')))).
Proof.
  intros Hg Hs Ho Hns Hno.
  rewrite (passes_iff ceqb ceqb_spec rmatch g v imp exc ss os Hns Hno).
  rewrite (passes_iff ceqb ceqb_spec rmatch g' v imp exc ss' os' (leq_nonempty _ _ Hs Hns) (leq_nonempty _ _ Ho Hno)).
  apply pass_cond_equiv; assumption.
Qed.

(* ---- re-applying a rule object ---- *)
Lemma fst_assert_applies g (c : @cfg comp) : fst (assert_applies ceqb rmatch g c) = c.
Proof.
  unfold assert_applies. destruct (c_any c && (c_should c || c_only c)); [reflexivity|].
  destruct (negb (required_present _)); [reflexivity|]. destruct (negb (behavior_consistent _)); [reflexivity|].
  destruct (c_any c && removed_unknown ceqb g _); reflexivity.
Qed.

(* the configuration a rule object is left with after an evaluation evaluates like the original one,
   on every architecture: rule objects can be re-applied, and applied to several architectures *)
Theorem reapply_same g g' (c : @cfg comp) :
  snd (assert_applies ceqb rmatch g' (fst (assert_applies ceqb rmatch g c))) = snd (assert_applies ceqb rmatch g' c).
Proof. rewrite fst_assert_applies. reflexivity. Qed.

End PermProofs.
