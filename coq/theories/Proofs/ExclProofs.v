(* ExclProofs.v — C08, tree part, second half: with an exclusion predicate every import between two
   remaining modules is exactly as in the scan without it.

   Two hypotheses beyond the property's wording, both about how an import NAME is read:
   - [k2free]: no remaining file imports, through a 'from P import n' form (absolute or relative), a sub module
     P.n that is excluded while P remains (known finding K2: C02 then demands the edge to P, which the
     unfiltered scan does not have - Props/C08.v, C08_from_import_refuted);
   - [unambR]: no absolute import name, read relative to module_path's parent, names a module of the
     unfiltered sub-tree (the ambiguous names of DESIGN 11.4; void when module_path = root_path).
   Externals excluded (the default); module_path itself not excluded. *)
From Coq Require Import List Bool Arith Lia NArith.
From PTA Require Import Names Graph Search Scan NamesProofs SearchProofs GraphProofs ScanProofs SubscanProofs.
Import ListNotations.

Section ExclProofs.
Context {comp : Type} (ceqb : comp -> comp -> bool).
Hypothesis ceqb_spec : forall x y, reflect (x = y) (ceqb x y).
Notation name := (list comp).
Notation prefixb := (prefixb ceqb).
Notation memb := (memb ceqb).
Notation fsnode := (@fsnode comp).
Notation stmt := (@stmt comp).
Notation walk := (@walk comp).

(* ---- parsed files of a walk, by relative path ---- *)
Fixpoint file_paths (n : fsnode) : list (name * list stmt) :=
  match n with
  | FFile nm py body => if py then [([nm], body)] else []
  | FDir nm cs => map (fun pb => (nm :: fst pb, snd pb)) (flat_map file_paths cs)
  end.

Theorem walk_files_char excl root (n : fsnode) : forall path u body,
  In (u, body) (snd (walk excl root path n)) <->
  exists p, In (p, body) (file_paths n) /\ u = root :: path ++ p /\ not_excluded_below excl path p.
Proof.
  induction n as [nm py body0|nm cs IH] using fsnode_ind'; intros path u body; cbn [Scan.walk file_paths].
  - destruct py; cbn [andb].
    + destruct (excl (path ++ [nm])) eqn:E; cbn [negb snd].
      * split; [intros []|]. intros [p [[Hp|[]] [-> Hn]]]. injection Hp as <- _.
        specialize (Hn [nm] [] (eq_sym (app_nil_r _))). rewrite Hn in E; [discriminate|discriminate].
      * split.
        -- intros [H|[]]. injection H as <- <-. exists [nm]. split; [left; reflexivity|]. split; [reflexivity|].
           intros q r Hq Hne. destruct q as [|x q]; [congruence|]. injection Hq as <- Hq.
           symmetry in Hq. apply app_eq_nil in Hq. destruct Hq as [-> _]. exact E.
        -- intros [p [[Hp|[]] [-> _]]]. injection Hp as <- <-. left; reflexivity.
    + cbn [snd]. split; [intros []|]. intros [p [[] _]].
  - destruct (excl (path ++ [nm])) eqn:E; cbn [snd].
    + split; [intros []|]. intros [p [Hp [-> Hn]]]. exfalso.
      apply in_map_iff in Hp. destruct Hp as [[q b] [Hq _]]. cbn [fst snd] in Hq. injection Hq as <- _.
      specialize (Hn [nm] q eq_refl). rewrite Hn in E; [discriminate|discriminate].
    + split.
      * intros Hm. apply in_flat_map in Hm. destruct Hm as [fr [Hfr Hm]]. apply in_map_iff in Hfr. destruct Hfr as [c [<- Hc]].
        rewrite Forall_forall in IH. apply (IH c Hc) in Hm. destruct Hm as [p [Hp [-> Hn]]].
        exists (nm :: p). split.
        -- apply in_map_iff. exists (p, body). split; [reflexivity|]. apply in_flat_map. eauto.
        -- split; [rewrite <- app_assoc; reflexivity|].
           intros q r Hq Hne. destruct q as [|x q]; [congruence|]. injection Hq as <- Hq.
           destruct q as [|y q'].
           ++ exact E.
           ++ specialize (Hn (y :: q') r Hq). rewrite <- app_assoc in Hn. apply Hn. discriminate.
      * intros [p [Hp [-> Hn]]].
        apply in_map_iff in Hp. destruct Hp as [[q b] [Hq Hin]]. cbn [fst snd] in Hq. injection Hq as <- ->.
        apply in_flat_map in Hin. destruct Hin as [c [Hc Hin]].
        apply in_flat_map. exists (walk excl root (path ++ [nm]) c). split; [apply in_map; exact Hc|].
        rewrite Forall_forall in IH. apply (IH c Hc). exists q. split; [exact Hin|]. split.
        -- rewrite <- app_assoc. reflexivity.
        -- intros q' r Hq' Hne. specialize (Hn (nm :: q') r). rewrite <- app_assoc. apply Hn; [rewrite Hq'; reflexivity|discriminate].
Qed.

Definition none : name -> bool := fun _ => false.

Lemma not_excluded_none path p : not_excluded_below none path p.
Proof. intros q r _ _. reflexivity. Qed.

(* every module / parsed file of the filtered walk is one of the unfiltered walk; a parsed file of the unfiltered walk
   whose module remains is parsed by the filtered walk *)
Lemma walk_modules_mono excl root n path m : In m (fst (walk excl root path n)) -> In m (fst (walk none root path n)).
Proof.
  intros H. apply walk_modules in H. destruct H as [p [Hp [-> _]]]. apply walk_modules. exists p.
  split; [exact Hp|]. split; [reflexivity|apply not_excluded_none].
Qed.

Lemma walk_files_mono excl root n path u body :
  In (u, body) (snd (walk excl root path n)) -> In (u, body) (snd (walk none root path n)).
Proof.
  intros H. apply walk_files_char in H. destruct H as [p [Hp [-> _]]]. apply walk_files_char. exists p.
  split; [exact Hp|]. split; [reflexivity|apply not_excluded_none].
Qed.

Lemma walk_files_back excl root n path u body :
  In (u, body) (snd (walk none root path n)) -> In u (fst (walk excl root path n)) ->
  In (u, body) (snd (walk excl root path n)).
Proof.
  intros Hf Hm. apply walk_files_char in Hf. destruct Hf as [p [Hp [-> _]]].
  apply walk_modules in Hm. destruct Hm as [p' [_ [E Hn]]]. injection E as E. apply app_inv_head in E. subst p'.
  apply walk_files_char. exists p. auto.
Qed.

(* ---- import resolution under a "remaining" predicate ---- *)
Section Resolve.
Variables (IS IR : list name) (keep : name -> bool) (ap : option name).
Hypothesis IS_spec : forall x, memb x IS = memb x IR && keep x.

(* no 'from P import n' whose P.n is a module that does not remain while P remains *)
Definition k2 (t : name) (names : list comp) : Prop :=
  forall nm, In nm names -> memb (t ++ [nm]) IR = true -> keep (t ++ [nm]) = false -> keep t = false.

Definition k2free (u : name) (s : stmt) : Prop :=
  match s with
  | SFrom O (Some P) names => k2 P names
  | SFrom (S l) (Some P) names => k2 (firstn (length u - S l) u ++ P) names
  | _ => True
  end.

(* absolute names are fully qualified only: prefixed with module_path's parent they name nothing in the unfiltered sub-tree *)
Definition unambR (s : stmt) : Prop :=
  match ap with
  | None => True
  | Some p =>
    match s with
    | SImport names => forall n, In n names -> memb (p ++ n) IR = false
    | SFrom O (Some P) names => memb (p ++ P) IR = false /\ forall nm, In nm names -> memb (p ++ P ++ [nm]) IR = false
    | _ => True
    end
  end.

Lemma IS_sub x : memb x IR = false -> memb x IS = false.
Proof. intros H. rewrite IS_spec, H. reflexivity. Qed.

Lemma adjust_id (I : list name) n : (forall p, ap = Some p -> memb (p ++ n) I = false) -> adjust ceqb I ap n = n.
Proof. intros H. unfold adjust. destruct ap as [p|]; [|reflexivity]. rewrite (H p eq_refl). reflexivity. Qed.

Definition restrictK (l : list (name * name)) : list (name * name) := filter (fun e => keep (snd e)) l.

Lemma chooseK (t : name) nm :
  (memb (t ++ [nm]) IR = true -> keep (t ++ [nm]) = false -> keep t = false) ->
  let tS := if memb (t ++ [nm]) IS then t ++ [nm] else t in
  let tR := if memb (t ++ [nm]) IR then t ++ [nm] else t in
  keep tS = keep tR /\ (keep tS = true -> tS = tR).
Proof.
  intros Hk. cbv zeta. rewrite IS_spec. destruct (memb (t ++ [nm]) IR) eqn:ER, (keep (t ++ [nm])) eqn:EK; cbn [andb]; cbv iota; rewrite ?EK.
  - split; [reflexivity|auto].
  - rewrite (Hk eq_refl eq_refl). split; [reflexivity|discriminate].
  - split; [reflexivity|auto].
  - split; [reflexivity|auto].
Qed.

Lemma restrictK_map_equiv {X} (fS fR : X -> name) (u : name) (l : list X) :
  (forall x, In x l -> keep (fS x) = keep (fR x) /\ (keep (fS x) = true -> fS x = fR x)) ->
  restrictK (map (fun x => (u, fS x)) l) = restrictK (map (fun x => (u, fR x)) l).
Proof.
  induction l as [|x l IH]; intros H; [reflexivity|]. cbn [map restrictK filter snd].
  destruct (H x (or_introl eq_refl)) as [E1 E2].
  fold (restrictK (map (fun x0 => (u, fS x0)) l)). fold (restrictK (map (fun x0 => (u, fR x0)) l)).
  rewrite IH by (intros y Hy; apply H; right; exact Hy).
  rewrite <- E1. destruct (keep (fS x)) eqn:E; [rewrite (E2 eq_refl); reflexivity|reflexivity].
Qed.

Lemma resolveK_equiv (u : name) (s : stmt) :
  k2free u s -> unambR s ->
  restrictK (edges_of (resolve_stmt ceqb IS ap u s)) = restrictK (edges_of (resolve_stmt ceqb IR ap u s)).
Proof.
  intros Hk Hu. destruct s as [names|lvl md names|cs|]; cbn [resolve_stmt]; try reflexivity.
  - unfold edges_of. rewrite !map_map. cbn [i_importer i_importee].
    apply (restrictK_map_equiv (fun n => adjust ceqb IS ap n) (fun n => adjust ceqb IR ap n) u names).
    intros n Hn.
    assert (HR : forall p, ap = Some p -> memb (p ++ n) IR = false).
    { intros p Hp. unfold unambR in Hu. rewrite Hp in Hu. apply Hu. exact Hn. }
    rewrite (adjust_id IR n HR), (adjust_id IS n (fun p Hp => IS_sub _ (HR p Hp))). auto.
  - destruct lvl as [|l].
    + destruct md as [P|]; [|reflexivity]. cbn [k2free] in Hk.
      unfold edges_of. rewrite !map_map. cbn [i_importer i_importee].
      apply (restrictK_map_equiv
               (fun nm => if memb (adjust ceqb IS ap (P ++ [nm])) IS then adjust ceqb IS ap (P ++ [nm]) else adjust ceqb IS ap P)
               (fun nm => if memb (adjust ceqb IR ap (P ++ [nm])) IR then adjust ceqb IR ap (P ++ [nm]) else adjust ceqb IR ap P) u names).
      intros nm Hin.
      assert (HRP : forall p, ap = Some p -> memb (p ++ P) IR = false).
      { intros p Hp. unfold unambR in Hu. rewrite Hp in Hu. apply Hu. }
      assert (HRn : forall p, ap = Some p -> memb (p ++ P ++ [nm]) IR = false).
      { intros p Hp. unfold unambR in Hu. rewrite Hp in Hu. apply Hu. exact Hin. }
      rewrite (adjust_id IR _ HRP), (adjust_id IS _ (fun p Hp => IS_sub _ (HRP p Hp))).
      rewrite (adjust_id IR _ HRn), (adjust_id IS _ (fun p Hp => IS_sub _ (HRn p Hp))).
      apply (chooseK P nm). apply Hk. exact Hin.
    + unfold edges_of. rewrite !map_map.
      destruct md as [P|].
      * cbn [k2free] in Hk. set (t := firstn (length u - S l) u ++ P) in *.
        match goal with |- restrictK (map ?f names) = restrictK (map ?g names) =>
          rewrite (map_ext f (fun nm => (u, if memb (t ++ [nm]) IS then t ++ [nm] else t)))
            by (intros nm; destruct (memb (t ++ [nm]) IS); reflexivity);
          rewrite (map_ext g (fun nm => (u, if memb (t ++ [nm]) IR then t ++ [nm] else t)))
            by (intros nm; destruct (memb (t ++ [nm]) IR); reflexivity)
        end.
        apply (restrictK_map_equiv (fun nm => if memb (t ++ [nm]) IS then t ++ [nm] else t)
                                   (fun nm => if memb (t ++ [nm]) IR then t ++ [nm] else t) u names).
        intros nm Hin. apply (chooseK t nm). apply Hk. exact Hin.
      * reflexivity.
Qed.

End Resolve.


(* ---- lists of directory entries ---- *)
Lemma W_char (excl : name -> bool) (root : comp) (cs : list fsnode) (pre : name) m :
  In m (W excl root cs pre) <->
  exists p, In (p, true) (flat_map node_paths cs) /\ m = root :: pre ++ p /\ not_excluded_below excl pre p.
Proof.
  unfold W. rewrite in_flat_map. split.
  - intros [fr [Hfr Hm]]. apply in_map_iff in Hfr. destruct Hfr as [n [<- Hn]]. apply walk_modules in Hm.
    destruct Hm as [p [Hp H]]. exists p. split; [apply in_flat_map; eauto|exact H].
  - intros [p [Hp H]]. apply in_flat_map in Hp. destruct Hp as [n [Hn Hp]].
    exists (walk excl root pre n). split; [apply in_map; exact Hn|]. apply walk_modules. eauto.
Qed.

Lemma F_char (excl : name -> bool) (root : comp) (cs : list fsnode) (pre : name) u body :
  In (u, body) (F excl root cs pre) <->
  exists p, In (p, body) (flat_map file_paths cs) /\ u = root :: pre ++ p /\ not_excluded_below excl pre p.
Proof.
  unfold F. rewrite in_flat_map. split.
  - intros [fr [Hfr Hm]]. apply in_map_iff in Hfr. destruct Hfr as [n [<- Hn]]. apply walk_files_char in Hm.
    destruct Hm as [p [Hp H]]. exists p. split; [apply in_flat_map; eauto|exact H].
  - intros [p [Hp H]]. apply in_flat_map in Hp. destruct Hp as [n [Hn Hp]].
    exists (walk excl root pre n). split; [apply in_map; exact Hn|]. apply walk_files_char. eauto.
Qed.

Lemma W_mono (excl : name -> bool) (root : comp) (cs : list fsnode) (pre : name) m : In m (W excl root cs pre) -> In m (W none root cs pre).
Proof. rewrite !W_char. intros [p [Hp [E _]]]. exists p. split; [exact Hp|]. split; [exact E|apply not_excluded_none]. Qed.

Lemma F_mono (excl : name -> bool) (root : comp) (cs : list fsnode) (pre : name) u body : In (u, body) (F excl root cs pre) -> In (u, body) (F none root cs pre).
Proof. rewrite !F_char. intros [p [Hp [E _]]]. exists p. split; [exact Hp|]. split; [exact E|apply not_excluded_none]. Qed.

Lemma F_back (excl : name -> bool) (root : comp) (cs : list fsnode) (pre : name) u body :
  In (u, body) (F none root cs pre) -> In u (W excl root cs pre) -> In (u, body) (F excl root cs pre).
Proof.
  rewrite !F_char, W_char. intros [p [Hp [-> _]]] [p' [_ [E Hn]]]. injection E as E. apply app_inv_head in E. subst p'.
  exists p. auto.
Qed.

Lemma file_paths_modules (n : fsnode) : forall p body, In (p, body) (file_paths n) -> In (p, true) (node_paths n).
Proof.
  induction n as [nm py b0|nm cs0 IH] using fsnode_ind'; intros p body Hp; cbn [file_paths node_paths] in *.
  - destruct py; [|destruct Hp]. destruct Hp as [Hp|[]]. injection Hp as <- _. left. reflexivity.
  - right. apply in_map_iff in Hp. destruct Hp as [[q b1] [E Hq]]. cbn [fst snd] in E. injection E as <- _.
    apply in_flat_map in Hq. destruct Hq as [n1 [Hn1 Hq]]. apply in_map_iff. exists (q, true). split; [reflexivity|].
    apply in_flat_map. exists n1. split; [exact Hn1|]. rewrite Forall_forall in IH. apply (IH n1 Hn1 q b1). exact Hq.
Qed.

Lemma file_paths_nonempty (n : fsnode) p body : In (p, body) (file_paths n) -> p <> [].
Proof.
  destruct n as [nm py b|nm cs]; cbn [file_paths].
  - destruct py; [|intros []]. intros [H|[]]. injection H as <- _. discriminate.
  - intros H. apply in_map_iff in H. destruct H as [[q b] [H _]]. injection H as <- _. discriminate.
Qed.

Lemma F_not_base (excl : name -> bool) (root : comp) (cs : list fsnode) (pre : name) u body : In (u, body) (F excl root cs pre) -> u <> root :: pre.
Proof.
  rewrite F_char. intros [p [Hp [-> _]]] E. injection E as E. rewrite <- (app_nil_r pre) in E at 2. apply app_inv_head in E.
  apply in_flat_map in Hp. destruct Hp as [n [_ Hp]]. apply (file_paths_nonempty n p body Hp). exact E.
Qed.

Lemma W_inside (excl : name -> bool) (root : comp) (cs : list fsnode) (pre : name) m : In m (W excl root cs pre) -> prefixb (root :: pre) m = true.
Proof. rewrite W_char. intros [p [_ [-> _]]]. apply (prefixb_spec ceqb ceqb_spec). exists p. reflexivity. Qed.

(* ---- the filtered and the unfiltered scan ---- *)
Section TwoScans.
Variable c : @scan_cfg comp.
Hypothesis Hext : sc_exclude_external c = true.
Notation root := (sc_root c).
Notation mp := (sc_mp c).
Notation excl := (sc_excl c).
Variable cs : list fsnode.
Hypothesis Hcs : subdir ceqb (sc_tree c) mp = Some cs.
Hypothesis Hem : excl mp = false.

Definition unfiltered : @scan_cfg comp :=
  {| sc_root := sc_root c; sc_tree := sc_tree c; sc_mp := sc_mp c; sc_excl := none;
     sc_exclude_external := sc_exclude_external c; sc_ext_excl := sc_ext_excl c;
     sc_has_ext_excl := sc_has_ext_excl c; sc_limit := sc_limit c |}.

Notation base := (root :: mp).
Notation inside := (prefixb base).
Definition mods1 : list name := base :: W excl root cs mp.
Definition mods0 : list name := base :: W none root cs mp.

Lemma shape_filtered r : scan ceqb c = Some r ->
  (forall m, In m (sr_modules r) <-> In m mods1) /\
  sr_imports r = map (fun i => (i_importer i, i_importee i))
                     (filter (keep_import ceqb c) (flat_map (file_imports ceqb (filter (is_internal ceqb c) mods1) (abs_prefix c)) (F excl root cs mp))).
Proof.
  intros Hs. unfold scan, walk_from in Hs. rewrite Hcs, Hem in Hs. cbv beta iota in Hs.
  apply (f_equal (fun o => match o with Some x => x | None => r end)) in Hs. cbv beta iota in Hs. rewrite <- Hs.
  unfold sr_modules, sr_imports. split; [|reflexivity].
  intros m. rewrite (in_dedup ceqb ceqb_spec). unfold external_modules. rewrite Hext, app_nil_r. unfold mods1, W. tauto.
Qed.

Lemma shape_unfiltered r0 : scan ceqb unfiltered = Some r0 ->
  (forall m, In m (sr_modules r0) <-> In m mods0) /\
  sr_imports r0 = map (fun i => (i_importer i, i_importee i))
                      (filter (keep_import ceqb unfiltered) (flat_map (file_imports ceqb (filter (is_internal ceqb unfiltered) mods0) (abs_prefix unfiltered)) (F none root cs mp))).
Proof.
  intros Hs. unfold scan, walk_from in Hs.
  change (sc_mp unfiltered) with mp in Hs. change (sc_tree unfiltered) with (sc_tree c) in Hs.
  change (sc_root unfiltered) with root in Hs. change (sc_excl unfiltered) with none in Hs.
  rewrite Hcs in Hs. unfold none at 1 in Hs. cbv beta iota in Hs.
  apply (f_equal (fun o => match o with Some x => x | None => r0 end)) in Hs. cbv beta iota in Hs. rewrite <- Hs.
  unfold sr_modules, sr_imports. split; [|reflexivity].
  intros m. rewrite (in_dedup ceqb ceqb_spec). unfold external_modules. change (sc_exclude_external unfiltered) with (sc_exclude_external c).
  rewrite Hext, app_nil_r. unfold mods0, W. tauto.
Qed.

Lemma mods1_sub m : In m mods1 -> In m mods0.
Proof. intros [<-|H]; [left; reflexivity|right; apply (W_mono excl); exact H]. Qed.

Lemma mods1_inside m : In m mods1 -> inside m = true.
Proof. intros [<-|H]; [apply (prefixb_refl ceqb ceqb_spec)|apply (W_inside _ _ _ _ _ H)]. Qed.

Definition keepm (x : name) : bool := memb x mods1.

(* C08: every import between two remaining modules is exactly as in the scan without the exclusion *)
Theorem excluded_scan_imports r1 r0 :
  scan ceqb c = Some r1 -> scan ceqb unfiltered = Some r0 ->
  (forall u body s, In (u, body) (F excl root cs mp) -> In s (collect body) ->
     k2free (filter (is_internal ceqb c) mods0) keepm u s /\ unambR (filter (is_internal ceqb c) mods0) (abs_prefix c) s) ->
  forall a b, (In (a, b) (sr_imports r1) /\ In b (sr_modules r1)) <->
              (In (a, b) (sr_imports r0) /\ In a (sr_modules r1) /\ In b (sr_modules r1)).
Proof.
  intros Hs1 Hs0 Hhyp a b. destruct (shape_filtered r1 Hs1) as [Hm1 Hi1]. destruct (shape_unfiltered r0 Hs0) as [_ Hi0].
  change (is_internal ceqb unfiltered) with (is_internal ceqb c) in Hi0. change (abs_prefix unfiltered) with (abs_prefix c) in Hi0.
  set (IS := filter (is_internal ceqb c) mods1) in *. set (IR := filter (is_internal ceqb c) mods0) in *.
  assert (Hint : forall x, is_internal ceqb c x = inside x) by reflexivity.
  assert (IS_spec : forall x, memb x IS = memb x IR && keepm x).
  { intros x. unfold keepm. destruct (memb x IS) eqn:E1.
    - apply (memb_spec ceqb ceqb_spec) in E1. unfold IS in E1. apply filter_In in E1. destruct E1 as [Hx Hin].
      assert (E2 : memb x IR = true).
      { apply (memb_spec ceqb ceqb_spec). unfold IR. apply filter_In. split; [apply mods1_sub; exact Hx|exact Hin]. }
      apply (memb_spec ceqb ceqb_spec) in Hx. rewrite E2, Hx. reflexivity.
    - destruct (memb x IR && memb x mods1) eqn:E2; [|reflexivity]. exfalso. apply andb_true_iff in E2. destruct E2 as [_ E2].
      apply (memb_spec ceqb ceqb_spec) in E2.
      assert (Hs' : In x IS) by (unfold IS; apply filter_In; split; [exact E2|rewrite Hint; apply mods1_inside; exact E2]).
      apply (memb_spec ceqb ceqb_spec) in Hs'. congruence. }
  assert (Hkeep : forall i, keep_import ceqb c i = inside (i_importee i)).
  { intros i. unfold keep_import. rewrite Hint, Hext. destruct (inside (i_importee i)); reflexivity. }
  assert (Hkeep0 : forall i, keep_import ceqb unfiltered i = inside (i_importee i)).
  { intros i. unfold keep_import. change (is_internal ceqb unfiltered) with (is_internal ceqb c).
    change (sc_exclude_external unfiltered) with (sc_exclude_external c). rewrite Hint, Hext. destruct (inside (i_importee i)); reflexivity. }
  assert (Hkm : forall x, keepm x = true <-> In x (sr_modules r1)).
  { intros x. unfold keepm. rewrite (memb_spec ceqb ceqb_spec), Hm1. tauto. }
  assert (InK : forall l x y, In (x, y) (restrictK keepm (edges_of l)) <->
                              exists i, In i l /\ i_importer i = x /\ i_importee i = y /\ keepm y = true).
  { intros l x y. unfold restrictK, edges_of. rewrite filter_In, in_map_iff. cbn [snd]. split.
    - intros [[i [E Hi]] Hb]. injection E as <- <-. exists i. auto.
    - intros [i [Hi [<- [<- Hb]]]]. split; [exists i; auto|exact Hb]. }
  assert (L : In (a, b) (sr_imports r1) /\ In b (sr_modules r1) <->
              exists body s, In (a, body) (F excl root cs mp) /\ In s (collect body) /\
                             In (a, b) (restrictK keepm (edges_of (resolve_stmt ceqb IS (abs_prefix c) a s)))).
  { rewrite Hi1. rewrite in_map_iff. split.
    - intros [[i [E Hin]] Hb]. injection E as <- <-. apply filter_In in Hin. destruct Hin as [Hin Hk].
      apply in_flat_map in Hin. destruct Hin as [[u body] [Hf Hin]]. unfold file_imports in Hin. cbn [fst snd] in Hin.
      apply in_flat_map in Hin. destruct Hin as [s [Hsc Hin]]. pose proof (resolve_importer ceqb _ _ _ _ _ Hin) as Eu. subst u.
      exists body, s. split; [exact Hf|]. split; [exact Hsc|]. apply InK. exists i. repeat split; auto. apply Hkm. exact Hb.
    - intros [body [s [Hf [Hsc Hin]]]]. apply InK in Hin. destruct Hin as [i [Hin [Ea [Eb Hb]]]].
      apply Hkm in Hb. split; [|exact Hb].
      exists i. split; [rewrite Ea, Eb; reflexivity|]. apply filter_In. split.
      + apply in_flat_map. exists (a, body). split; [exact Hf|]. unfold file_imports. cbn [fst snd]. apply in_flat_map. exists s. auto.
      + rewrite Hkeep, Eb. apply mods1_inside. apply Hm1. exact Hb. }
  assert (R : In (a, b) (sr_imports r0) /\ In a (sr_modules r1) /\ In b (sr_modules r1) <->
              exists body s, In (a, body) (F excl root cs mp) /\ In s (collect body) /\
                             In (a, b) (restrictK keepm (edges_of (resolve_stmt ceqb IR (abs_prefix c) a s)))).
  { rewrite Hi0. rewrite in_map_iff. split.
    - intros [[i [E Hin]] [Ha Hb]]. injection E as <- <-. apply filter_In in Hin. destruct Hin as [Hin Hk].
      apply in_flat_map in Hin. destruct Hin as [[u body] [Hf Hin]]. unfold file_imports in Hin. cbn [fst snd] in Hin.
      apply in_flat_map in Hin. destruct Hin as [s [Hsc Hin]]. pose proof (resolve_importer ceqb _ _ _ _ _ Hin) as Eu. subst u.
      exists body, s. split.
      + apply F_back; [exact Hf|]. apply Hm1 in Ha. destruct Ha as [Ha|Ha]; [|exact Ha].
        exfalso. apply (F_not_base _ _ _ _ _ _ Hf). symmetry. exact Ha.
      + split; [exact Hsc|]. apply InK. exists i. repeat split; auto. apply Hkm. exact Hb.
    - intros [body [s [Hf [Hsc Hin]]]]. apply InK in Hin. destruct Hin as [i [Hin [Ea [Eb Hb]]]]. apply Hkm in Hb.
      assert (Ha : In a (sr_modules r1)).
      { apply Hm1. right. apply F_char in Hf. destruct Hf as [p [Hp [-> Hn]]]. apply W_char. exists p. split; [|auto].
        apply in_flat_map in Hp. destruct Hp as [n [Hn0 Hp]]. apply in_flat_map. exists n. split; [exact Hn0|].
        apply (file_paths_modules n p body Hp). }
      split; [|split; [exact Ha|exact Hb]].
      exists i. split; [rewrite Ea, Eb; reflexivity|]. apply filter_In. split.
      + apply in_flat_map. exists (a, body). split; [apply (F_mono excl); exact Hf|]. unfold file_imports. cbn [fst snd]. apply in_flat_map. exists s. auto.
      + rewrite Hkeep0, Eb. apply mods1_inside. apply Hm1. exact Hb. }
  rewrite L, R. split; intros [body [s [Hf [Hsc Hin]]]]; exists body, s; (split; [exact Hf|]); (split; [exact Hsc|]);
    destruct (Hhyp a body s Hf Hsc) as [Hk Hu].
  - rewrite <- (resolveK_equiv IS IR keepm (abs_prefix c) IS_spec a s Hk Hu). exact Hin.
  - rewrite (resolveK_equiv IS IR keepm (abs_prefix c) IS_spec a s Hk Hu). exact Hin.
Qed.

End TwoScans.

End ExclProofs.
