(* ScanProofs.v — C02 (statement traversal, edges), C04/C08 (modules of a walk),
   C10 (external options). *)
From Coq Require Import List Bool Arith Lia NArith.
From PTA Require Import Names Graph Search Scan NamesProofs SearchProofs GraphProofs.
Import ListNotations.

Section ScanProofs.
Context {comp : Type} (ceqb : comp -> comp -> bool).
Hypothesis ceqb_spec : forall x y, reflect (x = y) (ceqb x y).
Notation name := (list comp).
Notation stmt := (@stmt comp).
Notation fsnode := (@fsnode comp).
Notation prefixb := (prefixb ceqb).
Notation memb := (memb ceqb).

(* ---- statements ---- *)
Definition is_import (s : stmt) : bool :=
  match s with SImport _ | SFrom _ _ _ => true | _ => false end.

(* s occurs in t: t itself, or nested at any depth inside the statement lists of t *)
Inductive occurs_in (s : stmt) : stmt -> Prop :=
  | occ_self : is_import s = true -> occurs_in s s
  | occ_block c cs : In c cs -> occurs_in s c -> occurs_in s (SBlock cs).

Section StmtInd.
Variable P : stmt -> Prop.
Hypothesis Hi : forall ns, P (SImport ns).
Hypothesis Hf : forall l m ns, P (SFrom l m ns).
Hypothesis Hb : forall cs, Forall P cs -> P (SBlock cs).
Hypothesis Ho : P SOther.
Fixpoint stmt_ind' (s : stmt) : P s :=
  match s with
  | SImport ns => Hi ns
  | SFrom l m ns => Hf l m ns
  | SBlock cs => Hb cs ((fix go (l : list stmt) : Forall P l :=
                           match l with [] => Forall_nil _ | x :: r => Forall_cons _ (stmt_ind' x) (go r) end) cs)
  | SOther => Ho
  end.
End StmtInd.

(* every import statement, at any depth, is collected - and nothing else *)
Theorem collect_stmt_spec s t : In s (collect_stmt t) <-> occurs_in s t.
Proof.
  revert s. induction t as [ns|l m ns|cs IH|] using stmt_ind'; intros s; cbn [collect_stmt].
  - split; [intros [<-|[]]; constructor; reflexivity|]. inversion 1; subst. left; reflexivity.
  - split; [intros [<-|[]]; constructor; reflexivity|]. inversion 1; subst. left; reflexivity.
  - rewrite in_flat_map. split.
    + intros [c [Hc Hs]]. rewrite Forall_forall in IH. apply (IH c Hc) in Hs. eapply occ_block; eauto.
    + inversion 1 as [Hi|c cs' Hc Hs]; subst; [discriminate|].
      exists c. split; [exact Hc|]. rewrite Forall_forall in IH. apply (IH c Hc). exact Hs.
  - split; [intros []|]. inversion 1; subst. discriminate.
Qed.

Theorem collect_spec s body : In s (collect body) <-> exists t, In t body /\ occurs_in s t.
Proof.
  unfold collect. rewrite in_flat_map. split; intros [t [Ht Hs]]; exists t; split; auto; apply collect_stmt_spec; auto.
Qed.

(* ---- directory walk ---- *)
(* relative paths of everything below (and including) a node; flag: does it count as a module (directory or .py file) *)
Fixpoint node_paths (n : fsnode) : list (name * bool) :=
  match n with
  | FFile nm py _ => [([nm], py)]
  | FDir nm cs => ([nm], true) :: map (fun pk => (nm :: fst pk, snd pk)) (flat_map node_paths cs)
  end.

Section FsInd.
Variable P : fsnode -> Prop.
Hypothesis Hfile : forall nm py body, P (FFile nm py body).
Hypothesis Hdir : forall nm cs, Forall P cs -> P (FDir nm cs).
Fixpoint fsnode_ind' (n : fsnode) : P n :=
  match n with
  | FFile nm py body => Hfile nm py body
  | FDir nm cs => Hdir nm cs ((fix go (l : list fsnode) : Forall P l :=
                                 match l with [] => Forall_nil _ | x :: r => Forall_cons _ (fsnode_ind' x) (go r) end) cs)
  end.
End FsInd.

(* no directory or file on the way from [path] down to [path ++ p] is excluded *)
Definition not_excluded_below (excl : name -> bool) (path p : name) : Prop :=
  forall q r, p = q ++ r -> q <> [] -> excl (path ++ q) = false.

(* C04 / C08: the modules of a walk are exactly the non-excluded .py files and directories, none of whose
   ancestors (down from the starting point) is excluded, named by their path from the root *)
Theorem walk_modules excl root (n : fsnode) : forall path m,
  In m (fst (walk excl root path n)) <->
  exists p, In (p, true) (node_paths n) /\ m = root :: path ++ p /\ not_excluded_below excl path p.
Proof.
  induction n as [nm py body|nm cs IH] using fsnode_ind'; intros path m; cbn [walk node_paths].
  - destruct py; cbn [andb].
    + destruct (excl (path ++ [nm])) eqn:E; cbn [negb fst].
      * split; [intros []|]. intros [p [[Hp|[]] [-> Hn]]]. injection Hp as <-.
        specialize (Hn [nm] [] (eq_sym (app_nil_r _))). rewrite Hn in E; [discriminate|discriminate].
      * split.
        -- intros [<-|[]]. exists [nm]. split; [left; reflexivity|]. split; [reflexivity|].
           intros q r Hq Hne. destruct q as [|x q]; [congruence|]. injection Hq as <- Hq.
           symmetry in Hq. apply app_eq_nil in Hq. destruct Hq as [-> _]. exact E.
        -- intros [p [[Hp|[]] [-> _]]]. injection Hp as <-. left; reflexivity.
    + cbn [fst]. split; [intros []|]. intros [p [[Hp|[]] _]]. discriminate.
  - destruct (excl (path ++ [nm])) eqn:E; cbn [fst].
    + split; [intros []|]. intros [p [Hp [-> Hn]]]. exfalso.
      assert (Hq : exists r, p = [nm] ++ r).
      { destruct Hp as [Hp|Hp]; [injection Hp as <-; exists []; reflexivity|].
        apply in_map_iff in Hp. destruct Hp as [[q b] [Hq _]]. injection Hq as <- _. exists q. reflexivity. }
      destruct Hq as [r Hr]. specialize (Hn [nm] r Hr). rewrite Hn in E; [discriminate|discriminate].
    + split.
      * intros [<-|Hm].
        -- exists [nm]. split; [left; reflexivity|]. split; [reflexivity|].
           intros q r Hq Hne. destruct q as [|x q]; [congruence|]. injection Hq as <- Hq.
           symmetry in Hq. apply app_eq_nil in Hq. destruct Hq as [-> _]. exact E.
        -- apply in_flat_map in Hm. destruct Hm as [fr [Hfr Hm]]. apply in_map_iff in Hfr. destruct Hfr as [c [<- Hc]].
           rewrite Forall_forall in IH. apply (IH c Hc) in Hm. destruct Hm as [p [Hp [-> Hn]]].
           exists (nm :: p). split.
           ++ right. apply in_map_iff. exists (p, true). split; [reflexivity|]. apply in_flat_map. eauto.
           ++ split; [rewrite <- app_assoc; reflexivity|].
              intros q r Hq Hne. destruct q as [|x q]; [congruence|]. injection Hq as <- Hq.
              destruct q as [|y q'].
              ** exact E.
              ** specialize (Hn (y :: q') r Hq). rewrite <- app_assoc in Hn. apply Hn. discriminate.
      * intros [p [[Hp|Hp] [-> Hn]]].
        -- injection Hp as <-. left. reflexivity.
        -- right. apply in_map_iff in Hp. destruct Hp as [[q b] [Hq Hin]]. cbn [fst snd] in Hq. injection Hq as <- ->.
           apply in_flat_map in Hin. destruct Hin as [c [Hc Hin]].
           apply in_flat_map. exists (walk excl root (path ++ [nm]) c). split; [apply in_map; exact Hc|].
           rewrite Forall_forall in IH. apply (IH c Hc). exists q. split; [exact Hin|]. split.
           ++ rewrite <- app_assoc. reflexivity.
           ++ intros q' r Hq' Hne. specialize (Hn (nm :: q') r). rewrite <- app_assoc. apply Hn; [rewrite Hq'; reflexivity|discriminate].
Qed.

(* a file is parsed exactly when it is a module of the walk *)
Theorem walk_files excl root (n : fsnode) : forall path u body,
  In (u, body) (snd (walk excl root path n)) -> In u (fst (walk excl root path n)).
Proof.
  induction n as [nm py body0|nm cs IH] using fsnode_ind'; intros path u body; cbn [walk].
  - destruct (py && negb (excl (path ++ [nm]))); cbn [fst snd]; [|intros []]. intros [[= <- _]|[]]. left; reflexivity.
  - destruct (excl (path ++ [nm])); cbn [fst snd]; [intros []|]. intros H. right.
    apply in_flat_map in H. destruct H as [fr [Hfr H]]. apply in_map_iff in Hfr. destruct Hfr as [c [<- Hc]].
    apply in_flat_map. exists (walk excl root (path ++ [nm]) c). split; [apply in_map; exact Hc|].
    rewrite Forall_forall in IH. eapply IH; eauto.
Qed.

(* ---- the scan ---- *)
Notation scan_cfg := (@scan_cfg comp).

Lemma resolve_importer internal ap (u : name) (s : stmt) i :
  In i (resolve_stmt ceqb internal ap u s) -> i_importer i = u.
Proof.
  destruct s as [ns|l md ns|cs|]; cbn [resolve_stmt]; try (intros []; fail).
  - intros Hi. apply in_map_iff in Hi. destruct Hi as [n [<- _]]. reflexivity.
  - destruct l as [|l].
    + destruct md as [P|]; [|intros []]. intros Hi. apply in_map_iff in Hi. destruct Hi as [nm [<- _]]. reflexivity.
    + intros Hi. apply in_map_iff in Hi. destruct Hi as [nm [<- _]].
      destruct md as [P|]; [destruct (Names.memb _ _ _)|]; reflexivity.
Qed.

(* C02 / C10: the imports of the architecture, without level limit *)
Theorem scan_edges (c : scan_cfg) r mods files a b :
  sc_limit c = None ->
  walk_from ceqb (sc_excl c) (sc_root c) (sc_tree c) (sc_mp c) = Some (mods, files) ->
  scan ceqb c = Some r ->
  (In (a, b) (imps (sr_graph r)) <->
   exists body s i,
     In (a, body) files /\ In s (collect body) /\
     In i (resolve_stmt ceqb (filter (is_internal ceqb c) mods) (abs_prefix c) a s) /\
     i_importee i = b /\ keep_import ceqb c i = true /\
     a <> b /\ In a (nodes (sr_graph r)) /\ In b (nodes (sr_graph r)) /\ childb ceqb a b = false).
Proof.
  intros Hlim Hw Hs. unfold scan in Hs. rewrite Hw in Hs. injection Hs as <-. cbn [sr_graph].
  unfold effective_limit. rewrite Hlim.
  rewrite (in_build_imps_nolimit ceqb ceqb_spec). cbn [nodes build_graph].
  split.
  - intros [Hi [Hne [Ha [Hb Hc]]]].
    apply in_map_iff in Hi. destruct Hi as [i [Hxy Hi]]. injection Hxy as <- <-.
    apply filter_In in Hi. destruct Hi as [Hi Hk]. apply in_flat_map in Hi. destruct Hi as [[u body] [Hf Hi]].
    unfold file_imports in Hi. cbn [fst snd] in Hi. apply in_flat_map in Hi. destruct Hi as [s [Hs Hi]].
    pose proof (resolve_importer _ _ _ _ _ Hi) as Hu. subst u. exists body, s, i. repeat split; auto.
  - intros [body [s [i [Hf [Hs [Hi [<- [Hk [Hne [Ha [Hb Hc]]]]]]]]]]].
    pose proof (resolve_importer _ _ _ _ _ Hi) as Hu.
    repeat split; auto.
    apply in_map_iff. exists i. split; [rewrite Hu; reflexivity|]. apply filter_In. split; [|exact Hk].
    apply in_flat_map. exists (a, body). split; [exact Hf|]. unfold file_imports. cbn [fst snd].
    apply in_flat_map. exists s. auto.
Qed.

(* ---- C10 ---- *)
Lemma internal_prefix_closed (c : scan_cfg) (p m : name) :
  prefixb p m = true -> is_internal ceqb c p = true -> is_internal ceqb c m = true.
Proof. unfold is_internal. intros H1 H2. eapply (prefixb_trans ceqb ceqb_spec); eauto. Qed.

(* excluded (default): no import to anything outside module_path, no external module *)
Theorem excluded_no_external (c : scan_cfg) i :
  sc_exclude_external c = true -> keep_import ceqb c i = true -> is_internal ceqb c (i_importee i) = true.
Proof. unfold keep_import. intros He. destruct (is_internal ceqb c (i_importee i)); [reflexivity|]. rewrite He. discriminate. Qed.

Theorem excluded_no_external_modules (c : scan_cfg) imports :
  sc_exclude_external c = true -> external_modules ceqb c imports = [].
Proof. unfold external_modules. intros ->. reflexivity. Qed.

(* included, no pattern: every external importee is a module together with all its ancestors *)
Theorem included_ancestors (c : scan_cfg) imports i m :
  sc_exclude_external c = false -> sc_has_ext_excl c = false ->
  In i imports -> is_internal ceqb c (i_importee i) = false ->
  (m = i_importee i \/ In m (i_chain i)) -> In m (external_modules ceqb c imports).
Proof.
  intros He Hx Hi Hn Hm. unfold external_modules. rewrite He, Hx. apply in_flat_map. exists i. split.
  - apply filter_In. split; [exact Hi|]. rewrite Hn. reflexivity.
  - destruct Hm as [->|Hm]; [left; reflexivity|right; exact Hm].
Qed.

(* a matching external, or one with a matching ancestor, disappears together with its imports *)
Theorem pattern_removes_import (c : scan_cfg) i :
  sc_exclude_external c = false -> sc_has_ext_excl c = true -> is_internal ceqb c (i_importee i) = false ->
  (sc_ext_excl c (i_importee i) = true \/ exists p, In p (i_chain i) /\ sc_ext_excl c p = true) ->
  keep_import ceqb c i = false.
Proof.
  intros He Hx Hn Hm. unfold keep_import. rewrite Hn, He, Hx. apply negb_false_iff. apply orb_true_iff.
  destruct Hm as [H|[p [Hp H]]]; [left; exact H|right]. apply existsb_exists. eauto.
Qed.

Theorem pattern_removes_module (c : scan_cfg) imports m :
  sc_exclude_external c = false -> sc_has_ext_excl c = true -> sc_ext_excl c m = true ->
  ~ In m (external_modules ceqb c imports).
Proof.
  intros He Hx Hm. unfold external_modules. rewrite He, Hx. rewrite filter_In. intros [_ H]. rewrite Hm in H. discriminate.
Qed.

(* external options never touch internal imports *)
Theorem internal_imports_invariant (c c' : scan_cfg) i :
  is_internal ceqb c (i_importee i) = true -> keep_import ceqb c i = true.
Proof. unfold keep_import. intros ->. reflexivity. Qed.

(* ... and every module they add is external *)
Theorem external_modules_are_external (c : scan_cfg) imports m :
  (forall i, In i imports -> forall p, In p (i_chain i) -> prefixb p (i_importee i) = true) ->
  In m (external_modules ceqb c imports) -> is_internal ceqb c m = false.
Proof.
  intros Hch. unfold external_modules. destruct (sc_exclude_external c); [intros []|].
  assert (H : forall m0, In m0 (flat_map (fun i => i_importee i :: i_chain i)
                                  (filter (fun i => negb (is_internal ceqb c (i_importee i))) imports)) -> is_internal ceqb c m0 = false).
  { intros m0 Hm. apply in_flat_map in Hm. destruct Hm as [i [Hi Hm]]. apply filter_In in Hi. destruct Hi as [Hi Hn].
    apply negb_true_iff in Hn. destruct Hm as [<-|Hm]; [exact Hn|].
    destruct (is_internal ceqb c m0) eqn:E; [|reflexivity].
    rewrite (internal_prefix_closed c m0 (i_importee i) (Hch i Hi m0 Hm) E) in Hn. discriminate. }
  destruct (sc_has_ext_excl c); [intros Hm; apply filter_In in Hm; apply H; tauto|apply H].
Qed.

End ScanProofs.
