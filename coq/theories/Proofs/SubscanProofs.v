(* SubscanProofs.v — C04: scanning a sub-directory as module_path gives the same modules and
   the same imports as scanning the whole root restricted to that sub-tree.

   Hypotheses, all from the property's wording or the file system:
   - [path_ok]: along module_path each component names exactly one entry of its directory and
     that entry is a directory (no file a.py beside a directory a/);
   - no directory on the way down to module_path (module_path included) is excluded;
   - externals excluded (the default), no level limit needed for the statement (imports and modules);
   - [unambiguous]: no absolute import name, read as "relative to module_path's parent", denotes
     a module of the sub-tree (then "fully qualified from the root" is its only reading). *)
From Coq Require Import List Bool Arith Lia NArith.
From PTA Require Import Names Graph Search Scan NamesProofs SearchProofs GraphProofs ScanProofs.
Import ListNotations.

Section SubscanProofs.
Context {comp : Type} (ceqb : comp -> comp -> bool).
Hypothesis ceqb_spec : forall x y, reflect (x = y) (ceqb x y).
Notation name := (list comp).
Notation prefixb := (prefixb ceqb).
Notation memb := (memb ceqb).
Notation fsnode := (@fsnode comp).
Notation stmt := (@stmt comp).
Notation walk := (@walk comp).

Definition cname (n : fsnode) : comp := match n with FFile nm _ _ => nm | FDir nm _ => nm end.

Fixpoint path_ok (children : list fsnode) (mp : name) : Prop :=
  match mp with
  | [] => True
  | c :: rest => exists cs, In (FDir c cs) children /\
                            (forall n, In n children -> cname n = c -> n = FDir c cs) /\ path_ok cs rest
  end.

Variable excl : name -> bool.
Variable root : comp.

Definition W (children : list fsnode) (pre : name) : list name := flat_map fst (map (walk excl root pre) children).
Definition F (children : list fsnode) (pre : name) : list (name * list stmt) := flat_map snd (map (walk excl root pre) children).

Lemma node_paths_head (n : fsnode) p b : In (p, b) (node_paths n) -> exists r, p = cname n :: r.
Proof.
  destruct n as [nm py body|nm cs]; cbn [node_paths cname].
  - intros [H|[]]. injection H as <- _. eauto.
  - intros [H|H]; [injection H as <- _; eauto|]. apply in_map_iff in H. destruct H as [[q b'] [H _]]. injection H as <- _. eauto.
Qed.

Lemma walk_prefix (n : fsnode) path m :
  In m (fst (walk excl root path n)) -> prefixb (root :: path ++ [cname n]) m = true.
Proof.
  intros H. apply walk_modules in H. destruct H as [p [Hp [-> _]]].
  destruct (node_paths_head n p true Hp) as [r ->].
  apply (prefixb_spec ceqb ceqb_spec). exists r. simpl. rewrite <- app_assoc. reflexivity.
Qed.

Lemma find_dir (children : list fsnode) c cs :
  In (FDir c cs) children -> (forall n, In n children -> cname n = c -> n = FDir c cs) ->
  find (fun n => match n with FDir nm _ => ceqb nm c | FFile _ _ _ => false end) children = Some (FDir c cs).
Proof.
  induction children as [|n children IH]; intros Hin Hu; [destruct Hin|]. cbn [find].
  destruct n as [nm py body|nm cs'].
  - apply IH; [destruct Hin as [H|H]; [discriminate|exact H]|]. intros n Hn. apply Hu. right. exact Hn.
  - destruct (ceqb_spec nm c) as [->|Hne].
    + rewrite (Hu (FDir c cs') (or_introl eq_refl) eq_refl). reflexivity.
    + apply IH; [destruct Hin as [H|H]; [injection H as -> _; congruence|exact H]|]. intros n Hn. apply Hu. right. exact Hn.
Qed.

Lemma subdir_exists children mp : path_ok children mp -> exists cs, subdir ceqb children mp = Some cs.
Proof.
  revert children. induction mp as [|c rest IH]; intros children H; cbn [subdir].
  - eauto.
  - destruct H as [cs [Hin [Hu Hok]]]. rewrite (find_dir children c cs Hin Hu). apply IH. exact Hok.
Qed.

(* two names of the same length that are both prefixes of m are equal *)
Lemma prefix_same_len (a b m : name) : prefixb a m = true -> prefixb b m = true -> length a = length b -> a = b.
Proof.
  intros Ha Hb Hl. apply (prefixb_spec ceqb ceqb_spec) in Ha. apply (prefixb_spec ceqb ceqb_spec) in Hb.
  destruct Ha as [x ->]. destruct Hb as [y Hy].
  assert (E : firstn (length a) (a ++ x) = firstn (length a) (b ++ y)) by (rewrite Hy; reflexivity).
  rewrite firstn_app, firstn_all, Nat.sub_diag in E. simpl in E. rewrite app_nil_r in E.
  rewrite Hl in E. rewrite firstn_app, firstn_all, Nat.sub_diag in E. simpl in E. rewrite app_nil_r in E. exact E.
Qed.

Lemma app_last_inj (pre : name) a b : pre ++ [a] = pre ++ [b] -> a = b.
Proof. intros H. apply app_inv_head in H. congruence. Qed.

(* ---- modules: the whole walk, restricted to names at or below module_path, is the walk from module_path ---- *)
Lemma restrict_modules : forall mp children pre cs m,
  mp <> [] -> path_ok children mp ->
  (forall q r, mp = q ++ r -> q <> [] -> excl (pre ++ q) = false) ->
  subdir ceqb children mp = Some cs ->
  (In m (W children pre) /\ prefixb (root :: pre ++ mp) m = true <->
   In m ((root :: pre ++ mp) :: W cs (pre ++ mp))).
Proof.
  induction mp as [|c rest IH]; intros children pre cs m Hne Hok Hex Hsub; [congruence|].
  destruct Hok as [cs1 [Hin [Hu Hok]]]. cbn [subdir] in Hsub. rewrite (find_dir children c cs1 Hin Hu) in Hsub.
  assert (Hexc : excl (pre ++ [c]) = false) by (apply (Hex [c] rest); [reflexivity|discriminate]).
  assert (Hwalk : fst (walk excl root pre (FDir c cs1)) = (root :: pre ++ [c]) :: W cs1 (pre ++ [c])).
  { cbn [Scan.walk]. rewrite Hexc. reflexivity. }
  assert (Hex' : forall q r, rest = q ++ r -> q <> [] -> excl ((pre ++ [c]) ++ q) = false).
  { intros q r Hq Hqn. rewrite <- app_assoc. apply (Hex (c :: q) r); [rewrite Hq; reflexivity|discriminate]. }
  split.
  - intros [Hm Hp]. unfold W in Hm. apply in_flat_map in Hm. destruct Hm as [fr [Hfr Hm]]. apply in_map_iff in Hfr.
    destruct Hfr as [n [<- Hn]].
    assert (Hcn : cname n = c).
    { pose proof (walk_prefix n pre m Hm) as H1.
      assert (H2 : prefixb (root :: pre ++ [c]) m = true).
      { apply (prefixb_trans ceqb ceqb_spec _ (root :: pre ++ c :: rest)); [|exact Hp].
        apply (prefixb_spec ceqb ceqb_spec). exists rest. simpl. rewrite <- app_assoc. reflexivity. }
      pose proof (prefix_same_len _ _ m H1 H2) as E. simpl in E. rewrite !app_length in E. specialize (E eq_refl).
      injection E as E. apply app_last_inj in E. exact E. }
    rewrite (Hu n Hn Hcn) in Hm. rewrite Hwalk in Hm.
    destruct rest as [|c2 rest'].
    + cbn [subdir] in Hsub. injection Hsub as <-. exact Hm.
    + destruct Hm as [<-|Hm].
      * exfalso. apply (prefixb_spec ceqb ceqb_spec) in Hp. destruct Hp as [t Ht]. injection Ht as Ht.
        rewrite <- app_assoc in Ht. apply app_inv_head in Ht. discriminate.
      * assert (Eassoc : (pre ++ [c]) ++ c2 :: rest' = pre ++ c :: c2 :: rest') by (rewrite <- app_assoc; reflexivity).
        assert (HI := IH cs1 (pre ++ [c]) cs m). rewrite Eassoc in HI.
        assert (Hnn : c2 :: rest' <> []) by discriminate.
        apply (proj1 (HI Hnn Hok Hex' Hsub)). split; [exact Hm|exact Hp].
  - intros Hm. destruct rest as [|c2 rest'].
    + cbn [subdir] in Hsub. injection Hsub as <-. split.
      * unfold W. apply in_flat_map. exists (walk excl root pre (FDir c cs1)). split; [apply in_map; exact Hin|].
        rewrite Hwalk. exact Hm.
      * destruct Hm as [<-|Hm]; [apply (prefixb_refl ceqb ceqb_spec)|].
        unfold W in Hm. apply in_flat_map in Hm. destruct Hm as [fr [Hfr Hm]]. apply in_map_iff in Hfr. destruct Hfr as [n [<- Hn]].
        pose proof (walk_prefix n (pre ++ [c]) m Hm) as H1. apply (prefixb_trans ceqb ceqb_spec _ (root :: (pre ++ [c]) ++ [cname n])); [|exact H1].
        apply (prefixb_spec ceqb ceqb_spec). exists [cname n]. simpl. reflexivity.
    + assert (Eassoc : (pre ++ [c]) ++ c2 :: rest' = pre ++ c :: c2 :: rest') by (rewrite <- app_assoc; reflexivity).
      assert (HI := IH cs1 (pre ++ [c]) cs m). rewrite Eassoc in HI.
      assert (Hgoal : In m (W cs1 (pre ++ [c])) /\ prefixb (root :: pre ++ c :: c2 :: rest') m = true).
      { assert (Hnn : c2 :: rest' <> []) by discriminate. apply (proj2 (HI Hnn Hok Hex' Hsub)). exact Hm. }
      destruct Hgoal as [Hm1 Hp]. split; [|exact Hp].
      unfold W. apply in_flat_map. exists (walk excl root pre (FDir c cs1)). split; [apply in_map; exact Hin|].
      rewrite Hwalk. right. exact Hm1.
Qed.


(* ---- parsed files: same restriction ---- *)
Lemma walk_file_prefix (n : fsnode) path u body :
  In (u, body) (snd (walk excl root path n)) -> prefixb (root :: path ++ [cname n]) u = true.
Proof. intros H. apply walk_files in H. apply walk_prefix. exact H. Qed.

Lemma restrict_files : forall mp children pre cs u body,
  mp <> [] -> path_ok children mp ->
  (forall q r, mp = q ++ r -> q <> [] -> excl (pre ++ q) = false) ->
  subdir ceqb children mp = Some cs ->
  (In (u, body) (F children pre) /\ prefixb (root :: pre ++ mp) u = true <-> In (u, body) (F cs (pre ++ mp))).
Proof.
  induction mp as [|c rest IH]; intros children pre cs u body Hne Hok Hex Hsub; [congruence|].
  destruct Hok as [cs1 [Hin [Hu Hok]]]. cbn [subdir] in Hsub. rewrite (find_dir children c cs1 Hin Hu) in Hsub.
  assert (Hexc : excl (pre ++ [c]) = false) by (apply (Hex [c] rest); [reflexivity|discriminate]).
  assert (Hwalk : snd (walk excl root pre (FDir c cs1)) = F cs1 (pre ++ [c])).
  { cbn [Scan.walk]. rewrite Hexc. reflexivity. }
  assert (Hex' : forall q r, rest = q ++ r -> q <> [] -> excl ((pre ++ [c]) ++ q) = false).
  { intros q r Hq Hqn. rewrite <- app_assoc. apply (Hex (c :: q) r); [rewrite Hq; reflexivity|discriminate]. }
  split.
  - intros [Hm Hp]. unfold F in Hm. apply in_flat_map in Hm. destruct Hm as [fr [Hfr Hm]]. apply in_map_iff in Hfr.
    destruct Hfr as [n [<- Hn]].
    assert (Hcn : cname n = c).
    { pose proof (walk_file_prefix n pre u body Hm) as H1.
      assert (H2 : prefixb (root :: pre ++ [c]) u = true).
      { apply (prefixb_trans ceqb ceqb_spec _ (root :: pre ++ c :: rest)); [|exact Hp].
        apply (prefixb_spec ceqb ceqb_spec). exists rest. simpl. rewrite <- app_assoc. reflexivity. }
      pose proof (prefix_same_len _ _ u H1 H2) as E. simpl in E. rewrite !app_length in E. specialize (E eq_refl).
      injection E as E. apply app_last_inj in E. exact E. }
    rewrite (Hu n Hn Hcn) in Hm. rewrite Hwalk in Hm.
    destruct rest as [|c2 rest'].
    + cbn [subdir] in Hsub. injection Hsub as <-. exact Hm.
    + assert (Eassoc : (pre ++ [c]) ++ c2 :: rest' = pre ++ c :: c2 :: rest') by (rewrite <- app_assoc; reflexivity).
      assert (HI := IH cs1 (pre ++ [c]) cs u body). rewrite Eassoc in HI.
      assert (Hnn : c2 :: rest' <> []) by discriminate.
      apply (proj1 (HI Hnn Hok Hex' Hsub)). split; [exact Hm|exact Hp].
  - intros Hm. destruct rest as [|c2 rest'].
    + cbn [subdir] in Hsub. injection Hsub as <-. split.
      * unfold F. apply in_flat_map. exists (walk excl root pre (FDir c cs1)). split; [apply in_map; exact Hin|].
        rewrite Hwalk. exact Hm.
      * unfold F in Hm. apply in_flat_map in Hm. destruct Hm as [fr [Hfr Hm]]. apply in_map_iff in Hfr. destruct Hfr as [n [<- Hn]].
        pose proof (walk_file_prefix n (pre ++ [c]) u body Hm) as H1.
        apply (prefixb_trans ceqb ceqb_spec _ (root :: (pre ++ [c]) ++ [cname n])); [|exact H1].
        apply (prefixb_spec ceqb ceqb_spec). exists [cname n]. simpl. reflexivity.
    + assert (Eassoc : (pre ++ [c]) ++ c2 :: rest' = pre ++ c :: c2 :: rest') by (rewrite <- app_assoc; reflexivity).
      assert (HI := IH cs1 (pre ++ [c]) cs u body). rewrite Eassoc in HI.
      assert (Hnn : c2 :: rest' <> []) by discriminate.
      destruct (proj2 (HI Hnn Hok Hex' Hsub) Hm) as [Hm1 Hp]. split; [|exact Hp].
      unfold F. apply in_flat_map. exists (walk excl root pre (FDir c cs1)). split; [apply in_map; exact Hin|].
      rewrite Hwalk. exact Hm1.
Qed.


(* ---- import resolution: sub-directory scan vs whole-root scan ---- *)
Section Resolve.
Variables (IS IR : list name) (base : name) (p : name).
Notation inside := (prefixb base).
Hypothesis IS_spec : forall x, memb x IS = memb x IR && inside x.

Lemma inside_ext (P : name) nm : inside P = true -> inside (P ++ [nm]) = true.
Proof.
  intros H. apply (prefixb_trans ceqb ceqb_spec _ P); [exact H|]. apply (prefixb_spec ceqb ceqb_spec). eauto.
Qed.

(* an absolute name is "fully qualified only": read relative to module_path's parent it names no module of the sub-tree *)
Definition unamb (s : stmt) : Prop :=
  match s with
  | SImport names => forall n, In n names -> memb (p ++ n) IS = false
  | SFrom O (Some P) names => memb (p ++ P) IS = false /\ forall nm, In nm names -> memb (p ++ P ++ [nm]) IS = false
  | _ => True
  end.

Definition edges_of (l : list (@import_rec comp)) : list (name * name) := map (fun i => (i_importer i, i_importee i)) l.
Definition restrict (l : list (name * name)) : list (name * name) := filter (fun e => inside (snd e)) l.

(* choosing between P.n and P by membership: same restricted outcome on both sides *)
Lemma choose_equiv (t : name) nm :
  let tS := if memb (t ++ [nm]) IS then t ++ [nm] else t in
  let tR := if memb (t ++ [nm]) IR then t ++ [nm] else t in
  inside tS = inside tR /\ (inside tS = true -> tS = tR).
Proof.
  cbv zeta. rewrite IS_spec. destruct (memb (t ++ [nm]) IR) eqn:ER, (inside (t ++ [nm])) eqn:EI; cbn [andb]; cbv iota; rewrite ?EI.
  - split; [reflexivity|auto].
  - destruct (inside t) eqn:Et.
    + rewrite (inside_ext t nm Et) in EI. discriminate.
    + split; [reflexivity|discriminate].
  - split; [reflexivity|auto].
  - split; [reflexivity|auto].
Qed.

Lemma restrict_map_equiv {X} (fS fR : X -> name) (u : name) (l : list X) :
  (forall x, In x l -> inside (fS x) = inside (fR x) /\ (inside (fS x) = true -> fS x = fR x)) ->
  restrict (map (fun x => (u, fS x)) l) = restrict (map (fun x => (u, fR x)) l).
Proof.
  induction l as [|x l IH]; intros H; [reflexivity|]. cbn [map restrict filter snd].
  destruct (H x (or_introl eq_refl)) as [E1 E2].
  fold (restrict (map (fun x0 => (u, fS x0)) l)). fold (restrict (map (fun x0 => (u, fR x0)) l)).
  rewrite IH by (intros y Hy; apply H; right; exact Hy).
  rewrite <- E1. destruct (inside (fS x)) eqn:E; [rewrite (E2 eq_refl); reflexivity|reflexivity].
Qed.

Lemma resolve_equiv (u : name) (s : stmt) :
  unamb s ->
  restrict (edges_of (resolve_stmt ceqb IS (Some p) u s)) = restrict (edges_of (resolve_stmt ceqb IR None u s)).
Proof.
  intros Hu. destruct s as [names|lvl md names|cs|]; cbn [resolve_stmt]; try reflexivity.
  - (* import a.b.c *)
    unfold edges_of. rewrite !map_map. cbn [i_importer i_importee adjust].
    apply (restrict_map_equiv (fun n => if memb (p ++ n) IS then p ++ n else n) (fun n => n) u names).
    intros n Hn. cbn [unamb] in Hu. rewrite (Hu n Hn). auto.
  - destruct lvl as [|l].
    + destruct md as [P|]; [|reflexivity]. cbn [unamb] in Hu. destruct Hu as [HP Hnm].
      unfold edges_of. rewrite !map_map. cbn [i_importer i_importee adjust].
      apply (restrict_map_equiv
               (fun nm => if memb (if memb (p ++ P ++ [nm]) IS then p ++ P ++ [nm] else P ++ [nm]) IS
                          then (if memb (p ++ P ++ [nm]) IS then p ++ P ++ [nm] else P ++ [nm])
                          else (if memb (p ++ P) IS then p ++ P else P))
               (fun nm => if memb (P ++ [nm]) IR then P ++ [nm] else P) u names).
      intros nm Hin. rewrite (Hnm nm Hin), HP. apply (choose_equiv P nm).
    + unfold edges_of. rewrite !map_map.
      destruct md as [P|].
      * set (t := firstn (length u - S l) u ++ P).
        match goal with |- restrict (map ?f names) = restrict (map ?g names) =>
          rewrite (map_ext f (fun nm => (u, if memb (t ++ [nm]) IS then t ++ [nm] else t)))
            by (intros nm; destruct (memb (t ++ [nm]) IS); reflexivity);
          rewrite (map_ext g (fun nm => (u, if memb (t ++ [nm]) IR then t ++ [nm] else t)))
            by (intros nm; destruct (memb (t ++ [nm]) IR); reflexivity)
        end.
        apply (restrict_map_equiv (fun nm => if memb (t ++ [nm]) IS then t ++ [nm] else t)
                                  (fun nm => if memb (t ++ [nm]) IR then t ++ [nm] else t) u names).
        intros nm Hin. apply (choose_equiv t nm).
      * reflexivity.
Qed.

End Resolve.


(* ---- the two scans ---- *)
Section TwoScans.
Variable c : @scan_cfg comp.
Hypothesis Hroot : sc_root c = root.
Hypothesis Hexcl : sc_excl c = excl.
Hypothesis Hext : sc_exclude_external c = true.
Notation mp := (sc_mp c).
Notation tree := (sc_tree c).
Hypothesis Hmp : mp <> [].
Hypothesis Hpath : path_ok tree mp.
(* neither the root directory nor any directory on the way down to module_path is excluded *)
Hypothesis Hex_root : excl [] = false.
Hypothesis Hex_path : forall q r, mp = q ++ r -> q <> [] -> excl q = false.

(* the same request with module_path = root_path *)
Definition whole : @scan_cfg comp :=
  {| sc_root := sc_root c; sc_tree := sc_tree c; sc_mp := []; sc_excl := sc_excl c;
     sc_exclude_external := sc_exclude_external c; sc_ext_excl := sc_ext_excl c;
     sc_has_ext_excl := sc_has_ext_excl c; sc_limit := sc_limit c |}.

Notation base := (root :: mp).
Notation inside := (prefixb base).

Lemma scan_sub_shape r : scan ceqb c = Some r ->
  exists cs, subdir ceqb tree mp = Some cs /\
    (forall m, In m (sr_modules r) <-> In m (base :: W cs mp)) /\
    sr_imports r = map (fun i => (i_importer i, i_importee i))
                       (filter (keep_import ceqb c)
                               (flat_map (file_imports ceqb (filter (is_internal ceqb c) (base :: W cs mp)) (abs_prefix c)) (F cs mp))).
Proof.
  intros Hs. destruct (subdir_exists tree mp Hpath) as [cs Hcs]. exists cs. split; [exact Hcs|].
  unfold scan, walk_from in Hs. rewrite Hcs, Hroot, Hexcl in Hs.
  assert (Hem : excl mp = false) by (apply (Hex_path mp []); [rewrite app_nil_r; reflexivity|exact Hmp]).
  rewrite Hem in Hs. cbv beta iota in Hs.
  apply (f_equal (fun o => match o with Some x => x | None => r end)) in Hs. cbv beta iota in Hs. rewrite <- Hs. unfold sr_modules, sr_imports. split; [|reflexivity].
  intros m. rewrite (in_dedup ceqb ceqb_spec). unfold external_modules. rewrite Hext, app_nil_r. unfold W. tauto.
Qed.

Lemma scan_whole_shape r0 : scan ceqb whole = Some r0 ->
  (forall m, In m (sr_modules r0) <-> In m ([root] :: W tree [])) /\
  sr_imports r0 = map (fun i => (i_importer i, i_importee i))
                      (filter (keep_import ceqb whole)
                              (flat_map (file_imports ceqb (filter (is_internal ceqb whole) ([root] :: W tree [])) None) (F tree []))).
Proof.
  intros Hs. unfold scan, walk_from in Hs.
  change (sc_mp whole) with (@nil comp) in Hs. change (sc_tree whole) with tree in Hs.
  change (sc_root whole) with (sc_root c) in Hs. change (sc_excl whole) with (sc_excl c) in Hs. cbn [subdir] in Hs.
  rewrite Hroot, Hexcl, Hex_root in Hs. cbv beta iota in Hs.
  apply (f_equal (fun o => match o with Some x => x | None => r0 end)) in Hs. cbv beta iota in Hs. rewrite <- Hs. unfold sr_modules, sr_imports. split; [|reflexivity].
  intros m. rewrite (in_dedup ceqb ceqb_spec). unfold external_modules. change (sc_exclude_external whole) with (sc_exclude_external c). rewrite Hext, app_nil_r. unfold W. tauto.
Qed.

Lemma Hex_path' : forall q r, mp = q ++ r -> q <> [] -> excl ([] ++ q) = false.
Proof. intros q r H1 H2. simpl. apply (Hex_path q r H1 H2). Qed.

Lemma root_not_inside : inside [root] = false.
Proof.
  destruct (inside [root]) eqn:E; [|reflexivity]. apply (prefixb_spec ceqb ceqb_spec) in E. destruct E as [t Ht].
  injection Ht as Ht. destruct mp; [congruence|discriminate].
Qed.

Lemma inside_rooted x : inside x = true -> prefixb [root] x = true.
Proof.
  intros H. apply (prefixb_trans ceqb ceqb_spec _ base); [|exact H]. apply (prefixb_spec ceqb ceqb_spec). exists mp. reflexivity.
Qed.

(* C04: modules of the sub-directory scan = modules of the whole-root scan at or below module_path *)
Theorem subscan_modules r r0 :
  scan ceqb c = Some r -> scan ceqb whole = Some r0 ->
  forall m, In m (sr_modules r) <-> In m (sr_modules r0) /\ inside m = true.
Proof.
  intros Hs Hs0 m. destruct (scan_sub_shape r Hs) as [cs [Hcs [Hm _]]]. destruct (scan_whole_shape r0 Hs0) as [Hm0 _].
  rewrite Hm, Hm0. pose proof (restrict_modules mp tree [] cs m Hmp Hpath Hex_path' Hcs) as HR. cbn [app] in HR.
  rewrite <- HR. split.
  - intros [H1 H2]. split; [right; exact H1|exact H2].
  - intros [[<-|H1] H2]; [rewrite root_not_inside in H2; discriminate|auto].
Qed.

Lemma in_restrict_edges l a b :
  In (a, b) (restrict base (edges_of l)) <-> exists i, In i l /\ i_importer i = a /\ i_importee i = b /\ inside b = true.
Proof.
  unfold restrict, edges_of. rewrite filter_In, in_map_iff. cbn [snd]. split.
  - intros [[i [E Hi]] Hb]. injection E as <- <-. exists i. auto.
  - intros [i [Hi [<- [<- Hb]]]]. split; [exists i; auto|exact Hb].
Qed.

(* C04: imports of the sub-directory scan = imports of the whole-root scan between modules at or below module_path,
   when every absolute import name in the sub-tree is fully qualified only *)
Theorem subscan_imports r r0 :
  scan ceqb c = Some r -> scan ceqb whole = Some r0 ->
  (forall cs, subdir ceqb tree mp = Some cs ->
     forall u body s, In (u, body) (F cs mp) -> In s (collect body) ->
       unamb (filter (is_internal ceqb c) (base :: W cs mp)) (root :: removelast mp) s) ->
  forall a b, In (a, b) (sr_imports r) <-> In (a, b) (sr_imports r0) /\ inside a = true /\ inside b = true.
Proof.
  intros Hs Hs0 Hun a b. destruct (scan_sub_shape r Hs) as [cs [Hcs [_ Hi]]]. destruct (scan_whole_shape r0 Hs0) as [_ Hi0].
  specialize (Hun cs Hcs).
  set (IS := filter (is_internal ceqb c) (base :: W cs mp)) in *.
  set (IR := filter (is_internal ceqb whole) ([root] :: W tree [])) in *.
  assert (Hint : forall x, is_internal ceqb c x = inside x) by (intros x; unfold is_internal, internal_base; rewrite Hroot; reflexivity).
  assert (Hint0 : forall x, is_internal ceqb whole x = prefixb [root] x)
    by (intros x; unfold is_internal, internal_base, whole; cbn [sc_root sc_mp]; rewrite Hroot; reflexivity).
  assert (HR := fun m => restrict_modules mp tree [] cs m Hmp Hpath Hex_path' Hcs). cbn [app] in HR.
  assert (IS_spec : forall x, memb x IS = memb x IR && inside x).
  { intros x. destruct (memb x IS) eqn:E1.
    - apply (memb_spec ceqb ceqb_spec) in E1. unfold IS in E1. apply filter_In in E1. destruct E1 as [Hx Hin]. rewrite Hint in Hin.
      apply HR in Hx. destruct Hx as [Hx _]. rewrite Hin, andb_true_r. symmetry. apply (memb_spec ceqb ceqb_spec).
      unfold IR. apply filter_In. split; [right; exact Hx|]. rewrite Hint0. apply inside_rooted. exact Hin.
    - destruct (memb x IR && inside x) eqn:E2; [|reflexivity]. exfalso. apply andb_true_iff in E2. destruct E2 as [E2 Hin].
      apply (memb_spec ceqb ceqb_spec) in E2. unfold IR in E2. apply filter_In in E2. destruct E2 as [[<-|Hx] _].
      + rewrite root_not_inside in Hin. discriminate.
      + assert (Hs' : In x IS). { unfold IS. apply filter_In. split; [apply HR; auto|rewrite Hint; exact Hin]. }
        apply (memb_spec ceqb ceqb_spec) in Hs'. congruence. }
  assert (Hap : abs_prefix c = Some (root :: removelast mp)).
  { unfold abs_prefix. rewrite Hroot. destruct mp; [congruence|reflexivity]. }
  assert (Hkeep : forall i, keep_import ceqb c i = inside (i_importee i)).
  { intros i. unfold keep_import. rewrite Hint, Hext. destruct (inside (i_importee i)); reflexivity. }
  assert (Hkeep0 : forall i, keep_import ceqb whole i = prefixb [root] (i_importee i)).
  { intros i. unfold keep_import. rewrite Hint0. cbn [whole sc_exclude_external]. rewrite Hext. destruct (prefixb [root] (i_importee i)); reflexivity. }
  assert (HF := fun u body => restrict_files mp tree [] cs u body Hmp Hpath Hex_path' Hcs). cbn [app] in HF.
  (* both sides as: some parsed file of the sub-tree, some import statement in it, one restricted resolved edge *)
  assert (L : In (a, b) (sr_imports r) <->
              exists body s, In (a, body) (F cs mp) /\ In s (collect body) /\
                             In (a, b) (restrict base (edges_of (resolve_stmt ceqb IS (Some (root :: removelast mp)) a s)))).
  { rewrite Hi, Hap. rewrite in_map_iff. split.
    - intros [i [E Hin]]. injection E as <- <-. apply filter_In in Hin. destruct Hin as [Hin Hk]. rewrite Hkeep in Hk.
      apply in_flat_map in Hin. destruct Hin as [[u body] [Hf Hin]]. unfold file_imports in Hin. cbn [fst snd] in Hin.
      apply in_flat_map in Hin. destruct Hin as [s [Hsc Hin]]. pose proof (resolve_importer ceqb _ _ _ _ _ Hin) as Eu. subst u.
      exists body, s. split; [exact Hf|]. split; [exact Hsc|]. apply in_restrict_edges. exists i. auto.
    - intros [body [s [Hf [Hsc Hin]]]]. apply in_restrict_edges in Hin. destruct Hin as [i [Hin [Ea [Eb Hb]]]].
      exists i. split; [rewrite Ea, Eb; reflexivity|]. apply filter_In. split; [|rewrite Hkeep, Eb; exact Hb].
      apply in_flat_map. exists (a, body). split; [exact Hf|]. unfold file_imports. cbn [fst snd]. apply in_flat_map. exists s. auto. }
  assert (R : In (a, b) (sr_imports r0) /\ inside a = true /\ inside b = true <->
              exists body s, In (a, body) (F cs mp) /\ In s (collect body) /\
                             In (a, b) (restrict base (edges_of (resolve_stmt ceqb IR None a s)))).
  { rewrite Hi0. rewrite in_map_iff. split.
    - intros [[i [E Hin]] [Ha Hb]]. injection E as <- <-. apply filter_In in Hin. destruct Hin as [Hin Hk].
      apply in_flat_map in Hin. destruct Hin as [[u body] [Hf Hin]]. unfold file_imports in Hin. cbn [fst snd] in Hin.
      apply in_flat_map in Hin. destruct Hin as [s [Hsc Hin]]. pose proof (resolve_importer ceqb _ _ _ _ _ Hin) as Eu. subst u.
      exists body, s. split; [apply HF; auto|]. split; [exact Hsc|]. apply in_restrict_edges. exists i. auto.
    - intros [body [s [Hf [Hsc Hin]]]]. apply in_restrict_edges in Hin. destruct Hin as [i [Hin [Ea [Eb Hb]]]].
      apply HF in Hf. destruct Hf as [Hf Ha]. split; [|split; [exact Ha|exact Hb]].
      exists i. split; [rewrite Ea, Eb; reflexivity|]. apply filter_In. split; [|rewrite Hkeep0, Eb; apply inside_rooted; exact Hb].
      apply in_flat_map. exists (a, body). split; [exact Hf|]. unfold file_imports. cbn [fst snd]. apply in_flat_map. exists s. auto. }
  rewrite L, R. split; intros [body [s [Hf [Hsc Hin]]]]; exists body, s; (split; [exact Hf|]); (split; [exact Hsc|]).
  - rewrite <- (resolve_equiv IS IR base (root :: removelast mp) IS_spec a s (Hun a body s Hf Hsc)). exact Hin.
  - rewrite (resolve_equiv IS IR base (root :: removelast mp) IS_spec a s (Hun a body s Hf Hsc)). exact Hin.
Qed.

End TwoScans.

End SubscanProofs.
