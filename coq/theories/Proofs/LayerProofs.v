(* LayerProofs.v — C05: layer rules compute the documented layer semantics. *)
From Coq Require Import List Bool Arith Lia NArith.
From PTA Require Import Names Graph Search Rule SpecRule SpecLines Builder Layer SpecLayer.
From PTA Require Import NamesProofs SearchProofs RuleProofs AlgebraProofs.
Import ListNotations.

Section LayerProofs.
Context {comp : Type} (ceqb : comp -> comp -> bool).
Hypothesis ceqb_spec : forall x y, reflect (x = y) (ceqb x y).
Notation name := (list comp).
Notation graph := (@graph comp).
Notation filt := (@filt comp).
Notation prefixb := (prefixb ceqb).
Notation sprefixb := (sprefixb ceqb).
Notation related := (related ceqb).
Notation memb := (memb ceqb).
Notation lmember := (lmember ceqb).
Notation pw_unrel := (pw_unrel ceqb).

Definition umap := list (N * list name).
Definition listed (um : umap) : list name := flat_map snd um.

(* ---- which layer a module belongs to ---- *)
Lemma listed_unique (um : umap) X xs Y ys x y :
  pw_unrel (listed um) -> In (X, xs) um -> In (Y, ys) um -> In x xs -> In y ys ->
  related x y = true -> X = Y.
Proof.
  unfold listed. induction um as [|[Z zs] um IH]; [intros _ []|].
  cbn [flat_map snd]. intros Hu H1 H2 Hx Hy Hr.
  apply pw_unrel_app in Hu. destruct Hu as [Hz [Hrest Hcross]].
  destruct H1 as [[= <- <-]|H1]; destruct H2 as [[= <- <-]|H2].
  - reflexivity.
  - exfalso. assert (E : related x y = false).
    { apply Hcross; [exact Hx|]. apply in_flat_map. exists (Y, ys). auto. }
    congruence.
  - exfalso. assert (E : related y x = false).
    { apply Hcross; [exact Hy|]. apply in_flat_map. exists (X, xs). auto. }
    rewrite (related_sym ceqb) in E. congruence.
  - eapply IH; eauto.
Qed.

Lemma rev_head_property {X} (P : X -> Prop) (l : list X) :
  l <> [] -> (forall z, In z l -> P z) -> exists z r, rev l = z :: r /\ P z.
Proof.
  intros Hn Hall. destruct (rev l) as [|z r] eqn:E.
  - exfalso. apply Hn. rewrite <- (rev_involutive l), E. reflexivity.
  - exists z, r. split; [reflexivity|]. apply Hall. apply in_rev. rewrite E. left; reflexivity.
Qed.

Lemma exact_layer_listed (um : umap) X xs x :
  pw_unrel (listed um) -> In (X, xs) um -> In x xs -> exact_layer ceqb um x = Some X.
Proof.
  intros Hu HX Hx. unfold exact_layer.
  match goal with |- context [rev ?l] => set (F := l) end.
  assert (Hin : In (X, xs) F).
  { apply filter_In. split; [exact HX|]. cbn [snd]. apply (memb_spec ceqb ceqb_spec). exact Hx. }
  assert (Hall : forall lm, In lm F -> fst lm = X).
  { intros [Y ys] Hlm. apply filter_In in Hlm. destruct Hlm as [HY Hm]. cbn [snd] in Hm.
    apply (memb_spec ceqb ceqb_spec) in Hm. cbn [fst]. symmetry.
    eapply (listed_unique um X xs Y ys x x); eauto. apply (related_refl ceqb ceqb_spec). }
  destruct (rev_head_property (fun lm => fst lm = X) F) as [z [r [E Hz]]].
  - intros E. rewrite E in Hin. destruct Hin.
  - exact Hall.
  - rewrite E. rewrite Hz. reflexivity.
Qed.

Lemma filter_none {X} (f : X -> bool) l : (forall x, In x l -> f x = false) -> filter f l = [].
Proof.
  induction l as [|y l IH]; intros H; simpl; [reflexivity|].
  rewrite (H y (or_introl eq_refl)). apply IH. intros x Hx; apply H; right; exact Hx.
Qed.

Lemma exact_layer_unlisted (um : umap) m :
  ~ In m (listed um) -> exact_layer ceqb um m = None.
Proof.
  intros Hn. unfold exact_layer.
  match goal with |- context [rev ?l] => assert (E : l = []) end.
  { apply filter_none. intros [Y ys] HY. cbn [snd]. apply (memb_false ceqb ceqb_spec).
    intros Hm. apply Hn. unfold listed. apply in_flat_map. exists (Y, ys). auto. }
  rewrite E. reflexivity.
Qed.

Lemma ndedup_constant (l : list N) X : l <> [] -> (forall z, In z l -> z = X) -> ndedup l = [X].
Proof.
  induction l as [|z l IH]; [congruence|]. intros _ Hall. cbn [ndedup].
  assert (Hz : z = X) by (apply Hall; left; reflexivity). subst z.
  destruct l as [|z' l'].
  - reflexivity.
  - assert (Hz' : z' = X) by (apply Hall; right; left; reflexivity). subst z'.
    cbn [existsb]. rewrite N.eqb_refl. cbn [orb]. apply IH; [discriminate|].
    intros z Hz. apply Hall. right; exact Hz.
Qed.

(* a module at or below a listed module x of layer X belongs to X *)
Lemma layer_of_member (um : umap) X xs x m :
  pw_unrel (listed um) -> In (X, xs) um -> In x xs -> prefixb x m = true ->
  layer_of ceqb um m = Ok (Some X).
Proof.
  intros Hu HX Hx Hp. unfold layer_of.
  destruct (in_dec (fun a b => match name_eqb_spec ceqb ceqb_spec a b with ReflectT _ e => left e | ReflectF _ n => right n end) m (listed um)) as [Hl|Hnl].
  - (* m itself is listed: it is x *)
    unfold listed in Hl. apply in_flat_map in Hl. destruct Hl as [[Y ys] [HY Hm]]. cbn [snd] in Hm.
    assert (E : X = Y).
    { eapply (listed_unique um X xs Y ys x m); eauto. unfold Names.related. rewrite Hp. reflexivity. }
    subst Y. rewrite (exact_layer_listed um X ys m Hu HY Hm). reflexivity.
  - rewrite (exact_layer_unlisted um m Hnl).
    fold (listed um).
    match goal with |- context [filter ?f (listed um)] => set (cands := filter f (listed um)) end.
    assert (Hxin : In x cands).
    { apply filter_In. split.
      - unfold listed. apply in_flat_map. exists (X, xs). auto.
      - apply (sprefixb_spec ceqb ceqb_spec). split; [exact Hp|]. intros ->. apply Hnl.
        unfold listed. apply in_flat_map. exists (X, xs). auto. }
    match goal with |- context [ndedup ?l] => set (ls := l) end.
    assert (Hne : ls <> []).
    { intros E. assert (Hi : In X ls).
      { apply in_flat_map. exists x. split; [exact Hxin|]. rewrite (exact_layer_listed um X xs x Hu HX Hx). left; reflexivity. }
      rewrite E in Hi. destruct Hi. }
    assert (Hall : forall z, In z ls -> z = X).
    { intros z Hz. apply in_flat_map in Hz. destruct Hz as [x' [Hx' Hz]].
      apply filter_In in Hx'. destruct Hx' as [Hl' Hs']. apply (sprefixb_spec ceqb ceqb_spec) in Hs'. destruct Hs' as [Hp' _].
      unfold listed in Hl'. apply in_flat_map in Hl'. destruct Hl' as [[Y ys] [HY Hy]]. cbn [snd] in Hy.
      rewrite (exact_layer_listed um Y ys x' Hu HY Hy) in Hz. destruct Hz as [<-|[]].
      symmetry. eapply (listed_unique um X xs Y ys x x'); eauto.
      destruct (prefixb_comparable ceqb ceqb_spec _ _ _ Hp Hp') as [H|H]; unfold Names.related; rewrite H; [reflexivity|apply orb_true_r]. }
    rewrite (ndedup_constant ls X Hne Hall). reflexivity.
Qed.

(* a module with no listed module at or above it belongs to no layer *)
Lemma layer_of_nonmember (um : umap) m :
  (forall x, In x (listed um) -> prefixb x m = false) -> layer_of ceqb um m = Ok None.
Proof.
  intros Hn. unfold layer_of. rewrite exact_layer_unlisted.
  - fold (listed um).
    match goal with |- context [filter ?f (listed um)] => assert (E : filter f (listed um) = []) end.
    { apply filter_none. intros x Hx. unfold Names.sprefixb. rewrite (Hn x Hx). reflexivity. }
    rewrite E. reflexivity.
  - intros Hm. specialize (Hn m Hm). rewrite (prefixb_refl ceqb ceqb_spec) in Hn. discriminate.
Qed.


(* layer lookup never fails when the listed modules are pairwise unrelated *)
Definition lay (um : umap) (m : name) : option N :=
  match layer_of ceqb um m with Ok o => o | Er _ => None end.

Lemma layer_of_total (um : umap) m : pw_unrel (listed um) -> layer_of ceqb um m = Ok (lay um m).
Proof.
  intros Hu. unfold lay.
  destruct (existsb (fun x => prefixb x m) (listed um)) eqn:E.
  - apply existsb_exists in E. destruct E as [x [Hx Hp]]. unfold listed in Hx. apply in_flat_map in Hx.
    destruct Hx as [[X xs] [HX Hxs]]. cbn [snd] in Hxs.
    rewrite (layer_of_member um X xs x m Hu HX Hxs Hp). reflexivity.
  - rewrite (layer_of_nonmember um m); [reflexivity|].
    intros x Hx. destruct (prefixb x m) eqn:Ep; [|reflexivity].
    assert (X : existsb (fun x0 => prefixb x0 m) (listed um) = true) by (apply existsb_exists; eauto). congruence.
Qed.

Lemma lay_member (um : umap) X xs m :
  pw_unrel (listed um) -> In (X, xs) um -> lmember xs m = true -> lay um m = Some X.
Proof.
  intros Hu HX Hm. unfold SpecLayer.lmember in Hm. apply existsb_exists in Hm. destruct Hm as [x [Hx Hp]].
  unfold lay. rewrite (layer_of_member um X xs x m Hu HX Hx Hp). reflexivity.
Qed.

Lemma nodup_fst_functional {K V} (l : list (K * V)) k v1 v2 :
  NoDup (map fst l) -> In (k, v1) l -> In (k, v2) l -> v1 = v2.
Proof.
  induction l as [|[k0 v0] l IH]; [intros _ []|]. cbn [map fst]. intros Hnd H1 H2.
  inversion Hnd as [|? ? Hni Hnd']; subst.
  destruct H1 as [H1|H1]; destruct H2 as [H2|H2].
  - congruence.
  - injection H1 as -> ->. exfalso. apply Hni. apply in_map_iff. exists (k, v2). auto.
  - injection H2 as -> ->. exfalso. apply Hni. apply in_map_iff. exists (k, v1). auto.
  - eapply IH; eauto.
Qed.

Lemma lay_is (um : umap) X xs m :
  pw_unrel (listed um) -> NoDup (map fst um) -> In (X, xs) um ->
  (lay um m = Some X <-> lmember xs m = true).
Proof.
  intros Hu Hnd HX. split; [|apply lay_member; auto].
  intros Hl. destruct (existsb (fun x => prefixb x m) (listed um)) eqn:E.
  - apply existsb_exists in E. destruct E as [x [Hx Hp]]. unfold listed in Hx. apply in_flat_map in Hx.
    destruct Hx as [[Y ys] [HY Hys]]. cbn [snd] in Hys.
    assert (Hy : lay um m = Some Y).
    { unfold lay. rewrite (layer_of_member um Y ys x m Hu HY Hys Hp). reflexivity. }
    rewrite Hl in Hy. injection Hy as <-.
    assert (Exs : xs = ys) by (eapply nodup_fst_functional; eauto).
    subst ys. unfold SpecLayer.lmember. apply existsb_exists. eauto.
  - exfalso. unfold lay in Hl. rewrite (layer_of_nonmember um m) in Hl; [discriminate|].
    intros x Hx. destruct (prefixb x m) eqn:Ep; [|reflexivity].
    assert (X0 : existsb (fun x0 => prefixb x0 m) (listed um) = true) by (apply existsb_exists; eauto). congruence.
Qed.


(* ---- the lenient buckets are total functions of the tables ---- *)
Definition oriented (imp : bool) (e : name * name) : name * name := if imp then e else swap_pair e.

Definition conc_line (um : umap) (imp : bool) (e : name * name) : list (@lline comp) :=
  let e' := oriented imp e in
  if opt_eqb (lay um (fst e')) (lay um (snd e')) then []
  else [LLConc (fst e') (lay um (fst e')) (snd e') (lay um (snd e'))].

Lemma lrealised_total {K} (um : umap) imp (r : list (K * list (name * name))) :
  pw_unrel (listed um) ->
  lrealised ceqb um imp r = Ok (concat (map (conc_line um imp) (flat_map snd r))).
Proof.
  intros Hu. unfold lrealised.
  rewrite (map_res_ok _ (conc_line um imp)); [reflexivity|].
  intros e _. unfold conc_line, oriented. rewrite !(layer_of_total um _ Hu). reflexivity.
Qed.

Lemma concat_nil {X} (ls : list (list X)) : concat ls = [] <-> forall l, In l ls -> l = [].
Proof.
  induction ls as [|l ls IH]; simpl; [split; [intros _ l []|reflexivity]|].
  split.
  - intros H. apply app_eq_nil in H. destruct H as [-> H]. intros l' [<-|Hl]; [reflexivity|]. apply IH; auto.
  - intros H. rewrite (H l (or_introl eq_refl)). apply IH. intros l' Hl; apply H; right; exact Hl.
Qed.

Lemma lrealised_nil_iff {K} (um : umap) imp (r : list (K * list (name * name))) :
  concat (map (conc_line um imp) (flat_map snd r)) = [] <->
  forall kv e, In kv r -> In e (snd kv) ->
    opt_eqb (lay um (fst (oriented imp e))) (lay um (snd (oriented imp e))) = true.
Proof.
  rewrite concat_nil. split.
  - intros H kv e Hkv He.
    assert (Hc : conc_line um imp e = []).
    { apply H. apply in_map. apply in_flat_map. exists kv. auto. }
    unfold conc_line in Hc. destruct (opt_eqb _ _); [reflexivity|discriminate].
  - intros H l Hl. apply in_map_iff in Hl. destruct Hl as [e [<- He]]. apply in_flat_map in He.
    destruct He as [kv [Hkv He]]. unfold conc_line. rewrite (H kv e Hkv He). reflexivity.
Qed.


(* missing-explicit bucket as a total function *)
Definition tag_row (um : umap) (imp : bool) (kv : (filt * filt) * list (name * name)) : option N * option N * bool :=
  let so := if imp then fst kv else swap_pair (fst kv) in
  (lay um (fid (fst so)), lay um (fid (snd so)), is_nil (snd kv)).

Definition group_lines (tagged : list (option N * option N * bool)) (lm : N * list name) : list (@lline comp) :=
  let mine := filter (fun t => opt_eqb (snd (fst t)) (Some (fst lm))) tagged in
  if is_nil mine then []
  else if forallb (fun t => snd t) mine then
    flat_map (fun t => match fst (fst t) with Some ls => [LLMissing ls [fst lm]] | None => [] end) mine
  else [].

Lemma lmissing_explicit_total (um : umap) imp (r : list ((filt * filt) * list (name * name))) :
  pw_unrel (listed um) ->
  lmissing_explicit ceqb um imp r = Ok (flat_map (group_lines (map (tag_row um imp) r)) um).
Proof.
  intros Hu. unfold lmissing_explicit.
  rewrite (map_res_ok _ (tag_row um imp)); [reflexivity|].
  intros kv _. unfold tag_row. rewrite !(layer_of_total um _ Hu). reflexivity.
Qed.

Definition any_rows (um : umap) (ss os : list filt) : list (option N * list (option N)) :=
  map (fun s => (lay um (fid s), map (fun o => lay um (fid o)) os)) ss.

Definition any_lines (rows : list (option N * list (option N))) : list (@lline comp) :=
  flat_map (fun row => match fst row with
                       | Some ls => [LLMissingAny ls (flat_map (fun lo => match lo with Some l => [l] | None => [] end) (snd row))]
                       | None => [] end) rows.

Lemma lmissing_any_total (um : umap) imp (ss os : list filt) (lo : list (@lline comp)) :
  pw_unrel (listed um) ->
  lmissing_any ceqb um imp ss os lo = Ok (if is_nil lo then any_lines (any_rows um ss os) else []).
Proof.
  intros Hu. unfold lmissing_any. destruct (is_nil lo); [|reflexivity].
  rewrite (map_res_ok _ (fun s => (lay um (fid s), map (fun o => lay um (fid o)) os))); [reflexivity|].
  intros s _. rewrite (layer_of_total um _ Hu). cbn [bind].
  rewrite (map_res_ok _ (fun o => lay um (fid o))); [reflexivity|].
  intros o _. apply (layer_of_total um _ Hu).
Qed.

(* ---- a well-formed layer rule ---- *)
Section WF.
Variable rmatch : N -> name -> bool.
Variables (g : graph) (um : umap) (L : N) (XL : list name) (Ms : list (N * list name)) (ss os : list filt).

Record lwf : Prop := {
  lw_unrel : pw_unrel (listed um);                       (* listed modules pairwise unrelated *)
  lw_nodup : NoDup (map fst um);                         (* layer names distinct *)
  lw_subj : In (L, XL) um;                               (* the subject layer *)
  lw_objs : forall M XM, In (M, XM) Ms -> In (M, XM) um /\ M <> L /\ XM <> [];   (* object layers, none is the subject *)
  lw_ss : ss = map Named XL;                             (* lowered subject filters *)
  lw_os : forall O, In O os <-> exists M XM x, In (M, XM) Ms /\ In x XM /\ O = Named x;   (* lowered object filters *)
  lw_strict : strict ceqb g ss os                        (* modules exist, pairwise unrelated, both sides non-empty *)
}.

Hypothesis W : lwf.

Lemma inD_named x m : inD ceqb (Named x) m = prefixb x m.
Proof. unfold inD. cbn [fid fparent andb negb]. apply andb_true_r. Qed.

Lemma subj_layer S x : In S ss -> inD ceqb S x = true -> lmember XL x = true /\ lay um x = Some L.
Proof.
  intros HS Hd. rewrite (lw_ss W) in HS. apply in_map_iff in HS. destruct HS as [xs [<- Hxs]].
  rewrite inD_named in Hd.
  assert (Hm : lmember XL x = true) by (unfold SpecLayer.lmember; apply existsb_exists; eauto).
  split; [exact Hm|]. apply (lay_member um L XL x (lw_unrel W) (lw_subj W) Hm).
Qed.

Lemma obj_layer O y : In O os -> inD ceqb O y = true ->
  exists M XM, In (M, XM) Ms /\ lmember XM y = true /\ lay um y = Some M /\ M <> L.
Proof.
  intros HO Hd. apply (lw_os W) in HO. destruct HO as [M [XM [x [HM [Hx ->]]]]].
  rewrite inD_named in Hd. destruct (lw_objs W M XM HM) as [Hum [Hne _]].
  assert (Hm : lmember XM y = true) by (unfold SpecLayer.lmember; apply existsb_exists; eauto).
  exists M, XM. repeat split; auto. apply (lay_member um M XM y (lw_unrel W) Hum Hm).
Qed.

Lemma lmember_subj x : lmember XL x = true -> exists S, In S ss /\ inD ceqb S x = true.
Proof.
  unfold SpecLayer.lmember. intros H. apply existsb_exists in H. destruct H as [xs [Hxs Hp]].
  exists (Named xs). split; [rewrite (lw_ss W); apply in_map; exact Hxs | rewrite inD_named; exact Hp].
Qed.

Lemma lmember_obj M XM y : In (M, XM) Ms -> lmember XM y = true -> exists O, In O os /\ inD ceqb O y = true.
Proof.
  unfold SpecLayer.lmember. intros HM H. apply existsb_exists in H. destruct H as [xo [Hxo Hp]].
  exists (Named xo). split; [apply (lw_os W); exists M, XM, xo; auto | rewrite inD_named; exact Hp].
Qed.

(* access L M in terms of the explicit table *)
Lemma access_iff imp M XM : In (M, XM) Ms ->
  (l_access ceqb g imp XL XM = true <->
   exists S x e, In S ss /\ In x XM /\ In e (edges_of ceqb g imp S (Named x))).
Proof.
  intros HM. unfold l_access. rewrite existsb_exists. split.
  - intros [e [He Hc]]. apply andb_true_iff in Hc. destruct Hc as [Hx Hy].
    destruct (lmember_subj _ Hx) as [S [HS HdS]].
    unfold SpecLayer.lmember in Hy. apply existsb_exists in Hy. destruct Hy as [xo [Hxo Hp]].
    exists S, xo, e. repeat split; auto. unfold edges_of. apply filter_In. split; [exact He|].
    cbn zeta. rewrite HdS, inD_named, Hp. reflexivity.
  - intros [S [xo [e [HS [Hxo He]]]]]. unfold edges_of in He. apply filter_In in He. destruct He as [He Hc].
    cbn zeta in Hc. apply andb_true_iff in Hc. destruct Hc as [HdS HdO]. rewrite inD_named in HdO.
    exists e. split; [exact He|]. cbn zeta. destruct (subj_layer S _ HS HdS) as [Hm _]. rewrite Hm.
    unfold SpecLayer.lmember. cbn [andb]. apply existsb_exists. eauto.
Qed.

(* bucket: realised explicit dependencies (never between two modules of one layer) *)
Lemma realised_expl_nil imp :
  concat (map (conc_line um imp) (flat_map snd (expl_table ceqb g imp ss os))) = [] <->
  forall M XM, In (M, XM) Ms -> l_access ceqb g imp XL XM = false.
Proof.
  rewrite lrealised_nil_iff. split.
  - intros H M XM HM. apply not_true_iff_false. intros Ha. apply (access_iff imp M XM HM) in Ha.
    destruct Ha as [S [xo [e [HS [Hxo He]]]]].
    assert (HO : In (Named xo) os) by (apply (lw_os W); exists M, XM, xo; auto).
    specialize (H ((if imp then (S, Named xo) else (Named xo, S)), edges_of ceqb g imp S (Named xo)) e).
    cbn [snd] in H.
    assert (Hk : In ((if imp then (S, Named xo) else (Named xo, S)), edges_of ceqb g imp S (Named xo)) (expl_table ceqb g imp ss os))
      by (apply in_expl_table; eauto).
    specialize (H Hk He). unfold edges_of in He. apply filter_In in He. destruct He as [_ Hc]. cbn zeta in Hc.
    apply andb_true_iff in Hc. destruct Hc as [HdS HdO].
    assert (Eo : oriented imp e = orient imp e) by (destruct imp; reflexivity). rewrite Eo in H.
    destruct (subj_layer S _ HS HdS) as [_ Hl1]. destruct (obj_layer (Named xo) _ HO HdO) as [M' [XM' [_ [_ [Hl2 Hne]]]]].
    rewrite Hl1, Hl2 in H. cbn [opt_eqb] in H. apply N.eqb_eq in H. congruence.
  - intros H kv e Hkv He. apply in_expl_table in Hkv. destruct Hkv as [S [O [HS [HO ->]]]]. cbn [snd] in He.
    exfalso. apply (lw_os W) in HO. destruct HO as [M [XM [xo [HM [Hxo ->]]]]].
    specialize (H M XM HM). apply not_true_iff_false in H. apply H. apply (access_iff imp M XM HM). exists S, xo, e. auto.
Qed.


(* "something else" for the whole layer, in terms of the other-table *)
Lemma other_iff imp :
  l_other ceqb g imp XL (map snd Ms) = true <->
  exists S e, In S ss /\ In e (others_of ceqb g imp S os) /\ lmember XL (snd (orient imp e)) = false.
Proof.
  unfold l_other. rewrite existsb_exists. split.
  - intros [e [He Hc]]. unfold l_is_other in Hc. apply andb_true_iff in Hc. destruct Hc as [Hc Hall].
    apply andb_true_iff in Hc. destruct Hc as [Hx Hy]. apply negb_true_iff in Hy.
    destruct (lmember_subj _ Hx) as [S [HS HdS]]. exists S, e. split; [exact HS|]. split; [|exact Hy].
    unfold others_of. apply filter_In. split; [exact He|]. unfold SpecRule.is_other.
    rewrite HdS. cbn [andb].
    assert (Hin : inside ceqb imp S (snd (orient imp e)) = false).
    { rewrite (lw_ss W) in HS. apply in_map_iff in HS. destruct HS as [xs [<- Hxs]].
      assert (Hp : prefixb xs (snd (orient imp e)) = false).
      { destruct (prefixb xs (snd (orient imp e))) eqn:Ep; [|reflexivity].
        assert (X : lmember XL (snd (orient imp e)) = true) by (unfold SpecLayer.lmember; apply existsb_exists; eauto). congruence. }
      unfold inside. destruct imp; [exact Hp|rewrite inD_named; exact Hp]. }
    rewrite Hin. cbn [negb andb]. apply forallb_forall. intros O HO. apply negb_true_iff.
    destruct (inD ceqb O (snd (orient imp e))) eqn:Ed; [|reflexivity]. exfalso.
    destruct (obj_layer O _ HO Ed) as [M [XM [HM [Hm _]]]].
    rewrite forallb_forall in Hall. specialize (Hall XM (in_map snd Ms (M, XM) HM)). rewrite Hm in Hall. discriminate.
  - intros [S [e [HS [He Hy]]]]. unfold others_of in He. apply filter_In in He. destruct He as [He Hc].
    exists e. split; [exact He|]. unfold SpecRule.is_other in Hc. apply andb_true_iff in Hc. destruct Hc as [Hc Hall].
    apply andb_true_iff in Hc. destruct Hc as [HdS _].
    unfold l_is_other. destruct (subj_layer S _ HS HdS) as [Hm _]. rewrite Hm, Hy. cbn [negb andb].
    apply forallb_forall. intros XM HXM. apply in_map_iff in HXM. destruct HXM as [[M XM'] [<- HM]]. cbn [snd].
    apply negb_true_iff. destruct (lmember XM' (snd (orient imp e))) eqn:Em; [|reflexivity]. exfalso.
    destruct (lmember_obj M XM' _ HM Em) as [O [HO Hd]]. rewrite forallb_forall in Hall.
    specialize (Hall O HO). rewrite Hd in Hall. discriminate.
Qed.

(* bucket: realised other dependencies, imports inside the subject layer removed *)
Lemma realised_other_nil imp :
  concat (map (conc_line um imp) (flat_map snd (other_table ceqb g imp ss os))) = [] <->
  l_other ceqb g imp XL (map snd Ms) = false.
Proof.
  rewrite lrealised_nil_iff. split.
  - intros H. apply not_true_iff_false. intros Ho. apply other_iff in Ho. destruct Ho as [S [e [HS [He Hy]]]].
    specialize (H (S, others_of ceqb g imp S os) e). cbn [snd] in H.
    assert (Hk : In (S, others_of ceqb g imp S os) (other_table ceqb g imp ss os)) by (unfold other_table; apply in_map_iff; eauto).
    specialize (H Hk He).
    assert (Eo : oriented imp e = orient imp e) by (destruct imp; reflexivity). rewrite Eo in H.
    unfold others_of in He. apply filter_In in He. destruct He as [_ Hc]. unfold SpecRule.is_other in Hc.
    apply andb_true_iff in Hc. destruct Hc as [Hc _]. apply andb_true_iff in Hc. destruct Hc as [HdS _].
    destruct (subj_layer S _ HS HdS) as [_ Hl1]. rewrite Hl1 in H.
    destruct (lay um (snd (orient imp e))) as [Y|] eqn:Ey; cbn [opt_eqb] in H; [|discriminate].
    apply N.eqb_eq in H. subst Y.
    apply (lay_is um L XL _ (lw_unrel W) (lw_nodup W) (lw_subj W)) in Ey. congruence.
  - intros H kv e Hkv He. unfold other_table in Hkv. apply in_map_iff in Hkv. destruct Hkv as [S [<- HS]]. cbn [snd] in He.
    assert (Eo : oriented imp e = orient imp e) by (destruct imp; reflexivity). rewrite Eo.
    pose proof He as He'. unfold others_of in He'. apply filter_In in He'. destruct He' as [_ Hc]. unfold SpecRule.is_other in Hc.
    apply andb_true_iff in Hc. destruct Hc as [Hc _]. apply andb_true_iff in Hc. destruct Hc as [HdS _].
    destruct (subj_layer S _ HS HdS) as [_ Hl1]. rewrite Hl1.
    destruct (lmember XL (snd (orient imp e))) eqn:Em.
    + rewrite (lay_member um L XL _ (lw_unrel W) (lw_subj W) Em). cbn. apply N.eqb_refl.
    + exfalso. apply not_true_iff_false in H. apply H. apply other_iff. eauto.
Qed.


Lemma lay_subject_filter S : In S ss -> lay um (fid S) = Some L.
Proof.
  intros HS. apply (subj_layer S (fid S) HS). rewrite (lw_ss W) in HS. apply in_map_iff in HS.
  destruct HS as [xs [<- _]]. rewrite inD_named. apply (prefixb_refl ceqb ceqb_spec).
Qed.

Lemma lay_object_filter M XM xo : In (M, XM) Ms -> In xo XM -> lay um xo = Some M.
Proof.
  intros HM Hxo. destruct (lw_objs W M XM HM) as [Hum _].
  apply (lay_member um M XM xo (lw_unrel W) Hum). unfold SpecLayer.lmember. apply existsb_exists.
  exists xo. split; [exact Hxo|apply (prefixb_refl ceqb ceqb_spec)].
Qed.

(* a tagged row of the explicit table *)
Lemma tag_row_pair imp (S O : filt) l :
  tag_row um imp ((if imp then (S, O) else (O, S)), l) = (lay um (fid S), lay um (fid O), is_nil l).
Proof. destruct imp; reflexivity. Qed.

Lemma tagged_row_spec imp t :
  In t (map (tag_row um imp) (expl_table ceqb g imp ss os)) <->
  exists S M XM xo, In S ss /\ In (M, XM) Ms /\ In xo XM /\
                    t = (Some L, Some M, is_nil (edges_of ceqb g imp S (Named xo))).
Proof.
  rewrite in_map_iff. split.
  - intros [kv [<- Hkv]]. apply in_expl_table in Hkv. destruct Hkv as [S [O [HS [HO ->]]]].
    apply (lw_os W) in HO. destruct HO as [M [XM [xo [HM [Hxo ->]]]]].
    exists S, M, XM, xo. repeat split; auto. rewrite tag_row_pair. cbn [fid].
    rewrite (lay_subject_filter S HS), (lay_object_filter M XM xo HM Hxo). reflexivity.
  - intros [S [M [XM [xo [HS [HM [Hxo ->]]]]]]].
    exists ((if imp then (S, Named xo) else (Named xo, S)), edges_of ceqb g imp S (Named xo)). split.
    + rewrite tag_row_pair. cbn [fid].
      rewrite (lay_subject_filter S HS), (lay_object_filter M XM xo HM Hxo). reflexivity.
    + apply in_expl_table. exists S, (Named xo). repeat split; auto. apply (lw_os W). exists M, XM, xo. auto.
Qed.

Lemma nonempty_has {X} (l : list X) : l <> [] -> exists x, In x l.
Proof. destruct l as [|x l]; [congruence|]. intros _. exists x. left; reflexivity. Qed.

Lemma flat_map_nil {X Y} (f : X -> list Y) l : flat_map f l = [] <-> forall x, In x l -> f x = [].
Proof.
  induction l as [|y l IH]; simpl; [split; [intros _ x []|reflexivity]|]. split.
  - intros H. apply app_eq_nil in H. destruct H as [Hy Hl]. intros x [<-|Hx]; [exact Hy|]. apply IH; auto.
  - intros H. rewrite (H y (or_introl eq_refl)). apply IH. intros x Hx; apply H; right; exact Hx.
Qed.

(* bucket: required access that is missing, per object layer *)
Lemma missing_explicit_nil_iff imp :
  flat_map (group_lines (map (tag_row um imp) (expl_table ceqb g imp ss os))) um = [] <->
  forall M XM, In (M, XM) Ms -> l_access ceqb g imp XL XM = true.
Proof.
  set (T := map (tag_row um imp) (expl_table ceqb g imp ss os)).
  assert (Hss : ss <> []) by exact (st_subj _ _ _ _ (lw_strict W)).
  rewrite flat_map_nil. split.
  - intros H M XM HM. destruct (l_access ceqb g imp XL XM) eqn:Ea; [reflexivity|]. exfalso.
    destruct (lw_objs W M XM HM) as [Hum [_ Hne]].
    specialize (H (M, XM) Hum). unfold group_lines in H. cbn [fst] in H.
    destruct (nonempty_has ss Hss) as [S0 HS0]. destruct (nonempty_has XM Hne) as [xo0 Hxo0].
    set (t0 := (Some L, Some M, is_nil (edges_of ceqb g imp S0 (Named xo0)))).
    set (mine := filter (fun t : option N * option N * bool => opt_eqb (snd (fst t)) (Some M)) T) in *.
    assert (Ht0 : In t0 mine).
    { apply filter_In. split; [|cbn; apply N.eqb_refl]. apply tagged_row_spec.
      exists S0, M, XM, xo0. repeat split; auto. }
    assert (Hall : forallb (fun t : option N * option N * bool => snd t) mine = true).
    { apply forallb_forall. intros t Ht. apply filter_In in Ht. destruct Ht as [Ht Hl].
      apply tagged_row_spec in Ht. destruct Ht as [S [M' [XM'' [xo [HS [HM' [Hxo ->]]]]]]]. cbn [fst snd] in *.
      apply N.eqb_eq in Hl. subst M'.
      assert (EX : XM'' = XM).
      { destruct (lw_objs W M XM'' HM') as [Hum' _]. eapply nodup_fst_functional; [exact (lw_nodup W)|exact Hum'|exact Hum]. }
      apply is_nil_true. apply edges_of_nil. unfold sp_edge. apply not_true_iff_false. intros Hex.
      apply existsb_exists in Hex. destruct Hex as [e [He Hc]].
      assert (Hacc : l_access ceqb g imp XL XM = true).
      { apply (access_iff imp M XM HM). exists S, xo, e. rewrite <- EX. repeat split; auto.
        unfold edges_of. apply filter_In. auto. }
      congruence. }
    destruct (is_nil mine) eqn:En; [apply is_nil_true in En; rewrite En in Ht0; destruct Ht0|].
    rewrite Hall in H. rewrite flat_map_nil in H. specialize (H t0 Ht0). discriminate.
  - intros H [Y ys] HY. unfold group_lines. cbn [fst].
    set (mine := filter (fun t : option N * option N * bool => opt_eqb (snd (fst t)) (Some Y)) T).
    destruct (is_nil mine) eqn:En; [reflexivity|].
    destruct mine as [|t mine'] eqn:Em; [discriminate|].
    assert (Ht : In t mine) by (rewrite Em; left; reflexivity).
    unfold mine in Ht. apply filter_In in Ht. destruct Ht as [Ht Hl].
    apply tagged_row_spec in Ht. destruct Ht as [S [M [XM [xo [HS [HM [Hxo ->]]]]]]]. cbn [fst snd] in Hl.
    apply N.eqb_eq in Hl. subst Y.
    specialize (H M XM HM). apply (access_iff imp M XM HM) in H. destruct H as [S' [xo' [e [HS' [Hxo' He]]]]].
    assert (Hrow : In (Some L, Some M, is_nil (edges_of ceqb g imp S' (Named xo'))) mine).
    { unfold mine. apply filter_In. split; [|cbn; apply N.eqb_refl]. apply tagged_row_spec. exists S', M, XM, xo'. auto. }
    assert (Hf : forallb (fun t0 : option N * option N * bool => snd t0) mine = false).
    { apply not_true_iff_false. intros Hall. rewrite forallb_forall in Hall. specialize (Hall _ Hrow). cbn [snd] in Hall.
      apply is_nil_true in Hall. rewrite Hall in He. destruct He. }
    rewrite <- Em. rewrite Hf. reflexivity.
Qed.

Lemma any_lines_nonempty : any_lines (any_rows um ss os) <> [].
Proof.
  assert (Hss : ss <> []) by exact (st_subj _ _ _ _ (lw_strict W)).
  destruct (nonempty_has ss Hss) as [S0 HS0].
  intros E. unfold any_lines in E. rewrite flat_map_nil in E.
  specialize (E (lay um (fid S0), map (fun o => lay um (fid o)) os)).
  assert (Hin : In (lay um (fid S0), map (fun o => lay um (fid o)) os) (any_rows um ss os)).
  { unfold any_rows. apply in_map_iff. exists S0. auto. }
  specialize (E Hin). cbn [fst] in E. rewrite (lay_subject_filter S0 HS0) in E. discriminate.
Qed.


Lemma group_lines_nil_table lm : group_lines [] lm = [].
Proof. reflexivity. Qed.

Lemma flat_map_const_nil {X Y} (l : list X) : flat_map (fun _ : X => @nil Y) l = [].
Proof. induction l; simpl; auto. Qed.

Lemma is_nil_false_iff {X} (l : list X) : is_nil l = false <-> l <> [].
Proof. destruct l; simpl; split; congruence. Qed.

(* C05: the lenient layer buckets are empty exactly when the documented layer semantics hold *)
Theorem layer_violations_spec v imp exc :
  exists ls, lviolations ceqb g (mk_cfg v imp exc ss os) um imp ss os = Ok ls /\
             (ls = [] <-> lspec_holds ceqb g v imp exc XL (map snd Ms) = true).
Proof.
  pose proof (lw_strict W) as Hst. pose proof (lw_unrel W) as Hu.
  pose proof (get_dependencies_strict ceqb ceqb_spec g ss os imp Hst) as HE. fold (expl_table ceqb g imp ss os) in HE.
  assert (HO : (if imp then other_out_all ceqb g (if imp then ss else os) (if imp then os else ss)
                else other_in_all ceqb g (if imp then ss else os) (if imp then os else ss))
               = Ok (other_table ceqb g imp ss os)).
  { destruct imp; [apply (other_out_strict ceqb ceqb_spec) | apply (other_in_strict ceqb ceqb_spec)]; exact Hst. }
  pose proof (realised_expl_nil imp) as RE. pose proof (realised_other_nil imp) as RO.
  pose proof (missing_explicit_nil_iff imp) as ME. pose proof any_lines_nonempty as MA.
  set (re := concat (map (conc_line um imp) (flat_map snd (expl_table ceqb g imp ss os)))) in *.
  set (ro := concat (map (conc_line um imp) (flat_map snd (other_table ceqb g imp ss os)))) in *.
  set (me := flat_map (group_lines (map (tag_row um imp) (expl_table ceqb g imp ss os))) um) in *.
  unfold lviolations, expl_required, expl_forbidden, other_required, other_forbidden.
  destruct v, exc; cbn [mk_cfg c_should c_only c_not c_exc negb andb orb];
    rewrite ?HE, ?HO; cbn [bind];
    rewrite !(lrealised_total um imp _ Hu), !(lmissing_explicit_total um imp _ Hu); cbn [bind];
    rewrite (lmissing_any_total um imp ss os _ Hu); cbn [bind flat_map map concat app];
    fold re ro me; eexists; (split; [reflexivity|]); cbn [lspec_holds];
    rewrite ?app_nil_r.
  - (* should ... except *)
    destruct (is_nil ro) eqn:En.
    + apply is_nil_true in En. split; [intros E; exfalso; exact (MA E)|]. intros H. exfalso.
      apply RO in En. congruence.
    + apply is_nil_false_iff in En. split; [intros _|reflexivity].
      destruct (l_other ceqb g imp XL (map snd Ms)) eqn:Eo; [reflexivity|]. exfalso. apply En. apply RO. reflexivity.
  - (* should *)
    rewrite ME. rewrite forallb_forall. split.
    + intros H XM HXM. apply in_map_iff in HXM. destruct HXM as [[M XM'] [<- HM]]. apply (H M XM' HM).
    + intros H M XM HM. apply H. apply (in_map snd Ms (M, XM) HM).
  - (* should_only ... except *)
    rewrite andb_true_iff. destruct (is_nil ro) eqn:En.
    + apply is_nil_true in En. split.
      * intros E. apply app_eq_nil in E. destruct E as [_ E]. exfalso; exact (MA E).
      * intros [H _]. exfalso. apply RO in En. congruence.
    + apply is_nil_false_iff in En. rewrite app_nil_r, RE. split.
      * intros H. split.
        -- destruct (l_other ceqb g imp XL (map snd Ms)) eqn:Eo; [reflexivity|]. exfalso. apply En. apply RO. reflexivity.
        -- apply forallb_forall. intros XM HXM. apply in_map_iff in HXM. destruct HXM as [[M XM'] [<- HM]].
           apply negb_true_iff. apply (H M XM' HM).
      * intros [_ H] M XM HM. rewrite forallb_forall in H. specialize (H XM (in_map snd Ms (M, XM) HM)).
        apply negb_true_iff in H. exact H.
  - (* should_only *)
    rewrite andb_true_iff, negb_true_iff. split.
    + intros E. apply app_eq_nil in E. destruct E as [E1 E2]. split.
      * apply forallb_forall. intros XM HXM. apply in_map_iff in HXM. destruct HXM as [[M XM'] [<- HM]].
        apply (proj1 ME E2 M XM' HM).
      * apply (proj1 RO E1).
    + intros [H1 H2]. rewrite (proj2 RO H2). cbn [app]. apply (proj2 ME). intros M XM HM.
      rewrite forallb_forall in H1. apply H1. apply (in_map snd Ms (M, XM) HM).
  - (* should_not ... except *)
    rewrite negb_true_iff. exact RO.
  - (* should_not *)
    rewrite RE, forallb_forall. split.
    + intros H XM HXM. apply in_map_iff in HXM. destruct HXM as [[M XM'] [<- HM]]. apply negb_true_iff. apply (H M XM' HM).
    + intros H M XM HM. specialize (H XM (in_map snd Ms (M, XM) HM)). apply negb_true_iff in H. exact H.
Qed.


End WF.

(* ---- from LayerRule.assert_applies to the buckets ---- *)
Section Top.
Variable rmatch : N -> name -> bool.

Definition lis_pass (o : @loutcome comp) : bool := match o with LPass => true | _ => false end.
Definition lis_err (o : @loutcome comp) : bool := match o with LErr _ => true | _ => false end.

(* the configuration LayerRule builds: subject = the filters of one layer, objects = those of the object layers *)
Definition mk_lcfg (v : verb) (imp exc : bool) (Su Ob : list (@ufilt comp)) : @cfg comp :=
  mk_ucfg v imp exc Su Ob.

Theorem layer_assert_spec g (a : @larch comp) v imp exc Su Ob ss os L XL Ms :
  Su <> [] -> Ob <> [] ->
  convert rmatch g Su = Ok ss -> convert rmatch g Ob = Ok os ->
  lwf g (updated_mapping rmatch g (mk_lcfg v imp exc Su Ob) a) L XL Ms ss os ->
  lis_err (layer_assert_applies ceqb rmatch g a (mk_lcfg v imp exc Su Ob)) = false /\
  lis_pass (layer_assert_applies ceqb rmatch g a (mk_lcfg v imp exc Su Ob))
    = lspec_holds ceqb g v imp exc XL (map snd Ms).
Proof.
  intros HSu HOb Hcs Hco W. unfold mk_lcfg in *.
  set (C := mk_ucfg v imp exc Su Ob) in *.
  assert (Hany : c_any C = false) by reflexivity.
  assert (Hca : convert_aliases ceqb C = C) by (unfold convert_aliases; rewrite Hany; reflexivity).
  assert (Hreq : required_present C = true).
  { unfold required_present, C. cbn [mk_ucfg c_should c_only c_not c_imp c_subj c_obj].
    destruct Su; [congruence|]. destruct Ob; [congruence|]. destruct v; reflexivity. }
  assert (Hcons : behavior_consistent C = true) by (unfold C; destruct v, exc; reflexivity).
  assert (Hi : c_imp C = Some imp) by reflexivity.
  assert (Hs : opt_list (c_subj C) = Su) by reflexivity.
  assert (Ho : opt_list (c_obj C) = Ob) by reflexivity.
  destruct (layer_violations_spec g _ L XL Ms ss os W v imp exc) as [ls [Hv Hiff]].
  assert (Hv' : lviolations ceqb g C (updated_mapping rmatch g C a) imp ss os = Ok ls) by exact Hv.
  unfold layer_assert_applies. rewrite Hany. cbn [andb]. rewrite Hca, Hreq, Hcons. cbn [negb].
  rewrite Hi, Hs, Ho, Hcs, Hco, Hv'.
  destruct (lspec_holds ceqb g v imp exc XL (map snd Ms)) eqn:Es.
  - rewrite (proj2 Hiff eq_refl). split; reflexivity.
  - destruct ls as [|l ls]; [|split; reflexivity]. discriminate (proj1 Hiff eq_refl).
Qed.

End Top.
End LayerProofs.
