(* WDiagramProofs.v — a DiagramRule evaluated over the worklist loops terminates and has the outcome of Model/Diagram.v's
   [diagram_apply] (same class, same error, same set of report lines). *)
From Coq Require Import List Bool NArith.
From PTA Require Import Names Graph Search Worklist Rule WRule Diagram WDiagram NamesProofs SearchProofs GraphProofs WorklistProofs WRuleProofs.
Import ListNotations.

Section WDiagramProofs.
Context {comp : Type} (ceqb : comp -> comp -> bool).
Hypothesis ceqb_spec : forall x y, reflect (x = y) (ceqb x y).
Variable rmatch : N -> list comp -> bool.
Variable g : @graph comp.
Hypothesis Hwf : wf_graph g.
Hypothesis Hanc : forall n p, In n (nodes g) -> In p (proper_prefixes n) -> In p (nodes g).
Hypothesis Hnh : forall a b, In (a, b) (imps g) -> childb ceqb a b = false.

Lemma w_aggregate_refines (cs : list (@cfg comp)) : forall failed acc acc',
  (forall x, In x acc <-> In x acc') ->
  exists o, w_aggregate (map (w_assert_applies ceqb rmatch g) cs) failed acc = Some o /\
            outcome_equiv o (aggregate (map (verdict ceqb rmatch g) cs) failed acc').
Proof.
  induction cs as [|c cs IH]; intros failed acc acc' Hacc.
  - cbn [map w_aggregate aggregate]. destruct failed; [exists (Fail acc)|exists Pass]; split; try reflexivity. exact Hacc.
  - cbn [map w_aggregate aggregate].
    destruct (w_assert_applies_refines ceqb ceqb_spec rmatch g Hwf Hanc Hnh c) as [o [-> Ho]].
    destruct o as [|ls|e]; destruct (verdict ceqb rmatch g c) as [|ls'|e']; cbn [outcome_equiv] in Ho; try contradiction.
    + apply IH. exact Hacc.
    + apply IH. intros x. rewrite !in_app_iff, Hacc, Ho. reflexivity.
    + exists (Err e). split; [reflexivity|exact Ho].
Qed.

Theorem w_diagram_apply_refines only base d :
  exists o, w_diagram_apply ceqb rmatch g only base d = Some o /\ outcome_equiv o (diagram_apply ceqb rmatch g only base d).
Proof. unfold w_diagram_apply, diagram_apply. apply w_aggregate_refines. intros x. reflexivity. Qed.

End WDiagramProofs.
