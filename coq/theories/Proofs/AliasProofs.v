(* AliasProofs.v — C01 for the two aliases: 'Ss should not import anything' /
   'Ss should not be imported by anything' with pairwise unrelated subjects pass exactly when no
   import leaves (enters) a subject for (from) something outside every subject: the documented
   semantics of 'should not ... except' with the subjects themselves as objects
   (SpecRule.spec_holds g ShouldNot imp true Ss Ss).  RuleProofs.strict_verdict does not cover
   this shape because a subject is related to itself as an object. *)
From Coq Require Import List Bool Arith Lia NArith.
From PTA Require Import Names Graph Search Rule SpecRule SpecLines NamesProofs SearchProofs RuleProofs AlgebraProofs.
Import ListNotations.

Section AliasProofs.
Context {comp : Type} (ceqb : comp -> comp -> bool).
Hypothesis ceqb_spec : forall x y, reflect (x = y) (ceqb x y).
Variable rmatch : N -> list comp -> bool.
Notation name := (list comp).
Notation graph := (@graph comp).
Notation filt := (@filt comp).
Notation prefixb := (prefixb ceqb).
Notation related := (related ceqb).
Notation inD := (inD ceqb).
Notation filt_eqb := (filt_eqb ceqb).
Notation V := (AlgebraProofs.V ceqb rmatch).

Definition not_self (d : filt) (us : list filt) : list filt := filter (fun u => negb (filt_eqb u d)) us.

(* ---- the subject's own filter among the objects is skipped by both 'other' searches ---- *)
Lemma forallb_filter_skip {X} (p f : X -> bool) l : (forall x, f x = false -> p x = true) -> forallb p l = forallb p (filter f l).
Proof.
  intros H. induction l as [|x l IH]; [reflexivity|]. cbn [forallb filter]. destruct (f x) eqn:E.
  - cbn [forallb]. rewrite IH. reflexivity.
  - rewrite (H x E). exact IH.
Qed.

Lemma flat_map_filter_skip {X Y} (h : X -> list Y) (f : X -> bool) l : (forall x, f x = false -> h x = []) -> flat_map h l = flat_map h (filter f l).
Proof.
  intros H. induction l as [|x l IH]; [reflexivity|]. cbn [flat_map filter]. destruct (f x) eqn:E.
  - cbn [flat_map]. rewrite IH. reflexivity.
  - rewrite (H x E). exact IH.
Qed.

Lemma filter_idem {X} (f : X -> bool) l : filter f (filter f l) = filter f l.
Proof. induction l as [|x l IH]; [reflexivity|]. cbn [filter]. destruct (f x) eqn:E; cbn [filter]; rewrite ?E, IH; reflexivity. Qed.

Lemma others_exist_self g d us : others_exist ceqb g d us = others_exist ceqb g d (not_self d us).
Proof.
  unfold others_exist, not_self. apply forallb_filter_skip. intros o Ho. apply negb_false_iff in Ho. rewrite Ho. reflexivity.
Qed.

Lemma excl_base_self g d us : excl_base ceqb g d us = excl_base ceqb g d (not_self d us).
Proof.
  unfold excl_base, not_self. apply flat_map_filter_skip. intros o Ho. apply negb_false_iff in Ho. rewrite Ho. reflexivity.
Qed.

Lemma q_other_out_self g d us : q_other_out ceqb g d us = q_other_out ceqb g d (not_self d us).
Proof.
  unfold q_other_out, excl_out. rewrite <- others_exist_self, <- excl_base_self. unfold not_self. rewrite filter_idem. reflexivity.
Qed.

(* ---- pairwise unrelated subjects ---- *)
Lemma pw_unrel_filter (l : list filt) f : pw_unrel ceqb (map fid l) -> pw_unrel ceqb (map fid (filter f l)).
Proof.
  induction l as [|x l IH]; [auto|]. cbn [map filter]. intros [H1 H2]. destruct (f x); [|apply IH; exact H2].
  cbn [map]. split; [|apply IH; exact H2]. intros y Hy. apply H1. apply in_map_iff in Hy. destruct Hy as [z [<- Hz]].
  apply filter_In in Hz. apply in_map. tauto.
Qed.

Lemma unrel_from_not_self (ss : list filt) S : pw_unrel ceqb (map fid ss) -> In S ss -> unrel_from ceqb S (not_self S ss).
Proof.
  intros Hpw HS u Hu. unfold not_self in Hu. apply filter_In in Hu. destruct Hu as [Hu Hne]. apply negb_true_iff in Hne.
  assert (Hsu : S <> u) by (intros ->; destruct (filt_eqb_spec ceqb ceqb_spec u u); congruence).
  exact (pw_unrel_filt ceqb ss S u Hpw HS Hu Hsu).
Qed.

(* the subject among the objects adds nothing to "something else": its own modules are inside anyway *)
Lemma is_other_self imp (S : filt) (ss : list filt) xy : In S ss ->
  is_other ceqb imp S (not_self S ss) xy = is_other ceqb imp S ss xy.
Proof.
  intros HS. unfold is_other. destruct (inD S (fst xy)); cbn [andb]; [|reflexivity].
  destruct (inside ceqb imp S (snd xy)) eqn:Ein; cbn [negb andb]; [reflexivity|].
  assert (HnS : inD S (snd xy) = false).
  { destruct (inD S (snd xy)) eqn:E; [|reflexivity]. unfold inside in Ein. destruct imp; [|congruence].
    rewrite (inD_prefix ceqb ceqb_spec _ _ E) in Ein. discriminate. }
  unfold not_self. symmetry. apply forallb_filter_skip. intros o Ho. apply negb_false_iff in Ho.
  destruct (filt_eqb_spec ceqb ceqb_spec o S) as [E|]; [|discriminate]. rewrite E, HnS. reflexivity.
Qed.

Lemma other_out_alias g (ss : list filt) :
  wf_graph g -> (forall f, In f ss -> exists_f ceqb g f = true) -> pw_unrel ceqb (map fid ss) ->
  other_out_all ceqb g ss ss = Ok (map (fun S => (S, others_of ceqb g true S ss)) ss).
Proof.
  intros Hwf Hex Hpw. unfold other_out_all. apply map_res_ok. intros S HS.
  rewrite q_other_out_self.
  rewrite (q_other_out_char ceqb ceqb_spec g S (not_self S ss) Hwf (Hex S HS)).
  - cbn [bind]. f_equal. f_equal. unfold others_of. apply filter_ext. intros e. cbn [orient]. apply is_other_self. exact HS.
  - intros u Hu. apply Hex. unfold not_self in Hu. apply filter_In in Hu. tauto.
  - apply unrel_from_not_self; assumption.
  - apply pw_unrel_filter. exact Hpw.
Qed.

(* be-imported-by direction: the search removes the ids of all 'sub modules of' filters - also the subject's own -
   from the exclusion set; with unrelated subjects the subject's id is not in it anyway *)
Lemma q_other_in_self g (ss : list filt) u :
  pw_unrel ceqb (map fid ss) -> In u ss ->
  q_other_in ceqb g ss u = q_other_in ceqb g (not_self u ss) u.
Proof.
  intros Hpw Hu. unfold q_other_in. rewrite <- others_exist_self, <- excl_base_self.
  destruct (others_exist ceqb g u ss && exists_f ceqb g u); [|reflexivity]. f_equal.
  apply filter_ext. intros e. f_equal. f_equal. f_equal.
  assert (Heq : forall x, In x (remove_parent_ids ceqb ss (excl_base ceqb g u ss)) <->
                          In x (remove_parent_ids ceqb (not_self u ss) (excl_base ceqb g u ss))).
  { intros x. rewrite !(fold_remove_in ceqb ceqb_spec). split.
    - intros [H1 H2]. split; [exact H1|]. intros v Hv. apply H2. unfold not_self in Hv. apply filter_In in Hv. tauto.
    - intros [H1 H2]. split; [exact H1|]. intros v Hv Hp E.
      destruct (filt_eqb_spec ceqb ceqb_spec v u) as [->|Hne].
      + (* x = fid u would have to be below some other subject *)
        apply (in_excl_base ceqb ceqb_spec) in H1. destruct H1 as [o [Ho [Hno [_ Hpre]]]]. subst x.
        assert (R : related (fid o) (fid u) = false) by (apply (pw_unrel_filt ceqb ss); auto).
        unfold Names.related in R. rewrite Hpre in R. discriminate.
      + apply (H2 v); auto. unfold not_self. apply filter_In. split; [exact Hv|]. apply negb_true_iff.
        destruct (filt_eqb_spec ceqb ceqb_spec v u); congruence. }
  destruct (memb ceqb (fst e) (remove_parent_ids ceqb ss (excl_base ceqb g u ss))) eqn:E1,
           (memb ceqb (fst e) (remove_parent_ids ceqb (not_self u ss) (excl_base ceqb g u ss))) eqn:E2; try reflexivity.
  - apply (memb_spec ceqb ceqb_spec) in E1. apply Heq in E1. apply (memb_spec ceqb ceqb_spec) in E1. congruence.
  - apply (memb_spec ceqb ceqb_spec) in E2. apply Heq in E2. apply (memb_spec ceqb ceqb_spec) in E2. congruence.
Qed.

Lemma other_in_alias g (ss : list filt) :
  wf_graph g -> (forall f, In f ss -> exists_f ceqb g f = true) -> pw_unrel ceqb (map fid ss) ->
  other_in_all ceqb g ss ss = Ok (map (fun S => (S, others_of ceqb g false S ss)) ss).
Proof.
  intros Hwf Hex Hpw. unfold other_in_all. apply map_res_ok. intros S HS.
  rewrite (q_other_in_self g ss S Hpw HS).
  rewrite (q_other_in_char ceqb ceqb_spec g (not_self S ss) S Hwf (Hex S HS)).
  - cbn [bind]. f_equal. f_equal. unfold others_of. apply filter_ext. intros e.
    replace (orient false e) with (snd e, fst e) by (destruct e; reflexivity). apply is_other_self. exact HS.
  - intros u Hu. apply Hex. unfold not_self in Hu. apply filter_In in Hu. tauto.
  - apply unrel_from_not_self; assumption.
  - apply pw_unrel_filter. exact Hpw.
Qed.

(* ---- drop_children is the identity on pairwise unrelated subjects ---- *)
Lemma filter_all_true {X} (p : X -> bool) l : (forall x, In x l -> p x = true) -> filter p l = l.
Proof.
  induction l as [|x l IH]; intros H; [reflexivity|]. cbn [filter]. rewrite (H x (or_introl eq_refl)).
  f_equal. apply IH. intros y Hy. apply H. right. exact Hy.
Qed.

Lemma no_listed_ancestor_unrelated (ss : list filt) :
  pw_unrel ceqb (map fid ss) ->
  forall f, In f (map (@to_u comp) ss) -> has_listed_ancestor ceqb (map (@to_u comp) ss) f = false.
Proof.
  intros Hpw f Hf. apply in_map_iff in Hf. destruct Hf as [s [<- Hs]]. unfold has_listed_ancestor.
  assert (Eu : forall x : filt, uname (to_u x) = Some (fid x)) by (intros [n|n]; reflexivity).
  rewrite Eu. apply not_true_iff_false. intros Hex. apply existsb_exists in Hex. destruct Hex as [f' [Hf' Hsp]].
  apply in_map_iff in Hf'. destruct Hf' as [s' [<- Hs']]. rewrite Eu in Hsp.
  apply (sprefixb_spec ceqb ceqb_spec) in Hsp. destruct Hsp as [Hp Hne].
  assert (R : related (fid s') (fid s) = false).
  { apply (pw_unrel_in ceqb (map fid ss)); auto; apply in_map; assumption. }
  unfold Names.related in R. rewrite Hp in R. discriminate.
Qed.

Lemma drop_children_unrelated (ss : list filt) :
  pw_unrel ceqb (map fid ss) -> drop_children ceqb (map (@to_u comp) ss) = map (@to_u comp) ss.
Proof.
  intros Hpw. unfold drop_children. apply filter_all_true. intros f Hf.
  rewrite (no_listed_ancestor_unrelated ss Hpw f Hf). reflexivity.
Qed.

(* ---- the alias verdict ---- *)
Lemma alias_value g imp (ss : list filt) :
  wf_graph g -> (forall f, In f ss -> exists_f ceqb g f = true) -> pw_unrel ceqb (map fid ss) -> ss <> [] ->
  V g (any_cfg imp (map (@to_u comp) ss)) = of_viol (Ok (realised imp (map (fun S => (S, others_of ceqb g imp S ss)) ss))).
Proof.
  intros Hwf Hex Hpw Hne.
  unfold AlgebraProofs.V.
  rewrite alias_anything by (apply removed_unknown_false; apply no_listed_ancestor_unrelated; exact Hpw).
  rewrite (drop_children_unrelated ss Hpw).
  change (verdict ceqb rmatch g (mk_ucfg ShouldNot imp true (map (@to_u comp) ss) (map (@to_u comp) ss)))
    with (V g (mk_ucfg ShouldNot imp true (map (@to_u comp) ss) (map (@to_u comp) ss))).
    rewrite verdict_unfold by (destruct ss; simpl; congruence).
    rewrite !(convert_plain rmatch g). rewrite viol_should_not_exc. unfold other_query, importers_of, importees_of.
    destruct imp; [rewrite (other_out_alias g ss Hwf Hex Hpw)|rewrite (other_in_alias g ss Hwf Hex Hpw)]; reflexivity.
Qed.

Theorem alias_verdict g imp (ss : list filt) :
  wf_graph g -> (forall f, In f ss -> exists_f ceqb g f = true) -> pw_unrel ceqb (map fid ss) -> ss <> [] ->
  (V g (any_cfg imp (map (@to_u comp) ss)) = Pass <-> spec_holds ceqb g ShouldNot imp true ss ss = true) /\
  is_err (V g (any_cfg imp (map (@to_u comp) ss))) = false.
Proof.
  intros Hwf Hex Hpw Hne.
  pose proof (alias_value g imp ss Hwf Hex Hpw Hne) as HV.
  rewrite HV.
  assert (Hiff : realised imp (map (fun S => (S, others_of ceqb g imp S ss)) ss) = [] <-> spec_holds ceqb g ShouldNot imp true ss ss = true).
  { unfold spec_holds. split.
    - intros E. apply realised_nil in E. unfold none_realised in E. rewrite forallb_forall in E.
      apply forallb_forall. intros S HS. apply negb_true_iff. apply (others_of_nil ceqb).
      specialize (E (S, others_of ceqb g imp S ss)). cbn [snd] in E. apply is_nil_true. apply E. apply in_map_iff. exists S. auto.
    - intros H. rewrite forallb_forall in H. apply realised_nil. unfold none_realised. apply forallb_forall.
      intros kv Hkv. apply in_map_iff in Hkv. destruct Hkv as [S [<- HS]]. cbn [snd]. apply is_nil_true. apply (others_of_nil ceqb).
      apply negb_true_iff. apply H. exact HS. }
  destruct (realised imp (map (fun S => (S, others_of ceqb g imp S ss)) ss)) as [|l ls] eqn:ER; cbn [of_viol is_err].
  - split; [|reflexivity]. split; [intros _; apply Hiff; reflexivity|reflexivity].
  - split; [|reflexivity]. split; [discriminate|]. intros H. apply Hiff in H. discriminate.
Qed.

(* C03 for the aliases: the report lists exactly the imports between a subject and something outside every subject *)
Theorem alias_report g imp (ss : list filt) l :
  wf_graph g -> (forall f, In f ss -> exists_f ceqb g f = true) -> pw_unrel ceqb (map fid ss) -> ss <> [] ->
  (In l (lines_of (V g (any_cfg imp (map (@to_u comp) ss)))) <->
   exists S e, In S ss /\ In e (imps g) /\ is_other ceqb imp S ss (orient imp e) = true /\ l = conc imp e).
Proof.
  intros Hwf Hex Hpw Hne. rewrite (alias_value g imp ss Hwf Hex Hpw Hne).
  assert (Hl : forall ls : list (@line comp), lines_of (of_viol (Ok ls)) = ls) by (intros [|x ls]; reflexivity).
  rewrite Hl. change (map (fun S => (S, others_of ceqb g imp S ss)) ss) with (other_table ceqb g imp ss ss).
  rewrite (in_realised_other ceqb). split.
  - intros [S [e [HS [He ->]]]]. unfold others_of in He. apply filter_In in He. exists S, e. tauto.
  - intros [S [e [HS [He [Ho ->]]]]]. exists S, e. split; [exact HS|]. split; [|reflexivity]. unfold others_of. apply filter_In. auto.
Qed.

End AliasProofs.
