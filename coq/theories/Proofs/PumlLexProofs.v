(* PumlLexProofs.v — C06, lexical layer: every documented line form, for EVERY component name
   (single identifiers and dotted module names), alias and arrow label, lexes to the line it
   denotes.  Lines are the tokens separated by single blanks ([unwords]). *)
From Coq Require Import List Bool Arith Lia NArith.
From PTA Require Import Sx Names Search Label Puml LabelProofs.
Import ListNotations.
Open Scope N_scope.

Definition no_ws (t : str) : Prop := forallb (fun c => negb (is_ws c)) t = true.
Definition tok_ok (t : str) : Prop := t <> [] /\ no_ws t.

Fixpoint unwords (ts : list str) : str :=
  match ts with
  | [] => []
  | [t] => t
  | t :: r => t ++ SP :: unwords r
  end.

Lemma tokens_aux_word (t : str) : no_ws t -> forall cur rest, tokens_aux cur (t ++ rest) = tokens_aux (rev t ++ cur) rest.
Proof.
  unfold no_ws. induction t as [|c t IH]; intros Hn cur rest; [reflexivity|].
  cbn [forallb] in Hn. apply andb_true_iff in Hn. destruct Hn as [Hc Hn]. apply negb_true_iff in Hc.
  cbn [app tokens_aux]. rewrite Hc. rewrite (IH Hn). cbn [rev]. rewrite <- app_assoc. reflexivity.
Qed.

Lemma tokens_unwords (ts : list str) : Forall tok_ok ts -> tokens (unwords ts) = ts.
Proof.
  unfold tokens. induction ts as [|t r IH]; intros H; [reflexivity|].
  inversion H as [|? ? [Hne Hws] Hr]; subst.
  destruct r as [|t2 r'].
  - cbn [unwords]. rewrite <- (app_nil_r t) at 1. rewrite (tokens_aux_word t Hws). rewrite app_nil_r. cbn [tokens_aux].
    destruct (rev t) eqn:E; [apply (f_equal (@rev N)) in E; rewrite rev_involutive in E; simpl in E; congruence|].
    rewrite <- E, rev_involutive. reflexivity.
  - change (unwords (t :: t2 :: r')) with (t ++ SP :: unwords (t2 :: r')).
    rewrite (tokens_aux_word t Hws). rewrite app_nil_r. cbn [tokens_aux].
    change (is_ws SP) with true. cbv iota.
    destruct (rev t) eqn:E; [apply (f_equal (@rev N)) in E; rewrite rev_involutive in E; simpl in E; congruence|].
    rewrite <- E, rev_involutive. rewrite (IH Hr). reflexivity.
Qed.

(* ---- names ---- *)
Lemma name_char_not_ws c : is_name_char c = true -> is_ws c = false.
Proof.
  intros H. unfold is_ws. destruct (N.eqb_spec c SP) as [->|_]; [vm_compute in H; discriminate|].
  destruct (N.eqb_spec c TAB) as [->|_]; [vm_compute in H; discriminate|].
  destruct (N.eqb_spec c CR) as [->|_]; [vm_compute in H; discriminate|]. reflexivity.
Qed.

Lemma word_is_name_char c : is_word c = true -> is_name_char c = true.
Proof. intros H. unfold is_name_char. rewrite H. reflexivity. Qed.

Lemma is_name_spec n : is_name n = true -> n <> [] /\ forallb is_name_char n = true.
Proof. unfold is_name. destruct n; [discriminate|]. intros H. split; [discriminate|exact H]. Qed.

Lemma no_ws_of_name_chars t : forallb is_name_char t = true -> no_ws t.
Proof.
  unfold no_ws. induction t as [|c t IH]; [reflexivity|]. cbn [forallb]. intros H. apply andb_true_iff in H. destruct H as [Hc Ht].
  rewrite (name_char_not_ws c Hc), (IH Ht). reflexivity.
Qed.

Lemma name_tok n : is_name n = true -> tok_ok n.
Proof. intros H. apply is_name_spec in H. destruct H as [H1 H2]. split; [exact H1|apply no_ws_of_name_chars; exact H2]. Qed.

Definition br (n : str) : str := LBR :: n ++ [RBR].

Lemma no_ws_app a b : no_ws a -> no_ws b -> no_ws (a ++ b).
Proof. unfold no_ws. intros Ha Hb. rewrite forallb_app, Ha, Hb. reflexivity. Qed.

Lemma br_tok n : is_name n = true -> tok_ok (br n).
Proof.
  intros H. split; [discriminate|]. unfold br. change (LBR :: n ++ [RBR]) with ([LBR] ++ n ++ [RBR]).
  apply no_ws_app; [reflexivity|]. apply no_ws_app; [apply name_tok; exact H|reflexivity].
Qed.

Lemma unbracket_br n : is_name n = true -> unbracket (br n) = Some n.
Proof.
  intros H. unfold unbracket, br. change (N.eqb LBR LBR) with true. cbv iota.
  rewrite rev_app_distr. cbn [rev app]. change (N.eqb RBR RBR) with true. cbv iota. rewrite rev_involutive, H. reflexivity.
Qed.

Lemma unbracket_name n : is_name n = true -> unbracket n = None.
Proof.
  intros H. apply is_name_spec in H. destruct H as [Hne Hc]. destruct n as [|c r]; [congruence|].
  cbn [forallb] in Hc. apply andb_true_iff in Hc. destruct Hc as [Hc _]. unfold unbracket.
  destruct (N.eqb_spec c LBR) as [->|_]; [vm_compute in Hc; discriminate|reflexivity].
Qed.

Lemma as_ref_br n : is_name n = true -> as_ref (br n) = Some n.
Proof. intros H. unfold as_ref. rewrite (unbracket_br n H). reflexivity. Qed.

Lemma as_ref_name n : is_name n = true -> as_ref n = Some n.
Proof. intros H. unfold as_ref. rewrite (unbracket_name n H), H. reflexivity. Qed.

(* a reference as it may be written in an arrow line: bracketed or bare *)
Inductive ref_form (n : str) : str -> Prop :=
| rf_br : ref_form n (br n)
| rf_bare : ref_form n n.

Lemma ref_tok n t : is_name n = true -> ref_form n t -> tok_ok t /\ as_ref t = Some n.
Proof. intros H [|]; [split; [apply br_tok|apply as_ref_br]|split; [apply name_tok|apply as_ref_name]]; exact H. Qed.

(* ---- arrows ---- *)
Definition right_arrow (text : str) : str := MINUS :: text ++ [MINUS; GT].     (* --> and -text-> *)
Definition left_arrow (text : str) : str := LT :: MINUS :: text ++ [MINUS].    (* <-- and <-text- *)
Definition short_right : str := [MINUS; GT].                                   (* -> *)
Definition short_left : str := [LT; MINUS].                                    (* <- *)

Lemma forallb_rev {X} (f : X -> bool) l : forallb f (rev l) = forallb f l.
Proof. induction l as [|x l IH]; [reflexivity|]. cbn [rev]. rewrite forallb_app, IH. cbn [forallb]. rewrite andb_true_r. apply andb_comm. Qed.

Lemma word_no_ws text : forallb is_word text = true -> no_ws text.
Proof.
  intros H. apply no_ws_of_name_chars. induction text as [|c t IH]; [reflexivity|]. cbn [forallb] in *.
  apply andb_true_iff in H. destruct H as [Hc Ht]. rewrite (word_is_name_char c Hc), (IH Ht). reflexivity.
Qed.

Lemma right_arrow_ok text : forallb is_word text = true -> arrow_right (right_arrow text) = true /\ tok_ok (right_arrow text).
Proof.
  intros H. split.
  - unfold arrow_right, right_arrow. change (N.eqb MINUS MINUS) with true. cbn [andb].
    rewrite rev_app_distr. cbn [rev app]. change (N.eqb GT GT) with true. cbn [andb]. change (N.eqb MINUS MINUS) with true. cbn [andb].
    rewrite forallb_rev. exact H.
  - split; [discriminate|]. unfold right_arrow. change (MINUS :: text ++ [MINUS; GT]) with ([MINUS] ++ text ++ [MINUS; GT]).
    apply no_ws_app; [reflexivity|]. apply no_ws_app; [apply word_no_ws; exact H|reflexivity].
Qed.

Lemma left_arrow_ok text : forallb is_word text = true ->
  arrow_right (left_arrow text) = false /\ arrow_left (left_arrow text) = true /\ tok_ok (left_arrow text).
Proof.
  intros H. split; [reflexivity|]. split.
  - unfold arrow_left, left_arrow. change (N.eqb LT LT) with true. change (N.eqb MINUS MINUS) with true. cbn [andb].
    rewrite rev_app_distr. cbn [rev app]. change (N.eqb MINUS MINUS) with true. cbn [andb]. rewrite forallb_rev. exact H.
  - split; [discriminate|]. unfold left_arrow. change (LT :: MINUS :: text ++ [MINUS]) with ([LT; MINUS] ++ text ++ [MINUS]).
    apply no_ws_app; [reflexivity|]. apply no_ws_app; [apply word_no_ws; exact H|reflexivity].
Qed.

Inductive arrow_form : bool -> str -> Prop :=     (* true = dependor on the left *)
| af_right text : forallb is_word text = true -> arrow_form true (right_arrow text)
| af_short_right : arrow_form true short_right
| af_left text : forallb is_word text = true -> arrow_form false (left_arrow text)
| af_short_left : arrow_form false short_left.

Lemma arrow_form_ok dir t : arrow_form dir t ->
  tok_ok t /\ (if dir then arrow_right t = true else arrow_right t = false /\ arrow_left t = true).
Proof.
  intros [text H| |text H|].
  - destruct (right_arrow_ok text H). auto.
  - split; [split; [discriminate|reflexivity]|reflexivity].
  - destruct (left_arrow_ok text H) as [H1 [H2 H3]]. auto.
  - split; [split; [discriminate|reflexivity]|split; reflexivity].
Qed.

Lemma str_eqb_refl (x : str) : str_eqb x x = true.
Proof. destruct (str_eqb_spec x x); congruence. Qed.

Lemma F1 {X} (P : X -> Prop) a : P a -> Forall P [a].
Proof. intros; repeat constructor; assumption. Qed.
Lemma F2 {X} (P : X -> Prop) a b : P a -> P b -> Forall P [a; b].
Proof. intros; repeat constructor; assumption. Qed.
Lemma F3 {X} (P : X -> Prop) a b c : P a -> P b -> P c -> Forall P [a; b; c].
Proof. intros; repeat constructor; assumption. Qed.
Lemma F4 {X} (P : X -> Prop) a b c d : P a -> P b -> P c -> P d -> Forall P [a; b; c; d].
Proof. intros; repeat constructor; assumption. Qed.
Lemma kw_tok_component : tok_ok COMPONENT.  Proof. split; [discriminate|reflexivity]. Qed.
Lemma kw_tok_as : tok_ok AS.  Proof. split; [discriminate|reflexivity]. Qed.

(* ---- the documented line forms ---- *)
Theorem lex_decl_bracket n : is_name n = true -> lex_line (unwords [br n]) = PDecl n None.
Proof.
  intros H. unfold lex_line. rewrite tokens_unwords by (apply F1, br_tok, H).
  rewrite (unbracket_br n H). reflexivity.
Qed.

Theorem lex_decl_component n : is_name n = true -> lex_line (unwords [COMPONENT; n]) = PDecl n None.
Proof.
  intros H. unfold lex_line. rewrite tokens_unwords by (apply F2; [apply kw_tok_component|apply name_tok, H]).
  rewrite str_eqb_refl, (unbracket_name n H), H. reflexivity.
Qed.

Theorem lex_decl_component_bracket n : is_name n = true -> lex_line (unwords [COMPONENT; br n]) = PDecl n None.
Proof.
  intros H. unfold lex_line. rewrite tokens_unwords by (apply F2; [apply kw_tok_component|apply br_tok, H]).
  rewrite str_eqb_refl, (unbracket_br n H). reflexivity.
Qed.

Theorem lex_decl_alias n a : is_name n = true -> is_name a = true -> lex_line (unwords [br n; AS; a]) = PDecl n (Some a).
Proof.
  intros H Ha. unfold lex_line.
  rewrite tokens_unwords by (apply F3; [apply br_tok, H|apply kw_tok_as|apply name_tok, Ha]).
  rewrite (as_ref_br n H), (as_ref_name a Ha). change (arrow_right AS) with false. change (arrow_left AS) with false. cbv iota.
  rewrite (unbracket_br n H), str_eqb_refl. reflexivity.
Qed.

Theorem lex_decl_component_alias n a : is_name n = true -> is_name a = true ->
  lex_line (unwords [COMPONENT; br n; AS; a]) = PDecl n (Some a).
Proof.
  intros H Ha. unfold lex_line.
  rewrite tokens_unwords by (apply F4; [apply kw_tok_component|apply br_tok, H|apply kw_tok_as|apply name_tok, Ha]).
  rewrite !str_eqb_refl. cbn [andb]. rewrite (unbracket_br n H). reflexivity.
Qed.

(* an arrow between two references (each bracketed or bare; a bare reference may be an alias), any of the six arrow forms *)
Theorem lex_arrow x y tx ty dir ar :
  is_name x = true -> is_name y = true -> ref_form x tx -> ref_form y ty -> arrow_form dir ar ->
  lex_line (unwords [tx; ar; ty]) = if dir then PArrow x y else PArrow y x.
Proof.
  intros Hx Hy Rx Ry Har. destruct (ref_tok x tx Hx Rx) as [Tx Ex]. destruct (ref_tok y ty Hy Ry) as [Ty Ey].
  destruct (arrow_form_ok dir ar Har) as [Ta Ea]. unfold lex_line.
  rewrite tokens_unwords by (apply F3; assumption). rewrite Ex, Ey.
  destruct dir; [rewrite Ea; reflexivity|]. destruct Ea as [E1 E2]. rewrite E1, E2. reflexivity.
Qed.

(* ---- layout: indentation, trailing blanks, runs of blanks and tabs between the tokens ---- *)
Definition all_ws (g : str) : Prop := forallb is_ws g = true.

(* [layout_of ts s]: the text s consists of the tokens ts in this order, separated by non-empty runs of
   whitespace, with arbitrary whitespace before the first and after the last token *)
Inductive layout_of : list str -> str -> Prop :=
  | lo_nil g : all_ws g -> layout_of [] g
  | lo_last t : tok_ok t -> layout_of [t] t
  | lo_cons t g ts s : tok_ok t -> all_ws g -> g <> [] -> layout_of ts s -> layout_of (t :: ts) (t ++ g ++ s)
  | lo_lead g ts s : all_ws g -> layout_of ts s -> layout_of ts (g ++ s).

Lemma tokens_aux_ws g : all_ws g -> forall rest, tokens_aux [] (g ++ rest) = tokens_aux [] rest.
Proof.
  unfold all_ws. induction g as [|c g IH]; intros H rest; [reflexivity|].
  cbn [forallb] in H. apply andb_true_iff in H. destruct H as [Hc Hg].
  cbn [app tokens_aux]. rewrite Hc. apply IH. exact Hg.
Qed.

Lemma rev_nonempty (t : str) : t <> [] -> exists c r, rev t = c :: r.
Proof.
  intros H. destruct (rev t) as [|c r] eqn:E; [|eauto].
  apply (f_equal (@rev N)) in E. rewrite rev_involutive in E. simpl in E. congruence.
Qed.

Lemma tokens_aux_tok_end t : tok_ok t -> tokens_aux [] t = [t].
Proof.
  intros [Hne Hws]. rewrite <- (app_nil_r t) at 1. rewrite (tokens_aux_word t Hws). rewrite app_nil_r. cbn [tokens_aux].
  destruct (rev_nonempty t Hne) as [c [r E]]. rewrite E. rewrite <- E, rev_involutive. reflexivity.
Qed.

Lemma tokens_aux_tok t g rest : tok_ok t -> all_ws g -> g <> [] ->
  tokens_aux [] (t ++ g ++ rest) = t :: tokens_aux [] rest.
Proof.
  intros [Hne Hws] Hg Hgne. rewrite (tokens_aux_word t Hws). rewrite app_nil_r.
  destruct g as [|c g]; [congruence|]. unfold all_ws in Hg. cbn [forallb] in Hg. apply andb_true_iff in Hg. destruct Hg as [Hc Hg].
  cbn [app tokens_aux]. rewrite Hc.
  destruct (rev_nonempty t Hne) as [c' [r E]]. rewrite E. rewrite <- E, rev_involutive.
  f_equal. apply tokens_aux_ws. exact Hg.
Qed.

Theorem tokens_layout ts s : layout_of ts s -> tokens s = ts.
Proof.
  unfold tokens. induction 1 as [g Hg|t Ht|t g ts s Ht Hg Hne _ IH|g ts s Hg _ IH].
  - rewrite <- (app_nil_r g). rewrite (tokens_aux_ws g Hg). reflexivity.
  - apply tokens_aux_tok_end. exact Ht.
  - rewrite (tokens_aux_tok t g s Ht Hg Hne). rewrite IH. reflexivity.
  - rewrite (tokens_aux_ws g Hg). exact IH.
Qed.

Lemma layout_tokens_ok ts s : layout_of ts s -> Forall tok_ok ts.
Proof. induction 1; auto. Qed.

Lemma layout_unwords ts : Forall tok_ok ts -> layout_of ts (unwords ts).
Proof.
  induction ts as [|t r IH]; intros H; [apply lo_nil; reflexivity|].
  inversion H as [|? ? Ht Hr]; subst. destruct r as [|t2 r'].
  - apply lo_last. exact Ht.
  - change (unwords (t :: t2 :: r')) with (t ++ [SP] ++ unwords (t2 :: r')).
    apply lo_cons; [exact Ht|reflexivity|discriminate|apply IH; exact Hr].
Qed.

(* what a line means depends on its tokens only, not on how they are laid out *)
Theorem lex_line_layout ts s : layout_of ts s -> lex_line s = lex_line (unwords ts).
Proof.
  intros H. unfold lex_line. rewrite (tokens_layout ts s H).
  rewrite (tokens_unwords ts (layout_tokens_ok ts s H)). reflexivity.
Qed.
