(* WLayerProofs.v — LayerRule.assert_applies evaluated over the worklist loops (Model/WLayer.v) never runs out of fuel
   and has the outcome of Model/Layer.v's [layer_assert_applies]: same class, same error, same SET of report lines, on
   every graph closed under ancestors whose imports are between nodes and never a hierarchy pair. *)
From Coq Require Import List Bool Arith Lia NArith.
From PTA Require Import Names Graph Search Worklist Rule WRule Builder Layer WLayer NamesProofs SearchProofs GraphProofs WorklistProofs WRuleProofs.
Import ListNotations.

Section WLayerProofs.
Context {comp : Type} (ceqb : comp -> comp -> bool).
Hypothesis ceqb_spec : forall x y, reflect (x = y) (ceqb x y).
Variable rmatch : N -> list comp -> bool.
Notation name := (list comp).
Notation graph := (@graph comp).
Notation filt := (@filt comp).
Notation lline := (@lline comp).

(* ---- map_res over lists with the same elements, for functions whose only error is ELookup ---- *)
Lemma map_res_ok_all {X Y} (f : X -> res Y) l ys : map_res f l = Ok ys -> Forall2 (fun x y => f x = Ok y) l ys.
Proof.
  revert ys. induction l as [|x l IH]; intros ys H; cbn [map_res] in H.
  - injection H as <-. constructor.
  - destruct (f x) as [y|e] eqn:Ef; cbn [bind] in H; [|discriminate].
    destruct (map_res f l) as [r|e] eqn:Em; cbn [bind] in H; [|discriminate]. injection H as <-.
    constructor; [exact Ef|apply IH; reflexivity].
Qed.

Lemma map_res_er_some {X Y} (f : X -> res Y) l e : map_res f l = Er e -> exists x, In x l /\ f x = Er e.
Proof.
  induction l as [|x l IH]; intros H; cbn [map_res] in H; [discriminate|].
  destruct (f x) as [y|e'] eqn:Ef; cbn [bind] in H.
  - destruct (map_res f l) as [r|e''] eqn:Em; cbn [bind] in H; [discriminate|]. injection H as ->.
    destruct (IH eq_refl) as [z [Hz Hf]]. exists z. split; [right; exact Hz|exact Hf].
  - injection H as ->. exists x. split; [left; reflexivity|exact Ef].
Qed.

Lemma map_res_has_er {X Y} (f : X -> res Y) l x e : In x l -> f x = Er e -> exists e', map_res f l = Er e'.
Proof.
  induction l as [|a l IH]; intros Hin Hf; [destruct Hin|]. cbn [map_res].
  destruct (f a) as [y|e'] eqn:Ef; cbn [bind]; [|eauto].
  destruct Hin as [->|Hin]; [congruence|]. destruct (IH Hin Hf) as [e'' ->]. cbn [bind]. eauto.
Qed.

Lemma in_concat_map_res {X Y} (f : X -> res (list Y)) l ys : map_res f l = Ok ys ->
  forall y, In y (concat ys) <-> exists x l', In x l /\ f x = Ok l' /\ In y l'.
Proof.
  intros H y. apply map_res_ok_all in H. induction H as [|x l' l ys Hx _ IH].
  - simpl. split; [intros []|intros [x [l' [[] _]]]].
  - cbn [concat]. rewrite in_app_iff, IH. split.
    + intros [Hy|[x' [l'' [Hin [Hf Hy]]]]]; [exists x, l'; split; [left; reflexivity|split; assumption]|exists x', l''; split; [right; exact Hin|split; assumption]].
    + intros [x' [l'' [[<-|Hin] [Hf Hy]]]]; [left; congruence|right; exists x', l''; auto].
Qed.

(* concat of a map_res over two lists with the same elements: same error status, same elements *)
Lemma map_res_concat_equiv {X Y} (f : X -> res (list Y)) (l1 l2 : list X) :
  (forall x e, f x = Er e -> e = ELookup) -> (forall x, In x l1 <-> In x l2) ->
  res_equiv (bind (map_res f l1) (fun ls => Ok (concat ls))) (bind (map_res f l2) (fun ls => Ok (concat ls))).
Proof.
  intros Herr Hl.
  destruct (map_res f l1) as [ys1|e1] eqn:E1; destruct (map_res f l2) as [ys2|e2] eqn:E2; cbn [bind res_equiv].
  - intros y. rewrite (in_concat_map_res f l1 ys1 E1), (in_concat_map_res f l2 ys2 E2).
    split; intros [x [l' [Hin H]]]; exists x, l'; (split; [apply Hl; exact Hin|exact H]).
  - destruct (map_res_er_some f l2 e2 E2) as [x [Hin Hf]]. apply Hl in Hin.
    destruct (map_res_has_er f l1 x e2 Hin Hf) as [e' He']. congruence.
  - destruct (map_res_er_some f l1 e1 E1) as [x [Hin Hf]]. apply Hl in Hin.
    destruct (map_res_has_er f l2 x e1 Hin Hf) as [e' He']. congruence.
  - destruct (map_res_er_some f l1 e1 E1) as [x1 [_ Hf1]]. destruct (map_res_er_some f l2 e2 E2) as [x2 [_ Hf2]].
    rewrite (Herr _ _ Hf1), (Herr _ _ Hf2). reflexivity.
Qed.

Lemma layer_of_err um (m : name) e : layer_of ceqb um m = Er e -> e = ELookup.
Proof.
  unfold layer_of. destruct (exact_layer ceqb um m); [discriminate|].
  destruct (ndedup _) as [|a [|b r]]; try discriminate. intros [= <-]. reflexivity.
Qed.

Lemma flat_map_snd_equiv {K} (r1 r2 : list (K * list (name * name))) :
  keyed_equiv r1 r2 -> forall x, In x (flat_map snd r1) <-> In x (flat_map snd r2).
Proof.
  intros H x. induction H as [|a b r1 r2 [_ Hs] _ IH]; [reflexivity|]. cbn [flat_map]. rewrite !in_app_iff, IH, Hs. reflexivity.
Qed.

Lemma lrealised_equiv {K} um imp (r1 r2 : list (K * list (name * name))) :
  keyed_equiv r1 r2 -> res_equiv (lrealised ceqb um imp r1) (lrealised ceqb um imp r2).
Proof.
  intros H. unfold lrealised. apply map_res_concat_equiv; [|apply flat_map_snd_equiv; exact H].
  intros x e. cbv zeta.
  destruct (layer_of ceqb um (fst (if imp then x else swap_pair x))) as [lx|e1] eqn:E1; cbn [bind].
  - destruct (layer_of ceqb um (snd (if imp then x else swap_pair x))) as [ly|e2] eqn:E2; cbn [bind]; [discriminate|].
    intros [= <-]. exact (layer_of_err _ _ _ E2).
  - intros [= <-]. exact (layer_of_err _ _ _ E1).
Qed.

Lemma map_res_keyed {K Y} (h : K -> bool -> res Y) (r1 r2 : list (K * list (name * name))) :
  keyed_equiv r1 r2 ->
  map_res (fun kv => h (fst kv) (is_nil (snd kv))) r1 = map_res (fun kv => h (fst kv) (is_nil (snd kv))) r2.
Proof.
  intros H. induction H as [|a b r1 r2 [Hk Hs] _ IH]; [reflexivity|].
  cbn [map_res]. rewrite IH, Hk, (nil_iff_equiv _ _ Hs). reflexivity.
Qed.

Lemma lmissing_explicit_equiv um imp (r1 r2 : list ((filt * filt) * list (name * name))) :
  keyed_equiv r1 r2 -> lmissing_explicit ceqb um imp r1 = lmissing_explicit ceqb um imp r2.
Proof.
  intros H. unfold lmissing_explicit. cbv zeta.
  pose (h := fun (k : filt * filt) (b : bool) =>
               bind (layer_of ceqb um (fid (snd (if imp then k else swap_pair k)))) (fun lo =>
               bind (layer_of ceqb um (fid (fst (if imp then k else swap_pair k)))) (fun ls => Ok (ls, lo, b)))).
  pose proof (map_res_keyed h r1 r2 H) as E. unfold h in E. cbv beta in E. rewrite E. reflexivity.
Qed.

Lemma lmissing_any_equiv um imp subjs objs (l1 l2 : list lline) :
  (forall x, In x l1 <-> In x l2) -> lmissing_any ceqb um imp subjs objs l1 = lmissing_any ceqb um imp subjs objs l2.
Proof. intros H. unfold lmissing_any. rewrite (nil_iff_equiv _ _ H). reflexivity. Qed.

Lemma on_equiv_l (b : bool) (l l' : list lline) :
  (forall x, In x l <-> In x l') -> forall x, In x (if b then l else []) <-> In x (if b then l' else []).
Proof. intros H x. destruct b; [apply H|reflexivity]. Qed.

Lemma lbuckets_equiv c um imp subjs objs e e' o o' :
  keyed_equiv e e' -> keyed_equiv o o' ->
  res_equiv (lbuckets ceqb c um imp subjs objs e o) (lbuckets ceqb c um imp subjs objs e' o').
Proof.
  intros He Ho. unfold lbuckets.
  pose proof (lrealised_equiv um imp e e' He) as HRe. pose proof (lrealised_equiv um imp o o' Ho) as HRo.
  rewrite (lmissing_explicit_equiv um imp e e' He).
  destruct (lrealised ceqb um imp e) as [re|x1]; destruct (lrealised ceqb um imp e') as [re'|x1']; cbn [res_equiv] in HRe; try contradiction; cbn [bind];
    [|exact HRe].
  destruct (lrealised ceqb um imp o) as [ro|x2]; destruct (lrealised ceqb um imp o') as [ro'|x2']; cbn [res_equiv] in HRo; try contradiction; cbn [bind];
    [|exact HRo].
  destruct (lmissing_explicit ceqb um imp e') as [me|x3]; cbn [bind]; [|reflexivity].
  rewrite (lmissing_any_equiv um imp subjs objs ro ro' HRo).
  destruct (lmissing_any ceqb um imp subjs objs ro') as [ma|x4]; cbn [bind res_equiv]; [|reflexivity].
  repeat (apply in_app_equiv; [first [apply on_equiv_l; assumption | intros y; reflexivity]|]).
  apply on_equiv_l. exact HRo.
Qed.

Lemma lviolations_buckets g c um imp subjs objs :
  lviolations ceqb g c um imp subjs objs =
  bind (if expl_required c || expl_forbidden c
        then get_dependencies ceqb g (if imp then subjs else objs) (if imp then objs else subjs) else Ok [])
    (fun e => bind (if other_required c || other_forbidden c
                    then (if imp then other_out_all ceqb g (if imp then subjs else objs) (if imp then objs else subjs)
                          else other_in_all ceqb g (if imp then subjs else objs) (if imp then objs else subjs))
                    else Ok [])
      (fun o => lbuckets ceqb c um imp subjs objs e o)).
Proof. reflexivity. Qed.

Definition loutcome_equiv (o1 o2 : @loutcome comp) : Prop :=
  match o1, o2 with
  | LPass, LPass => True
  | LFail l1, LFail l2 => forall x, In x l1 <-> In x l2
  | LErr a, LErr b => a = b
  | _, _ => False
  end.

Section OnGraph.
Variable g : graph.
Hypothesis Hwf : wf_graph g.
Hypothesis Hanc : forall n p, In n (nodes g) -> In p (proper_prefixes n) -> In p (nodes g).
Hypothesis Hnh : forall a b, In (a, b) (imps g) -> childb ceqb a b = false.

Theorem w_lviolations_refines c um imp subjs objs :
  exists R, w_lviolations ceqb g c um imp subjs objs = Some R /\ res_equiv R (lviolations ceqb g c um imp subjs objs).
Proof.
  rewrite lviolations_buckets. unfold w_lviolations.
  set (ds := if imp then subjs else objs). set (us := if imp then objs else subjs).
  assert (HE : exists E, (if expl_required c || expl_forbidden c then w_get_dependencies ceqb g ds us else Some (Ok [])) = Some E /\
                         kres_equiv E (if expl_required c || expl_forbidden c then get_dependencies ceqb g ds us else Ok [])).
  { destruct (expl_required c || expl_forbidden c); [apply (w_get_dependencies_refines ceqb ceqb_spec g Hwf Hanc Hnh)|]. exists (Ok []). split; [reflexivity|constructor]. }
  assert (HO : exists O, (if other_required c || other_forbidden c then (if imp then w_other_out_all ceqb g ds us else w_other_in_all ceqb g ds us) else Some (Ok [])) = Some O /\
                         kres_equiv O (if other_required c || other_forbidden c then (if imp then other_out_all ceqb g ds us else other_in_all ceqb g ds us) else Ok [])).
  { destruct (other_required c || other_forbidden c);
      [destruct imp; [apply (w_other_out_all_refines ceqb ceqb_spec g Hwf Hanc Hnh)|apply (w_other_in_all_refines ceqb ceqb_spec g Hwf Hanc Hnh)]|].
    exists (Ok []). split; [reflexivity|constructor]. }
  destruct HE as [E [-> HE]]. destruct HO as [O [HOe HO]].
  destruct E as [e|x]; destruct (if expl_required c || expl_forbidden c then get_dependencies ceqb g ds us else Ok []) as [e'|x'];
    cbn [kres_equiv] in HE; try contradiction; cbn [bind].
  - rewrite HOe. destruct O as [o|y];
      destruct (if other_required c || other_forbidden c then (if imp then other_out_all ceqb g ds us else other_in_all ceqb g ds us) else Ok []) as [o'|y'];
      cbn [kres_equiv] in HO; try contradiction; cbn [bind].
    + exists (lbuckets ceqb c um imp subjs objs e o). split; [reflexivity|]. apply lbuckets_equiv; assumption.
    + exists (Er y). split; [reflexivity|exact HO].
  - exists (Er x). split; [reflexivity|exact HE].
Qed.

Theorem w_layer_assert_applies_refines a c0 :
  exists o, w_layer_assert_applies ceqb rmatch g a c0 = Some o /\ loutcome_equiv o (layer_assert_applies ceqb rmatch g a c0).
Proof.
  unfold w_layer_assert_applies, layer_assert_applies.
  destruct (c_any c0 && (c_should c0 || c_only c0)); [exists (LErr EConfig); split; reflexivity|].
  destruct (negb (required_present (convert_aliases ceqb c0))); [exists (LErr EConfig); split; reflexivity|].
  destruct (negb (behavior_consistent (convert_aliases ceqb c0))); [exists (LErr EInconsistent); split; reflexivity|].
  destruct (c_any c0 && removed_unknown ceqb g (opt_list (c_subj c0))); [exists (LErr ENoMatch); split; reflexivity|].
  destruct (convert rmatch g (opt_list (c_subj (convert_aliases ceqb c0)))) as [subjs|e1]; [|exists (LErr e1); split; reflexivity].
  destruct (convert rmatch g (opt_list (c_obj (convert_aliases ceqb c0)))) as [objs|e2]; [|exists (LErr e2); split; reflexivity].
  destruct (w_lviolations_refines (convert_aliases ceqb c0) (updated_mapping rmatch g (convert_aliases ceqb c0) a)
              (match c_imp (convert_aliases ceqb c0) with Some b => b | None => true end) subjs objs) as [R [-> HR]].
  destruct R as [ls|e]; destruct (lviolations ceqb g _ _ _ subjs objs) as [ls'|e']; cbn [res_equiv] in HR; try contradiction.
  - destruct ls as [|l ls], ls' as [|l' ls'].
    + exists LPass. split; reflexivity.
    + exfalso. apply (proj2 (HR l')). left. reflexivity.
    + exfalso. apply (proj1 (HR l)). left. reflexivity.
    + exists (LFail (l :: ls)). split; [reflexivity|]. exact HR.
  - exists (LErr e). split; [reflexivity|exact HR].
Qed.

Theorem w_run_layer_rule_refines calls :
  exists o, w_run_layer_rule ceqb rmatch g calls = Some o /\ loutcome_equiv o (run_layer_rule ceqb rmatch g calls).
Proof.
  unfold w_run_layer_rule, run_layer_rule.
  destruct (lr_run lrinit calls) as [st|e]; [|exists (LErr e); split; reflexivity].
  destruct (lr_rule st) as [r|]; [|exists (LErr EConfig); split; reflexivity].
  apply w_layer_assert_applies_refines.
Qed.

End OnGraph.
End WLayerProofs.
