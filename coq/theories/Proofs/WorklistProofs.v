(* WorklistProofs.v — the worklist loops of breadth_first_searches.py (Model/Worklist.v)
   compute exactly the comprehensions of Model/Search.v, and never run out of the fuel
   the queries give them.

   Part 1: the generic loop.  [wl_spec]: the result lists exactly the emissions of the nodes
   reachable from the initial stack through pushes of non-skipped nodes, each such node
   expanded once.  [wl_terminates]: potential |work| + sum over unchecked nodes of
   (1 + number of pushes) strictly decreases.
   Part 2: the four concrete loops on a graph whose node set is closed under ancestors and
   whose imports are between nodes and never a hierarchy pair (Graph.build_graph's output). *)
From Coq Require Import List Bool Arith Lia.
From PTA Require Import Names Graph Search Worklist NamesProofs SearchProofs GraphProofs.
Import ListNotations.

Section WorklistProofs.
Context {comp : Type} (ceqb : comp -> comp -> bool).
Hypothesis ceqb_spec : forall x y, reflect (x = y) (ceqb x y).
Notation name := (list comp).
Notation name_eqb := (name_eqb ceqb).
Notation prefixb := (prefixb ceqb).
Notation memb := (memb ceqb).
Notation childb := (childb ceqb).
Notation graph := (@graph comp).
Notation filt := (@filt comp).

(* ================= Part 1: the generic loop ================= *)
Section Generic.
Context {out : Type}.
Variable visit : name -> list name * list out.
Variable skip : name -> bool.
Notation wl := (wl ceqb visit skip).

Variable W0 : list name.

Inductive reach : name -> Prop :=
| r_init n : In n W0 -> reach n
| r_step m n : reach m -> skip m = false -> In n (fst (visit m)) -> reach n.

Lemma wl_inv fuel : forall W C acc r,
  wl fuel W C acc = Some r ->
  (forall n, In n C -> reach n /\ skip n = false) ->
  (forall n, In n W -> reach n) ->
  (forall e, In e acc <-> exists n, In n C /\ In e (snd (visit n))) ->
  (forall n, In n W0 -> In n C \/ In n W \/ skip n = true) ->
  (forall m n, In m C -> In n (fst (visit m)) -> In n C \/ In n W \/ skip n = true) ->
  forall e, In e r <-> exists n, reach n /\ skip n = false /\ In e (snd (visit n)).
Proof.
  induction fuel as [|fuel IH]; intros W C acc r Hrun HC HW Hacc Hinit Hclos; [discriminate|].
  destruct W as [|n w]; cbn [Worklist.wl] in Hrun.
  - injection Hrun as <-. intros e. rewrite Hacc. split.
    + intros [n [Hn He]]. exists n. destruct (HC n Hn). auto.
    + intros [n [Hr [Hs He]]]. exists n. split; [|exact He].
      assert (Hall : forall x, reach x -> In x C \/ skip x = true).
      { intros x Hx. induction Hx as [x Hx|m x Hm IHm Hsm Hx].
        - destruct (Hinit x Hx) as [H|[[]|H]]; auto.
        - destruct IHm as [Hc|Hc]; [|congruence]. destruct (Hclos m x Hc Hx) as [H|[[]|H]]; auto. }
      destruct (Hall n Hr) as [H|H]; [exact H|congruence].
  - destruct (memb n C || skip n) eqn:Eskip.
    + apply (IH w C acc r Hrun HC); auto.
      * intros x Hx. apply HW. right. exact Hx.
      * intros x Hx. destruct (Hinit x Hx) as [H|[[<-|H]|H]]; auto.
        apply orb_true_iff in Eskip. destruct Eskip as [E|E]; [left; apply (memb_spec ceqb ceqb_spec); exact E|auto].
      * intros m x Hm Hx. destruct (Hclos m x Hm Hx) as [H|[[<-|H]|H]]; auto.
        apply orb_true_iff in Eskip. destruct Eskip as [E|E]; [left; apply (memb_spec ceqb ceqb_spec); exact E|auto].
    + apply orb_false_iff in Eskip. destruct Eskip as [Enc Ens].
      assert (Hrn : reach n) by (apply HW; left; reflexivity).
      apply (IH _ _ _ r Hrun).
      * intros x [<-|Hx]; [auto|apply HC; exact Hx].
      * intros x Hx. apply in_app_or in Hx. destruct Hx as [Hx|Hx].
        -- apply in_rev in Hx. apply (r_step n x Hrn Ens Hx).
        -- apply HW. right. exact Hx.
      * intros e. rewrite in_app_iff, Hacc. split.
        -- intros [[m [Hm He]]|He]; [exists m; split; [right; exact Hm|exact He] | exists n; split; [left; reflexivity|exact He]].
        -- intros [m [[<-|Hm] He]]; [right; exact He | left; exists m; auto].
      * intros x Hx. destruct (Hinit x Hx) as [H|[[<-|H]|H]].
        -- left. right. exact H.
        -- left. left. reflexivity.
        -- right. left. apply in_or_app. right. exact H.
        -- auto.
      * intros m x [<-|Hm] Hx.
        -- right. left. apply in_or_app. left. apply -> in_rev. exact Hx.
        -- destruct (Hclos m x Hm Hx) as [H|[[<-|H]|H]].
           ++ left. right. exact H.
           ++ left. left. reflexivity.
           ++ right. left. apply in_or_app. right. exact H.
           ++ auto.
Qed.

Theorem wl_spec fuel r :
  wl fuel W0 [] [] = Some r ->
  forall e, In e r <-> exists n, reach n /\ skip n = false /\ In e (snd (visit n)).
Proof.
  intros Hrun. apply (wl_inv fuel W0 [] [] r Hrun).
  - intros n [].
  - intros n Hn. apply r_init. exact Hn.
  - intros e. split; [intros []|intros [n [[] _]]].
  - intros n Hn. auto.
  - intros m n [].
Qed.

(* ---- termination ---- *)
Variable U : list name.
Definition cost (C : list name) (u : name) : nat := if memb u C then 0 else S (length (fst (visit u))).
Definition pot (C : list name) : nat := list_sum (map (cost C) U).

Lemma list_sum_cons a l : list_sum (a :: l) = a + list_sum l.
Proof. reflexivity. Qed.

Lemma memb_cons u n (C : list name) : memb u (n :: C) = name_eqb u n || memb u C.
Proof. reflexivity. Qed.

Lemma cost_cons_le u n C : cost (n :: C) u <= cost C u.
Proof. unfold cost. rewrite memb_cons. destruct (name_eqb u n), (memb u C); simpl; lia. Qed.

Lemma pot_step_gen n C (V : list name) :
  list_sum (map (cost (n :: C)) V) <= list_sum (map (cost C) V).
Proof.
  induction V as [|u V IH]; [simpl; lia|]. cbn [map]. rewrite !list_sum_cons. pose proof (cost_cons_le u n C). lia.
Qed.

Lemma pot_step n C :
  In n U -> memb n C = false -> pot (n :: C) + S (length (fst (visit n))) <= pot C.
Proof.
  unfold pot.
  induction U as [|u V IH]; intros Hin Hnc; [destruct Hin|].
  cbn [map]. rewrite !list_sum_cons. destruct Hin as [->|Hin].
  - pose proof (pot_step_gen n C V).
    assert (E1 : cost (n :: C) n = 0) by (unfold cost; rewrite memb_cons, (name_eqb_refl ceqb ceqb_spec); reflexivity).
    assert (E2 : cost C n = S (length (fst (visit n)))) by (unfold cost; rewrite Hnc; reflexivity).
    lia.
  - specialize (IH Hin Hnc). pose proof (cost_cons_le u n C). lia.
Qed.

Lemma wl_terminates_gen fuel : forall W C acc,
  (forall n, In n W -> In n U) ->
  (forall m n, In m U -> In n (fst (visit m)) -> In n U) ->
  length W + pot C < fuel ->
  wl fuel W C acc <> None.
Proof.
  induction fuel as [|fuel IH]; intros W C acc HW HU Hlt; [lia|].
  destruct W as [|n w]; cbn [Worklist.wl]; [discriminate|].
  destruct (memb n C || skip n) eqn:Eskip.
  - apply IH; auto.
    + intros x Hx. apply HW. right. exact Hx.
    + simpl in Hlt. lia.
  - apply orb_false_iff in Eskip. destruct Eskip as [Enc _].
    assert (Hn : In n U) by (apply HW; left; reflexivity).
    apply IH; auto.
    + intros x Hx. apply in_app_or in Hx. destruct Hx as [Hx|Hx].
      * apply in_rev in Hx. apply (HU n x Hn Hx).
      * apply HW. right. exact Hx.
    + rewrite app_length, rev_length. pose proof (pot_step n C Hn Enc). simpl in Hlt. lia.
Qed.

Theorem wl_terminates fuel :
  (forall n, In n W0 -> In n U) ->
  (forall m n, In m U -> In n (fst (visit m)) -> In n U) ->
  length W0 + list_sum (map (fun u => S (length (fst (visit u)))) U) < fuel ->
  wl fuel W0 [] [] <> None.
Proof.
  intros HW HU Hlt. apply wl_terminates_gen; [exact HW|exact HU|].
  replace (pot []) with (list_sum (map (fun u => S (length (fst (visit u)))) U)); [exact Hlt|reflexivity].
Qed.

End Generic.


(* ================= Part 2: the concrete loops ================= *)
Section OnGraph.
Variable g : graph.
Hypothesis Hwf : wf_graph g.
(* every non-empty proper prefix of a node is a node (GraphProofs.build_nodes_ancestor_closed) *)
Hypothesis Hanc : forall n p, In n (nodes g) -> In p (proper_prefixes n) -> In p (nodes g).
(* an import never coincides with a hierarchy pair (Graph.keep_import) *)
Hypothesis Hnh : forall a b, In (a, b) (imps g) -> childb a b = false.

Definition res_equiv {X} (r1 r2 : res (list X)) : Prop :=
  match r1, r2 with
  | Ok l1, Ok l2 => forall e, In e l1 <-> In e l2
  | Er a, Er b => a = b
  | _, _ => False
  end.

Lemma in_isucc n c : In c (isucc ceqb g n) <-> In (n, c) (imps g).
Proof.
  unfold isucc. rewrite in_map_iff. split.
  - intros [[a b] [<- Hin]]. apply filter_In in Hin. destruct Hin as [Hin He]. cbn [fst snd] in *.
    apply (name_eqb_eq ceqb ceqb_spec) in He. subst. exact Hin.
  - intros Hin. exists (n, c). split; [reflexivity|]. apply filter_In. split; [exact Hin|]. cbn [fst].
    apply (name_eqb_refl ceqb ceqb_spec).
Qed.

Lemma in_ipred n p : In p (ipred ceqb g n) <-> In (p, n) (imps g).
Proof.
  unfold ipred. rewrite in_map_iff. split.
  - intros [[a b] [<- Hin]]. apply filter_In in Hin. destruct Hin as [Hin He]. cbn [fst snd] in *.
    apply (name_eqb_eq ceqb ceqb_spec) in He. subst. exact Hin.
  - intros Hin. exists (p, n). split; [reflexivity|]. apply filter_In. split; [exact Hin|]. cbn [snd].
    apply (name_eqb_refl ceqb ceqb_spec).
Qed.

Lemma in_hsucc n c : In c (hsucc ceqb g n) <-> In c (nodes g) /\ childb n c = true.
Proof. unfold hsucc. apply filter_In. Qed.

Lemma in_hpred n p : In p (hpred ceqb g n) <-> In p (nodes g) /\ childb p n = true.
Proof. unfold hpred. rewrite filter_In. tauto. Qed.

(* successors reached over a hierarchy edge / over an import edge *)
Lemma succ_hier n c : In c (filter (is_hier ceqb n) (succs ceqb g n)) <-> In c (nodes g) /\ childb n c = true.
Proof.
  rewrite filter_In. unfold succs, is_hier. rewrite in_app_iff, in_hsucc, in_isucc. split.
  - intros [[[H1 H2]|H] Hc]; [auto|]. split; [apply (Hwf _ _ H)|exact Hc].
  - intros [H1 H2]. auto.
Qed.

Lemma succ_import n c : In c (succs ceqb g n) /\ is_hier ceqb n c = false <-> In (n, c) (imps g).
Proof.
  unfold succs, is_hier. rewrite in_app_iff, in_hsucc, in_isucc. split.
  - intros [[[_ H]|H] Hc]; [congruence|exact H].
  - intros H. split; [right; exact H|apply Hnh; exact H].
Qed.

Lemma pred_import n p : In p (preds ceqb g n) /\ is_hier ceqb p n = false <-> In (p, n) (imps g).
Proof.
  unfold preds, is_hier. rewrite in_app_iff, in_hpred, in_ipred. split.
  - intros [[[_ H]|H] Hc]; [congruence|exact H].
  - intros H. split; [right; exact H|apply Hnh; exact H].
Qed.

(* ---- termination on the graph ---- *)
Lemma list_sum_le {X} (f h : X -> nat) (l : list X) : (forall x, f x <= h x) -> list_sum (map f l) <= list_sum (map h l).
Proof. intros H. induction l as [|x l IH]; [simpl; lia|]. cbn [map]. rewrite !list_sum_cons. specialize (H x). lia. Qed.

Lemma filter_length_le {X} (p : X -> bool) (l : list X) : length (filter p l) <= length l.
Proof. induction l as [|x l IH]; simpl; [lia|]. destruct (p x); simpl; lia. Qed.

Lemma wl_graph_terminates {out} (visit : name -> list name * list out) skip W :
  (forall n, In n W -> In n (nodes g)) ->
  (forall m n, In m (nodes g) -> In n (fst (visit m)) -> In n (nodes g)) ->
  (forall m, length (fst (visit m)) <= length (succs ceqb g m)) ->
  wl ceqb visit skip (fuel_for ceqb g W) W [] [] <> None.
Proof.
  intros HW HU Hlen. apply (wl_terminates visit skip W (nodes g)); [exact HW|exact HU|].
  unfold fuel_for.
  pose proof (list_sum_le (fun u => S (length (fst (visit u)))) (fun u => S (length (succs ceqb g u))) (nodes g)) as H.
  assert (Hx : forall x, S (length (fst (visit x))) <= S (length (succs ceqb g x))) by (intros x; specialize (Hlen x); lia).
  specialize (H Hx). lia.
Qed.

(* ---- get_all_submodules_of ---- *)
Lemma sub_reach start x : In start (nodes g) ->
  (reach (sub_visit ceqb g) (fun _ => false) [start] x <-> In x (nodes g) /\ prefixb start x = true).
Proof.
  intros Hs. split.
  - intros H. induction H as [n [<-|[]]|m n Hm IH _ Hn].
    + split; [exact Hs|apply (prefixb_refl ceqb ceqb_spec)].
    + unfold sub_visit in Hn. cbn [fst] in Hn. apply succ_hier in Hn. destruct Hn as [Hn Hc]. split; [exact Hn|].
      unfold Graph.childb in Hc. apply andb_true_iff in Hc. destruct Hc as [Hc _].
      apply (prefixb_trans ceqb ceqb_spec _ m); tauto.
  - intros [Hx Hp]. apply (prefixb_spec ceqb ceqb_spec) in Hp. destruct Hp as [c ->].
    revert Hx. induction c as [|z c IH] using rev_ind; intros Hx.
    + rewrite app_nil_r. apply r_init. left. reflexivity.
    + assert (Hmid : In (start ++ c) (nodes g)).
      { destruct c as [|c0 c']; [rewrite app_nil_r; exact Hs|].
        apply (Hanc _ _ Hx). apply in_proper_prefixes. split.
        - destruct start; discriminate.
        - exists [z]. split; [rewrite <- app_assoc; reflexivity|discriminate]. }
      apply (r_step _ _ _ (start ++ c)); [apply IH; exact Hmid|reflexivity|].
      unfold sub_visit. cbn [fst]. apply succ_hier. split; [exact Hx|].
      apply (childb_spec ceqb ceqb_spec). exists z. rewrite app_assoc. reflexivity.
Qed.

Theorem w_submodules_spec start : In start (nodes g) ->
  exists l, w_submodules ceqb g start = Some l /\ forall x, In x l <-> In x (desc_incl ceqb g start).
Proof.
  intros Hs. unfold w_submodules.
  destruct (wl ceqb (sub_visit ceqb g) (fun _ => false) (fuel_for ceqb g [start]) [start] [] []) as [l|] eqn:E.
  - exists l. split; [reflexivity|]. intros x.
    rewrite (wl_spec (sub_visit ceqb g) (fun _ => false) [start] _ l E x). rewrite (in_desc_incl ceqb).
    split.
    + intros [n [Hr [_ Hin]]]. unfold sub_visit in Hin. cbn [snd] in Hin. destruct Hin as [<-|[]]. apply sub_reach; assumption.
    + intros H. exists x. split; [apply sub_reach; assumption|]. split; [reflexivity|]. left. reflexivity.
  - exfalso. revert E. apply wl_graph_terminates.
    + intros n [<-|[]]. exact Hs.
    + intros m n _ Hn. unfold sub_visit in Hn. cbn [fst] in Hn. apply succ_hier in Hn. tauto.
    + intros m. unfold sub_visit. cbn [fst]. apply filter_length_le.
Qed.

(* membership in a computed submodule list = membership in the comprehension *)
Lemma memb_equiv (l1 l2 : list name) x : (forall y, In y l1 <-> In y l2) -> memb x l1 = memb x l2.
Proof.
  intros H. destruct (memb x l1) eqn:E1, (memb x l2) eqn:E2; try reflexivity.
  - apply (memb_spec ceqb ceqb_spec) in E1. apply H in E1. apply (memb_spec ceqb ceqb_spec) in E1. congruence.
  - apply (memb_spec ceqb ceqb_spec) in E2. apply H in E2. apply (memb_spec ceqb ceqb_spec) in E2. congruence.
Qed.

(* ---- get_dependency_between_modules ---- *)
Lemma between_reach upon ex start x : In start (nodes g) ->
  (reach (between_visit ceqb g upon ex) (fun _ => false) [start] x <-> In x (nodes g) /\ prefixb start x = true).
Proof.
  intros Hs. rewrite <- (sub_reach start x Hs). split; intros H.
  - induction H as [n Hn|m n Hm IH Hsk Hn]; [apply r_init; exact Hn|]. apply (r_step _ _ _ m); auto.
  - induction H as [n Hn|m n Hm IH Hsk Hn]; [apply r_init; exact Hn|]. apply (r_step _ _ _ m); auto.
Qed.

Theorem w_between_refines d u :
  exists r, w_between ceqb g d u = Some r /\ res_equiv r (q_between ceqb g d u).
Proof.
  unfold w_between, q_between.
  destruct (exists_f ceqb g u && exists_f ceqb g d) eqn:Eex; [|exists (Er ELookup); split; reflexivity].
  apply andb_true_iff in Eex. destruct Eex as [Hu Hd]. unfold Search.exists_f in Hu, Hd.
  apply (memb_spec ceqb ceqb_spec) in Hu. apply (memb_spec ceqb ceqb_spec) in Hd.
  destruct (w_submodules_spec (fid u) Hu) as [upon [-> Hupon]].
  set (ex := parent_ids [d; u]).
  destruct (wl ceqb (between_visit ceqb g upon ex) (fun _ => false) (fuel_for ceqb g [fid d]) [fid d] [] []) as [l|] eqn:E.
  - exists (Ok l). split; [reflexivity|]. cbn [res_equiv]. intros [a b].
    rewrite (wl_spec (between_visit ceqb g upon ex) (fun _ => false) [fid d] _ l E (a, b)).
    rewrite filter_In. cbn [fst snd]. split.
    + intros [n [Hr [_ Hin]]]. unfold between_visit in Hin. cbn [snd] in Hin. apply in_map_iff in Hin.
      destruct Hin as [c [Hc Hin]]. injection Hc as <- <-. apply filter_In in Hin. destruct Hin as [Hin Hcond].
      apply (between_reach upon ex (fid d) n Hd) in Hr. destruct Hr as [Hn Hp].
      repeat (apply andb_true_iff in Hcond; destruct Hcond as [Hcond ?]).
      apply negb_true_iff in Hcond.
      assert (Himp : In (n, c) (imps g)) by (apply succ_import; auto).
      split; [exact Himp|].
      rewrite (memb_desc_incl ceqb ceqb_spec g (fid d) n Hn), Hp. cbn [andb].
      rewrite <- (memb_equiv upon (desc_incl ceqb g (fid u)) c Hupon). rewrite H1, H0, H. reflexivity.
    + intros [Himp Hcond]. repeat (apply andb_true_iff in Hcond; destruct Hcond as [Hcond ?]).
      destruct (Hwf _ _ Himp) as [Ha Hb].
      rewrite (memb_desc_incl ceqb ceqb_spec g (fid d) a Ha) in Hcond.
      exists a. split; [apply (between_reach upon ex (fid d) a Hd); auto|]. split; [reflexivity|].
      unfold between_visit. cbn [snd]. apply in_map_iff. exists b. split; [reflexivity|]. apply filter_In.
      apply succ_import in Himp. destruct Himp as [Hs Hh]. split; [exact Hs|].
      rewrite Hh. cbn [negb andb]. rewrite (memb_equiv upon (desc_incl ceqb g (fid u)) b Hupon). rewrite H1, H0, H. reflexivity.
  - exfalso. revert E. apply wl_graph_terminates.
    + intros n [<-|[]]. exact Hd.
    + intros m n _ Hn. unfold between_visit in Hn. cbn [fst] in Hn. apply succ_hier in Hn. tauto.
    + intros m. unfold between_visit. cbn [fst]. apply filter_length_le.
Qed.

(* ---- exclusion sets ---- *)
Lemma w_excl_base_spec self others :
  others_exist ceqb g self others = true ->
  exists e, w_excl_base ceqb g self others = Some e /\ forall x, In x e <-> In x (excl_base ceqb g self others).
Proof.
  unfold others_exist, excl_base. induction others as [|o r IH]; intros Hex.
  - exists []. split; [reflexivity|]. intros x. simpl. tauto.
  - cbn [forallb] in Hex. apply andb_true_iff in Hex. destruct Hex as [Ho Hr].
    destruct (IH Hr) as [e [He Hin]]. cbn [w_excl_base flat_map]. rewrite He.
    destruct (filt_eqb ceqb o self) eqn:Eo.
    + exists e. split; [reflexivity|]. intros x. simpl. exact (Hin x).
    + cbn [orb] in Ho. unfold Search.exists_f in Ho. apply (memb_spec ceqb ceqb_spec) in Ho.
      destruct (w_submodules_spec (fid o) Ho) as [l [-> Hl]]. exists (l ++ e). split; [reflexivity|].
      intros x. rewrite !in_app_iff, Hl, Hin. tauto.
Qed.

Lemma remove_parent_ids_equiv (fs : list filt) (e1 e2 : list name) :
  (forall x, In x e1 <-> In x e2) ->
  forall x, In x (remove_parent_ids ceqb fs e1) <-> In x (remove_parent_ids ceqb fs e2).
Proof. intros H x. rewrite !(fold_remove_in ceqb ceqb_spec), H. tauto. Qed.

Lemma removeb_equiv n (l1 l2 : list name) :
  (forall x, In x l1 <-> In x l2) -> forall x, In x (Names.removeb ceqb n l1) <-> In x (Names.removeb ceqb n l2).
Proof. intros H x. rewrite !(in_removeb ceqb ceqb_spec), H. tauto. Qed.

(* ---- any_dependency_to_module_other_than ---- *)
Lemma other_out_reach ex nf x :
  reach (other_out_visit ceqb g ex nf) (fun n => memb n ex) nf x -> memb x ex = false -> In x nf.
Proof.
  intros H. induction H as [n Hn|m n Hm IH Hsk Hn]; intros Hx; [exact Hn|].
  unfold other_out_visit in Hn. cbn [fst] in Hn. apply filter_In in Hn. destruct Hn as [_ Hn].
  rewrite Hx in Hn. cbn [orb] in Hn. apply (memb_spec ceqb ceqb_spec). exact Hn.
Qed.

Theorem w_other_out_refines d us :
  exists r, w_other_out ceqb g d us = Some r /\ res_equiv r (q_other_out ceqb g d us).
Proof.
  unfold w_other_out, q_other_out.
  destruct (others_exist ceqb g d us && exists_f ceqb g d) eqn:Eex; [|exists (Er ELookup); split; reflexivity].
  apply andb_true_iff in Eex. destruct Eex as [Hus Hd]. unfold Search.exists_f in Hd. apply (memb_spec ceqb ceqb_spec) in Hd.
  destruct (w_excl_base_spec d us Hus) as [e1 [-> He1]].
  destruct (w_submodules_spec (fid d) Hd) as [nf [-> Hnf]].
  set (ex := remove_parent_ids ceqb (filter (fun u => negb (filt_eqb ceqb u d)) us) (if fparent d then fid d :: e1 else e1)).
  assert (Hex : forall x, memb x ex = memb x (excl_out ceqb g d us)).
  { intros x. apply memb_equiv. unfold ex, excl_out. apply remove_parent_ids_equiv.
    intros y. destruct (fparent d); simpl; rewrite He1; tauto. }
  assert (Hnf' : forall x, memb x nf = memb x (desc_incl ceqb g (fid d))) by (intros x; apply memb_equiv; exact Hnf).
  destruct (wl ceqb (other_out_visit ceqb g ex nf) (fun n => memb n ex) (fuel_for ceqb g nf) nf [] []) as [l|] eqn:E.
  - exists (Ok l). split; [reflexivity|]. cbn [res_equiv]. intros [a b].
    rewrite (wl_spec (other_out_visit ceqb g ex nf) (fun n => memb n ex) nf _ l E (a, b)).
    rewrite filter_In. cbn [fst snd]. rewrite <- !Hex, <- !Hnf'. split.
    + intros [n [Hr [Hsk Hin]]]. unfold other_out_visit in Hin. cbn [snd] in Hin. apply in_map_iff in Hin.
      destruct Hin as [c [Hc Hin]]. injection Hc as <- <-. apply filter_In in Hin. destruct Hin as [Hin Hcond].
      apply filter_In in Hin. destruct Hin as [Hs Hh]. apply negb_true_iff in Hh.
      apply andb_true_iff in Hcond. destruct Hcond as [Hc1 Hc2].
      split; [apply succ_import; auto|].
      pose proof (other_out_reach ex nf n Hr Hsk) as Hn. apply (memb_spec ceqb ceqb_spec) in Hn.
      rewrite Hn, Hsk, Hc1, Hc2. reflexivity.
    + intros [Himp Hcond]. repeat (apply andb_true_iff in Hcond; destruct Hcond as [Hcond ?]).
      apply negb_true_iff in H1.
      exists a. split; [apply r_init; apply (memb_spec ceqb ceqb_spec); exact Hcond|]. split; [exact H1|].
      unfold other_out_visit. cbn [snd]. apply in_map_iff. exists b. split; [reflexivity|].
      apply succ_import in Himp. destruct Himp as [Hs Hh].
      apply filter_In. split; [apply filter_In; split; [exact Hs|rewrite Hh; reflexivity]|]. rewrite H0, H. reflexivity.
  - exfalso. revert E. apply wl_graph_terminates.
    + intros n Hn. apply Hnf in Hn. apply (in_desc_incl ceqb) in Hn. tauto.
    + intros m n _ Hn. unfold other_out_visit in Hn. cbn [fst] in Hn. apply filter_In in Hn. destruct Hn as [Hn _].
      apply filter_In in Hn. destruct Hn as [Hn Hh]. apply negb_true_iff in Hh.
      assert (Himp : In (m, n) (imps g)) by (apply succ_import; auto). apply (Hwf _ _ Himp).
    + intros m. unfold other_out_visit. cbn [fst].
      etransitivity; [apply filter_length_le|apply filter_length_le].
Qed.

(* ---- any_other_dependency_to_module_than ---- *)
Lemma other_in_reach ex nf x :
  reach (other_in_visit ceqb g ex nf) (fun _ => false) nf x <-> In x nf.
Proof.
  split.
  - intros H. induction H as [n Hn|m n Hm IH Hsk Hn]; [exact Hn|]. unfold other_in_visit in Hn. cbn [fst] in Hn. destruct Hn.
  - intros H. apply r_init. exact H.
Qed.

Theorem w_other_in_refines ds u :
  exists r, w_other_in ceqb g ds u = Some r /\ res_equiv r (q_other_in ceqb g ds u).
Proof.
  unfold w_other_in, q_other_in.
  destruct (others_exist ceqb g u ds && exists_f ceqb g u) eqn:Eex; [|exists (Er ELookup); split; reflexivity].
  apply andb_true_iff in Eex. destruct Eex as [Hds Hu]. unfold Search.exists_f in Hu. apply (memb_spec ceqb ceqb_spec) in Hu.
  destruct (w_excl_base_spec u ds Hds) as [e1 [-> He1]].
  destruct (w_submodules_spec (fid u) Hu) as [nf0 [-> Hnf0]].
  set (nf := if fparent u then Names.removeb ceqb (fid u) nf0 else nf0).
  set (ex := remove_parent_ids ceqb ds e1).
  assert (Hex : forall x, memb x ex = memb x (remove_parent_ids ceqb ds (excl_base ceqb g u ds))).
  { intros x. apply memb_equiv. unfold ex. apply remove_parent_ids_equiv. exact He1. }
  assert (Hnf : forall x, In x nf <-> In x (if fparent u then Names.removeb ceqb (fid u) (desc_incl ceqb g (fid u)) else desc_incl ceqb g (fid u))).
  { unfold nf. destruct (fparent u); [apply removeb_equiv; exact Hnf0|exact Hnf0]. }
  assert (Hnf' : forall x, memb x nf = memb x (if fparent u then Names.removeb ceqb (fid u) (desc_incl ceqb g (fid u)) else desc_incl ceqb g (fid u)))
    by (intros x; apply memb_equiv; exact Hnf).
  destruct (wl ceqb (other_in_visit ceqb g ex nf) (fun _ => false) (fuel_for ceqb g nf) nf [] []) as [l|] eqn:E.
  - exists (Ok l). split; [reflexivity|]. cbn [res_equiv]. intros [a b].
    rewrite (wl_spec (other_in_visit ceqb g ex nf) (fun _ => false) nf _ l E (a, b)).
    rewrite filter_In. cbn [fst snd]. rewrite <- !Hex, <- !Hnf'. split.
    + intros [n [Hr [_ Hin]]]. apply other_in_reach in Hr. unfold other_in_visit in Hin. cbn [snd] in Hin. apply in_map_iff in Hin.
      destruct Hin as [p [Hp Hin]]. injection Hp as <- <-. apply filter_In in Hin. destruct Hin as [Hin Hcond].
      repeat (apply andb_true_iff in Hcond; destruct Hcond as [Hcond ?]). apply negb_true_iff in Hcond.
      split; [apply pred_import; auto|]. apply (memb_spec ceqb ceqb_spec) in Hr. rewrite Hr, H0, H. reflexivity.
    + intros [Himp Hcond]. repeat (apply andb_true_iff in Hcond; destruct Hcond as [Hcond ?]).
      exists b. split; [apply other_in_reach; apply (memb_spec ceqb ceqb_spec); exact Hcond|]. split; [reflexivity|].
      unfold other_in_visit. cbn [snd]. apply in_map_iff. exists a. split; [reflexivity|].
      apply pred_import in Himp. destruct Himp as [Hs Hh]. apply filter_In. split; [exact Hs|]. rewrite Hh, H0, H. reflexivity.
  - exfalso. revert E. apply wl_graph_terminates.
    + intros n Hn. apply Hnf in Hn. destruct (fparent u); [apply (in_removeb ceqb ceqb_spec) in Hn; destruct Hn as [Hn _]|];
        apply (in_desc_incl ceqb) in Hn; tauto.
    + intros m n _ Hn. unfold other_in_visit in Hn. cbn [fst] in Hn. destruct Hn.
    + intros m. unfold other_in_visit. cbn [fst length]. lia.
Qed.

End OnGraph.

End WorklistProofs.
