(* ClassProofs.v — C15 (and C13's converse): for name / sub-modules-of filters the outcome is an
   error exactly when some named module is absent from the graph; together with
   PermProofs.passes_order_independent the whole outcome class (pass / fail / error) is independent
   of the order and duplication in which subjects, objects, modules and imports are listed. *)
From Coq Require Import List Bool Arith Lia NArith.
From PTA Require Import Names Graph Search Rule SpecRule NamesProofs SearchProofs RuleProofs AlgebraProofs ExpansionProofs BuilderProofs PermProofs.
Import ListNotations.

Section ClassProofs.
Context {comp : Type} (ceqb : comp -> comp -> bool).
Hypothesis ceqb_spec : forall x y, reflect (x = y) (ceqb x y).
Variable rmatch : N -> list comp -> bool.
Notation name := (list comp).
Notation graph := (@graph comp).
Notation filt := (@filt comp).
Notation V := (AlgebraProofs.V ceqb rmatch).
Notation mk := (@mk_ucfg comp).

Lemma map_res_ok {X Y} (f : X -> res Y) (xs : list X) :
  (forall x, In x xs -> exists y, f x = Ok y) -> exists r, map_res f xs = Ok r.
Proof.
  induction xs as [|x xs IH]; intros H; [exists []; reflexivity|].
  destruct (H x (or_introl eq_refl)) as [y Hy]. destruct IH as [r Hr]; [intros z Hz; apply H; right; exact Hz|].
  exists (y :: r). cbn [map_res]. rewrite Hy. cbn [bind]. rewrite Hr. reflexivity.
Qed.

Lemma get_dependencies_ok g (ds us : list filt) :
  (forall f, In f (ds ++ us) -> exists_f ceqb g f = true) -> exists r, get_dependencies ceqb g ds us = Ok r.
Proof.
  intros H. unfold get_dependencies. apply map_res_ok. intros [d u] Hin. apply in_prod_iff in Hin. destruct Hin as [Hd Hu].
  cbn [fst snd]. unfold q_between. rewrite (H u), (H d) by (apply in_or_app; auto). cbn [andb bind]. eauto.
Qed.

Lemma others_exist_true g self (others : list filt) :
  (forall f, In f others -> exists_f ceqb g f = true) -> others_exist ceqb g self others = true.
Proof. intros H. unfold others_exist. apply forallb_forall. intros o Ho. rewrite (H o Ho). apply orb_true_r. Qed.

Lemma other_out_ok g (ds us : list filt) :
  (forall f, In f (ds ++ us) -> exists_f ceqb g f = true) -> exists r, other_out_all ceqb g ds us = Ok r.
Proof.
  intros H. unfold other_out_all. apply map_res_ok. intros d Hd. unfold q_other_out.
  rewrite others_exist_true by (intros f Hf; apply H, in_or_app; auto). rewrite (H d) by (apply in_or_app; auto). cbn [andb bind]. eauto.
Qed.

Lemma other_in_ok g (ds us : list filt) :
  (forall f, In f (ds ++ us) -> exists_f ceqb g f = true) -> exists r, other_in_all ceqb g ds us = Ok r.
Proof.
  intros H. unfold other_in_all. apply map_res_ok. intros u Hu. unfold q_other_in.
  rewrite others_exist_true by (intros f Hf; apply H, in_or_app; auto). rewrite (H u) by (apply in_or_app; auto). cbn [andb bind]. eauto.
Qed.

Lemma is_verdict_of_viol_ok (ls : list (@line comp)) : is_verdict (of_viol (Ok ls)) = true.
Proof. destruct ls; reflexivity. Qed.

(* every named module present => a verdict (pass or fail), for all 12 shapes, related modules included *)
Theorem all_exist_is_verdict g v imp exc (ss os : list filt) :
  ss <> [] -> os <> [] ->
  (forall f, In f (ss ++ os) -> exists_f ceqb g f = true) ->
  is_verdict (V g (mk v imp exc (map (@to_u comp) ss) (map (@to_u comp) os))) = true.
Proof.
  intros Hs Ho H.
  rewrite verdict_unfold by (destruct ss, os; simpl; congruence).
  rewrite !(convert_plain rmatch g).
  assert (H' : forall f, In f (os ++ ss) -> exists_f ceqb g f = true)
    by (intros f Hf; apply H; apply in_app_iff in Hf; apply in_app_iff; tauto).
  assert (HE : exists r, expl_query ceqb g imp ss os = Ok r).
  { unfold expl_query, importers_of, importees_of. destruct imp; apply get_dependencies_ok; assumption. }
  assert (HO : exists r, other_query ceqb g imp ss os = Ok r).
  { unfold other_query, importers_of, importees_of. destruct imp; [apply other_out_ok|apply other_in_ok]; assumption. }
  destruct HE as [re HE], HO as [ro HO].
  destruct v, exc;
    rewrite ?viol_should, ?viol_should_exc, ?viol_should_not, ?viol_should_not_exc, ?viol_should_only, ?viol_should_only_exc;
    rewrite ?HE, ?HO; cbn [bind]; apply is_verdict_of_viol_ok.
Qed.

Lemma plain_map_to_u (fs : list filt) : plain (map (@to_u comp) fs) = fs.
Proof. apply plain_to_u. Qed.

(* error exactly when some named module is absent *)
Theorem error_iff_missing g v imp exc (ss os : list filt) :
  ss <> [] -> os <> [] ->
  (is_verdict (V g (mk v imp exc (map (@to_u comp) ss) (map (@to_u comp) os))) = false <->
   exists f, In f (ss ++ os) /\ exists_f ceqb g f = false).
Proof.
  intros Hs Ho. split.
  - intros Hv. destruct (existsb (fun f => negb (exists_f ceqb g f)) (ss ++ os)) eqn:E.
    + apply existsb_exists in E. destruct E as [f [Hf Hn]]. apply negb_true_iff in Hn. eauto.
    + exfalso. rewrite all_exist_is_verdict in Hv; [discriminate|assumption|assumption|].
      intros f Hf. destruct (exists_f ceqb g f) eqn:Ef; [reflexivity|]. exfalso.
      apply not_true_iff_false in E. apply E. apply existsb_exists. exists f. split; [exact Hf|rewrite Ef; reflexivity].
  - intros [f [Hf Hn]]. apply (unknown_name_is_error ceqb ceqb_spec rmatch g v imp exc _ _ f); [|exact Hn].
    rewrite !plain_map_to_u. exact Hf.
Qed.

(* the aliases ('should not import / be imported by anything'): an absent subject is an error as well, also when the
   alias rewrite removes it from the list because its parent is listed too (fix D23) *)
Lemma in_plain_inv (Ss : list (@ufilt comp)) f : In f (plain Ss) -> In (to_u f) Ss.
Proof.
  unfold plain. intros H. apply in_flat_map in H. destruct H as [u [Hu Hf]].
  destruct u as [n|n|r]; cbn in Hf; try (destruct Hf as [<-|[]]; exact Hu). destruct Hf.
Qed.

Lemma in_plain_intro (Ss : list (@ufilt comp)) f : In (to_u f) Ss -> In f (plain Ss).
Proof.
  unfold plain. intros H. apply in_flat_map. exists (to_u f). split; [exact H|]. destruct f; left; reflexivity.
Qed.

Theorem alias_unknown_name_is_error g imp (Ss : list (@ufilt comp)) f :
  In f (plain Ss) -> exists_f ceqb g f = false ->
  is_verdict (V g (any_cfg imp Ss)) = false.
Proof.
  intros Hf Hm. unfold AlgebraProofs.V.
  destruct (removed_unknown ceqb g Ss) eqn:R.
  - destruct (alias_removed_unknown ceqb rmatch g imp Ss R) as [e He]. rewrite He. reflexivity.
  - rewrite (alias_anything ceqb rmatch g imp Ss R).
    apply (unknown_name_is_error ceqb ceqb_spec rmatch g ShouldNot imp true _ _ f); [|exact Hm].
    apply in_or_app. left. apply in_plain_intro. apply in_plain_inv in Hf.
    unfold drop_children. apply filter_In. split; [exact Hf|]. apply negb_true_iff.
    destruct (has_listed_ancestor ceqb Ss (to_u f)) eqn:HA; [exfalso|reflexivity].
    apply not_true_iff_false in R. apply R. unfold removed_unknown. apply existsb_exists.
    exists (to_u f). split; [exact Hf|]. rewrite HA. cbn [andb].
    assert (Eu : uname (to_u f) = Some (fid f)) by (destruct f; reflexivity). rewrite Eu.
    unfold exists_f in Hm. rewrite Hm. reflexivity.
Qed.

(* C15: the outcome class does not depend on listing order / duplication, nor on the order of modules and imports *)
Theorem class_order_independent g g' v imp exc (ss ss' os os' : list filt) :
  graph_equiv g g' -> leq ss ss' -> leq os os' -> ss <> [] -> os <> [] ->
  vclass (V g (mk v imp exc (map (@to_u comp) ss) (map (@to_u comp) os))) =
  vclass (V g' (mk v imp exc (map (@to_u comp) ss') (map (@to_u comp) os'))).
Proof.
  intros Hg Hs Ho Hns Hno.
  assert (Hns' := leq_nonempty _ _ Hs Hns). assert (Hno' := leq_nonempty _ _ Ho Hno).
  pose proof (passes_order_independent ceqb ceqb_spec rmatch g g' v imp exc ss ss' os os' Hg Hs Ho Hns Hno) as HP.
  pose proof (error_iff_missing g v imp exc ss os Hns Hno) as HE.
  pose proof (error_iff_missing g' v imp exc ss' os' Hns' Hno') as HE'.
  assert (HM : (exists f, In f (ss ++ os) /\ exists_f ceqb g f = false) <-> (exists f, In f (ss' ++ os') /\ exists_f ceqb g' f = false)).
  { split; intros [f [Hf Hn]]; exists f; (split; [apply in_app_iff in Hf; apply in_app_iff; destruct Hf as [Hf|Hf]; [left; apply Hs|right; apply Ho]; exact Hf|]).
    - rewrite <- (exists_f_equiv ceqb ceqb_spec g g' f Hg). exact Hn.
    - rewrite (exists_f_equiv ceqb ceqb_spec g g' f Hg). exact Hn. }
  unfold AlgebraProofs.passes in HP.
  destruct (V g (mk v imp exc (map (@to_u comp) ss) (map (@to_u comp) os))) as [|ls|e] eqn:E1;
  destruct (V g' (mk v imp exc (map (@to_u comp) ss') (map (@to_u comp) os'))) as [|ls'|e'] eqn:E2; cbn [vclass is_verdict] in *; try reflexivity; exfalso.
  - assert (X : Fail ls' = Pass) by (apply HP; reflexivity). discriminate.
  - assert (X : Err e' = Pass) by (apply HP; reflexivity). discriminate.
  - assert (X : Fail ls = Pass) by (apply HP; reflexivity). discriminate.
  - assert (X : false = false) by reflexivity. apply HE' in X. apply HM in X. apply HE in X. discriminate.
  - assert (X : Err e = Pass) by (apply HP; reflexivity). discriminate.
  - assert (X : false = false) by reflexivity. apply HE in X. apply HM in X. apply HE' in X. discriminate.
Qed.

End ClassProofs.
