(* PumlTagProofs.v — C06, text level: everything outside the @startuml / @enduml pair is ignored,
   a text without the pair is rejected.  Stated for texts in which the character '@' occurs only in
   the two tags (then the tags cannot overlap with anything else). *)
From Coq Require Import List Bool Arith Lia NArith.
From PTA Require Import Sx Names Search Label Puml LabelProofs.
Import ListNotations.
Open Scope N_scope.

Definition AT : N := 64.
Definition no_at (s : str) : Prop := ~ In AT s.

(* the scan of last_split_aux without fuel *)
Fixpoint scan (pat before s : str) (best : option (str * str)) : option (str * str) :=
  let best' := if starts_with pat s then Some (rev before, skipn (length pat) s) else best in
  match s with
  | [] => best'
  | c :: r => scan pat (c :: before) r best'
  end.

Lemma last_split_aux_scan pat : forall s fuel before best,
  (length s < fuel)%nat -> last_split_aux pat fuel before s best = scan pat before s best.
Proof.
  induction s as [|c r IH]; intros fuel before best Hf; (destruct fuel as [|f]; [simpl in Hf; lia|]).
  - reflexivity.
  - cbn [last_split_aux scan]. apply IH. simpl in Hf. lia.
Qed.

Lemma last_split_scan pat s : last_split pat s = scan pat [] s None.
Proof. unfold last_split. apply last_split_aux_scan. lia. Qed.

(* a pattern that begins with '@' cannot start where another character stands *)
Lemma starts_with_at_head (p t : str) c : c <> AT -> starts_with (AT :: p) (c :: t) = false.
Proof. intros H. cbn [starts_with]. destruct (N.eqb_spec AT c); [congruence|reflexivity]. Qed.

Lemma scan_skip (p u : str) : no_at u -> forall before v best,
  scan (AT :: p) before (u ++ v) best = scan (AT :: p) (rev u ++ before) v best.
Proof.
  induction u as [|c u IH]; intros Hn before v best; [reflexivity|].
  assert (Hc : c <> AT) by (intros ->; apply Hn; left; reflexivity).
  assert (Hu : no_at u) by (intros H; apply Hn; right; exact H).
  cbn [app scan]. rewrite (starts_with_at_head p (u ++ v) c Hc). rewrite (IH Hu).
  cbn [rev]. rewrite <- app_assoc. reflexivity.
Qed.

Lemma scan_end (p before : str) best : scan (AT :: p) before [] best = best.
Proof. reflexivity. Qed.

Lemma scan_all_skip (p u : str) : no_at u -> forall before best, scan (AT :: p) before u best = best.
Proof. intros Hn before best. rewrite <- (app_nil_r u). rewrite (scan_skip p u Hn). reflexivity. Qed.

Definition START_TAIL : str := [115; 116; 97; 114; 116; 117; 109; 108].    (* startuml *)
Definition END_TAIL : str := [101; 110; 100; 117; 109; 108].                 (* enduml *)
Lemma STARTUML_eq : STARTUML = AT :: START_TAIL.  Proof. reflexivity. Qed.
Lemma ENDUML_eq : ENDUML = AT :: END_TAIL.  Proof. reflexivity. Qed.
Lemma no_at_start_tail : no_at START_TAIL.  Proof. unfold no_at, START_TAIL, AT. simpl. intuition discriminate. Qed.
Lemma no_at_end_tail : no_at END_TAIL.  Proof. unfold no_at, END_TAIL, AT. simpl. intuition discriminate. Qed.

Lemma no_at_app a b : no_at a -> no_at b -> no_at (a ++ b).
Proof. unfold no_at. intros Ha Hb H. apply in_app_or in H. tauto. Qed.

Lemma starts_with_app_self (p t : str) : starts_with p (p ++ t) = true.
Proof. apply starts_with_spec. eauto. Qed.

Lemma skipn_app_self {X} (p t : list X) : skipn (length p) (p ++ t) = t.
Proof. induction p; simpl; auto. Qed.

(* the last @enduml of  pre @startuml c @enduml post *)
Lemma last_end (pre c post : str) : no_at pre -> no_at c -> no_at post ->
  last_split ENDUML (pre ++ STARTUML ++ c ++ ENDUML ++ post) = Some (pre ++ STARTUML ++ c, post).
Proof.
  intros Hp Hc Hq. rewrite last_split_scan. rewrite ENDUML_eq at 1.
  rewrite (scan_skip END_TAIL pre Hp). rewrite app_nil_r.
  (* at the start tag: "@s..." is not "@e..." *)
  rewrite STARTUML_eq at 1. cbn [app scan].
  assert (E1 : starts_with (AT :: END_TAIL) (AT :: START_TAIL ++ c ++ ENDUML ++ post) = false) by reflexivity.
  rewrite E1.
  rewrite (scan_skip END_TAIL START_TAIL no_at_start_tail).
  rewrite (scan_skip END_TAIL c Hc).
  (* at the end tag *)
  rewrite ENDUML_eq at 1. cbn [app scan].
  assert (E2 : starts_with (AT :: END_TAIL) (AT :: END_TAIL ++ post) = true) by (apply (starts_with_app_self (AT :: END_TAIL) post)).
  rewrite E2.
  assert (E3 : skipn (length (AT :: END_TAIL)) (AT :: END_TAIL ++ post) = post) by (apply (skipn_app_self (AT :: END_TAIL) post)).
  rewrite E3.
  rewrite (scan_all_skip END_TAIL (END_TAIL ++ post) (no_at_app _ _ no_at_end_tail Hq)).
  f_equal. f_equal.
  change (AT :: rev pre) with ([AT] ++ rev pre).
  rewrite !rev_app_distr, !rev_involutive. cbn [rev app]. rewrite STARTUML_eq. cbn [app]. rewrite <- !app_assoc. reflexivity.
Qed.

(* the last @startuml of  pre @startuml c'  (no '@' in c') *)
Lemma last_start (pre c' : str) : no_at pre -> no_at c' ->
  last_split STARTUML (pre ++ STARTUML ++ c') = Some (pre, c').
Proof.
  intros Hp Hc. rewrite last_split_scan. rewrite STARTUML_eq at 1.
  rewrite (scan_skip START_TAIL pre Hp). rewrite app_nil_r.
  rewrite STARTUML_eq at 1. cbn [app scan].
  assert (E2 : starts_with (AT :: START_TAIL) (AT :: START_TAIL ++ c') = true) by (apply (starts_with_app_self (AT :: START_TAIL) c')).
  rewrite E2.
  assert (E3 : skipn (length (AT :: START_TAIL)) (AT :: START_TAIL ++ c') = c') by (apply (skipn_app_self (AT :: START_TAIL) c')).
  rewrite E3.
  rewrite (scan_all_skip START_TAIL (START_TAIL ++ c') (no_at_app _ _ no_at_start_tail Hc)).
  rewrite rev_involutive. reflexivity.
Qed.

Lemma no_at_removelast (c : str) : no_at c -> no_at (removelast c).
Proof.
  unfold no_at. intros H Hin. apply H. clear H. induction c as [|x c IH]; [destruct Hin|].
  destruct c as [|y c']; [destruct Hin|]. cbn [removelast] in Hin. destruct Hin as [<-|Hin]; [left; reflexivity|right; apply IH; exact Hin].
Qed.

Lemma removelast_app_nonempty {X} (a b : list X) : b <> [] -> removelast (a ++ b) = a ++ removelast b.
Proof. intros H. apply removelast_app. exact H. Qed.

(* C06: text outside the tag pair is ignored *)
Theorem slice_tags_between (pre c post : str) :
  no_at pre -> no_at c -> no_at post -> c <> [] ->
  slice_tags (pre ++ STARTUML ++ c ++ ENDUML ++ post) = Some c.
Proof.
  intros Hp Hc Hq Hne. unfold slice_tags. rewrite (last_end pre c post Hp Hc Hq).
  assert (E : removelast (pre ++ STARTUML ++ c) = pre ++ STARTUML ++ removelast c).
  { rewrite removelast_app_nonempty by (rewrite STARTUML_eq; discriminate).
    rewrite removelast_app_nonempty by exact Hne. reflexivity. }
  rewrite E. rewrite (last_start pre (removelast c) Hp (no_at_removelast c Hc)).
  f_equal. rewrite !rev_app_distr.
  destruct (rev c) as [|x rc] eqn:Er.
  - apply (f_equal (@rev N)) in Er. rewrite rev_involutive in Er. simpl in Er. congruence.
  - cbn [app]. apply (f_equal (@rev N)) in Er. rewrite rev_involutive in Er. rewrite Er. cbn [rev].
    rewrite removelast_last. reflexivity.
Qed.

Theorem parse_text_between (pre c post : str) :
  no_at pre -> no_at c -> no_at post -> c <> [] ->
  parse_text (pre ++ STARTUML ++ c ++ ENDUML ++ post) = Some (parse_lines (map lex_line (split_lines c))).
Proof. intros Hp Hc Hq Hne. unfold parse_text. rewrite (slice_tags_between pre c post Hp Hc Hq Hne). reflexivity. Qed.

(* a text without any '@' (in particular without the tags) is rejected *)
Theorem parse_text_no_tags (s : str) : no_at s -> parse_text s = None.
Proof.
  intros H. unfold parse_text, slice_tags. rewrite last_split_scan, ENDUML_eq.
  rewrite (scan_all_skip END_TAIL s H). reflexivity.
Qed.

(* only the start tag / only the end tag: rejected as well *)
Theorem parse_text_no_end (pre c : str) : no_at pre -> no_at c -> parse_text (pre ++ STARTUML ++ c) = None.
Proof.
  intros Hp Hc. unfold parse_text, slice_tags. rewrite last_split_scan, ENDUML_eq.
  rewrite (scan_skip END_TAIL pre Hp). rewrite STARTUML_eq. cbn [app scan].
  assert (E1 : starts_with (AT :: END_TAIL) (AT :: START_TAIL ++ c) = false) by reflexivity. rewrite E1.
  rewrite (scan_all_skip END_TAIL (START_TAIL ++ c) (no_at_app _ _ no_at_start_tail Hc)). reflexivity.
Qed.
