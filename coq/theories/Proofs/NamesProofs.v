(* NamesProofs.v — the prefix order on component lists. *)
From Coq Require Import List Bool Arith Lia.
From PTA Require Import Names.
Import ListNotations.

Section NamesProofs.
Context {comp : Type} (ceqb : comp -> comp -> bool).
Hypothesis ceqb_spec : forall x y, reflect (x = y) (ceqb x y).
Notation name := (list comp).
Notation name_eqb := (name_eqb ceqb).
Notation prefixb := (prefixb ceqb).
Notation sprefixb := (sprefixb ceqb).
Notation related := (related ceqb).
Notation memb := (memb ceqb).
Notation removeb := (removeb ceqb).

Lemma name_eqb_spec a b : reflect (a = b) (name_eqb a b).
Proof.
  revert b; induction a as [|x a IH]; intros [|y b]; simpl; try (constructor; congruence).
  destruct (ceqb_spec x y) as [->|Hn]; simpl.
  - destruct (IH b) as [->|Hn]; constructor; congruence.
  - constructor; congruence.
Qed.

Lemma name_eqb_refl a : name_eqb a a = true.
Proof. destruct (name_eqb_spec a a); congruence. Qed.

Lemma name_eqb_eq a b : name_eqb a b = true <-> a = b.
Proof. destruct (name_eqb_spec a b); split; congruence. Qed.

Lemma name_eqb_neq a b : name_eqb a b = false <-> a <> b.
Proof. destruct (name_eqb_spec a b); split; congruence. Qed.

Lemma name_eqb_sym a b : name_eqb a b = name_eqb b a.
Proof. destruct (name_eqb_spec a b), (name_eqb_spec b a); congruence. Qed.

Lemma prefixb_spec a b : prefixb a b = true <-> exists c, b = a ++ c.
Proof.
  revert b; induction a as [|x a IH]; intros b; simpl.
  - split; eauto.
  - destruct b as [|y b]; [split; [discriminate| intros [c Hc]; discriminate]|].
    rewrite andb_true_iff, IH. destruct (ceqb_spec x y) as [->|Hn].
    + split; [intros [_ [c ->]]; eauto | intros [c Hc]; injection Hc as ->; eauto].
    + split; [intros [H _]; discriminate | intros [c Hc]; injection Hc as -> _; congruence].
Qed.

Lemma prefixb_refl a : prefixb a a = true.
Proof. apply prefixb_spec; exists []; now rewrite app_nil_r. Qed.

Lemma prefixb_trans a b c : prefixb a b = true -> prefixb b c = true -> prefixb a c = true.
Proof. rewrite !prefixb_spec; intros [x ->] [y ->]; exists (x ++ y); now rewrite app_assoc. Qed.

Lemma prefixb_antisym a b : prefixb a b = true -> prefixb b a = true -> a = b.
Proof.
  rewrite !prefixb_spec. intros [x ->] [y Hy].
  rewrite <- app_assoc in Hy. rewrite <- (app_nil_r a) in Hy at 1.
  apply app_inv_head in Hy. symmetry in Hy. apply app_eq_nil in Hy. destruct Hy as [-> _].
  now rewrite app_nil_r.
Qed.

(* two ancestors-or-self of the same name are comparable *)
Lemma prefixb_comparable a b c :
  prefixb a c = true -> prefixb b c = true -> prefixb a b = true \/ prefixb b a = true.
Proof.
  revert b c; induction a as [|x a IH]; intros b c; simpl; [auto|].
  destruct c as [|z c]; [discriminate|]. destruct b as [|y b]; simpl; [auto|].
  rewrite !andb_true_iff. intros [Hx Ha] [Hy Hb].
  destruct (ceqb_spec x z) as [->|]; [|discriminate]. destruct (ceqb_spec y z) as [->|]; [|discriminate].
  destruct (ceqb_spec z z); [|congruence]. simpl. destruct (IH b c Ha Hb); auto.
Qed.

Lemma related_sym a b : related a b = related b a.
Proof. unfold Names.related. apply orb_comm. Qed.

Lemma related_refl a : related a a = true.
Proof. unfold Names.related. now rewrite prefixb_refl. Qed.

Lemma unrelated_neq a b : related a b = false -> a <> b.
Proof. intros H ->. now rewrite related_refl in H. Qed.

(* descendants of unrelated names are unrelated to each other's roots *)
Lemma unrelated_below a b x :
  related a b = false -> prefixb a x = true -> prefixb b x = false.
Proof.
  intros Hr Ha. destruct (prefixb b x) eqn:Hb; [|reflexivity].
  destruct (prefixb_comparable _ _ _ Ha Hb) as [H|H]; unfold Names.related in Hr; rewrite H in Hr;
    [discriminate | now rewrite orb_true_r in Hr].
Qed.

Lemma memb_spec n l : memb n l = true <-> In n l.
Proof.
  unfold Names.memb; rewrite existsb_exists; split.
  - intros [x [Hi He]]. apply name_eqb_eq in He. now subst.
  - intros H; exists n; split; auto. apply name_eqb_refl.
Qed.

Lemma memb_false n l : memb n l = false <-> ~ In n l.
Proof. rewrite <- memb_spec. destruct (memb n l); split; congruence. Qed.

Lemma in_removeb x n l : In x (removeb n l) <-> In x l /\ x <> n.
Proof.
  unfold Names.removeb; rewrite filter_In, negb_true_iff, name_eqb_neq. split; intros [? ?]; split; auto.
Qed.

Lemma sprefixb_spec a b : sprefixb a b = true <-> prefixb a b = true /\ a <> b.
Proof. unfold Names.sprefixb. now rewrite andb_true_iff, negb_true_iff, name_eqb_neq. Qed.

End NamesProofs.
