(* RenameProofs.v — C14: the core model uses no operation on path components
   other than [ceqb]; Paramcoq's parametricity translation turns that into a
   free theorem, instantiated here with the graph of an injective renaming. *)
From Coq Require Import List Bool NArith.
From PTA Require Import Names Graph Search Rule Builder Layer Diagram.
From Param Require Import Param.
Import ListNotations.

Parametricity Recursive layer_assert_applies qualified.
Parametricity Recursive verdict qualified.
Parametricity Recursive diagram_apply qualified.

Notation list_R := Coq_o_Init_o_Datatypes_o_list_R.
Notation bool_R := Coq_o_Init_o_Datatypes_o_bool_R.
Notation option_R := Coq_o_Init_o_Datatypes_o_option_R.
Notation prod_R := Coq_o_Init_o_Datatypes_o_prod_R.
Notation N_R := Coq_o_Numbers_o_BinNums_o_N_R.
Notation positive_R := Coq_o_Numbers_o_BinNums_o_positive_R.
Notation graph_R := PTA_o_Model_o_Graph_o_graph_R.
Notation cfg_R := PTA_o_Model_o_Rule_o_cfg_R.
Notation ufilt_R := PTA_o_Model_o_Rule_o_ufilt_R.
Notation filt_R := PTA_o_Model_o_Search_o_filt_R.
Notation err_R := PTA_o_Model_o_Search_o_err_R.
Notation line_R := PTA_o_Model_o_Rule_o_line_R.
Notation outcome_R := PTA_o_Model_o_Rule_o_outcome_R.
Notation lfilt_R := PTA_o_Model_o_Layer_o_lfilt_R.
Notation lline_R := PTA_o_Model_o_Layer_o_lline_R.
Notation loutcome_R := PTA_o_Model_o_Layer_o_loutcome_R.
Notation pdeps_R := PTA_o_Model_o_Diagram_o_pdeps_R.

(* ---- generic glue: relations that are graphs of functions ---- *)
Lemma bool_R_refl b : bool_R b b.
Proof. destruct b; constructor. Qed.
Lemma bool_R_eq b b' : bool_R b b' -> b' = b.
Proof. destruct 1; reflexivity. Qed.

Lemma positive_R_refl p : positive_R p p.
Proof. induction p; constructor; assumption. Qed.
Lemma positive_R_eq p p' : positive_R p p' -> p' = p.
Proof. induction 1; congruence. Qed.
Lemma N_R_refl n : N_R n n.
Proof. destruct n; constructor. apply positive_R_refl. Qed.
Lemma N_R_eq n n' : N_R n n' -> n' = n.
Proof. destruct 1 as [|p p' Hp]; [reflexivity|]. apply positive_R_eq in Hp. congruence. Qed.

Section Lists.
Context {X1 X2 : Type} (XR : X1 -> X2 -> Type) (h : X1 -> X2).
Hypothesis fwd : forall x, XR x (h x).
Hypothesis bwd : forall x y, XR x y -> y = h x.
Lemma list_R_map l : list_R X1 X2 XR l (map h l).
Proof. induction l; simpl; constructor; auto. Qed.
Lemma list_R_eq l l' : list_R X1 X2 XR l l' -> l' = map h l.
Proof. induction 1 as [|x y Hxy l l' Hl IH]; simpl; [reflexivity|]. rewrite (bwd _ _ Hxy), IH. reflexivity. Qed.
Lemma option_R_map o : option_R X1 X2 XR o (option_map h o).
Proof. destruct o; simpl; constructor; auto. Qed.
Lemma option_R_eq o o' : option_R X1 X2 XR o o' -> o' = option_map h o.
Proof. destruct 1 as [x y Hxy|]; simpl; [rewrite (bwd _ _ Hxy)|]; reflexivity. Qed.
End Lists.

Section Pairs.
Context {X1 X2 Y1 Y2 : Type} (XR : X1 -> X2 -> Type) (YR : Y1 -> Y2 -> Type) (h : X1 -> X2) (k : Y1 -> Y2).
Hypothesis fwdX : forall x, XR x (h x).
Hypothesis bwdX : forall x y, XR x y -> y = h x.
Hypothesis fwdY : forall x, YR x (k x).
Hypothesis bwdY : forall x y, YR x y -> y = k x.
Lemma prod_R_map p : prod_R X1 X2 XR Y1 Y2 YR p (h (fst p), k (snd p)).
Proof. destruct p; simpl; constructor; auto. Qed.
Lemma prod_R_eq p p' : prod_R X1 X2 XR Y1 Y2 YR p p' -> p' = (h (fst p), k (snd p)).
Proof. destruct 1 as [x x' Hx y y' Hy]; simpl. rewrite (bwdX _ _ Hx), (bwdY _ _ Hy). reflexivity. Qed.
End Pairs.

(* ---- renaming of the model's data ---- *)
Section Rename.
Variables (A B : Type) (f : A -> B) (ea : A -> A -> bool) (eb : B -> B -> bool).
Hypothesis ea_spec : forall x y, reflect (x = y) (ea x y).
Hypothesis eb_spec : forall x y, reflect (x = y) (eb x y).
Hypothesis f_inj : forall x y, f x = f y -> x = y.

Definition RR (x : A) (y : B) : Type := f x = y.

Lemma ceqb_RR x1 y1 (r1 : RR x1 y1) x2 y2 (r2 : RR x2 y2) : bool_R (ea x1 x2) (eb y1 y2).
Proof.
  unfold RR in *; subst. destruct (ea_spec x1 x2) as [->|Hn].
  - destruct (eb_spec (f x2) (f x2)); [constructor|congruence].
  - destruct (eb_spec (f x1) (f x2)) as [He|]; [exfalso; auto|constructor].
Qed.

Definition rn_name (n : list A) : list B := map f n.
Lemma name_fwd n : list_R A B RR n (rn_name n).
Proof. apply list_R_map. intros x; reflexivity. Qed.
Lemma name_bwd n n' : list_R A B RR n n' -> n' = rn_name n.
Proof. apply list_R_eq. intros x y H; symmetry; exact H. Qed.

Definition rn_edge (e : list A * list A) := (rn_name (fst e), rn_name (snd e)).
Definition rn_graph (g : @graph A) : @graph B :=
  {| nodes := map rn_name (nodes g); imps := map rn_edge (imps g) |}.
Lemma graph_fwd g : graph_R A B RR g (rn_graph g).
Proof.
  destruct g as [ns es]. unfold rn_graph. cbn [nodes imps]. constructor.
  - apply list_R_map. exact name_fwd.
  - apply list_R_map. intros [a b]. apply (prod_R_map _ _ rn_name rn_name); exact name_fwd.
Qed.

Definition rn_filt (x : @filt A) : @filt B := match x with Named n => Named (rn_name n) | SubOf n => SubOf (rn_name n) end.
Lemma filt_fwd x : filt_R A B RR x (rn_filt x).
Proof. destruct x; simpl; constructor; apply name_fwd. Qed.
Lemma filt_bwd x y : filt_R A B RR x y -> y = rn_filt x.
Proof. destruct 1 as [n n' H|n n' H]; simpl; rewrite (name_bwd _ _ H); reflexivity. Qed.

Definition rn_ufilt (x : @ufilt A) : @ufilt B :=
  match x with UNamed n => UNamed (rn_name n) | USubOf n => USubOf (rn_name n) | URegex r => URegex r end.
Lemma ufilt_fwd x : ufilt_R A B RR x (rn_ufilt x).
Proof. destruct x; simpl; constructor; try apply name_fwd. apply N_R_refl. Qed.

Definition rn_cfg (c : @cfg A) : @cfg B :=
  {| c_subj := option_map (map rn_ufilt) (c_subj c); c_obj := option_map (map rn_ufilt) (c_obj c);
     c_should := c_should c; c_only := c_only c; c_not := c_not c; c_exc := c_exc c; c_imp := c_imp c; c_any := c_any c |}.
Lemma cfg_fwd c : cfg_R A B RR c (rn_cfg c).
Proof.
  destruct c. unfold rn_cfg. cbn. constructor; try apply bool_R_refl.
  - apply (option_R_map _ (map rn_ufilt)). intros l. apply list_R_map. exact ufilt_fwd.
  - apply (option_R_map _ (map rn_ufilt)). intros l. apply list_R_map. exact ufilt_fwd.
  - destruct c_imp; constructor. apply bool_R_refl.
Qed.

Lemma err_bwd e e' : err_R e e' -> e' = e.
Proof. destruct 1; reflexivity. Qed.

Definition rn_line (l : @line A) : @line B :=
  match l with
  | LConc x y => LConc (rn_name x) (rn_name y)
  | LMissing s os => LMissing (rn_filt s) (map rn_filt os)
  | LMissingAny s os => LMissingAny (rn_filt s) (map rn_filt os)
  end.
Lemma line_bwd l l' : line_R A B RR l l' -> l' = rn_line l.
Proof.
  destruct 1 as [x x' Hx y y' Hy|s s' Hs os os' Hos|s s' Hs os os' Hos]; simpl.
  - rewrite (name_bwd _ _ Hx), (name_bwd _ _ Hy). reflexivity.
  - rewrite (filt_bwd _ _ Hs), (list_R_eq _ rn_filt filt_bwd _ _ Hos). reflexivity.
  - rewrite (filt_bwd _ _ Hs), (list_R_eq _ rn_filt filt_bwd _ _ Hos). reflexivity.
Qed.

Definition rn_outcome (o : @outcome A) : @outcome B :=
  match o with Pass => Pass | Fail ls => Fail (map rn_line ls) | Err e => Err e end.
Lemma outcome_bwd o o' : outcome_R A B RR o o' -> o' = rn_outcome o.
Proof.
  destruct 1 as [|ls ls' H|e e' H]; simpl.
  - reflexivity.
  - rewrite (list_R_eq _ rn_line line_bwd _ _ H). reflexivity.
  - rewrite (err_bwd _ _ H). reflexivity.
Qed.

(* regexes are outside the claim: the two oracles must agree on renamed names *)
Variables (rm1 : N -> list A -> bool) (rm2 : N -> list B -> bool).
Hypothesis rm_agree : forall p n, rm2 p (rn_name n) = rm1 p n.
Lemma rmatch_RR : forall p p', N_R p p' -> forall n n', list_R A B RR n n' -> bool_R (rm1 p n) (rm2 p' n').
Proof.
  intros p p' Hp n n' Hn. rewrite (N_R_eq _ _ Hp), (name_bwd _ _ Hn), rm_agree. apply bool_R_refl.
Qed.

(* every verdict and violation message is invariant, up to the renaming itself *)
Theorem verdict_rename g c :
  verdict eb rm2 (rn_graph g) (rn_cfg c) = rn_outcome (verdict ea rm1 g c).
Proof.
  apply outcome_bwd.
  apply (PTA_o_Model_o_Rule_o_verdict_R A B RR ea eb ceqb_RR rm1 rm2 rmatch_RR _ _ (graph_fwd g) _ _ (cfg_fwd c)).
Qed.

(* ---- layers ---- *)
Definition rn_lfilt (x : @lfilt A) : @lfilt B := match x with LName n => LName (rn_name n) | LRegex r => LRegex r end.
Lemma lfilt_fwd x : lfilt_R A B RR x (rn_lfilt x).
Proof. destruct x; simpl; constructor; [apply name_fwd|apply N_R_refl]. Qed.

Definition rn_larch (a : @larch A) : @larch B := map (fun lm => (fst lm, map rn_lfilt (snd lm))) a.
Lemma larch_fwd a : list_R _ _ (prod_R N N N_R (list (@lfilt A)) (list (@lfilt B)) (list_R _ _ (lfilt_R A B RR))) a (rn_larch a).
Proof.
  unfold rn_larch. apply list_R_map. intros [l fs]. cbn [fst snd]. constructor; [apply N_R_refl|].
  apply list_R_map. exact lfilt_fwd.
Qed.

Definition rn_lline (l : @lline A) : @lline B :=
  match l with
  | LLConc x lx y ly => LLConc (rn_name x) lx (rn_name y) ly
  | LLMissing l ms => LLMissing l ms
  | LLMissingAny l ms => LLMissingAny l ms
  end.
Lemma optN_bwd (o o' : option N) : option_R N N N_R o o' -> o' = o.
Proof. destruct 1 as [x y H|]; [rewrite (N_R_eq _ _ H)|]; reflexivity. Qed.
Lemma listN_bwd (l l' : list N) : list_R N N N_R l l' -> l' = l.
Proof. induction 1 as [|x y H l l' Hl IH]; [reflexivity|]. rewrite (N_R_eq _ _ H), IH. reflexivity. Qed.
Lemma lline_bwd l l' : lline_R A B RR l l' -> l' = rn_lline l.
Proof.
  destruct 1 as [x x' Hx lx lx' Hlx y y' Hy ly ly' Hly|l l' Hl ms ms' Hms|l l' Hl ms ms' Hms]; simpl.
  - rewrite (name_bwd _ _ Hx), (name_bwd _ _ Hy), (optN_bwd _ _ Hlx), (optN_bwd _ _ Hly). reflexivity.
  - rewrite (N_R_eq _ _ Hl), (listN_bwd _ _ Hms). reflexivity.
  - rewrite (N_R_eq _ _ Hl), (listN_bwd _ _ Hms). reflexivity.
Qed.

Definition rn_loutcome (o : @loutcome A) : @loutcome B :=
  match o with LPass => LPass | LFail ls => LFail (map rn_lline ls) | LErr e => LErr e end.
Lemma loutcome_bwd o o' : loutcome_R A B RR o o' -> o' = rn_loutcome o.
Proof.
  destruct 1 as [|ls ls' H|e e' H]; simpl.
  - reflexivity.
  - rewrite (list_R_eq _ rn_lline lline_bwd _ _ H). reflexivity.
  - rewrite (err_bwd _ _ H). reflexivity.
Qed.

(* layer verdicts, messages and layer attributions are invariant under the renaming *)
Theorem layer_rename g a c :
  layer_assert_applies eb rm2 (rn_graph g) (rn_larch a) (rn_cfg c)
  = rn_loutcome (layer_assert_applies ea rm1 g a c).
Proof.
  apply loutcome_bwd.
  apply (PTA_o_Model_o_Layer_o_layer_assert_applies_R A B RR ea eb ceqb_RR rm1 rm2 rmatch_RR
           _ _ (graph_fwd g) _ _ (larch_fwd a) _ _ (cfg_fwd c)).
Qed.

(* ---- diagram rules ---- *)
Definition rn_pdeps (d : @pdeps A) : @pdeps B :=
  {| pd_mods := map rn_name (pd_mods d); pd_rel := map rn_edge (pd_rel d) |}.
Lemma pdeps_fwd d : pdeps_R A B RR d (rn_pdeps d).
Proof.
  destruct d as [ms rel]. unfold rn_pdeps. cbn [pd_mods pd_rel]. constructor.
  - apply list_R_map. exact name_fwd.
  - apply list_R_map. intros [a b]. unfold rn_edge. cbn [fst snd]. constructor; apply name_fwd.
Qed.

Lemma optname_fwd (o : option (list A)) : option_R _ _ (list_R A B RR) o (option_map rn_name o).
Proof. destruct o; simpl; constructor. apply name_fwd. Qed.

(* the verdict and report of a diagram rule (both modes, with or without base module) are invariant under the renaming *)
Theorem diagram_rename g only base d :
  diagram_apply eb rm2 (rn_graph g) only (option_map rn_name base) (rn_pdeps d)
  = rn_outcome (diagram_apply ea rm1 g only base d).
Proof.
  apply outcome_bwd.
  apply (PTA_o_Model_o_Diagram_o_diagram_apply_R A B RR ea eb ceqb_RR rm1 rm2 rmatch_RR
           _ _ (graph_fwd g) _ _ (bool_R_refl only) _ _ (optname_fwd base) _ _ (pdeps_fwd d)).
Qed.

End Rename.
