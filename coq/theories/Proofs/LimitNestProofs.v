(* C09: level limits nest.  The architecture limited at j is the quotient of the one limited at any deeper k >= j,
   and a limit at least as deep as every module name changes nothing. *)
From Coq Require Import List Bool Arith Lia NArith.
From PTA Require Import Names Graph Search NamesProofs SearchProofs GraphProofs.
Import ListNotations.

Section LimitNest.
Context {comp : Type} (ceqb : comp -> comp -> bool).
Hypothesis ceqb_spec : forall x y, reflect (x = y) (ceqb x y).

Lemma flatten_flatten j k (n : list comp) : j <= k -> flatten (Some j) (flatten (Some k) n) = flatten (Some j) n.
Proof. intros H. unfold flatten. rewrite firstn_firstn. f_equal. lia. Qed.

Lemma flatten_short k (n : list comp) : length n <= S k -> flatten (Some k) n = n.
Proof. intros H. unfold flatten. apply firstn_all2. exact H. Qed.

(* modules at the coarser limit = truncations of the modules at the finer limit *)
Theorem nested_nodes j k mods imports (a : list comp) : j <= k ->
  (In a (build_nodes ceqb (Some j) mods imports) <->
   exists n, In n (build_nodes ceqb (Some k) mods imports) /\ a = flatten (Some j) n).
Proof.
  intros Hjk. rewrite (quotient_nodes ceqb ceqb_spec j). split.
  - intros [n [Hn ->]]. exists (flatten (Some k) n). split.
    + apply (quotient_nodes ceqb ceqb_spec k). eauto.
    + symmetry. apply flatten_flatten. exact Hjk.
  - intros [n [Hn ->]]. apply (quotient_nodes ceqb ceqb_spec k) in Hn. destruct Hn as [m [Hm ->]].
    exists m. split; [exact Hm|]. apply flatten_flatten. exact Hjk.
Qed.

(* a limit that no module name exceeds: same modules as without a limit *)
Theorem deep_limit_nodes k mods imports (a : list comp) :
  (forall n, In n (build_nodes ceqb None mods imports) -> length n <= S k) ->
  (In a (build_nodes ceqb (Some k) mods imports) <-> In a (build_nodes ceqb None mods imports)).
Proof.
  intros Hs. rewrite (quotient_nodes ceqb ceqb_spec k). split.
  - intros [n [Hn ->]]. rewrite flatten_short by (apply Hs; exact Hn). exact Hn.
  - intros Ha. exists a. split; [exact Ha|]. symmetry. apply flatten_short. apply Hs. exact Ha.
Qed.

(* ... and the same imports *)
Theorem deep_limit_imps k mods imports (a b : list comp) :
  (forall n, In n (build_nodes ceqb None mods imports) -> length n <= S k) ->
  (In (a, b) (imps (build_graph ceqb mods imports (Some k))) <-> In (a, b) (imps (build_graph ceqb mods imports None))).
Proof.
  intros Hs. rewrite (quotient_imps ceqb ceqb_spec k). split.
  - intros [x [y [Hi [-> [-> _]]]]].
    pose proof (proj1 (in_build_imps_nolimit ceqb ceqb_spec mods imports x y) Hi) as [_ [_ [Hx [Hy _]]]].
    rewrite !flatten_short by (apply Hs; assumption). exact Hi.
  - intros Hi.
    pose proof (proj1 (in_build_imps_nolimit ceqb ceqb_spec mods imports a b) Hi) as [_ [Hne [Hx [Hy Hc]]]].
    exists a, b. rewrite !flatten_short by (apply Hs; assumption). repeat split; auto.
Qed.

(* a coarser limit's import: some import of the finer limit truncates to it *)
Theorem nested_imps_sound j k mods imports (a b : list comp) : j <= k ->
  In (a, b) (imps (build_graph ceqb mods imports (Some j))) ->
  exists x y, In (x, y) (imps (build_graph ceqb mods imports (Some k))) /\
              a = flatten (Some j) x /\ b = flatten (Some j) y.
Proof.
  intros Hjk H. apply (quotient_imps ceqb ceqb_spec j) in H.
  destruct H as [x [y [Hi [-> [-> [Hne Hc]]]]]].
  exists (flatten (Some k) x), (flatten (Some k) y). rewrite !flatten_flatten by exact Hjk.
  split; [|split; reflexivity].
  apply (quotient_imps ceqb ceqb_spec k). exists x, y. repeat split; auto.
  - intros E. apply Hne. rewrite <- (flatten_flatten j k x Hjk), <- (flatten_flatten j k y Hjk), E. reflexivity.
  - destruct (childb ceqb (flatten (Some k) x) (flatten (Some k) y)) eqn:Ec; [|reflexivity]. exfalso.
    destruct (flatten_child ceqb ceqb_spec j _ _ Ec) as [E|E]; rewrite !flatten_flatten in E by exact Hjk.
    + apply Hne. exact E.
    + congruence.
Qed.

(* and conversely *)
Theorem nested_imps_complete j k mods imports (x y : list comp) : j <= k ->
  In (x, y) (imps (build_graph ceqb mods imports (Some k))) ->
  flatten (Some j) x <> flatten (Some j) y ->
  childb ceqb (flatten (Some j) x) (flatten (Some j) y) = false ->
  In (flatten (Some j) x, flatten (Some j) y) (imps (build_graph ceqb mods imports (Some j))).
Proof.
  intros Hjk H Hne Hc. apply (quotient_imps ceqb ceqb_spec k) in H.
  destruct H as [x0 [y0 [Hi [-> [-> _]]]]]. rewrite !flatten_flatten in * by exact Hjk.
  apply (quotient_imps ceqb ceqb_spec j). exists x0, y0. repeat split; auto.
Qed.

End LimitNest.
