(* LayerBuilderProofs.v — C16: invariants of the LayeredArchitecture and LayerRule
   builders over arbitrary call histories; C13 (layer part). *)
From Coq Require Import List Bool Arith Lia NArith.
From PTA Require Import Names Graph Search Rule Builder Layer NamesProofs BuilderProofs.
Import ListNotations.

Section LayerBuilderProofs.
Context {comp : Type} (ceqb : comp -> comp -> bool).
Hypothesis ceqb_spec : forall x y, reflect (x = y) (ceqb x y).
Notation name := (list comp).
Notation larch := (@larch comp).
Notation lfilt := (@lfilt comp).
Notation lacall := (@lacall comp).
Notation memb := (memb ceqb).

(* ---- the specification: what an accepted history defines ---- *)
Definition set_last (a : larch) (fs : list lfilt) : larch :=
  match rev a with
  | (l, _) :: r => rev r ++ [(l, fs)]
  | [] => []
  end.

Definition spec_step (a : larch) (c : lacall) : larch :=
  match c with
  | LALayer l => a ++ [(l, [])]
  | LAContainingStr m => set_last a [LName m]
  | LAContainingList ms => set_last a (map LName ms)
  | LAMatching r => set_last a [LRegex r]
  | LAWithLayer => a
  end.

Definition spec_listing (calls : list lacall) : larch := fold_left spec_step calls [].

(* the documented reasons to reject a call *)
Definition last_pending (a : larch) : bool :=
  match rev a with (_, []) :: _ => true | _ => false end.

Definition violates (a : larch) (c : lacall) : Prop :=
  match c with
  | LALayer l => last_pending a = true                              (* previous layer still without modules *)
                 \/ In l (map fst a)                                (* layer name defined twice *)
  | LAContainingStr m => last_pending a = false                     (* no layer open *)
                         \/ In m (listed_names a)                   (* module already assigned to a layer *)
  | LAContainingList ms => last_pending a = false
                           \/ exists m, In m ms /\ In m (listed_names a)
  | LAMatching _ => last_pending a = false
  | LAWithLayer => False
  end.

(* ---- invariant ---- *)
Definition all_defined (a : larch) : Prop := forall lm, In lm a -> snd lm <> [].

(* every layer but possibly the last has its modules; layer names are distinct *)
Record Inv (a : larch) : Prop := {
  inv_names : NoDup (map fst a);
  inv_front : match rev a with [] => True | _ :: r => all_defined (rev r) end
}.

Lemma Inv_nil : Inv [].
Proof. constructor; simpl; [constructor|exact I]. Qed.

Lemma pending_all_defined (a : larch) : all_defined a -> pending a = [].
Proof.
  unfold pending. induction a as [|[l fs] a IH]; intros H; simpl; [reflexivity|].
  assert (Hfs : fs <> []) by (apply (H (l, fs)); left; reflexivity).
  destruct fs; [congruence|]. simpl. apply IH. intros lm Hlm; apply H; right; exact Hlm.
Qed.

Lemma pending_app (a b : larch) : pending (a ++ b) = pending a ++ pending b.
Proof. unfold pending. apply flat_map_app. Qed.

(* under the invariant, the pending layers are: nothing, or exactly the last layer *)
Lemma pending_inv (a : larch) : Inv a ->
  match rev a with
  | [] => pending a = []
  | (l, fs) :: r => pending a = match fs with [] => [l] | _ => [] end
  end.
Proof.
  intros [_ Hf]. destruct (rev a) as [|[l fs] r] eqn:E.
  - apply (f_equal (@rev _)) in E. rewrite rev_involutive in E. subst a. reflexivity.
  - assert (Ha : a = rev r ++ [(l, fs)]).
    { apply (f_equal (@rev _)) in E. rewrite rev_involutive in E. simpl in E. exact E. }
    rewrite Ha, pending_app, (pending_all_defined _ Hf). simpl. destruct fs; reflexivity.
Qed.

Lemma last_pending_spec (a : larch) : Inv a -> (last_pending a = true <-> exists l, pending a = [l]) /\ (last_pending a = false <-> pending a = []).
Proof.
  intros H. pose proof (pending_inv a H) as Hp. unfold last_pending. destruct (rev a) as [|[l fs] r].
  - rewrite Hp. split; split; try discriminate; auto. intros [l H']; discriminate.
  - rewrite Hp. destruct fs; split; split; try discriminate; eauto. intros [l' H']; discriminate.
Qed.

Lemma set_layer_last (a : larch) l fs0 fs :
  ~ In l (map fst a) -> set_layer (a ++ [(l, fs0)]) l fs = a ++ [(l, fs)].
Proof.
  intros Hn. unfold set_layer. rewrite map_app. simpl. rewrite N.eqb_refl. f_equal.
  induction a as [|[l' fs'] a IH]; simpl; [reflexivity|]. simpl in Hn.
  destruct (N.eqb_spec l' l) as [->|]; [exfalso; apply Hn; left; reflexivity|].
  f_equal. apply IH. intros Hi; apply Hn; right; exact Hi.
Qed.

Lemma NoDup_app_last {X} (a : list X) x : NoDup (a ++ [x]) <-> NoDup a /\ ~ In x a.
Proof.
  split.
  - intros H. apply NoDup_remove in H. rewrite app_nil_r in H. tauto.
  - intros [Ha Hx]. induction a as [|y a IH]; simpl.
    + constructor; [intros []|constructor].
    + inversion Ha as [|? ? Hy Ha']; subst. constructor.
      * rewrite in_app_iff. intros [Hi|[->|[]]]; [contradiction|]. apply Hx; left; reflexivity.
      * apply IH; auto. intros Hi; apply Hx; right; exact Hi.
Qed.

(* setting the modules of the (pending) last layer *)
Lemma la_set_pending_last (a : larch) fs :
  Inv a -> last_pending a = true -> la_set_pending a fs = Ok (set_last a fs).
Proof.
  intros H Hl. pose proof (pending_inv a H) as Hp. unfold last_pending in Hl. unfold la_set_pending, set_last.
  destruct (rev a) as [|[l fs0] r] eqn:E; [discriminate|]. destruct fs0; [|discriminate]. rewrite Hp.
  assert (Ha : a = rev r ++ [(l, [])]).
  { apply (f_equal (@rev _)) in E. rewrite rev_involutive in E. simpl in E. exact E. }
  f_equal. rewrite Ha at 1. apply set_layer_last.
  destruct H as [Hn _]. rewrite Ha, map_app in Hn. simpl in Hn. apply NoDup_app_last in Hn. tauto.
Qed.

Lemma existsb_eqb_In l (a : larch) : existsb (fun lm => N.eqb (fst lm) l) a = true <-> In l (map fst a).
Proof.
  rewrite existsb_exists, in_map_iff. split.
  - intros [lm [Hi He]]. apply N.eqb_eq in He. eauto.
  - intros [lm [He Hi]]. exists lm. split; auto. apply N.eqb_eq; auto.
Qed.

Lemma existsb_listed ms (a : larch) :
  existsb (fun m => memb m (listed_names a)) ms = true <-> exists m, In m ms /\ In m (listed_names a).
Proof.
  rewrite existsb_exists. split; intros [m [H1 H2]]; exists m; split; auto;
    apply (memb_spec ceqb ceqb_spec); auto.
Qed.

(* replacing the modules of the last layer keeps the invariant *)
Lemma Inv_set_last (a : larch) fs : Inv a -> Inv (set_last a fs).
Proof.
  intros [Hn Hf]. unfold set_last. destruct (rev a) as [|[l fs0] r] eqn:E; [apply Inv_nil|].
  assert (Ha : a = rev r ++ [(l, fs0)]).
  { apply (f_equal (@rev _)) in E. rewrite rev_involutive in E. simpl in E. exact E. }
  constructor.
  - rewrite Ha in Hn. rewrite map_app in *. simpl in *. exact Hn.
  - rewrite rev_app_distr. simpl. rewrite rev_involutive. exact Hf.
Qed.

(* one step: rejected exactly for the documented reasons; otherwise the documented effect, invariant kept *)
Lemma la_step_spec (a : larch) c :
  Inv a ->
  (forall e, la_step ceqb a c = Er e -> violates a c) /\
  (violates a c -> exists e, la_step ceqb a c = Er e) /\
  (forall a', la_step ceqb a c = Ok a' -> a' = spec_step a c /\ Inv a').
Proof.
  intros H. destruct (last_pending_spec a H) as [[Ht1 Ht2] [Hf1 Hf2]].
  pose proof (pending_inv a H) as Hp.
  destruct c as [l|m|ms|r|]; cbn [la_step violates spec_step].
  - (* layer(l) *)
    destruct (last_pending a) eqn:Elp.
    + destruct (Ht1 eq_refl) as [l0 Hl0]. rewrite Hl0. split; [auto|]. split; [eauto|]. discriminate.
    + rewrite (Hf1 eq_refl). destruct (existsb (fun lm => N.eqb (fst lm) l) a) eqn:Ee.
      * apply existsb_eqb_In in Ee. split; [auto|]. split; [eauto|]. discriminate.
      * assert (Hn : ~ In l (map fst a)) by (rewrite <- existsb_eqb_In, Ee; discriminate).
        split; [discriminate|]. split; [intros [X|X]; [discriminate|contradiction]|].
        intros a' [= <-]. split; [reflexivity|]. destruct H as [Hnd Hfr]. constructor.
        -- rewrite map_app. simpl. apply NoDup_app_last. split; auto.
        -- rewrite rev_app_distr. simpl. rewrite rev_involutive.
           intros lm Hlm. unfold last_pending in Elp.
           destruct (rev a) as [|[l1 fs1] r1] eqn:Er.
           ++ apply (f_equal (@rev _)) in Er. rewrite rev_involutive in Er. subst a. destruct Hlm.
           ++ assert (Ha : a = rev r1 ++ [(l1, fs1)]).
              { apply (f_equal (@rev _)) in Er. rewrite rev_involutive in Er. simpl in Er. exact Er. }
              rewrite Ha in Hlm. apply in_app_iff in Hlm. destruct Hlm as [Hlm|[<-|[]]]; [apply Hfr; exact Hlm|].
              simpl. destruct fs1; [discriminate|discriminate].
  - (* containing_modules("m") *)
    unfold la_containing. destruct (last_pending a) eqn:Elp.
    + destruct (Ht1 eq_refl) as [l0 Hl0]. rewrite Hl0. cbn [existsb]. rewrite orb_false_r.
      destruct (memb m (listed_names a)) eqn:Em.
      * apply (memb_spec ceqb ceqb_spec) in Em. split; [auto|]. split; [eauto|]. discriminate.
      * assert (Hn : ~ In m (listed_names a)) by (rewrite <- (memb_spec ceqb ceqb_spec), Em; discriminate).
        rewrite (la_set_pending_last a _ H Elp). split; [discriminate|].
        split; [intros [X|X]; [discriminate|contradiction]|].
        intros a' [= <-]. split; [reflexivity|]. apply Inv_set_last; auto.
    + rewrite (Hf1 eq_refl). split; [auto|]. split; [eauto|]. discriminate.
  - (* containing_modules([..]) *)
    unfold la_containing. destruct (last_pending a) eqn:Elp.
    + destruct (Ht1 eq_refl) as [l0 Hl0]. rewrite Hl0.
      destruct (existsb (fun m => memb m (listed_names a)) ms) eqn:Em.
      * apply existsb_listed in Em. split; [auto|]. split; [eauto|]. discriminate.
      * assert (Hn : ~ exists m, In m ms /\ In m (listed_names a)) by (rewrite <- existsb_listed, Em; discriminate).
        rewrite (la_set_pending_last a _ H Elp). split; [discriminate|].
        split; [intros [X|X]; [discriminate|contradiction]|].
        intros a' [= <-]. split; [reflexivity|]. apply Inv_set_last; auto.
    + rewrite (Hf1 eq_refl). split; [auto|]. split; [eauto|]. discriminate.
  - (* have_modules_with_names_matching *)
    destruct (last_pending a) eqn:Elp.
    + rewrite (la_set_pending_last a _ H Elp). split; [discriminate|]. split; [discriminate|].
      intros a' [= <-]. split; [reflexivity|]. apply Inv_set_last; auto.
    + unfold la_set_pending. rewrite (Hf1 eq_refl). split; [auto|]. split; [eauto|]. discriminate.
  - split; [discriminate|]. split; [intros []|]. intros a' [= <-]. auto.
Qed.


(* ---- a module name belongs to at most one layer ---- *)
Definition one_layer_per_module (a : larch) : Prop :=
  forall l1 fs1 l2 fs2 m, In (l1, fs1) a -> In (l2, fs2) a ->
    In (LName m) fs1 -> In (LName m) fs2 -> l1 = l2.

Lemma in_listed_names (a : larch) l fs m : In (l, fs) a -> In (LName m) fs -> In m (listed_names a).
Proof.
  intros Ha Hm. unfold listed_names. apply in_flat_map. exists (l, fs). split; [exact Ha|].
  cbn [snd]. apply in_flat_map. exists (LName m). split; [exact Hm|left; reflexivity].
Qed.

Lemma in_set_last (a : larch) fs lm :
  In lm (set_last a fs) ->
  (exists l fs0 r, rev a = (l, fs0) :: r /\ (lm = (l, fs) \/ In lm (rev r))).
Proof.
  unfold set_last. destruct (rev a) as [|[l fs0] r] eqn:E; [intros []|].
  intros H. exists l, fs0, r. split; [reflexivity|]. apply in_app_iff in H. destruct H as [H|[<-|[]]]; auto.
Qed.

Lemma in_rev_front (a : larch) l fs0 r lm : rev a = (l, fs0) :: r -> In lm (rev r) -> In lm a.
Proof.
  intros E H. apply (f_equal (@rev _)) in E. rewrite rev_involutive in E. simpl in E. rewrite E.
  apply in_app_iff. left; exact H.
Qed.

Lemma one_layer_set_last (a : larch) ms :
  Inv a -> one_layer_per_module a -> (forall m, In m ms -> ~ In m (listed_names a)) ->
  one_layer_per_module (set_last a (map LName ms)).
Proof.
  intros Hinv H Hnew l1 fs1 l2 fs2 m H1 H2 Hm1 Hm2.
  destruct (in_set_last _ _ _ H1) as [l [fs0 [r [E [X1|X1]]]]];
  destruct (in_set_last _ _ _ H2) as [l' [fs0' [r' [E' [X2|X2]]]]];
    rewrite E in E'; injection E' as <- <- <-.
  - congruence.
  - injection X1 as -> ->. exfalso. apply in_map_iff in Hm1. destruct Hm1 as [m' [[= ->] Hm']].
    apply (Hnew m Hm'). eapply in_listed_names; [eapply in_rev_front; eauto|exact Hm2].
  - injection X2 as -> ->. exfalso. apply in_map_iff in Hm2. destruct Hm2 as [m' [[= ->] Hm']].
    apply (Hnew m Hm'). eapply in_listed_names; [eapply in_rev_front; eauto|exact Hm1].
  - eapply H; eauto using in_rev_front.
Qed.

Lemma one_layer_set_last_regex (a : larch) r0 :
  one_layer_per_module a -> one_layer_per_module (set_last a [LRegex r0]).
Proof.
  intros H l1 fs1 l2 fs2 m H1 H2 Hm1 Hm2.
  destruct (in_set_last _ _ _ H1) as [l [fs0 [r [E [X1|X1]]]]];
  destruct (in_set_last _ _ _ H2) as [l' [fs0' [r' [E' [X2|X2]]]]];
    rewrite E in E'; injection E' as <- <- <-.
  - congruence.
  - injection X1 as -> ->. destruct Hm1 as [X|[]]; discriminate.
  - injection X2 as -> ->. destruct Hm2 as [X|[]]; discriminate.
  - eapply H; eauto using in_rev_front.
Qed.

Lemma la_step_one_layer (a : larch) c a' :
  Inv a -> one_layer_per_module a -> la_step ceqb a c = Ok a' -> one_layer_per_module a'.
Proof.
  intros Hinv H Hs. destruct (la_step_spec a c Hinv) as [_ [Hv Hok]].
  destruct (Hok a' Hs) as [-> _].
  assert (Hnv : ~ violates a c). { intros X. destruct (Hv X) as [e He]. congruence. }
  destruct c as [l|m|ms|r|]; cbn [spec_step violates] in *.
  - intros l1 fs1 l2 fs2 m H1 H2 Hm1 Hm2. apply in_app_iff in H1. apply in_app_iff in H2.
    destruct H1 as [H1|[[= <- <-]|[]]]; [|destruct Hm1]. destruct H2 as [H2|[[= <- <-]|[]]]; [|destruct Hm2].
    eapply H; eauto.
  - apply (one_layer_set_last a [m] Hinv H). intros m' [<-|[]] Hi. apply Hnv. right; exact Hi.
  - apply (one_layer_set_last a ms Hinv H). intros m' Hm' Hi. apply Hnv. right. eauto.
  - apply one_layer_set_last_regex. exact H.
  - exact H.
Qed.

(* ---- histories ---- *)
Theorem la_run_invariant calls : forall a,
  Inv a -> one_layer_per_module a ->
  forall a', la_run ceqb a calls = Ok a' ->
  a' = fold_left spec_step calls a /\ Inv a' /\ one_layer_per_module a'.
Proof.
  induction calls as [|c calls IH]; intros a Hi Ho a'; cbn [la_run fold_left].
  - intros [= <-]. auto.
  - destruct (la_step ceqb a c) as [a1|e] eqn:E; [|discriminate].
    destruct (la_step_spec a c Hi) as [_ [_ Hok]]. destruct (Hok a1 E) as [-> Hi1].
    intros H. apply IH; [exact Hi1 | exact (la_step_one_layer a c _ Hi Ho E) | exact H].
Qed.

Theorem la_accepted_definition calls a :
  la_run ceqb [] calls = Ok a ->
  a = spec_listing calls /\ NoDup (map fst a) /\ one_layer_per_module a /\
  (forall l fs, In (l, fs) a -> fs = [] -> exists a0, a = a0 ++ [(l, fs)]).
Proof.
  intros H. destruct (la_run_invariant calls [] Inv_nil (fun _ _ _ _ _ H0 => match H0 with end) a H) as [E [Hi Ho]].
  split; [exact E|]. split; [apply (inv_names _ Hi)|]. split; [exact Ho|].
  intros l fs Hin ->. destruct Hi as [_ Hf]. destruct (rev a) as [|[l0 fs0] r] eqn:Er.
  - apply (f_equal (@rev _)) in Er. rewrite rev_involutive in Er. rewrite Er in Hin. destruct Hin.
  - assert (Ha : a = rev r ++ [(l0, fs0)]).
    { apply (f_equal (@rev _)) in Er. rewrite rev_involutive in Er. simpl in Er. exact Er. }
    rewrite Ha in Hin. apply in_app_iff in Hin. destruct Hin as [Hin|[[= -> ->]|[]]].
    + exfalso. apply (Hf _ Hin). reflexivity.
    + exists (rev r). exact Ha.
Qed.

(* a violating call is rejected at that very call, whatever came before; a non-violating one is accepted *)
Theorem la_reject_at_call pre a c :
  la_run ceqb [] pre = Ok a ->
  ((exists e, la_step ceqb a c = Er e) <-> violates a c).
Proof.
  intros H. destruct (la_run_invariant pre [] Inv_nil (fun _ _ _ _ _ H0 => match H0 with end) a H) as [_ [Hi _]].
  destruct (la_step_spec a c Hi) as [H1 [H2 _]]. split; [intros [e He]; eauto|exact H2].
Qed.

(* going on after rejected calls: the object is what the accepted calls alone would have built *)
Theorem la_run_lenient_accepted calls : forall a,
  la_run ceqb a (accepted_calls ceqb a calls) = Ok (fst (la_run_lenient ceqb a calls)).
Proof.
  induction calls as [|c r IH]; intros a; [reflexivity|].
  cbn [accepted_calls la_run_lenient]. destruct (la_step ceqb a c) as [a'|e] eqn:E.
  - cbn [la_run fst]. rewrite E. apply IH.
  - cbn [fst]. apply IH.
Qed.

Theorem la_rejection_is_config_error (a : larch) c e : la_step ceqb a c = Er e -> e = EConfig.
Proof.
  destruct c as [l|m|ms|r|]; cbn [la_step]; unfold la_containing, la_set_pending;
    repeat match goal with |- context [match ?x with _ => _ end] => destruct x end; congruence.
Qed.

(* a module passed as a string and inside a one-element list are the same call *)
Theorem la_str_is_list (a : larch) m : la_step ceqb a (LAContainingStr m) = la_step ceqb a (LAContainingList [m]).
Proof. reflexivity. Qed.


(* ---- LayerRule builder ---- *)
Notation lrstate := (@lrstate comp).
Notation lrcall := (@lrcall comp).
Notation rstate := (@rstate comp).

Definition subj_one_layer (a : larch) (r : rstate) : Prop :=
  c_subj (st_cfg r) = None \/
  exists l fs, lookup_layer a l = Some fs /\ c_subj (st_cfg r) = Some (map (@lfilt_to_u comp) fs).

(* a rule under construction always has its architecture, and at most one subject layer *)
Definition LRInv (st : lrstate) : Prop :=
  match lr_rule st with
  | None => True
  | Some r => exists a, lr_arch st = Some a /\ subj_one_layer a r /\ st_next r <> None
  end.

Lemma LRInv_init : LRInv lrinit.
Proof. exact I. Qed.

Lemma rstep_keeps_subject (r r' : rstate) c :
  is_modules_call c = false -> c <> RModulesThat -> rstep r c = Ok r' ->
  c_subj (st_cfg r') = c_subj (st_cfg r) /\ (st_next r <> None -> st_next r' <> None).
Proof.
  destruct c; cbn; try discriminate; try congruence; intros _ _ [= <-]; cbn; split; auto; discriminate.
Qed.

Lemma lr_delegate_inv st c st' :
  is_modules_call c = false -> c <> RModulesThat ->
  LRInv st -> lr_delegate st c = Ok st' -> LRInv st'.
Proof.
  intros Hm Hc Hi. unfold lr_delegate, LRInv in *. destruct (lr_rule st) as [r|]; [|discriminate].
  destruct (rstep r c) as [r'|e] eqn:E; [|discriminate]. intros [= <-]. cbn [lr_rule lr_arch].
  destruct Hi as [a [Ha [Hs Hn]]]. destruct (rstep_keeps_subject r r' c Hm Hc E) as [Es En].
  exists a. split; [exact Ha|]. split; [|auto]. unfold subj_one_layer in *. rewrite Es. exact Hs.
Qed.

Lemma is_empty_opt_cases {X} (o : option (list X)) : is_empty_opt o = true -> o = None \/ o = Some [].
Proof. destruct o as [[|x l]|]; simpl; auto; discriminate. Qed.

Lemma lr_are_named_inv st (is_list : bool) ls st' :
  (is_list = false -> exists l, ls = [l]) ->
  LRInv st -> lr_are_named st is_list ls = Ok st' -> LRInv st'.
Proof.
  intros Hls Hi. unfold lr_are_named, LRInv in *. destruct (lr_rule st) as [r|]; [|discriminate].
  destruct Hi as [a [Ha [Hs Hn]]]. rewrite Ha.
  destruct (is_empty_opt (c_subj (st_cfg r))) eqn:Ee; cbn [andb negb].
  - destruct is_list; [discriminate|]. cbn [andb]. destruct (Hls eq_refl) as [l ->].
    cbn [map_res]. destruct (lookup_layer a l) as [fs|] eqn:El; cbn [bind]; [|discriminate].
    intros [= <-]. cbn [lr_rule lr_arch].
    exists a. split; [first [exact Ha|reflexivity]|]. unfold append_modules.
    destruct (st_next r) as [[|]|] eqn:En; [| |congruence]; cbn [st_cfg st_next]; (split; [|discriminate]).
    + right. exists l, fs. split; [exact El|]. cbn [c_subj set_field concat]. rewrite app_nil_r.
      destruct (is_empty_opt_cases _ Ee) as [E0|E0]; rewrite E0; reflexivity.
    + unfold subj_one_layer in *. cbn [c_subj set_field]. exact Hs.
  - destruct (st_next r) as [[|]|] eqn:En; [discriminate| |congruence].
    destruct (map_res _ ls) as [fss|e] eqn:Em; [|discriminate]. intros [= <-]. cbn [lr_rule lr_arch].
    exists a. split; [first [exact Ha|reflexivity]|]. unfold append_modules. rewrite En. cbn [st_cfg st_next]. split; [|discriminate].
    unfold subj_one_layer in *. cbn [c_subj set_field]. exact Hs.
Qed.

Lemma lr_step_inv st c st' : LRInv st -> lr_step st c = Ok st' -> LRInv st'.
Proof.
  intros Hi. destruct c; cbn [lr_step].
  - (* based_on *) destruct (lr_arch st) eqn:Ea; [discriminate|]. intros [= <-]. unfold LRInv in *. cbn [lr_rule lr_arch].
    destruct (lr_rule st) as [r|]; [|exact I]. destruct Hi as [a' [Ha' _]]. congruence.
  - (* layers_that *) destruct (lr_arch st) as [a0|] eqn:Ea; [|discriminate]. intros [= <-]. unfold LRInv. cbn [lr_rule lr_arch].
    exists a0. split; [first [exact Ea|reflexivity]|]. split; [left; reflexivity|discriminate].
  - apply lr_are_named_inv; [eauto|exact Hi].
  - apply lr_are_named_inv; [discriminate|exact Hi].
  - apply lr_delegate_inv; [reflexivity|discriminate|exact Hi].
  - apply lr_delegate_inv; [reflexivity|discriminate|exact Hi].
  - apply lr_delegate_inv; [reflexivity|discriminate|exact Hi].
  - apply lr_delegate_inv; [reflexivity|discriminate|exact Hi].
  - apply lr_delegate_inv; [reflexivity|discriminate|exact Hi].
  - apply lr_delegate_inv; [reflexivity|discriminate|exact Hi].
  - apply lr_delegate_inv; [reflexivity|discriminate|exact Hi].
  - apply lr_delegate_inv; [reflexivity|discriminate|exact Hi].
  - apply lr_delegate_inv; [reflexivity|discriminate|exact Hi].
Qed.

(* C16 for LayerRule: whatever the history, a rule under construction has its architecture and
   exactly one subject layer (or none yet) *)
Theorem lr_run_invariant calls : forall st st', LRInv st -> lr_run st calls = Ok st' -> LRInv st'.
Proof.
  induction calls as [|c calls IH]; intros st st' Hi; cbn [lr_run]; [intros [= <-]; exact Hi|].
  destruct (lr_step st c) as [st1|e] eqn:E; [|discriminate]. apply IH. eapply lr_step_inv; eauto.
Qed.

Theorem layer_rule_one_subject calls st r :
  lr_run lrinit calls = Ok st -> lr_rule st = Some r ->
  exists a, lr_arch st = Some a /\ subj_one_layer a r.
Proof.
  intros H Hr. pose proof (lr_run_invariant calls lrinit st LRInv_init H) as Hi. unfold LRInv in Hi.
  rewrite Hr in Hi. destruct Hi as [a [Ha [Hs _]]]. eauto.
Qed.

(* the offending calls are rejected with a configuration error at the call *)
Theorem layer_rule_needs_architecture (st : lrstate) : lr_arch st = None -> lr_step st LRLayersThat = Er EConfig.
Proof. intros H. cbn [lr_step]. rewrite H. reflexivity. Qed.

Theorem layer_rule_architecture_once (st : lrstate) a0 a1 : lr_arch st = Some a0 -> lr_step st (LRBasedOn a1) = Er EConfig.
Proof. intros H. cbn [lr_step]. rewrite H. reflexivity. Qed.

Theorem layer_rule_second_subject (st : lrstate) r a l :
  lr_rule st = Some r -> lr_arch st = Some a ->
  is_empty_opt (c_subj (st_cfg r)) = false -> st_next r = Some true ->
  lr_step st (LRAreNamedStr l) = Er EConfig.
Proof.
  intros Hr Ha He Hn. cbn [lr_step]. unfold lr_are_named. rewrite Hr, Ha, He, Hn. reflexivity.
Qed.

Theorem layer_rule_subject_batch (st : lrstate) r a ls :
  lr_rule st = Some r -> lr_arch st = Some a -> is_empty_opt (c_subj (st_cfg r)) = true ->
  lr_step st (LRAreNamedList ls) = Er EConfig.
Proof.
  intros Hr Ha He. cbn [lr_step]. unfold lr_are_named. rewrite Hr, Ha, He. reflexivity.
Qed.

(* C13: a layer that was never defined is a lookup error at the call *)
Theorem layer_rule_undefined_layer (st : lrstate) r a l st' :
  lr_rule st = Some r -> lr_arch st = Some a -> lookup_layer a l = None ->
  lr_step st (LRAreNamedStr l) = Ok st' -> False.
Proof.
  intros Hr Ha Hl. cbn [lr_step]. unfold lr_are_named. rewrite Hr, Ha.
  destruct (_ && _); [discriminate|]. destruct (_ && _); [discriminate|].
  cbn [map_res]. rewrite Hl. cbn [bind]. discriminate.
Qed.

End LayerBuilderProofs.

Section LayerVerdict.
Context {comp : Type} (ceqb : comp -> comp -> bool).
Hypothesis ceqb_spec : forall x y, reflect (x = y) (ceqb x y).
Variable rmatch : N -> list comp -> bool.
Notation larch := (@larch comp).
Notation rstate := (@rstate comp).

(* C13: a LayerRule history yields a verdict only if the inner rule is complete and consistent *)
Definition is_lverdict (o : @loutcome comp) : bool := match o with LErr _ => false | _ => true end.

Lemma layer_verdict_complete g (a : larch) (st : rstate) :
  is_lverdict (layer_assert_applies ceqb rmatch g a (st_cfg st)) = true -> complete (absv st) = true.
Proof.
  destruct st as [c nx]. cbn [st_cfg]. unfold layer_assert_applies, complete, absv. cbn [st_cfg st_next v_subj v_obj v_should v_only v_not v_imp v_any].
  destruct (c_any c && (c_should c || c_only c)) eqn:Hg; [discriminate|].
  destruct (required_present (convert_aliases ceqb c)) eqn:Hr; cbn [negb]; [|discriminate].
  destruct (behavior_consistent (convert_aliases ceqb c)) eqn:Hc; cbn [negb]; [|discriminate].
  intros _. cbn [negb]. rewrite andb_true_r.
  unfold convert_aliases in Hr, Hc. destruct (c_any c) eqn:Ha; rewrite ?Ha in Hr, Hc.
  - unfold required_present in Hr. cbn [c_should c_only c_not c_imp c_subj c_obj] in Hr.
    rewrite !andb_true_iff, !negb_true_iff in Hr. destruct Hr as [[[Hv Hi] Hs] _].
    assert (Hs' : is_empty_opt (c_subj c) = false).
    { destruct (c_subj c) as [fs|]; [|discriminate]. cbn [option_map] in Hs. apply (drop_children_empty ceqb). exact Hs. }
    rewrite Hs', Hv. cbn [negb andb]. rewrite orb_true_r.
    destruct (c_imp c); [|discriminate]. cbn [is_some andb].
    destruct (c_not c) eqn:Hn; [|reflexivity]. cbn [andb].
    destruct (c_should c || c_only c) eqn:Hso; [|reflexivity]. discriminate Hg.
  - unfold required_present in Hr. rewrite !andb_true_iff, !negb_true_iff in Hr. destruct Hr as [[[Hv Hi] Hs] Ho].
    rewrite Hs, Ho, Hv. cbn [negb andb orb]. destruct (c_imp c); [|discriminate]. cbn [is_some andb].
    destruct (c_not c) eqn:Hn; [|reflexivity]. cbn [andb].
    destruct (c_should c || c_only c) eqn:Hso; [|reflexivity].
    rewrite (inconsistent_verbs c Hn Hso) in Hc. discriminate.
Qed.

Theorem layer_history_verdict_complete g calls :
  is_lverdict (run_layer_rule ceqb rmatch g calls) = true ->
  exists st r a, lr_run lrinit calls = Ok st /\ lr_rule st = Some r /\ lr_arch st = Some a /\
                 subj_one_layer a r /\ complete (absv r) = true.
Proof.
  unfold run_layer_rule. destruct (lr_run lrinit calls) as [st|e] eqn:E; [|discriminate].
  destruct (lr_rule st) as [r|] eqn:Er; [|discriminate]. intros H.
  destruct (layer_rule_one_subject calls st r E Er) as [a [Ha Hs]].
  exists st, r, a. repeat split; auto. eapply layer_verdict_complete; eauto.
Qed.

End LayerVerdict.
