(* C08 — exclusions remove exactly the matching files/directories.
   Part (a): the glob-style pattern language.  Only statements, each closed by
   [exact]; the proofs are in Proofs/GlobProofs.v. *)
From Coq Require Import List NArith Bool.
From PTA Require Import Sx Glob GlobProofs.
Import ListNotations.
Open Scope N_scope.

(* the converter's output always lies in the modelled regex fragment and parses
   back to the triple leading-star, literal text, trailing-star: every character of the text,
   regex metacharacters included, is matched literally *)
Theorem C08_escape : forall p, parse_regex (glob_to_regex p) = Some (ast_of p).
Proof. exact parse_convert. Qed.
Print Assumptions C08_escape.

(* convert + re.match = the documented four-case meaning, for every pattern and
   every newline-free path string (paths: see DESIGN, newline in a file name is
   outside the claim; the matcher itself models it and is compared with re) *)
Theorem C08_glob : forall p s, no_newline s -> (glob_match p s = true <-> glob_spec p s).
Proof. exact glob_match_spec. Qed.
Print Assumptions C08_glob.

Theorem C08_glob_exact : forall p s, no_newline s -> starts_star p = false -> ends_star p = false ->
  (glob_match p s = true <-> s = p).
Proof. exact glob_exact. Qed.
Print Assumptions C08_glob_exact.

Theorem C08_glob_leading_star : forall t s, no_newline s -> ends_star (STAR :: t) = false ->
  (glob_match (STAR :: t) s = true <-> exists pre, s = pre ++ t).
Proof. exact glob_suffix. Qed.
Print Assumptions C08_glob_leading_star.

Theorem C08_glob_trailing_star : forall t s, no_newline s -> starts_star (t ++ [STAR]) = false ->
  (glob_match (t ++ [STAR]) s = true <-> exists post, s = t ++ post).
Proof. exact glob_prefix. Qed.
Print Assumptions C08_glob_trailing_star.

Theorem C08_glob_both_stars : forall t s, no_newline s ->
  (glob_match (STAR :: t ++ [STAR]) s = true <-> exists pre post, s = pre ++ t ++ post).
Proof. exact glob_infix. Qed.
Print Assumptions C08_glob_both_stars.

(* non-vacuity: "*a.b+" against "/x/a.b+" and against "/x/aXb+" (the dot is literal) *)
Example C08_glob_example :
  glob_match [42; 97; 46; 98; 43] [47; 120; 47; 97; 46; 98; 43] = true /\
  glob_match [42; 97; 46; 98; 43] [47; 120; 47; 97; 88; 98; 43] = false /\
  no_newline [47; 120; 47; 97; 46; 98; 43].
Proof. split; [reflexivity|]. split; [reflexivity|]. unfold no_newline, NL. simpl. intuition discriminate. Qed.
