(* C08 — exclusions remove exactly the matching files/directories.
   Part (a): the glob-style pattern language.  Only statements, each closed by
   [exact]; the proofs are in Proofs/GlobProofs.v. *)
From Coq Require Import List NArith Bool.
From PTA Require Import Sx Glob GlobProofs Names Graph Search Scan NamesProofs SearchProofs GraphProofs ScanProofs SubscanProofs ExclProofs.
Import ListNotations.
Open Scope N_scope.

(* the converter's output always lies in the modelled regex fragment and parses
   back to the triple leading-star, literal text, trailing-star: every character of the text,
   regex metacharacters included, is matched literally *)
Theorem C08_escape : forall p, parse_regex (glob_to_regex p) = Some (ast_of p).
Proof. exact parse_convert. Qed.
Print Assumptions C08_escape.

(* convert + re.match = the documented four-case meaning, for every pattern and
   every newline-free path string (paths: see DESIGN, newline in a file name is
   outside the claim; the matcher itself models it and is compared with re) *)
Theorem C08_glob : forall p s, no_newline s -> (glob_match p s = true <-> glob_spec p s).
Proof. exact glob_match_spec. Qed.
Print Assumptions C08_glob.

Theorem C08_glob_exact : forall p s, no_newline s -> starts_star p = false -> ends_star p = false ->
  (glob_match p s = true <-> s = p).
Proof. exact glob_exact. Qed.
Print Assumptions C08_glob_exact.

Theorem C08_glob_leading_star : forall t s, no_newline s -> ends_star (STAR :: t) = false ->
  (glob_match (STAR :: t) s = true <-> exists pre, s = pre ++ t).
Proof. exact glob_suffix. Qed.
Print Assumptions C08_glob_leading_star.

Theorem C08_glob_trailing_star : forall t s, no_newline s -> starts_star (t ++ [STAR]) = false ->
  (glob_match (t ++ [STAR]) s = true <-> exists post, s = t ++ post).
Proof. exact glob_prefix. Qed.
Print Assumptions C08_glob_trailing_star.

Theorem C08_glob_both_stars : forall t s, no_newline s ->
  (glob_match (STAR :: t ++ [STAR]) s = true <-> exists pre post, s = pre ++ t ++ post).
Proof. exact glob_infix. Qed.
Print Assumptions C08_glob_both_stars.

(* Part (b): the tree.  With the exclusion predicate abstract, the modules of a scan are exactly the .py files
   and directories none of whose ancestors-or-self (down from the starting directory) is excluded: an excluded
   file or directory, and everything below an excluded directory, contributes no module; every other one does. *)
Theorem C08_scan_modules : forall (comp : Type) excl (root : comp) (n : @fsnode comp) path m,
  In m (fst (walk excl root path n)) <->
  exists p, In (p, true) (node_paths n) /\ m = root :: path ++ p /\ not_excluded_below excl path p.
Proof. exact @walk_modules. Qed.
Print Assumptions C08_scan_modules.

(* ... and only files that are such modules are parsed, so nothing below an excluded path contributes an import *)
Theorem C08_scan_files : forall (comp : Type) excl (root : comp) (n : @fsnode comp) path u body,
  In (u, body) (snd (walk excl root path n)) -> In u (fst (walk excl root path n)).
Proof. exact @walk_files. Qed.
Print Assumptions C08_scan_files.

(* "... every import between two remaining modules is exactly as in the scan without that pattern":
   [unfiltered c] is the same request without file/directory exclusions.  An import (a, b) of the filtered scan whose
   importee b is a remaining module is an import of the unfiltered scan between two remaining modules, and conversely.
   Hypotheses: externals excluded (default), module_path exists and is not excluded, and for every import statement s in a
   remaining file u:
     [k2free]  s does not import, through a 'from P import n' form, a sub module P.n that is excluded while P remains
               (otherwise: known finding K2, refuted just below), and
     [unambR]  absolute names in s are fully qualified only (void when module_path = root_path). *)
Theorem C08_scan_imports :
  forall (comp : Type) (ceqb : comp -> comp -> bool), (forall x y, reflect (x = y) (ceqb x y)) ->
  forall (c : @scan_cfg comp), sc_exclude_external c = true ->
  forall cs, subdir ceqb (sc_tree c) (sc_mp c) = Some cs -> sc_excl c (sc_mp c) = false ->
  forall r1 r0, scan ceqb c = Some r1 -> scan ceqb (unfiltered c) = Some r0 ->
  (forall u body s, In (u, body) (F (sc_excl c) (sc_root c) cs (sc_mp c)) -> In s (collect body) ->
     k2free ceqb (filter (is_internal ceqb c) (mods0 c cs)) (keepm ceqb c cs) u s /\
     unambR ceqb (filter (is_internal ceqb c) (mods0 c cs)) (abs_prefix c) s) ->
  forall a b, (In (a, b) (sr_imports r1) /\ In b (sr_modules r1)) <->
              (In (a, b) (sr_imports r0) /\ In a (sr_modules r1) /\ In b (sr_modules r1)).
Proof. exact @excluded_scan_imports. Qed.
Print Assumptions C08_scan_imports.

(* the remaining parsed files are exactly the unfiltered ones whose module remains *)
Theorem C08_scan_files_exact : forall (comp : Type) (excl : list comp -> bool) (root : comp) (cs : list (@fsnode comp)) pre u body,
  In (u, body) (F excl root cs pre) <-> In (u, body) (F (@none comp) root cs pre) /\ In u (W excl root cs pre).
Proof.
  intros comp excl root cs pre u body. split.
  - intros H. split; [apply (F_mono excl); exact H|]. apply F_char in H. destruct H as [p [Hp [-> Hn]]]. apply W_char.
    exists p. split; [|auto]. apply in_flat_map in Hp. destruct Hp as [n [Hn0 Hp]]. apply in_flat_map. exists n.
    split; [exact Hn0|apply (file_paths_modules n p body Hp)].
  - intros [H1 H2]. apply F_back; assumption.
Qed.
Print Assumptions C08_scan_files_exact.

(* K2 (known finding): "every import between two remaining modules is exactly as in the scan without that pattern"
   fails for 'from P import n' when P/n is excluded: proj/m.py contains 'from proj.pkg import n'; excluding
   proj/pkg/n.py turns the import m -> proj.pkg.n into m -> proj.pkg, an import between two remaining modules
   that the unfiltered scan does not have.  (C02 demands P.n when scanned and P otherwise.) *)
Theorem C08_from_import_refuted :
  exists (tree : list (@fsnode N)) ex,
    let cfg := fun e => {| sc_root := 1%N; sc_tree := tree; sc_mp := []; sc_excl := e; sc_exclude_external := true;
                           sc_ext_excl := fun _ => false; sc_has_ext_excl := false; sc_limit := None |} in
    option_map (fun r => imps (sr_graph r)) (scan N.eqb (cfg (fun _ => false))) = Some [([1;2], [1;3;4])]%N /\
    option_map (fun r => imps (sr_graph r)) (scan N.eqb (cfg ex)) = Some [([1;2], [1;3])]%N.
Proof.
  exists [FFile 2 true [SFrom 0 (Some [1;3]) [4]]; FDir 3 [FFile 4 true []]]%N,
         (fun p => match p with [3;4]%N => true | _ => false end).
  split; vm_compute; reflexivity.
Qed.
Print Assumptions C08_from_import_refuted.

(* non-vacuity: "*a.b+" against "/x/a.b+" and against "/x/aXb+" (the dot is literal) *)
Example C08_glob_example :
  glob_match [42; 97; 46; 98; 43] [47; 120; 47; 97; 46; 98; 43] = true /\
  glob_match [42; 97; 46; 98; 43] [47; 120; 47; 97; 88; 98; 43] = false /\
  no_newline [47; 120; 47; 97; 46; 98; 43].
Proof. split; [reflexivity|]. split; [reflexivity|]. unfold no_newline, NL. simpl. intuition discriminate. Qed.

(* non-vacuity of C08_scan_imports: proj/{m.py: "import proj.pkg.k; from proj.pkg import k; import proj.x", pkg/{k.py}, x.py},
   excluding proj/x.py: the imports m -> pkg.k remain exactly as in the unfiltered scan, the import of proj.x loses its target *)
Example C08_scan_imports_example :
  let tree := [FFile 2 true [SImport [[1;3;4]]; SFrom 0 (Some [1;3]) [4]; SImport [[1;5]]]; FDir 3 [FFile 4 true []]; FFile 5 true []]%N in
  let cfg := fun e => {| sc_root := 1%N; sc_tree := tree; sc_mp := []; sc_excl := e; sc_exclude_external := true;
                         sc_ext_excl := fun _ => false; sc_has_ext_excl := false; sc_limit := None |} in
  let ex := fun p => match p with [5]%N => true | _ => false end in
  option_map (fun r => imps (sr_graph r)) (scan N.eqb (cfg ex)) = Some [([1;2], [1;3;4])]%N /\
  option_map (fun r => imps (sr_graph r)) (scan N.eqb (unfiltered (cfg ex))) = Some [([1;2], [1;3;4]); ([1;2], [1;5])]%N.
Proof. split; vm_compute; reflexivity. Qed.
