(* C14 — module identity follows dotted-name boundaries, never raw string prefixes.
   The core model (Names/Graph/Search/Rule/Layer) is written against an abstract
   component type and uses no operation on components other than [ceqb].
   Paramcoq's parametricity translation of the model functions therefore yields,
   for ANY relation on components respected by [ceqb], related outputs from
   related inputs; instantiating the relation with the graph of an injective
   renaming f gives invariance of every verdict, violation message and layer
   attribution under f - including renamings that make one sibling's name a
   string prefix or substring of another's, because strings never enter.
   (Regex specifications are outside the claim: hypothesis [rm_agree] says the
   regex oracle gives the same answers before and after renaming.)
   The string-level half - dotted rendering turns the component prefix order
   into "equal or starts with name + '.'" - is C14_render_prefix. *)
From Coq Require Import List Bool NArith.
From PTA Require Import Sx Names Graph Search Rule SpecRule Builder Layer Diagram Label NamesProofs SearchProofs RuleProofs RenameProofs LabelProofs LabelRenameProofs.
Import ListNotations.

Theorem C14_rule_rename_invariant :
  forall (A B : Type) (f : A -> B) (ea : A -> A -> bool) (eb : B -> B -> bool),
  (forall x y, reflect (x = y) (ea x y)) -> (forall x y, reflect (x = y) (eb x y)) ->
  (forall x y, f x = f y -> x = y) ->
  forall (rm1 : N -> list A -> bool) (rm2 : N -> list B -> bool),
  (forall p n, rm2 p (rn_name A B f n) = rm1 p n) ->
  forall g c,
  verdict eb rm2 (rn_graph A B f g) (rn_cfg A B f c) = rn_outcome A B f (verdict ea rm1 g c).
Proof. exact verdict_rename. Qed.
Print Assumptions C14_rule_rename_invariant.

Theorem C14_layer_rename_invariant :
  forall (A B : Type) (f : A -> B) (ea : A -> A -> bool) (eb : B -> B -> bool),
  (forall x y, reflect (x = y) (ea x y)) -> (forall x y, reflect (x = y) (eb x y)) ->
  (forall x y, f x = f y -> x = y) ->
  forall (rm1 : N -> list A -> bool) (rm2 : N -> list B -> bool),
  (forall p n, rm2 p (rn_name A B f n) = rm1 p n) ->
  forall g a c,
  layer_assert_applies eb rm2 (rn_graph A B f g) (rn_larch A B f a) (rn_cfg A B f c)
  = rn_loutcome A B f (layer_assert_applies ea rm1 g a c).
Proof. exact layer_rename. Qed.
Print Assumptions C14_layer_rename_invariant.

(* diagram rules (both modes, with or without a base module): verdict and report invariant as well *)
Theorem C14_diagram_rename_invariant :
  forall (A B : Type) (f : A -> B) (ea : A -> A -> bool) (eb : B -> B -> bool),
  (forall x y, reflect (x = y) (ea x y)) -> (forall x y, reflect (x = y) (eb x y)) ->
  (forall x y, f x = f y -> x = y) ->
  forall (rm1 : N -> list A -> bool) (rm2 : N -> list B -> bool),
  (forall p n, rm2 p (rn_name A B f n) = rm1 p n) ->
  forall g only base d,
  diagram_apply eb rm2 (rn_graph A B f g) only (option_map (rn_name A B f) base) (rn_pdeps A B f d)
  = rn_outcome A B f (diagram_apply ea rm1 g only base d).
Proof. exact diagram_rename. Qed.
Print Assumptions C14_diagram_rename_invariant.

(* the string half: on dotted names, "m is k or extends k by whole components" is exactly
   "m = k or m starts with k + '.'" - which is what every name test in the code must use *)
Theorem C14_render_prefix : forall a b : list str,
  wf_comps a -> wf_comps b -> key_matches (render a) (render b) = prefixb str_eqb a b.
Proof. exact render_prefix. Qed.
Print Assumptions C14_render_prefix.

(* plot labels: the label is "alias of the most specific aliased module + remaining components" - components only -
   so under an injective renaming f of components (dot-free components stay dot-free) a module keeps the same alias
   and its remaining components are renamed; a module below no aliased module keeps its (renamed) full name.
   [rest_of r] is "" for the aliased module itself and "." + dotted r below it. *)
Theorem C14_label_rename_invariant :
  forall (f : str -> str), (forall x y, f x = f y -> x = y) -> (forall c, no_dot c -> no_dot (f c)) ->
  forall (al : list (list str * str)) (m : list str) k a,
  (forall ka, In ka al -> wf_comps (fst ka)) -> wf_comps m -> NoDup (map fst al) ->
  In (k, a) al -> prefixb str_eqb k m = true ->
  (forall k' a', In (k', a') al -> prefixb str_eqb k' m = true -> (length k' <= length k)%nat) ->
  label (ralias al) (render m) = a ++ rest_of (skipn (length k) m) /\
  label (ralias (rn_aliases f al)) (render (map f m)) = a ++ rest_of (map f (skipn (length k) m)).
Proof. exact label_rename_aliased. Qed.
Print Assumptions C14_label_rename_invariant.

Theorem C14_label_rename_unaliased :
  forall (f : str -> str), (forall x y, f x = f y -> x = y) -> (forall c, no_dot c -> no_dot (f c)) ->
  forall (al : list (list str * str)) (m : list str),
  (forall ka, In ka al -> wf_comps (fst ka)) -> wf_comps m ->
  (forall ka, In ka al -> prefixb str_eqb (fst ka) m = false) ->
  label (ralias al) (render m) = render m /\
  label (ralias (rn_aliases f al)) (render (map f m)) = render (map f m).
Proof. exact label_rename_unaliased. Qed.
Print Assumptions C14_label_rename_unaliased.

(* non-vacuity: components renamed 2 -> 20, 3 -> 203 ("a" -> "ab"-like collisions live only in strings) *)
Open Scope N_scope.
Example C14_example :
  let f := fun c : N => match c with 2 => 20 | 3 => 203 | c => c end in
  let g := {| nodes := [[1]; [1;2]; [1;3]]; imps := [([1;3], [1;2])] |} in
  let c := mk_cfg ShouldNot true false [Named [1;2]] [Named [1;3]] in
  verdict N.eqb (fun _ _ => false) (rn_graph N N f g) (rn_cfg N N f c) = Pass /\
  verdict N.eqb (fun _ _ => false) g c = Pass.
Proof. split; vm_compute; reflexivity. Qed.

(* labels: "a" -> "ab" makes pkg.a a string prefix of its sibling pkg.ab2... the alias still follows components *)
Example C14_label_example :
  let f := fun c : str => match c with [97] => [97; 98] | c => c end in     (* a -> ab *)
  let al := [([[112]; [97]], [65])] in                                       (* alias p.a -> "A" *)
  label (ralias al) (render [[112]; [97]; [120]]) = [65; 46; 120] /\
  label (ralias (rn_aliases f al)) (render (map f [[112]; [97]; [120]])) = [65; 46; 120] /\
  label (ralias (rn_aliases f al)) (render [[112]; [97; 98; 50]]) = render [[112]; [97; 98; 50]].
Proof. repeat split; vm_compute; reflexivity. Qed.
