(* C12 — rule algebra: duality, negation, decomposition, alias, monotonicity.
   All laws hold on the model for EVERY graph and EVERY rule: subjects and
   objects may be ancestors or descendants of one another, regexes and batches
   are allowed wherever the statement does not fix a single module.
   [V g c] is the verdict of Rule.assert_applies, [mk_ucfg v imp exc Ss Os] the
   configuration of   Ss <v> import / be-imported-by [except] Os,
   [vclass] maps a verdict to pass / fail / error. *)
From Coq Require Import List Bool NArith.
From PTA Require Import Names Graph Search Rule SpecRule NamesProofs SearchProofs RuleProofs AlgebraProofs.
Import ListNotations.

Section C12.
Context (comp : Type) (ceqb : comp -> comp -> bool) (ceqb_spec : forall x y, reflect (x = y) (ceqb x y)).
Context (rmatch : N -> list comp -> bool).
Notation V := (V ceqb rmatch).
Notation mk := (@mk_ucfg comp).

(* 'A should (not) import B' and 'B should (not) be imported by A' have the same verdict *)
Theorem C12_duality : forall g v A B, v <> ShouldOnly ->
  vclass (V g (mk v true false A B)) = vclass (V g (mk v false false B A)).
Proof. exact (duality ceqb ceqb_spec rmatch). Qed.

(* one subject, one object: 'should' passes exactly when 'should not' fails *)
Theorem C12_negation : forall g imp s o,
  passes (V g (mk Should imp false [to_u s] [to_u o])) <-> fails (V g (mk ShouldNot imp false [to_u s] [to_u o])).
Proof. exact (negation ceqb ceqb_spec rmatch). Qed.

Theorem C12_negation_except : forall g imp s o,
  passes (V g (mk Should imp true [to_u s] [to_u o])) <-> fails (V g (mk ShouldNot imp true [to_u s] [to_u o])).
Proof. exact (negation_except ceqb rmatch). Qed.

(* 'should only' = 'should' and 'should not ... except' *)
Theorem C12_should_only_decomposition : forall g imp Ss Os,
  passes (V g (mk ShouldOnly imp false Ss Os)) <->
  passes (V g (mk Should imp false Ss Os)) /\ passes (V g (mk ShouldNot imp true Ss Os)).
Proof. exact (should_only_decomposition ceqb rmatch). Qed.

(* 'should only ... except' = 'should ... except' and 'should not' *)
Theorem C12_should_only_except_decomposition : forall g imp Ss Os,
  passes (V g (mk ShouldOnly imp true Ss Os)) <->
  passes (V g (mk Should imp true Ss Os)) /\ passes (V g (mk ShouldNot imp false Ss Os)).
Proof. exact (should_only_except_decomposition ceqb rmatch). Qed.

(* 'should not import anything' = 'should not import modules except' the subject itself
   (verdict and report), and in general except the subjects without listed ancestors *)
Theorem C12_alias_anything_single : forall g imp f,
  V g (any_cfg imp [f]) = V g (mk ShouldNot imp true [f] [f]).
Proof. exact (alias_anything_single ceqb ceqb_spec rmatch). Qed.

Theorem C12_alias_anything : forall g imp Ss,
  removed_unknown ceqb g Ss = false ->      (* every subject the rewrite removes is a module; otherwise C13_alias_unknown_name *)
  verdict ceqb rmatch g (any_cfg imp Ss) =
  verdict ceqb rmatch g (mk ShouldNot imp true (drop_children ceqb Ss) (drop_children ceqb Ss)).
Proof. exact (alias_anything ceqb rmatch). Qed.

(* adding an import never breaks a passing 'should' rule (with or without 'except') ... *)
Theorem C12_monotone_should : forall g e imp Ss Os,
  passes (V g (mk Should imp false Ss Os)) -> passes (V (add_import g e) (mk Should imp false Ss Os)).
Proof. exact (monotone_should ceqb ceqb_spec rmatch). Qed.

Theorem C12_monotone_should_except : forall g e imp Ss Os,
  passes (V g (mk Should imp true Ss Os)) -> passes (V (add_import g e) (mk Should imp true Ss Os)).
Proof. exact (monotone_should_except ceqb rmatch). Qed.

(* ... nor repairs a failing 'should not' rule *)
Theorem C12_monotone_should_not : forall g e imp Ss Os,
  fails (V g (mk ShouldNot imp false Ss Os)) -> fails (V (add_import g e) (mk ShouldNot imp false Ss Os)).
Proof. exact (monotone_should_not ceqb rmatch). Qed.

Theorem C12_monotone_should_not_except : forall g e imp Ss Os,
  fails (V g (mk ShouldNot imp true Ss Os)) -> fails (V (add_import g e) (mk ShouldNot imp true Ss Os)).
Proof. exact (monotone_should_not_except ceqb rmatch). Qed.
End C12.

Print Assumptions C12_duality.
Print Assumptions C12_negation.
Print Assumptions C12_negation_except.
Print Assumptions C12_should_only_decomposition.
Print Assumptions C12_should_only_except_decomposition.
Print Assumptions C12_alias_anything_single.
Print Assumptions C12_alias_anything.
Print Assumptions C12_monotone_should.
Print Assumptions C12_monotone_should_except.
Print Assumptions C12_monotone_should_not.
Print Assumptions C12_monotone_should_not_except.

(* non-vacuity: a related pair (object is a descendant of the subject), both sides of the
   negation law are inhabited on a concrete graph *)
Open Scope N_scope.
Example C12_example :
  let g := {| nodes := [[1]; [1;2]; [1;2;3]; [1;4]]; imps := [([1;4], [1;2;3]); ([1;2;3], [1;4])] |} in
  passes (AlgebraProofs.V N.eqb (fun _ _ => false) g (mk_ucfg Should false false [UNamed [1;2]] [UNamed [1;4]])) /\
  fails (AlgebraProofs.V N.eqb (fun _ _ => false) g (mk_ucfg ShouldNot false false [UNamed [1;2]] [UNamed [1;4]])).
Proof. split; [vm_compute; reflexivity | vm_compute; eexists; reflexivity]. Qed.
