(* C07 — DiagramRule passes exactly when the imports conform to the diagram.
   [diagram_apply g only base d]: rules generated from the parsed dependencies d (one should(-only) rule
   per component with arrows, one should-not rule per component over all non-targets), evaluated all,
   failures aggregated.  [dwf]: components exist, pairwise unrelated, arrows join distinct components.
   Proof: every generated rule is a strict rule, so C01's theorem applies to each. *)
From Coq Require Import List Bool NArith.
From PTA Require Import Sx Names Graph Search Worklist Rule WRule SpecRule Diagram WDiagram NamesProofs SearchProofs RuleProofs DiagramProofs GraphProofs WorklistProofs WRuleProofs WDiagramProofs.
Import ListNotations.

Section C07.
Context (comp : Type) (ceqb : comp -> comp -> bool) (ceqb_spec : forall x y, reflect (x = y) (ceqb x y)).
Context (rmatch : N -> list comp -> bool).

(* passes exactly when, for every ordered pair of distinct components (a, b), a imports b iff the diagram draws a->b,
   and (should-only mode) no component with outgoing arrows imports anything outside its drawn targets and itself *)
Theorem C07_conformance : forall g (only : bool) (d : @pdeps comp),
  dwf ceqb g d ->
  (diagram_apply ceqb rmatch g only None d = Pass <->
   (forall a b, In a (pd_mods d) -> In b (pd_mods d) -> a <> b ->
      (sp_edge ceqb g true (Named a) (Named b) = true <-> In (a, b) (pd_rel d))) /\
   (only = true -> forall a, In a (dependors ceqb d) ->
      sp_other ceqb g true (Named a) (map Named (targets ceqb d a)) = false)).
Proof. exact (diagram_conformance ceqb ceqb_spec rmatch). Qed.

(* with_base_module(p) behaves exactly like writing every component as p.name *)
Theorem C07_base_module : forall g only p (d : @pdeps comp),
  diagram_apply ceqb rmatch g only (Some p) d =
  diagram_apply ceqb rmatch g only None
    {| pd_mods := map (app p) (pd_mods d); pd_rel := map (fun e => (p ++ fst e, p ++ snd e)) (pd_rel d) |}.
Proof. exact (base_module_is_prefixing ceqb rmatch). Qed.

(* the error aggregates the messages of ALL violated pairwise rules: when no rule errs, a line is in the aggregated
   failure exactly when it is in the failure of some rule *)
Theorem C07_aggregates : forall (os : list (@outcome comp)) l,
  (forall o, In o os -> forall e, o <> Err e) ->
  ((exists ls, aggregate os false [] = Fail ls /\ In l ls) <-> (exists ls0, In (Fail ls0) os /\ In l ls0)).
Proof.
  intros os l Hne. rewrite (aggregate_lines os false [] l Hne). split.
  - intros [_ [[]|H]]. exact H.
  - intros [ls0 [H1 H2]]. split; [right; eauto|right; eauto].
Qed.

(* the diagram rule with every generated module rule evaluated over the transcribed worklist loops (Model/WDiagram.v)
   terminates and has the outcome of [diagram_apply]: same class, same error, same set of report lines *)
Theorem C07_loops_verdict : forall g, wf_graph g ->
  (forall n p, In n (nodes g) -> In p (proper_prefixes n) -> In p (nodes g)) ->
  (forall a b, In (a, b) (imps g) -> childb ceqb a b = false) ->
  forall only base (d : @pdeps comp),
  exists o, w_diagram_apply ceqb rmatch g only base d = Some o /\ outcome_equiv o (diagram_apply ceqb rmatch g only base d).
Proof. intros g Hwf Hanc Hnh only base d. exact (w_diagram_apply_refines ceqb ceqb_spec rmatch g Hwf Hanc Hnh only base d). Qed.
End C07.

Print Assumptions C07_loops_verdict.
Print Assumptions C07_conformance.
Print Assumptions C07_base_module.
Print Assumptions C07_aggregates.

(* non-vacuity: components r.a, r.b, r.c; diagram a -> b; imports a.x -> b conform; adding c -> a breaks it *)
Open Scope N_scope.
Example C07_example :
  let d := {| pd_mods := [[1;2]; [1;3]; [1;4]]; pd_rel := [([1;2], [1;3])] |} in
  let g1 := {| nodes := [[1]; [1;2]; [1;2;9]; [1;3]; [1;4]]; imps := [([1;2;9], [1;3])] |} in
  let g2 := {| nodes := [[1]; [1;2]; [1;2;9]; [1;3]; [1;4]]; imps := [([1;2;9], [1;3]); ([1;4], [1;2])] |} in
  diagram_apply N.eqb (fun _ _ => false) g1 true None d = Pass /\
  diagram_apply N.eqb (fun _ _ => false) g2 true None d = Fail [LConc [1;4] [1;2]].
Proof. split; vm_compute; reflexivity. Qed.
