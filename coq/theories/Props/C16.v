(* C16 — layer definitions are well-formed: one layer per module, unique names.
   [la_step] / [la_run] model LayeredArchitecture's builder calls
   {layer(n), containing_modules(str | list), have_modules_with_names_matching(r), with_layer()},
   [lr_step] / [lr_run] model LayerRule's.  All statements are over ARBITRARY call histories. *)
From Coq Require Import List Bool NArith.
From PTA Require Import Names Graph Search Rule Builder Layer NamesProofs BuilderProofs LayerBuilderProofs.
Import ListNotations.

Section C16.
Context (comp : Type) (ceqb : comp -> comp -> bool) (ceqb_spec : forall x y, reflect (x = y) (ceqb x y)).

(* every accepted definition lists exactly the layers and modules that were supplied, in order;
   layer names are unique; no module name is in two layers; only the last layer can still be waiting for modules *)
Theorem C16_accepted_definition : forall (calls : list (@lacall comp)) a,
  la_run ceqb [] calls = Ok a ->
  a = spec_listing calls /\ NoDup (map fst a) /\ one_layer_per_module a /\
  (forall l fs, In (l, fs) a -> fs = [] -> exists a0, a = a0 ++ [(l, fs)]).
Proof. exact (la_accepted_definition ceqb ceqb_spec). Qed.

(* after any accepted prefix, a call is rejected exactly when it violates one of the documented
   conditions (pending layer, duplicate layer name, module already assigned - as string or in a list -,
   modules without an open layer): rejected at the offending call ... *)
Theorem C16_reject_at_call : forall (pre : list (@lacall comp)) a c,
  la_run ceqb [] pre = Ok a ->
  ((exists e, la_step ceqb a c = Er e) <-> violates a c).
Proof. exact (la_reject_at_call ceqb ceqb_spec). Qed.

(* a caller that catches the rejections and goes on with the same object: the rejected calls leave no trace - the
   definition is the one the accepted calls alone build (so C16_accepted_definition applies to it) *)
Theorem C16_rejected_calls_leave_no_trace : forall (calls : list (@lacall comp)),
  la_run ceqb [] (accepted_calls ceqb [] calls) = Ok (fst (la_run_lenient ceqb [] calls)).
Proof. intros calls. exact (la_run_lenient_accepted ceqb calls []). Qed.

(* ... with a configuration error *)
Theorem C16_rejection_is_config_error : forall (a : @larch comp) c e, la_step ceqb a c = Er e -> e = EConfig.
Proof. exact (la_rejection_is_config_error ceqb). Qed.

(* string and one-element list are the same call *)
Theorem C16_str_is_list : forall (a : @larch comp) m,
  la_step ceqb a (LAContainingStr m) = la_step ceqb a (LAContainingList [m]).
Proof. exact (la_str_is_list ceqb). Qed.

(* LayerRule: whatever the history, a rule under construction has its architecture and the
   modules of at most one subject layer *)
Theorem C16_rule_one_subject : forall (calls : list (@lrcall comp)) st r,
  lr_run lrinit calls = Ok st -> lr_rule st = Some r ->
  exists a, lr_arch st = Some a /\ subj_one_layer a r.
Proof. exact (@layer_rule_one_subject comp). Qed.

Theorem C16_rule_needs_architecture : forall (st : @lrstate comp),
  lr_arch st = None -> lr_step st LRLayersThat = Er EConfig.
Proof. exact (@layer_rule_needs_architecture comp). Qed.

Theorem C16_rule_architecture_once : forall (st : @lrstate comp) a0 a1,
  lr_arch st = Some a0 -> lr_step st (LRBasedOn a1) = Er EConfig.
Proof. exact (@layer_rule_architecture_once comp). Qed.

Theorem C16_rule_second_subject_rejected : forall (st : @lrstate comp) r a l,
  lr_rule st = Some r -> lr_arch st = Some a ->
  is_empty_opt (c_subj (st_cfg r)) = false -> st_next r = Some true ->
  lr_step st (LRAreNamedStr l) = Er EConfig.
Proof. exact (@layer_rule_second_subject comp). Qed.

Theorem C16_rule_subject_batch_rejected : forall (st : @lrstate comp) r a ls,
  lr_rule st = Some r -> lr_arch st = Some a -> is_empty_opt (c_subj (st_cfg r)) = true ->
  lr_step st (LRAreNamedList ls) = Er EConfig.
Proof. exact (@layer_rule_subject_batch comp). Qed.
End C16.

Print Assumptions C16_accepted_definition.
Print Assumptions C16_reject_at_call.
Print Assumptions C16_rejection_is_config_error.
Print Assumptions C16_rejected_calls_leave_no_trace.
Print Assumptions C16_str_is_list.
Print Assumptions C16_rule_one_subject.
Print Assumptions C16_rule_needs_architecture.
Print Assumptions C16_rule_architecture_once.
Print Assumptions C16_rule_second_subject_rejected.
Print Assumptions C16_rule_subject_batch_rejected.

(* non-vacuity: a 6-call history that is accepted, and the D4 shape that is rejected at call 4 *)
Open Scope N_scope.
Example C16_example :
  la_run N.eqb [] [LALayer 1; LAContainingList [[1;2]; [1;3]]; LAWithLayer; LALayer 2; LAContainingStr [1;4]; LALayer 3]
    = Ok [(1, [LName [1;2]; LName [1;3]]); (2, [LName [1;4]]); (3, [])] /\
  la_run N.eqb [] [LALayer 1; LAContainingStr [1;2]; LALayer 2; LAContainingStr [1;2]] = Er EConfig.
Proof. split; vm_compute; reflexivity. Qed.
