(* C05 — layer-rule verdicts follow the documented semantics, one unit per layer.
   [layer_assert_applies g a c] models LayerRule.assert_applies (lowering to a
   module rule, regex replacement in the mapping, layer lookup by whole dotted
   components, lenient buckets, same-layer imports dropped from every bucket);
   [lspec_holds] is the documented semantics (Model/SpecLayer.v).
   [lwf g um L XL Ms ss os]: um = the layer mapping after regex resolution
   (unmentioned regex layers contribute nothing), listed modules pairwise
   unrelated, layer names distinct, L the subject layer with modules XL, Ms the
   object layers (none of them L, none empty), ss/os the lowered filters. *)
From Coq Require Import List Bool NArith.
From PTA Require Import Names Graph Search Rule SpecRule Builder Layer SpecLayer.
From PTA Require Import Worklist WRule WLayer NamesProofs SearchProofs RuleProofs AlgebraProofs LayerProofs GraphProofs WorklistProofs WRuleProofs WLayerProofs.
Import ListNotations.

(* all 12 shapes, any number of object layers, named and regex layers, unmentioned layers *)
Theorem C05_verdict :
  forall (comp : Type) (ceqb : comp -> comp -> bool), (forall x y, reflect (x = y) (ceqb x y)) ->
  forall (rmatch : N -> list comp -> bool) g (a : @larch comp) v imp exc Su Ob ss os L XL Ms,
  Su <> [] -> Ob <> [] ->
  convert rmatch g Su = Ok ss -> convert rmatch g Ob = Ok os ->
  lwf ceqb g (updated_mapping rmatch g (mk_lcfg v imp exc Su Ob) a) L XL Ms ss os ->
  lis_err (layer_assert_applies ceqb rmatch g a (mk_lcfg v imp exc Su Ob)) = false /\
  lis_pass (layer_assert_applies ceqb rmatch g a (mk_lcfg v imp exc Su Ob))
    = lspec_holds ceqb g v imp exc XL (map snd Ms).
Proof. exact @layer_assert_spec. Qed.
Print Assumptions C05_verdict.

(* the buckets themselves: empty exactly when the documented semantics hold *)
Theorem C05_buckets :
  forall (comp : Type) (ceqb : comp -> comp -> bool), (forall x y, reflect (x = y) (ceqb x y)) ->
  forall g um L XL Ms ss os, lwf ceqb g um L XL Ms ss os ->
  forall v imp exc,
  exists ls, lviolations ceqb g (mk_cfg v imp exc ss os) um imp ss os = Ok ls /\
             (ls = [] <-> lspec_holds ceqb g v imp exc XL (map snd Ms) = true).
Proof. exact @layer_violations_spec. Qed.
Print Assumptions C05_buckets.

(* a module belongs to the layer of the listed module at or above it, by whole dotted components *)
Theorem C05_layer_of_member :
  forall (comp : Type) (ceqb : comp -> comp -> bool), (forall x y, reflect (x = y) (ceqb x y)) ->
  forall (um : umap) X xs x m,
  pw_unrel ceqb (listed um) -> In (X, xs) um -> In x xs -> prefixb ceqb x m = true ->
  layer_of ceqb um m = Ok (Some X).
Proof. exact @layer_of_member. Qed.
Print Assumptions C05_layer_of_member.

Theorem C05_layer_of_nonmember :
  forall (comp : Type) (ceqb : comp -> comp -> bool), (forall x y, reflect (x = y) (ceqb x y)) ->
  forall (um : umap) m,
  (forall x, In x (listed um) -> prefixb ceqb x m = false) -> layer_of ceqb um m = Ok None.
Proof. exact @layer_of_nonmember. Qed.
Print Assumptions C05_layer_of_nonmember.

(* the layer rule evaluated over the transcribed worklist loops of breadth_first_searches.py (Model/WLayer.v) terminates and has
   the outcome of [layer_assert_applies] - same class, same error, same set of report lines - for every builder history,
   on every graph closed under ancestors whose imports are between nodes and never a hierarchy pair (every built graph,
   C01_built_graph_wellformed) *)
Theorem C05_loops_verdict :
  forall (comp : Type) (ceqb : comp -> comp -> bool), (forall x y, reflect (x = y) (ceqb x y)) ->
  forall (rmatch : N -> list comp -> bool) g, wf_graph g ->
  (forall n p, In n (nodes g) -> In p (proper_prefixes n) -> In p (nodes g)) ->
  (forall a b, In (a, b) (imps g) -> childb ceqb a b = false) ->
  forall calls,
  exists o, w_run_layer_rule ceqb rmatch g calls = Some o /\ loutcome_equiv o (run_layer_rule ceqb rmatch g calls).
Proof. intros comp ceqb Hs rmatch g Hwf Hanc Hnh calls. exact (w_run_layer_rule_refines ceqb Hs rmatch g Hwf Hanc Hnh calls). Qed.
Print Assumptions C05_loops_verdict.

(* non-vacuity: D7's shape.  A = {r.ba, r.aa}, B = {r.ab}, C given by a regex and not mentioned;
   the only import is inside A: 'A should access layers except B' fails, 'A should not access B' passes *)
Open Scope N_scope.
Example C05_example :
  let g := {| nodes := [[1]; [1;2]; [1;3]; [1;4]; [1;5]]; imps := [([1;2], [1;3])] |} in
  let a := [(1, [LName [1;2]; LName [1;3]]); (2, [LName [1;4]]); (3, [LRegex 9])] in
  let rm := fun (p : N) (n : list N) => match n with [1;5] => true | _ => false end in
  layer_assert_applies N.eqb rm g a (mk_lcfg Should true true [UNamed [1;2]; UNamed [1;3]] [UNamed [1;4]])
    = LFail [LLMissingAny 1 [2]; LLMissingAny 1 [2]] /\
  layer_assert_applies N.eqb rm g a (mk_lcfg ShouldNot true false [UNamed [1;2]; UNamed [1;3]] [UNamed [1;4]]) = LPass.
Proof. split; vm_compute; reflexivity. Qed.

(* K3b (known finding): the layer form of K3.  Layer 1 given by a regex that matches 1.2 and its sub module 1.2.3, layer 2 = {1.6};
   import 1.2.3 -> 1.4.5 (no layer).  'layer 1 should not access any layer' passes; with layer 1 given by naming 1.2 and 1.2.3 it
   fails, reporting that import.  (The layer rule is lowered to the module rule of C11_regex_anything_refuted.) *)
Theorem C05_regex_layer_alias_refuted :
  exists (g : @graph N) (rm : N -> list N -> bool),
    (forall n, rm 9%N n = Names.prefixb N.eqb [1;2]%N n) /\
    layer_assert_applies N.eqb rm g [(1, [LRegex 9]); (2, [LName [1;6]])]%N (any_cfg true [URegex 9%N]) = LPass /\
    layer_assert_applies N.eqb rm g [(1, [LName [1;2]; LName [1;2;3]]); (2, [LName [1;6]])]%N (any_cfg true [UNamed [1;2]%N; UNamed [1;2;3]%N])
      = LFail [LLConc [1;2;3]%N (Some 1%N) [1;4;5]%N None].
Proof.
  exists {| nodes := [[1]; [1;2]; [1;2;3]; [1;4]; [1;4;5]; [1;6]]%N; imps := [([1;2;3], [1;4;5])]%N |}, (fun _ n => Names.prefixb N.eqb [1;2]%N n).
  split; [reflexivity|]. split; vm_compute; reflexivity.
Qed.
Print Assumptions C05_regex_layer_alias_refuted.
