(* C15 — evaluation is pure and independent of order, history and hash seed.
   What a theorem can carry (this file): the model's evaluable architecture is an
   immutable value; a rule's verdict does not depend on the order or duplication in
   which subjects, objects, modules and imports are listed (lists as sets, which is
   how the code treats them through set()/dict); the configuration a rule object is
   left with after an evaluation behaves exactly like the original one, on every
   architecture.  What it cannot: that CPython sets/dicts, Path.iterdir and networkx
   behave like lists-up-to-order and that nothing mutates the frozen graph - that
   part is checked by execution (harness/props/c15.py) and labelled partial. *)
From Coq Require Import List Bool NArith.
From PTA Require Import Names Graph Search Rule SpecRule NamesProofs SearchProofs RuleProofs AlgebraProofs ExpansionProofs PermProofs ClassProofs.
Import ListNotations.

Section C15.
Context (comp : Type) (ceqb : comp -> comp -> bool) (ceqb_spec : forall x y, reflect (x = y) (ceqb x y)).
Context (rmatch : N -> list comp -> bool).

(* order / duplication of subjects, objects, modules, imports: same verdict, all 12 shapes, related modules included *)
Theorem C15_order_independent : forall g g' v imp exc (ss ss' os os' : list (@filt comp)),
  graph_equiv g g' -> leq ss ss' -> leq os os' -> ss <> [] -> os <> [] ->
  (passes (AlgebraProofs.V ceqb rmatch g (mk_ucfg v imp exc (map (@to_u comp) ss) (map (@to_u comp) os))) <->
   passes (AlgebraProofs.V ceqb rmatch g' (mk_ucfg v imp exc (map (@to_u comp) ss') (map (@to_u comp) os')))).
Proof. exact (passes_order_independent ceqb ceqb_spec rmatch). Qed.

(* the whole outcome class - pass (0), AssertionError (1), configuration / lookup error (2) - is independent of the order
   and duplication of subjects, objects, modules and imports *)
Theorem C15_class_order_independent : forall g g' v imp exc (ss ss' os os' : list (@filt comp)),
  graph_equiv g g' -> leq ss ss' -> leq os os' -> ss <> [] -> os <> [] ->
  vclass (AlgebraProofs.V ceqb rmatch g (mk_ucfg v imp exc (map (@to_u comp) ss) (map (@to_u comp) os))) =
  vclass (AlgebraProofs.V ceqb rmatch g' (mk_ucfg v imp exc (map (@to_u comp) ss') (map (@to_u comp) os'))).
Proof. exact (class_order_independent ceqb ceqb_spec rmatch). Qed.

(* the three graph queries: same Ok/error and the same set of reported imports *)
Theorem C15_query_order_independent : forall g g' d us us',
  graph_equiv g g' -> leq us us' -> res_equiv (q_other_out ceqb g d us) (q_other_out ceqb g' d us').
Proof. exact (q_other_out_equiv ceqb ceqb_spec). Qed.

(* re-applying the same rule object, also to another architecture *)
Theorem C15_reapply : forall g g' (c : @cfg comp),
  snd (assert_applies ceqb rmatch g' (fst (assert_applies ceqb rmatch g c))) = snd (assert_applies ceqb rmatch g' c).
Proof. exact (reapply_same ceqb rmatch). Qed.

(* an evaluation leaves the rule object exactly as it was: the 'anything' alias is rewritten for the evaluation only *)
Theorem C15_rule_object_unchanged : forall g (c : @cfg comp), fst (assert_applies ceqb rmatch g c) = c.
Proof. exact (fst_assert_applies ceqb rmatch). Qed.
End C15.

Print Assumptions C15_order_independent.
Print Assumptions C15_class_order_independent.
Print Assumptions C15_query_order_independent.
Print Assumptions C15_reapply.
Print Assumptions C15_rule_object_unchanged.

(* non-vacuity: an 'anything' rule evaluated twice on a graph where it fails; the rule object is unchanged and fails again *)
Open Scope N_scope.
Example C15_example :
  let g := {| nodes := [[1]; [1;2]; [1;3]]; imps := [([1;2], [1;3])] |} in
  let c := any_cfg true [UNamed [1;2]] in
  fst (assert_applies N.eqb (fun _ _ => false) g c) = c /\
  snd (assert_applies N.eqb (fun _ _ => false) g c) <> Pass /\
  snd (assert_applies N.eqb (fun _ _ => false) g (fst (assert_applies N.eqb (fun _ _ => false) g c)))
    = snd (assert_applies N.eqb (fun _ _ => false) g c).
Proof. split; [vm_compute; reflexivity|split; [vm_compute; discriminate|vm_compute; reflexivity]]. Qed.
