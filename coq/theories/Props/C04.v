(* C04 — modules and hierarchy mirror the scanned directory tree, named from root_path. *)
From Coq Require Import List Bool NArith.
From PTA Require Import Names Graph Search Scan NamesProofs SearchProofs GraphProofs ScanProofs SubscanProofs RerootProofs.
Import ListNotations.

(* one module per non-excluded .py file and per non-excluded directory at or below the starting directory,
   none of whose ancestors down from there is excluded, named root :: path - and nothing else *)
Theorem C04_modules : forall (comp : Type) excl (root : comp) (n : @fsnode comp) path m,
  In m (fst (walk excl root path n)) <->
  exists p, In (p, true) (node_paths n) /\ m = root :: path ++ p /\ not_excluded_below excl path p.
Proof. exact @walk_modules. Qed.
Print Assumptions C04_modules.

(* every parsed file is one of those modules *)
Theorem C04_files_are_modules : forall (comp : Type) excl (root : comp) (n : @fsnode comp) path u body,
  In (u, body) (snd (walk excl root path n)) -> In u (fst (walk excl root path n)).
Proof. exact @walk_files. Qed.
Print Assumptions C04_files_are_modules.

(* the graph's nodes: the modules and every ancestor package up to the root *)
Theorem C04_nodes :
  forall (comp : Type) (ceqb : comp -> comp -> bool), (forall x y, reflect (x = y) (ceqb x y)) ->
  forall lim mods imports n,
  In n (build_nodes ceqb lim mods imports) <->
  (exists m, In m mods /\ (n = fl lim m \/ exists p, In p (proper_prefixes m) /\ n = fl lim p)) \/
  (exists e p, In e imports /\ In p (proper_prefixes (fst e)) /\ n = fl lim p).
Proof. exact @in_build_nodes. Qed.
Print Assumptions C04_nodes.

(* the hierarchy is the name order: the node set is closed under ancestors, and the sub modules of a module
   (what the graph searches enumerate) are exactly the nodes whose name extends it *)
Theorem C04_ancestor_closed :
  forall (comp : Type) (ceqb : comp -> comp -> bool), (forall x y, reflect (x = y) (ceqb x y)) ->
  forall mods imports n p,
  In n (build_nodes ceqb None mods imports) -> In p (proper_prefixes n) -> In p (build_nodes ceqb None mods imports).
Proof. exact @build_nodes_ancestor_closed. Qed.
Print Assumptions C04_ancestor_closed.

Theorem C04_sub_modules :
  forall (comp : Type) (ceqb : comp -> comp -> bool) (g : @graph comp) n x,
  In x (desc_incl ceqb g n) <-> In x (nodes g) /\ prefixb ceqb n x = true.
Proof. exact @in_desc_incl. Qed.
Print Assumptions C04_sub_modules.

(* ---- scanning a sub-directory as module_path = scanning the whole root, restricted to that sub-tree ----
   [whole c] is the same request with module_path = root_path.  Hypotheses: each component of module_path names
   exactly one entry of its directory and that entry is a directory ([path_ok]); neither the root directory nor a
   directory on the way down to module_path is excluded; externals excluded (the default).
   For the imports additionally: every absolute import name in the sub-tree is fully qualified ONLY ([unamb]: read as
   "relative to module_path's parent" it names no module of the sub-tree - such names are the ambiguous ones, which the
   code resolves parent-relative; see DESIGN 11.4).  Relative imports need no hypothesis. *)
Theorem C04_subscan_modules :
  forall (comp : Type) (ceqb : comp -> comp -> bool), (forall x y, reflect (x = y) (ceqb x y)) ->
  forall (c : @scan_cfg comp),
  sc_exclude_external c = true -> sc_mp c <> [] -> path_ok (sc_tree c) (sc_mp c) ->
  sc_excl c [] = false -> (forall q r, sc_mp c = q ++ r -> q <> [] -> sc_excl c q = false) ->
  forall r r0, scan ceqb c = Some r -> scan ceqb (whole c) = Some r0 ->
  forall m, In m (sr_modules r) <-> In m (sr_modules r0) /\ prefixb ceqb (sc_root c :: sc_mp c) m = true.
Proof. intros comp ceqb Hs c. exact (subscan_modules ceqb Hs (sc_excl c) (sc_root c) c eq_refl eq_refl). Qed.
Print Assumptions C04_subscan_modules.

Theorem C04_subscan_imports :
  forall (comp : Type) (ceqb : comp -> comp -> bool), (forall x y, reflect (x = y) (ceqb x y)) ->
  forall (c : @scan_cfg comp),
  sc_exclude_external c = true -> sc_mp c <> [] -> path_ok (sc_tree c) (sc_mp c) ->
  sc_excl c [] = false -> (forall q r, sc_mp c = q ++ r -> q <> [] -> sc_excl c q = false) ->
  forall r r0, scan ceqb c = Some r -> scan ceqb (whole c) = Some r0 ->
  (forall cs, subdir ceqb (sc_tree c) (sc_mp c) = Some cs ->
     forall u body s, In (u, body) (F (sc_excl c) (sc_root c) cs (sc_mp c)) -> In s (collect body) ->
       unamb ceqb (filter (is_internal ceqb c) ((sc_root c :: sc_mp c) :: W (sc_excl c) (sc_root c) cs (sc_mp c)))
             (sc_root c :: removelast (sc_mp c)) s) ->
  forall a b, In (a, b) (sr_imports r) <->
              In (a, b) (sr_imports r0) /\ prefixb ceqb (sc_root c :: sc_mp c) a = true /\ prefixb ceqb (sc_root c :: sc_mp c) b = true.
Proof. intros comp ceqb Hs c. exact (subscan_imports ceqb Hs (sc_excl c) (sc_root c) c eq_refl eq_refl). Qed.
Print Assumptions C04_subscan_imports.

(* non-vacuity: proj/{a.py, pkg/{__init__.py, b.py, notes.txt}, ab/} scanned from proj/pkg *)
Open Scope N_scope.
Example C04_example :
  let tree := [FFile 2 true []; FDir 3 [FFile 9 true []; FFile 4 true []; FFile 5 false []]; FDir 6 []] in
  let c := {| sc_root := 1; sc_tree := tree; sc_mp := [3]; sc_excl := fun _ => false; sc_exclude_external := true;
              sc_ext_excl := fun _ => false; sc_has_ext_excl := false; sc_limit := None |} in
  option_map (fun r => nodes (sr_graph r)) (scan N.eqb c) = Some [[1;3]; [1]; [1;3;9]; [1;3;4]].
Proof. vm_compute. reflexivity. Qed.


(* non-vacuity of the sub-scan theorems: proj/{a.py, pkg/{b.py: "import proj.pkg.d; from . import d; import proj.a", d.py}}
   scanned from proj/pkg and from proj: same imports inside pkg (b -> d), the import of proj.a is outside *)
Example C04_subscan_example :
  let tree := [FFile 2 true []; FDir 3 [FFile 4 true [SImport [[1;3;5]]; SFrom 1 None [5]; SImport [[1;2]]]; FFile 5 true []]] in
  let c := {| sc_root := 1; sc_tree := tree; sc_mp := [3]; sc_excl := fun _ => false; sc_exclude_external := true;
              sc_ext_excl := fun _ => false; sc_has_ext_excl := false; sc_limit := None |} in
  path_ok tree [3] /\
  option_map (fun r => sr_imports r) (scan N.eqb c) = Some [([1;3;4], [1;3;5]); ([1;3;4], [1;3;5])] /\
  option_map (fun r => sr_imports r) (scan N.eqb (whole c)) = Some [([1;3;4], [1;3;5]); ([1;3;4], [1;3;5]); ([1;3;4], [1;2])].
Proof.
  split; [|split; vm_compute; reflexivity].
  cbn [path_ok]. eexists. split; [right; left; reflexivity|]. split; [|exact I].
  intros n [<-|[<-|[]]]; cbn [cname]; [discriminate|reflexivity].
Qed.

(* A directory inside the project handed to the scan as a project of its own (root_path = module_path = that directory):
   its modules and parsed files are those of the scan made from the outer root with module_path = that directory, every
   name with the outer prefix [r :: pre] stripped - same order, same file bodies; an exclusion pattern sees the same path.
   What lies above the directory that is given as the root has no influence on the names below it. *)
Theorem C04_inner_root :
  forall (comp : Type) (ceqb : comp -> comp -> bool) (excl : list comp -> bool) (r : comp) (pre : list comp) (r' : comp)
         (tree cs : list (@fsnode comp)),
  subdir ceqb tree (pre ++ [r']) = Some cs ->
  walk_from ceqb excl r tree (pre ++ [r']) =
  option_map (lift_res r pre) (walk_from ceqb (inner_excl excl pre r') r' cs []).
Proof. exact @inner_root_walk. Qed.
Print Assumptions C04_inner_root.

(* Exclusion patterns decide about what the scan finds AT OR BELOW module_path only: two exclusion predicates that agree on
   every path at or below [mp] give the same modules and the same parsed files - so a pattern that matches nothing but
   directories above module_path (root_path's own directory among them) leaves the scan as it is without any pattern. *)
Theorem C04_exclusions_above_module_path_irrelevant :
  forall (comp : Type) (ceqb : comp -> comp -> bool) (e1 e2 : list comp -> bool) (root : comp)
         (tree : list (@fsnode comp)) (mp : list comp),
  (forall q, e1 (mp ++ q) = e2 (mp ++ q)) ->
  walk_from ceqb e1 root tree mp = walk_from ceqb e2 root tree mp.
Proof. exact @walk_from_excl_below. Qed.
Print Assumptions C04_exclusions_above_module_path_irrelevant.

(* non-vacuity: proj/src/proj - the inner directory bears the outer root's name *)
Example C04_inner_root_example :
  let tree := [FDir 2%N [FDir 1%N [FFile 3%N true []; FDir 4%N [FFile 5%N true []]]]; FFile 6%N true []] in
  subdir N.eqb tree ([2%N] ++ [1%N]) = Some [FFile 3%N true []; FDir 4%N [FFile 5%N true []]] /\
  option_map fst (walk_from N.eqb (fun _ => false) 1%N tree [2%N; 1%N]) = Some [[1;2;1]; [1;2;1;3]; [1;2;1;4]; [1;2;1;4;5]]%N /\
  option_map fst (walk_from N.eqb (fun _ => false) 1%N [FFile 3%N true []; FDir 4%N [FFile 5%N true []]] []) = Some [[1]; [1;3]; [1;4]; [1;4;5]]%N.
Proof. repeat split; vm_compute; reflexivity. Qed.
