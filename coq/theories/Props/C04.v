(* C04 — modules and hierarchy mirror the scanned directory tree, named from root_path. *)
From Coq Require Import List Bool NArith.
From PTA Require Import Names Graph Search Scan NamesProofs SearchProofs GraphProofs ScanProofs.
Import ListNotations.

(* one module per non-excluded .py file and per non-excluded directory at or below the starting directory,
   none of whose ancestors down from there is excluded, named root :: path - and nothing else *)
Theorem C04_modules : forall (comp : Type) excl (root : comp) (n : @fsnode comp) path m,
  In m (fst (walk excl root path n)) <->
  exists p, In (p, true) (node_paths n) /\ m = root :: path ++ p /\ not_excluded_below excl path p.
Proof. exact @walk_modules. Qed.
Print Assumptions C04_modules.

(* every parsed file is one of those modules *)
Theorem C04_files_are_modules : forall (comp : Type) excl (root : comp) (n : @fsnode comp) path u body,
  In (u, body) (snd (walk excl root path n)) -> In u (fst (walk excl root path n)).
Proof. exact @walk_files. Qed.
Print Assumptions C04_files_are_modules.

(* the graph's nodes: the modules and every ancestor package up to the root *)
Theorem C04_nodes :
  forall (comp : Type) (ceqb : comp -> comp -> bool), (forall x y, reflect (x = y) (ceqb x y)) ->
  forall lim mods imports n,
  In n (build_nodes ceqb lim mods imports) <->
  (exists m, In m mods /\ (n = fl lim m \/ exists p, In p (proper_prefixes m) /\ n = fl lim p)) \/
  (exists e p, In e imports /\ In p (proper_prefixes (fst e)) /\ n = fl lim p).
Proof. exact @in_build_nodes. Qed.
Print Assumptions C04_nodes.

(* the hierarchy is the name order: the node set is closed under ancestors, and the sub modules of a module
   (what the graph searches enumerate) are exactly the nodes whose name extends it *)
Theorem C04_ancestor_closed :
  forall (comp : Type) (ceqb : comp -> comp -> bool), (forall x y, reflect (x = y) (ceqb x y)) ->
  forall mods imports n p,
  In n (build_nodes ceqb None mods imports) -> In p (proper_prefixes n) -> In p (build_nodes ceqb None mods imports).
Proof. exact @build_nodes_ancestor_closed. Qed.
Print Assumptions C04_ancestor_closed.

Theorem C04_sub_modules :
  forall (comp : Type) (ceqb : comp -> comp -> bool) (g : @graph comp) n x,
  In x (desc_incl ceqb g n) <-> In x (nodes g) /\ prefixb ceqb n x = true.
Proof. exact @in_desc_incl. Qed.
Print Assumptions C04_sub_modules.

(* non-vacuity: proj/{a.py, pkg/{__init__.py, b.py, notes.txt}, ab/} scanned from proj/pkg *)
Open Scope N_scope.
Example C04_example :
  let tree := [FFile 2 true []; FDir 3 [FFile 9 true []; FFile 4 true []; FFile 5 false []]; FDir 6 []] in
  let c := {| sc_root := 1; sc_tree := tree; sc_mp := [3]; sc_excl := fun _ => false; sc_exclude_external := true;
              sc_ext_excl := fun _ => false; sc_has_ext_excl := false; sc_limit := None |} in
  option_map (fun r => nodes (sr_graph r)) (scan N.eqb c) = Some [[1;3]; [1]; [1;3;9]; [1;3;4]].
Proof. vm_compute. reflexivity. Qed.
