(* C09 — level_limit yields the quotient graph and preserves verdicts above the limit. *)
From Coq Require Import List Bool NArith Lia.
From PTA Require Import Names Graph Search Rule SpecRule Scan NamesProofs SearchProofs RuleProofs GraphProofs ScanProofs QuotientProofs LimitNestProofs.
Import ListNotations.

(* modules of the limited architecture = truncated names of the full one *)
Theorem C09_quotient_modules :
  forall (comp : Type) (ceqb : comp -> comp -> bool), (forall x y, reflect (x = y) (ceqb x y)) ->
  forall k mods imports a,
  In a (build_nodes ceqb (Some k) mods imports) <->
  exists n, In n (build_nodes ceqb None mods imports) /\ a = flatten (Some k) n.
Proof. exact @quotient_nodes. Qed.
Print Assumptions C09_quotient_modules.

(* a imports b exactly when some module truncating to a imports some module truncating to b and a differs from b
   (an import that coincides with a hierarchy edge is that hierarchy edge).  Unconditional: an import one end of which
   is no node of the full architecture (an excluded file, a name that is no module) is no edge of the limited one either. *)
Theorem C09_quotient_imports :
  forall (comp : Type) (ceqb : comp -> comp -> bool), (forall x y, reflect (x = y) (ceqb x y)) ->
  forall k mods imports a b,
  (In (a, b) (imps (build_graph ceqb mods imports (Some k))) <->
   exists x y, In (x, y) (imps (build_graph ceqb mods imports None)) /\
               a = flatten (Some k) x /\ b = flatten (Some k) y /\ a <> b /\ childb ceqb a b = false).
Proof. exact @quotient_imps. Qed.
Print Assumptions C09_quotient_imports.

(* the limit counts levels below module_path *)
Theorem C09_effective_limit : forall (comp : Type) (c : @scan_cfg comp) k,
  sc_limit c = Some k -> effective_limit c = Some (k + length (sc_mp c)).
Proof. intros comp c k H. unfold effective_limit. rewrite H. reflexivity. Qed.
Print Assumptions C09_effective_limit.

(* "Consequently": a rule of C01's space (subjects and objects pairwise unrelated, all named modules existing)
   whose named modules lie at or above level k and whose 'sub modules of' parents lie strictly above it
   ([above k f]: length of the name, plus one for a 'sub modules of' filter, is at most k+1)
   has the same verdict on the flattened and on the full architecture, and is never an error there.
   Hypothesis beyond the property's wording: no module imports one of its own descendants
   (needs a file and a directory of the same name in a scanned project); C09_down_import_refuted
   shows it cannot be dropped: truncation turns parent -> deep descendant into a hierarchy pair. *)
Theorem C09_verdict_preserved :
  forall (comp : Type) (ceqb : comp -> comp -> bool), (forall x y, reflect (x = y) (ceqb x y)) ->
  forall (rmatch : N -> list comp -> bool) k mods imports,
  (forall x y, In (x, y) imports -> prefixb ceqb x y = false) ->
  forall v imp exc Ss Os,
  strict ceqb (build_graph ceqb mods imports None) Ss Os ->
  (forall f, In f (Ss ++ Os) -> above k f) ->
  (verdict ceqb rmatch (build_graph ceqb mods imports (Some k)) (mk_cfg v imp exc Ss Os) = Pass <->
   verdict ceqb rmatch (build_graph ceqb mods imports None) (mk_cfg v imp exc Ss Os) = Pass) /\
  is_err (verdict ceqb rmatch (build_graph ceqb mods imports (Some k)) (mk_cfg v imp exc Ss Os)) = false.
Proof. exact @verdict_preserved. Qed.
Print Assumptions C09_verdict_preserved.

(* the documented semantics themselves do not see the truncation *)
Theorem C09_semantics_preserved :
  forall (comp : Type) (ceqb : comp -> comp -> bool), (forall x y, reflect (x = y) (ceqb x y)) ->
  forall k mods imports,
  (forall x y, In (x, y) imports -> prefixb ceqb x y = false) ->
  forall v imp exc Ss Os,
  pw_unrel ceqb (map fid (Ss ++ Os)) ->
  (forall f, In f (Ss ++ Os) -> above k f) ->
  spec_holds ceqb (build_graph ceqb mods imports (Some k)) v imp exc Ss Os =
  spec_holds ceqb (build_graph ceqb mods imports None) v imp exc Ss Os.
Proof. exact @spec_quotient. Qed.
Print Assumptions C09_semantics_preserved.

(* K1 (known finding): verdict preservation is FALSE for a rule whose subject and object are related:
   'proj.p should import proj.p.a' with the single import p.a.x -> p.a.w passes on the full architecture
   and fails with level_limit = 2 (the witnessing import becomes a self edge of p.a) *)
Open Scope N_scope.
Theorem C09_related_refuted :
  exists (mods : list (list N)) imports k c,
    verdict N.eqb (fun _ _ => false) (build_graph N.eqb mods imports None) c = Pass /\
    verdict N.eqb (fun _ _ => false) (build_graph N.eqb mods imports (Some k)) c <> Pass.
Proof.
  exists [[1]; [1;2]; [1;2;3]; [1;2;3;4]; [1;2;3;5]], [([1;2;3;4], [1;2;3;5])], 2%nat,
         (mk_cfg Should true false [Named [1;2]] [Named [1;2;3]]).
  split; [vm_compute; reflexivity|vm_compute; discriminate].
Qed.
Print Assumptions C09_related_refuted.

(* the extra hypothesis of C09_verdict_preserved cannot be dropped: [1] imports its own deep descendant [1;2;3];
   '[1;2] should be imported by modules except [1;4]' passes on the full graph; with k = 1 the import becomes
   the hierarchy pair [1] -> [1;2] and the rule fails.  Subjects and objects are unrelated and above the limit. *)
Theorem C09_down_import_refuted :
  exists (mods : list (list N)) imports k c,
    verdict N.eqb (fun _ _ => false) (build_graph N.eqb mods imports None) c = Pass /\
    verdict N.eqb (fun _ _ => false) (build_graph N.eqb mods imports (Some k)) c <> Pass.
Proof.
  exists [[1]; [1;2]; [1;2;3]; [1;4]], [([1], [1;2;3])], 1%nat,
         (mk_cfg Should false true [Named [1;2]] [Named [1;4]]).
  split; [vm_compute; reflexivity|vm_compute; discriminate].
Qed.
Print Assumptions C09_down_import_refuted.

(* non-vacuity of C09_verdict_preserved: a 7-module project, 3 imports, k = 1, a strict rule above the limit,
   and the verdict indeed coincides (fails on both: [1;3] is imported by [1;2;5] only through truncation-stable pairs) *)
Definition ex9_mods : list (list N) := [[1]; [1;2]; [1;2;5]; [1;2;5;6]; [1;3]; [1;3;7]; [1;4]].
Definition ex9_imps : list (list N * list N) := [([1;2;5;6], [1;3;7]); ([1;3;7], [1;4]); ([1;4], [1;2;5])].
Definition ex9_Ss : list (@filt N) := [Named [1;2]; SubOf [1;4]].
Definition ex9_Os : list (@filt N) := [Named [1;3]].
Example C09_example :
  (forall x y, In (x, y) ex9_imps -> prefixb N.eqb x y = false) /\
  strict N.eqb (build_graph N.eqb ex9_mods ex9_imps None) ex9_Ss ex9_Os /\
  (forall f, In f (ex9_Ss ++ ex9_Os) -> above 2 f) /\
  verdict N.eqb (fun _ _ => false) (build_graph N.eqb ex9_mods ex9_imps (Some 2%nat)) (mk_cfg Should true false [Named [1;2]] ex9_Os) = Pass /\
  verdict N.eqb (fun _ _ => false) (build_graph N.eqb ex9_mods ex9_imps (Some 2%nat)) (mk_cfg ShouldNot false true ex9_Ss ex9_Os) <> Pass.
Proof.
  split; [|split; [|split; [|split]]].
  - intros x y H. simpl in H. repeat (destruct H as [H|H]; [injection H as <- <-; reflexivity|]). destruct H.
  - constructor.
    + intros a b H. vm_compute in H. repeat (destruct H as [H|H]; [injection H as <- <-; vm_compute; intuition congruence|]). destruct H.
    + intros f H. simpl in H. repeat (destruct H as [<-|H]; [reflexivity|]). destruct H.
    + simpl. repeat split; intros y Hy; simpl in Hy; repeat (destruct Hy as [<-|Hy]; [reflexivity|]); destruct Hy.
    + discriminate.
    + discriminate.
  - intros f H. simpl in H. unfold above. repeat (destruct H as [<-|H]; [simpl; lia|]). destruct H.
  - vm_compute. reflexivity.
  - vm_compute. discriminate.
Qed.

(* D22 (repaired): an import of something that is no node of the full architecture - here [1;2;9], e.g. an excluded file -
   is no edge of the level-limited architecture either (before the repair it became the edge [1;3] -> [1;2]) *)
Example C09_non_module_import :
  imps (build_graph N.eqb [[1]; [1;2]; [1;3]; [1;3;4]]%N [([1;3;4], [1;2;9])]%N (Some 1%nat)) = [] /\
  imps (build_graph N.eqb [[1]; [1;2]; [1;3]; [1;3;4]]%N [([1;3;4], [1;2;9])]%N None) = [].
Proof. split; vm_compute; reflexivity. Qed.

(* Level limits nest: the architecture limited at j is the quotient, under truncation at j, of the architecture limited
   at any deeper k (so flattening an already flattened view is the direct flattening) ... *)
Theorem C09_limits_nest_modules :
  forall (comp : Type) (ceqb : comp -> comp -> bool), (forall x y, reflect (x = y) (ceqb x y)) ->
  forall (j k : nat) mods imports a, (j <= k)%nat ->
  (In a (build_nodes ceqb (Some j) mods imports) <->
   exists n, In n (build_nodes ceqb (Some k) mods imports) /\ a = flatten (Some j) n).
Proof. exact @nested_nodes. Qed.
Print Assumptions C09_limits_nest_modules.

Theorem C09_limits_nest_imports :
  forall (comp : Type) (ceqb : comp -> comp -> bool), (forall x y, reflect (x = y) (ceqb x y)) ->
  forall (j k : nat) mods imports, (j <= k)%nat ->
  (forall a b, In (a, b) (imps (build_graph ceqb mods imports (Some j))) ->
     exists x y, In (x, y) (imps (build_graph ceqb mods imports (Some k))) /\
                 a = flatten (Some j) x /\ b = flatten (Some j) y) /\
  (forall x y, In (x, y) (imps (build_graph ceqb mods imports (Some k))) ->
     flatten (Some j) x <> flatten (Some j) y ->
     childb ceqb (flatten (Some j) x) (flatten (Some j) y) = false ->
     In (flatten (Some j) x, flatten (Some j) y) (imps (build_graph ceqb mods imports (Some j)))).
Proof.
  intros comp ceqb Hc j k mods imports Hjk. split.
  - intros a b. exact (nested_imps_sound ceqb Hc j k mods imports a b Hjk).
  - intros x y. exact (nested_imps_complete ceqb Hc j k mods imports x y Hjk).
Qed.
Print Assumptions C09_limits_nest_imports.

(* ... and a limit that no module name exceeds is no limit: same modules, same imports *)
Theorem C09_deep_limit_is_identity :
  forall (comp : Type) (ceqb : comp -> comp -> bool), (forall x y, reflect (x = y) (ceqb x y)) ->
  forall (k : nat) mods imports,
  (forall n, In n (build_nodes ceqb None mods imports) -> (length n <= S k)%nat) ->
  (forall a, In a (build_nodes ceqb (Some k) mods imports) <-> In a (build_nodes ceqb None mods imports)) /\
  (forall a b, In (a, b) (imps (build_graph ceqb mods imports (Some k))) <->
               In (a, b) (imps (build_graph ceqb mods imports None))).
Proof.
  intros comp ceqb Hc k mods imports Hs. split.
  - intros a. exact (deep_limit_nodes ceqb Hc k mods imports a Hs).
  - intros a b. exact (deep_limit_imps ceqb Hc k mods imports a b Hs).
Qed.
Print Assumptions C09_deep_limit_is_identity.

(* non-vacuity: in the example project every name has at most 4 components, so limit 3 is the identity and limit 1 is
   the quotient of limit 2 *)
Example C09_nest_example :
  (forall n, In n (build_nodes N.eqb None ex9_mods ex9_imps) -> (length n <= 4)%nat) /\
  imps (build_graph N.eqb ex9_mods ex9_imps (Some 3%nat)) = imps (build_graph N.eqb ex9_mods ex9_imps None) /\
  imps (build_graph N.eqb ex9_mods ex9_imps (Some 1%nat)) = [([1;2], [1;3]); ([1;3], [1;4]); ([1;4], [1;2])]%N.
Proof.
  split; [|split; vm_compute; reflexivity].
  intros n H. vm_compute in H. repeat (destruct H as [<-|H]; [simpl; lia|]). destruct H.
Qed.
