(* C09 — level_limit yields the quotient graph and preserves verdicts above the limit. *)
From Coq Require Import List Bool NArith.
From PTA Require Import Names Graph Search Rule SpecRule Scan NamesProofs SearchProofs RuleProofs GraphProofs ScanProofs.
Import ListNotations.

(* modules of the limited architecture = truncated names of the full one *)
Theorem C09_quotient_modules :
  forall (comp : Type) (ceqb : comp -> comp -> bool), (forall x y, reflect (x = y) (ceqb x y)) ->
  forall k mods imports a,
  In a (build_nodes ceqb (Some k) mods imports) <->
  exists n, In n (build_nodes ceqb None mods imports) /\ a = flatten (Some k) n.
Proof. exact @quotient_nodes. Qed.
Print Assumptions C09_quotient_modules.

(* a imports b exactly when some module truncating to a imports some module truncating to b and a differs from b
   (an import that coincides with a hierarchy edge is that hierarchy edge) *)
Theorem C09_quotient_imports :
  forall (comp : Type) (ceqb : comp -> comp -> bool), (forall x y, reflect (x = y) (ceqb x y)) ->
  forall k mods imports a b,
  (forall x y, In (x, y) imports -> In x (build_nodes ceqb None mods imports) /\ In y (build_nodes ceqb None mods imports)) ->
  (In (a, b) (imps (build_graph ceqb mods imports (Some k))) <->
   exists x y, In (x, y) (imps (build_graph ceqb mods imports None)) /\
               a = flatten (Some k) x /\ b = flatten (Some k) y /\ a <> b /\ childb ceqb a b = false).
Proof. exact @quotient_imps. Qed.
Print Assumptions C09_quotient_imports.

(* the limit counts levels below module_path *)
Theorem C09_effective_limit : forall (comp : Type) (c : @scan_cfg comp) k,
  sc_limit c = Some k -> effective_limit c = Some (k + length (sc_mp c)).
Proof. intros comp c k H. unfold effective_limit. rewrite H. reflexivity. Qed.
Print Assumptions C09_effective_limit.

(* K1 (known finding): verdict preservation is FALSE for a rule whose subject and object are related:
   'proj.p should import proj.p.a' with the single import p.a.x -> p.a.w passes on the full architecture
   and fails with level_limit = 2 (the witnessing import becomes a self edge of p.a) *)
Open Scope N_scope.
Theorem C09_related_refuted :
  exists (mods : list (list N)) imports k c,
    verdict N.eqb (fun _ _ => false) (build_graph N.eqb mods imports None) c = Pass /\
    verdict N.eqb (fun _ _ => false) (build_graph N.eqb mods imports (Some k)) c <> Pass.
Proof.
  exists [[1]; [1;2]; [1;2;3]; [1;2;3;4]; [1;2;3;5]], [([1;2;3;4], [1;2;3;5])], 2%nat,
         (mk_cfg Should true false [Named [1;2]] [Named [1;2;3]]).
  split; [vm_compute; reflexivity|vm_compute; discriminate].
Qed.
Print Assumptions C09_related_refuted.
