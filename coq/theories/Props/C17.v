(* C17 — plot labels: aliases replace the nearest aliased ancestor, all modules labelled.
   [label] / [plot_labels] / [draw_kwargs] model networkxgraph.py:212-296 on strings
   (lists of code points): keys sorted longest string first, first key that is the module
   or a dotted-boundary prefix wins, that many characters replaced by the alias.
   Names are rendered from component lists; [wf_comps] = non-empty list of dot-free components. *)
From Coq Require Import List Bool NArith.
From PTA Require Import Sx Names Search Label NamesProofs LabelProofs.
Import ListNotations.

(* a module at or below an aliased module gets the alias of the MOST SPECIFIC (by dotted components)
   aliased module in place of that module's name, the rest of its name kept *)
Theorem C17_label_most_specific : forall (al : list (list str * str)) (m : list str),
  (forall ka, In ka al -> wf_comps (fst ka)) -> wf_comps m ->
  (exists ka, In ka al /\ prefixb str_eqb (fst ka) m = true) ->
  exists k a, In (k, a) al /\ prefixb str_eqb k m = true /\
    (forall k' a', In (k', a') al -> prefixb str_eqb k' m = true -> (length k' <= length k)%nat) /\
    label (ralias al) (render m) = a ++ skipn (length (render k)) (render m).
Proof. exact label_most_specific. Qed.
Print Assumptions C17_label_most_specific.

(* every other module keeps its full name - in particular pkg.ab when only pkg.a is aliased *)
Theorem C17_label_unaliased : forall (al : list (list str * str)) (m : list str),
  (forall ka, In ka al -> wf_comps (fst ka)) -> wf_comps m ->
  (forall ka, In ka al -> prefixb str_eqb (fst ka) m = false) ->
  label (ralias al) (render m) = render m.
Proof. exact label_unaliased. Qed.
Print Assumptions C17_label_unaliased.

(* every module of the architecture is labelled exactly once, in order *)
Theorem C17_total : forall aliases mods ls, plot_labels aliases mods = inr ls -> map fst ls = mods.
Proof. exact plot_labels_total. Qed.
Print Assumptions C17_total.

(* an alias for a module that does not exist is rejected with an error naming such a module *)
Theorem C17_unknown_alias : forall aliases mods,
  (exists ka, In ka aliases /\ ~ In (fst ka) mods) ->
  exists k, plot_labels aliases mods = inl (Some k) /\ ~ In k mods /\ In k (map fst aliases).
Proof. exact plot_labels_unknown. Qed.
Print Assumptions C17_unknown_alias.

Theorem C17_known_aliases_accepted : forall aliases mods,
  (forall ka, In ka aliases -> In (fst ka) mods) -> exists ls, plot_labels aliases mods = inr ls.
Proof. exact plot_labels_known. Qed.
Print Assumptions C17_known_aliases_accepted.

(* remaining drawing options are passed through to the backend unchanged *)
Theorem C17_kwargs : forall kw p l k v,
  k <> K_SPACING -> k <> K_ALIASES -> k <> K_POS -> k <> K_LABELS ->
  (In (k, v) (draw_kwargs kw p l) <-> In (k, v) kw).
Proof. exact draw_kwargs_passthrough. Qed.
Print Assumptions C17_kwargs.

(* non-vacuity: modules a, a.b, a.c, a.c.d, ab; aliases a -> "A", a.c -> "C"  (documentation's example
   plus the prefix sibling): labels A, A.b, C, C.d, ab *)
Open Scope N_scope.
Example C17_example :
  let a := [97] in let ab := [97;98] in let b := [98] in let c := [99] in let d := [100] in
  let al := [([a], [65]); ([a; c], [67])] in
  map (fun m => label (ralias al) (render m)) [[a]; [a; b]; [a; c]; [a; c; d]; [ab]]
  = [[65]; [65; 46; 98]; [67]; [67; 46; 100]; [97; 98]].
Proof. vm_compute. reflexivity. Qed.
