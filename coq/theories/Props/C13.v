(* placeholder; theorems added below once the layer part is proved *)
