(* C13 — undefined or incomplete specifications never produce a verdict.
   [run_rule g calls] = a history of Rule builder calls followed by assert_applies(g);
   [spec_accepts calls] = the independent specification automaton (Model/Builder.v, bottom):
   it sees only the KINDS of the calls and decides complete / incomplete / contradictory. *)
From Coq Require Import List Bool NArith.
From PTA Require Import Names Graph Search Rule SpecRule Builder Layer Diagram Scan Sx Puml NamesProofs SearchProofs RuleProofs AlgebraProofs ExpansionProofs BuilderProofs LayerBuilderProofs ClassProofs.
Import ListNotations.

Section C13.
Context (comp : Type) (ceqb : comp -> comp -> bool) (ceqb_spec : forall x y, reflect (x = y) (ceqb x y)).
Context (rmatch : N -> list comp -> bool).

(* Rule: for EVERY call history, a verdict (pass or AssertionError) is produced only if the history
   supplies subject, verb, import type and object (or 'anything'), does not combine should_not with
   another verb, uses 'anything' only with should_not, and gives no module list before a side is open *)
Theorem C13_rule_history : forall g (calls : list (@rcall comp)),
  is_verdict (run_rule ceqb rmatch g calls) = true -> spec_accepts calls = true.
Proof. exact (rule_history_verdict_complete ceqb rmatch). Qed.

Theorem C13_rule_incomplete_is_error : forall g (calls : list (@rcall comp)),
  spec_accepts calls = false -> exists e, run_rule ceqb rmatch g calls = Err e.
Proof. exact (rule_history_incomplete_is_error ceqb rmatch). Qed.

(* a module name absent from the architecture (misspelt, too deep, flattened away): never a verdict *)
Theorem C13_unknown_name : forall g v imp exc Ss Os f,
  In f (plain Ss ++ plain Os) -> exists_f ceqb g f = false ->
  is_verdict (AlgebraProofs.V ceqb rmatch g (mk_ucfg v imp exc Ss Os)) = false.
Proof. exact (unknown_name_is_error ceqb ceqb_spec rmatch). Qed.

(* ... and conversely: with name / sub-modules-of filters an error arises ONLY from an absent module *)
Theorem C13_error_iff_missing : forall g v imp exc (ss os : list (@filt comp)),
  ss <> [] -> os <> [] ->
  (is_verdict (AlgebraProofs.V ceqb rmatch g (mk_ucfg v imp exc (map (@to_u comp) ss) (map (@to_u comp) os))) = false <->
   exists f, In f (ss ++ os) /\ exists_f ceqb g f = false).
Proof. exact (error_iff_missing ceqb ceqb_spec rmatch). Qed.

(* the same for 'should not import / be imported by anything', also when the alias rewrite drops the absent name
   from the subject list because its parent is listed too (D23) *)
Theorem C13_alias_unknown_name : forall g imp (Ss : list (@ufilt comp)) f,
  In f (plain Ss) -> exists_f ceqb g f = false ->
  is_verdict (AlgebraProofs.V ceqb rmatch g (any_cfg imp Ss)) = false.
Proof. exact (alias_unknown_name_is_error ceqb ceqb_spec rmatch). Qed.

(* a regex matching nothing: never a verdict (subject position; object position: C11_no_match_object) *)
Theorem C13_no_match : forall g v imp exc p Os,
  ExpansionProofs.matching rmatch g p = [] ->
  is_err (AlgebraProofs.V ceqb rmatch g (mk_ucfg v imp exc [URegex p] Os)) = true.
Proof. exact (ExpansionProofs.regex_subject_no_match ceqb rmatch). Qed.

(* LayerRule: a verdict only if the architecture was given, exactly one subject layer was named,
   and the lowered rule is complete and consistent *)
Theorem C13_layer_history : forall g (calls : list (@lrcall comp)),
  is_lverdict (run_layer_rule ceqb rmatch g calls) = true ->
  exists st r a, lr_run lrinit calls = Ok st /\ lr_rule st = Some r /\ lr_arch st = Some a /\
                 subj_one_layer a r /\ complete (absv r) = true.
Proof. exact (layer_history_verdict_complete ceqb rmatch). Qed.

(* a layer that was never defined is rejected at the call that names it *)
Theorem C13_layer_undefined : forall (st : @lrstate comp) r a l st',
  lr_rule st = Some r -> lr_arch st = Some a -> lookup_layer a l = None ->
  lr_step st (LRAreNamedStr l) = Ok st' -> False.
Proof. exact (@layer_rule_undefined_layer comp). Qed.

(* DiagramRule: for EVERY history of builder calls, a verdict only if a file was given and the parser accepted it *)
Theorem C13_diagram_history : forall g only (calls : list (@dcall comp)) parsed,
  is_verdict (diagram_history ceqb rmatch g only calls parsed) = true ->
  In DFromFile calls /\ parsed <> None.
Proof.
  intros g only calls parsed. unfold diagram_history, diagram_rule.
  assert (Hf : forall st, fst (fold_left (@dstep comp) calls st) = true -> fst st = true \/ In DFromFile calls).
  { induction calls as [|c calls IH]; intros st H; [left; exact H|]. cbn [fold_left] in H. destruct (IH _ H) as [H1|H1].
    - destruct c; cbn [dstep fst] in H1; [right; left; reflexivity|left; exact H1|left; exact H1].
    - right. right. exact H1. }
  destruct (fst (fold_left (@dstep comp) calls (false, None))) eqn:E; cbn [negb]; [|discriminate].
  destruct (Hf _ E) as [H|H]; [discriminate|]. destruct parsed; [intros _; split; [exact H|discriminate]|discriminate].
Qed.
End C13.

(* a diagram text without the start / end tags is rejected by the parser (so, by C13_diagram_history, no verdict) *)
Theorem C13_diagram_no_end_tag : forall s, last_split ENDUML s = None -> parse_text s = None.
Proof. intros s H. unfold parse_text, slice_tags. rewrite H. reflexivity. Qed.

(* entry point: mutually exclusive exclusion options, external patterns while externals are excluded *)
Theorem C13_options : forall exclusions regex_exclusions exclude_external external_exclusions regex_external_exclusions,
  options_valid exclusions regex_exclusions exclude_external external_exclusions regex_external_exclusions = true <->
  ~ (regex_exclusions = true /\ exclusions = true) /\
  ~ (regex_external_exclusions = true /\ external_exclusions = true) /\
  ~ (exclude_external = true /\ (external_exclusions = true \/ regex_external_exclusions = true)).
Proof.
  intros e re xe ee ree. unfold options_valid. destruct e, re, xe, ee, ree; cbn; intuition congruence.
Qed.

Print Assumptions C13_rule_history.
Print Assumptions C13_rule_incomplete_is_error.
Print Assumptions C13_unknown_name.
Print Assumptions C13_error_iff_missing.
Print Assumptions C13_alias_unknown_name.
Print Assumptions C13_no_match.
Print Assumptions C13_layer_history.
Print Assumptions C13_layer_undefined.
Print Assumptions C13_diagram_history.
Print Assumptions C13_diagram_no_end_tag.
Print Assumptions C13_options.

(* non-vacuity: the D14 history (should + import_anything) is rejected by the specification and is
   an error in the model; a complete history yields a verdict *)
Open Scope N_scope.
Example C13_example :
  let g := {| nodes := [[1]; [1;2]; [1;3]]; imps := [([1;2], [1;3])] |} in
  spec_accepts [RModulesThat; RAreNamed [[1;2]]; RShould; RImportAnything] = false /\
  run_rule N.eqb (fun _ _ => false) g [RModulesThat; RAreNamed [[1;2]]; RShould; RImportAnything] = Err EConfig /\
  run_rule N.eqb (fun _ _ => false) g [RModulesThat; RAreNamed [[1;2]]; RShould; RImport; RAreNamed [[1;3]]] = Pass.
Proof. repeat split; vm_compute; reflexivity. Qed.
