(* C06 — PlantUML diagrams parse to exactly their components, aliases and arrows.
   Two layers (Model/Puml.v): lexical ([lex_line] : text line -> pline, [slice_tags], [parse_text])
   and semantic ([parse_lines] : list pline -> components x relation).  The semantic theorems hold for
   every list of lines; the lexical layer is tied to the real parser by correspondence on printed diagrams
   and proved here for every documented line form and EVERY component name / alias / arrow label
   (C06_lex_*: tokens separated by single blanks; [is_name]: non-empty, word characters and dots), and for EVERY layout
   of such a line (C06_lex_layout_independent: indentation, trailing blanks, runs of blanks / tabs between the tokens).
   Tag slicing: C06_text_outside_tags_ignored / _no_tags_rejected / _no_end_tag_rejected (texts whose only '@' are the tags).
   Still partial: texts with further '@' characters or repeated tags are covered by evaluation on instances
   (C06_lexical_forms_partial) and by correspondence only. *)
From Coq Require Import List Bool NArith Permutation.
From PTA Require Import Sx Names Search Label Puml LabelProofs DiagramProofs PumlLexProofs PumlTagProofs.
Import ListNotations.

(* exactly the dependor -> dependee relation drawn, each end resolved through the alias table,
   whether a component is referred to by alias in one line and by name in another *)
Theorem C06_relation : forall ls a b,
  In (a, b) (snd (parse_lines ls)) <->
  exists x y, In (PArrow x y) ls /\ a = lookup_alias (aliases_of ls) x /\ b = lookup_alias (aliases_of ls) y.
Proof. exact parse_lines_relation. Qed.
Print Assumptions C06_relation.

(* exactly the set of declared or referenced components *)
Theorem C06_components : forall ls c,
  In c (fst (parse_lines ls)) <->
  (exists al, In (PDecl c al) ls) \/
  (exists x y, In (PArrow x y) ls /\ (c = lookup_alias (aliases_of ls) x \/ c = lookup_alias (aliases_of ls) y)).
Proof. exact parse_lines_components. Qed.
Print Assumptions C06_components.

(* every alias resolves to its component name; anything else stands for itself *)
Theorem C06_alias_resolved : forall al a n, NoDup (map fst al) -> In (a, n) al -> lookup_alias al a = n.
Proof. exact lookup_alias_hit. Qed.
Print Assumptions C06_alias_resolved.

Theorem C06_name_unchanged : forall al s, ~ In s (map fst al) -> lookup_alias al s = s.
Proof. exact lookup_alias_miss. Qed.
Print Assumptions C06_name_unchanged.

(* regardless of line order *)
Theorem C06_order_independent : forall ls ls',
  NoDup (map fst (aliases_of ls)) -> Permutation ls ls' ->
  (forall c, In c (fst (parse_lines ls)) <-> In c (fst (parse_lines ls'))) /\
  (forall e, In e (snd (parse_lines ls)) <-> In e (snd (parse_lines ls'))).
Proof. exact parse_lines_order_independent. Qed.
Print Assumptions C06_order_independent.

(* ---- lexical layer, all names ----
   [br n] = "[n]", [unwords] joins tokens with single blanks, [ref_form n t]: t is "[n]" or the bare n,
   [arrow_form dir t]: t is "-->", "-text->", "->" (dir = true: dependor on the left) or "<--", "<-text-", "<-". *)
Theorem C06_lex_decl_bracket : forall n, is_name n = true -> lex_line (unwords [br n]) = PDecl n None.
Proof. exact lex_decl_bracket. Qed.
Print Assumptions C06_lex_decl_bracket.
Theorem C06_lex_decl_component : forall n, is_name n = true -> lex_line (unwords [COMPONENT; n]) = PDecl n None.
Proof. exact lex_decl_component. Qed.
Print Assumptions C06_lex_decl_component.
Theorem C06_lex_decl_component_bracket : forall n, is_name n = true -> lex_line (unwords [COMPONENT; br n]) = PDecl n None.
Proof. exact lex_decl_component_bracket. Qed.
Print Assumptions C06_lex_decl_component_bracket.
Theorem C06_lex_decl_alias : forall n a, is_name n = true -> is_name a = true -> lex_line (unwords [br n; AS; a]) = PDecl n (Some a).
Proof. exact lex_decl_alias. Qed.
Print Assumptions C06_lex_decl_alias.
Theorem C06_lex_decl_component_alias : forall n a, is_name n = true -> is_name a = true ->
  lex_line (unwords [COMPONENT; br n; AS; a]) = PDecl n (Some a).
Proof. exact lex_decl_component_alias. Qed.
Print Assumptions C06_lex_decl_component_alias.
Theorem C06_lex_arrow : forall x y tx ty dir ar,
  is_name x = true -> is_name y = true -> ref_form x tx -> ref_form y ty -> arrow_form dir ar ->
  lex_line (unwords [tx; ar; ty]) = if dir then PArrow x y else PArrow y x.
Proof. exact lex_arrow. Qed.
Print Assumptions C06_lex_arrow.

(* the meaning of a line depends on its tokens only: any indentation, any trailing blanks, any non-empty run of
   blanks / tabs between two tokens ([layout_of ts s]: s is such a layout of the tokens ts) - so each C06_lex_* form
   above holds for every layout of its line.  D26 was the real parser violating exactly this. *)
Theorem C06_lex_layout_independent : forall ts s, layout_of ts s -> lex_line s = lex_line (unwords ts).
Proof. exact lex_line_layout. Qed.
Print Assumptions C06_lex_layout_independent.

Theorem C06_lex_arrow_any_layout : forall x y tx ty dir ar s,
  is_name x = true -> is_name y = true -> ref_form x tx -> ref_form y ty -> arrow_form dir ar ->
  layout_of [tx; ar; ty] s ->
  lex_line s = if dir then PArrow x y else PArrow y x.
Proof. intros x y tx ty dir ar s Hx Hy Rx Ry Ha HL. rewrite (lex_line_layout _ _ HL). exact (lex_arrow x y tx ty dir ar Hx Hy Rx Ry Ha). Qed.
Print Assumptions C06_lex_arrow_any_layout.

(* non-vacuity: "  [A]<TAB>--> [B]  " is a layout of the tokens [A], -->, [B] *)
Example C06_layout_example :
  layout_of [[91;65;93]; [45;45;62]; [91;66;93]] ([32;32] ++ [91;65;93] ++ [9] ++ [45;45;62] ++ [32] ++ ([91;66;93] ++ [32;32] ++ [])).
Proof.
  apply lo_lead; [reflexivity|]. apply lo_cons; [split; [discriminate|reflexivity]|reflexivity|discriminate|].
  apply lo_cons; [split; [discriminate|reflexivity]|reflexivity|discriminate|].
  apply lo_cons; [split; [discriminate|reflexivity]|reflexivity|discriminate|]. apply lo_nil. reflexivity.
Qed.

(* ---- text level: tags ----
   For texts in which '@' occurs only in the two tags: whatever stands before @startuml and after @enduml is ignored,
   the content in between is split into lines and parsed; a text without '@', or with the start tag only, is rejected. *)
Theorem C06_text_outside_tags_ignored : forall pre c post,
  no_at pre -> no_at c -> no_at post -> c <> [] ->
  parse_text (pre ++ STARTUML ++ c ++ ENDUML ++ post) = Some (parse_lines (map lex_line (split_lines c))).
Proof. exact parse_text_between. Qed.
Print Assumptions C06_text_outside_tags_ignored.

Theorem C06_no_tags_rejected : forall s, no_at s -> parse_text s = None.
Proof. exact parse_text_no_tags. Qed.
Print Assumptions C06_no_tags_rejected.

Theorem C06_no_end_tag_rejected : forall pre c, no_at pre -> no_at c -> parse_text (pre ++ STARTUML ++ c) = None.
Proof. exact parse_text_no_end. Qed.
Print Assumptions C06_no_end_tag_rejected.

(* the lexical layer on one instance of every documented line form, dotted names included; text outside the tags
   ignored; a text without the tag pair rejected.  (Strings below are code points: "[src.a] --> [B]" etc.) *)
Open Scope N_scope.
Definition s (l : list N) := l.
Theorem C06_lexical_forms_partial :
  (* [A] *)                      lex_line [91;65;93] = PDecl [65] None /\
  (* [src.a] as x *)             lex_line [91;115;114;99;46;97;93;32;97;115;32;120] = PDecl [115;114;99;46;97] (Some [120]) /\
  (* component A *)              lex_line [99;111;109;112;111;110;101;110;116;32;65] = PDecl [65] None /\
  (* component [A] *)            lex_line [99;111;109;112;111;110;101;110;116;32;91;65;93] = PDecl [65] None /\
  (* component [A] as x *)       lex_line [99;111;109;112;111;110;101;110;116;32;91;65;93;32;97;115;32;120] = PDecl [65] (Some [120]) /\
  (* [A] --> [B] *)              lex_line [91;65;93;32;45;45;62;32;91;66;93] = PArrow [65] [66] /\
  (* A -> x *)                   lex_line [65;32;45;62;32;120] = PArrow [65] [120] /\
  (* [A] <-- B *)                lex_line [91;65;93;32;60;45;45;32;66] = PArrow [66] [65] /\
  (* x <- [B] *)                 lex_line [120;32;60;45;32;91;66;93] = PArrow [66] [120] /\
  (* [A] -uses-> [B] *)          lex_line [91;65;93;32;45;117;115;101;115;45;62;32;91;66;93] = PArrow [65] [66] /\
  (* [A] <-uses- [B] *)          lex_line [91;65;93;32;60;45;117;115;101;115;45;32;91;66;93] = PArrow [66] [65] /\
  (* title Foo *)                lex_line [116;105;116;108;101;32;70;111;111] = PNoise /\
  (* "x\n@startuml\n[A]\n@enduml\ny" *)
  parse_text [120;10;64;115;116;97;114;116;117;109;108;10;91;65;93;10;64;101;110;100;117;109;108;10;121] = Some ([[65]], []) /\
  (* "[A] --> [B]" without tags *)
  parse_text [91;65;93;32;45;45;62;32;91;66;93] = None.
Proof. repeat split; vm_compute; reflexivity. Qed.
Print Assumptions C06_lexical_forms_partial.

(* non-vacuity: D10's shape - '[m2] as c', '[m2] -> [util]', '[core] <- c': both arrows of m2 are kept *)
Example C06_example :
  parse_lines [PDecl [1] (Some [9]); PArrow [1] [2]; PArrow [9] [3]] = ([[2]; [1]; [3]], [([1], [2]); ([1], [3])]).
Proof. vm_compute. reflexivity. Qed.
