(* C03 — violation reports name exactly the offending imports and missing imports.
   [lines_of (verdict ...)] are the abstract report lines of the model
   (LConc x y = "x imports y" / "x is imported by y" in user order,
    LMissing S os = "S does not import O1, O2", LMissingAny S os = "S does not
    import any module that is not O1, O2"); [violating] (Model/SpecLines.v) is
   the rule's violating set in terms of the import relation and D(.) only.
   The English rendering of a line is modelled, not verified (DESIGN 5/C03). *)
From Coq Require Import List Bool NArith.
From PTA Require Import Names Graph Search Rule SpecRule SpecLines NamesProofs SearchProofs RuleProofs AlgebraProofs AliasProofs.
Import ListNotations.

(* every reported line belongs to the violating set *)
Theorem C03_report_sound :
  forall (comp : Type) (ceqb : comp -> comp -> bool),
  (forall x y, reflect (x = y) (ceqb x y)) ->
  forall (rmatch : N -> list comp -> bool) g v imp exc Ss Os l,
  strict ceqb g Ss Os ->
  In l (lines_of (verdict ceqb rmatch g (mk_cfg v imp exc Ss Os))) ->
  violating ceqb g v imp exc Ss Os l.
Proof. exact @strict_report_sound. Qed.
Print Assumptions C03_report_sound.

(* every member of the violating set is reported (a "does not import" line up to the order of its objects) *)
Theorem C03_report_complete :
  forall (comp : Type) (ceqb : comp -> comp -> bool),
  (forall x y, reflect (x = y) (ceqb x y)) ->
  forall (rmatch : N -> list comp -> bool) g v imp exc Ss Os l,
  strict ceqb g Ss Os ->
  violating ceqb g v imp exc Ss Os l ->
  exists l', In l' (lines_of (verdict ceqb rmatch g (mk_cfg v imp exc Ss Os))) /\ line_same l l'.
Proof. exact @strict_report_complete. Qed.
Print Assumptions C03_report_complete.

(* no import unrelated to the rule's subject is ever reported *)
Theorem C03_nothing_unrelated :
  forall (comp : Type) (ceqb : comp -> comp -> bool),
  (forall x y, reflect (x = y) (ceqb x y)) ->
  forall (rmatch : N -> list comp -> bool) g v imp exc Ss Os x y,
  strict ceqb g Ss Os ->
  In (LConc x y) (lines_of (verdict ceqb rmatch g (mk_cfg v imp exc Ss Os))) ->
  exists S, In S Ss /\ inD ceqb S x = true.
Proof. exact @strict_report_about_subject. Qed.
Print Assumptions C03_nothing_unrelated.

(* the aliases ('should not import anything' / 'should not be imported by anything', pairwise unrelated subjects):
   the report lists exactly the imports between a module of a subject and something outside every subject *)
Theorem C03_alias_report :
  forall (comp : Type) (ceqb : comp -> comp -> bool),
  (forall x y, reflect (x = y) (ceqb x y)) ->
  forall (rmatch : N -> list comp -> bool) g imp (ss : list (@filt comp)) l,
  wf_graph g -> (forall f, In f ss -> exists_f ceqb g f = true) -> pw_unrel ceqb (map fid ss) -> ss <> [] ->
  (In l (lines_of (verdict ceqb rmatch g (any_cfg imp (map (@to_u comp) ss)))) <->
   exists S e, In S ss /\ In e (imps g) /\ is_other ceqb imp S ss (orient imp e) = true /\ l = conc imp e).
Proof. exact @alias_report. Qed.
Print Assumptions C03_alias_report.

(* non-vacuity: the D1 shape z -> y -> a; "a should not be imported by modules except b"
   reports exactly  a is imported by y  and nothing about z *)
Open Scope N_scope.
Example C03_example :
  lines_of (verdict N.eqb (fun _ _ => false)
     {| nodes := [[1]; [1;2]; [1;3]; [1;4]; [1;5]]; imps := [([1;5], [1;4]); ([1;4], [1;2])] |}
     (mk_cfg ShouldNot false true [Named [1;2]] [Named [1;3]]))
  = [LConc [1;2] [1;4]].
Proof. vm_compute. reflexivity. Qed.
