(* placeholder *)
