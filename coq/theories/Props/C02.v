(* C02 — every import statement in a scanned file becomes an import edge, only those.
   [stmt] is a statement rose tree: SBlock stands for ANY statement with nested statement
   lists (def, class, if/elif/else, try/except/else/finally, loops and their else, with,
   match cases, and grammar positions not yet invented), [collect] the traversal of
   converter.py, [resolve_stmt] the naming rules, [scan] the whole pipeline. *)
From Coq Require Import List Bool NArith.
From PTA Require Import Names Graph Search Scan NamesProofs SearchProofs GraphProofs ScanProofs.
Import ListNotations.

(* every import statement, at any depth of any compound statement, is collected - and only those *)
Theorem C02_collect : forall (comp : Type) (s : @stmt comp) body,
  In s (collect body) <-> exists t, In t body /\ occurs_in s t.
Proof. exact @collect_spec. Qed.
Print Assumptions C02_collect.

(* naming: 'import a.b.c [as x]' names a.b.c (adjusted by the module_path prefix when that is a scanned module) *)
Theorem C02_names_import : forall (comp : Type) (ceqb : comp -> comp -> bool) internal ap u n,
  resolve_stmt ceqb internal ap u (SImport [n]) =
  [{| i_importer := u; i_importee := adjust ceqb internal ap n; i_chain := proper_prefixes (adjust ceqb internal ap n) |}].
Proof. reflexivity. Qed.
Print Assumptions C02_names_import.

(* 'from P import n' names P.n when that is itself a scanned (internal) module and P otherwise *)
Theorem C02_names_from : forall (comp : Type) (ceqb : comp -> comp -> bool) internal u P nm,
  i_importee (hd {| i_importer := u; i_importee := []; i_chain := [] |}
                 (resolve_stmt ceqb internal None u (SFrom 0 (Some P) [nm]))) =
  if memb ceqb (P ++ [nm]) internal then P ++ [nm] else P.
Proof. intros. cbn. destruct (memb ceqb (P ++ [nm]) internal); reflexivity. Qed.
Print Assumptions C02_names_from.

(* relative forms are resolved against the importing file's package: level 1 = the file's own package *)
Theorem C02_names_relative : forall (comp : Type) (ceqb : comp -> comp -> bool) internal ap u l P nm,
  i_importee (hd {| i_importer := u; i_importee := []; i_chain := [] |}
                 (resolve_stmt ceqb internal ap u (SFrom (S l) (Some P) [nm]))) =
  let pkg := firstn (length u - S l) u in
  if memb ceqb (pkg ++ P ++ [nm]) internal then pkg ++ P ++ [nm] else pkg ++ P.
Proof. intros. cbn. rewrite <- app_assoc. destruct (memb ceqb _ internal); cbn; rewrite <- ?app_assoc; reflexivity. Qed.
Print Assumptions C02_names_relative.

(* the architecture's imports are exactly: an import statement occurring in the importer's file, resolved as above,
   kept by the external-library options, between two different modules of the graph (an import of a direct child
   package is the hierarchy edge itself) *)
Theorem C02_edges_exact :
  forall (comp : Type) (ceqb : comp -> comp -> bool), (forall x y, reflect (x = y) (ceqb x y)) ->
  forall (c : @scan_cfg comp) r mods files a b,
  sc_limit c = None ->
  walk_from ceqb (sc_excl c) (sc_root c) (sc_tree c) (sc_mp c) = Some (mods, files) ->
  scan ceqb c = Some r ->
  (In (a, b) (imps (sr_graph r)) <->
   exists body s i,
     In (a, body) files /\ In s (collect body) /\
     In i (resolve_stmt ceqb (filter (is_internal ceqb c) mods) (abs_prefix c) a s) /\
     i_importee i = b /\ keep_import ceqb c i = true /\
     a <> b /\ In a (nodes (sr_graph r)) /\ In b (nodes (sr_graph r)) /\ childb ceqb a b = false).
Proof. exact @scan_edges. Qed.
Print Assumptions C02_edges_exact.

(* non-vacuity: an import three blocks deep, in the else-branch position, in proj/pkg/m.py *)
Open Scope N_scope.
Example C02_example :
  let tree := [FDir 2 [FFile 3 true [SBlock [SOther; SBlock [SBlock [SFrom 0 (Some [1;2]) [4]]]]]; FFile 4 true []]] in
  let c := {| sc_root := 1; sc_tree := tree; sc_mp := []; sc_excl := fun _ => false; sc_exclude_external := true;
              sc_ext_excl := fun _ => false; sc_has_ext_excl := false; sc_limit := None |} in
  option_map (fun r => imps (sr_graph r)) (scan N.eqb c) = Some [([1;2;3], [1;2;4])].
Proof. vm_compute. reflexivity. Qed.
