(* C11 — regex, partial-name and batched specifications equal their expansions.
   Python's re.match enters as the Section variable [rmatch : N -> name -> bool]
   (pattern id, module name); the harness evaluates it with the real [re] and
   hands the truth table to the model, so a change from match to
   search/fullmatch in the code is a disagreement.  [matching g p] is the list
   of modules of [g] whose name the regex matches. *)
From Coq Require Import List Bool NArith.
From PTA Require Import Sx Names Graph Search Rule SpecRule NamesProofs SearchProofs RuleProofs AlgebraProofs ExpansionProofs.
From PTA Require Import Glob GlobProofs.
Import ListNotations.

Section C11.
Context (comp : Type) (ceqb : comp -> comp -> bool) (ceqb_spec : forall x y, reflect (x = y) (ceqb x y)).
Context (rmatch : N -> list comp -> bool).
Notation V := (AlgebraProofs.V ceqb rmatch).
Notation mk := (@mk_ucfg comp).

(* have_name_matching(regex) as subject = naming all matching modules: same verdict, same report *)
Theorem C11_regex_subject : forall g v imp exc p Os, matching rmatch g p <> [] ->
  V g (mk v imp exc [URegex p] Os) = V g (mk v imp exc (map UNamed (matching rmatch g p)) Os).
Proof. exact (regex_subject_expansion ceqb rmatch). Qed.

Theorem C11_regex_object : forall g v imp exc p Ss, matching rmatch g p <> [] ->
  V g (mk v imp exc Ss [URegex p]) = V g (mk v imp exc Ss (map UNamed (matching rmatch g p))).
Proof. exact (regex_object_expansion ceqb rmatch). Qed.

(* nothing matches: an error, never a verdict *)
Theorem C11_no_match_subject : forall g v imp exc p Os, matching rmatch g p = [] ->
  is_err (V g (mk v imp exc [URegex p] Os)) = true.
Proof. exact (regex_subject_no_match ceqb rmatch). Qed.

Theorem C11_no_match_object : forall g v imp exc p Ss, matching rmatch g p = [] ->
  is_err (V g (mk v imp exc Ss [URegex p])) = true.
Proof. exact (regex_object_no_match ceqb rmatch). Qed.

(* several subjects, explicit objects = conjunction of the single-subject rules;
   all 12 shapes, related (ancestor/descendant) modules included *)
Theorem C11_batch_subjects : forall g v imp exc (ss os : list (@filt comp)), ss <> [] -> os <> [] ->
  (passes (V g (mk v imp exc (map (@to_u comp) ss) (map (@to_u comp) os))) <->
   forall s, In s ss -> passes (V g (mk v imp exc [to_u s] (map (@to_u comp) os)))).
Proof. exact (batch_subjects ceqb ceqb_spec rmatch). Qed.

(* plain should / should_not: several objects = conjunction over objects *)
Theorem C11_batch_objects : forall g v imp (ss os : list (@filt comp)), v <> ShouldOnly -> ss <> [] -> os <> [] ->
  (passes (V g (mk v imp false (map (@to_u comp) ss) (map (@to_u comp) os))) <->
   forall o, In o os -> passes (V g (mk v imp false (map (@to_u comp) ss) [to_u o]))).
Proof. exact (batch_objects ceqb ceqb_spec rmatch). Qed.
End C11.

(* the deprecated partial-name form is its regex translation: with names rendered as dotted
   strings and the regex of pattern [pat] being the glob converter's output, a module matches
   exactly when its name has the glob meaning (C08_glob) *)
Theorem C11_partial_name : forall (pat : str) (n : list (list N)),
  no_newline (render n) -> (glob_match pat (render n) = true <-> glob_spec pat (render n)).
Proof. intros pat n. exact (glob_match_spec pat (render n)). Qed.

Print Assumptions C11_regex_subject.
Print Assumptions C11_regex_object.
Print Assumptions C11_no_match_subject.
Print Assumptions C11_no_match_object.
Print Assumptions C11_batch_subjects.
Print Assumptions C11_batch_objects.
Print Assumptions C11_partial_name.

(* non-vacuity: a regex id matching two modules, one of them below the other *)
Open Scope N_scope.
Example C11_example :
  let g := {| nodes := [[1]; [1;2]; [1;2;3]; [1;4]]; imps := [([1;2;3], [1;4])] |} in
  let rm := fun (p : N) (n : list N) => match n with [1;2] | [1;2;3] => true | _ => false end in
  matching rm g 7 = [[1;2]; [1;2;3]] /\
  AlgebraProofs.V N.eqb rm g (mk_ucfg Should true false [URegex 7] [UNamed [1;4]]) = Pass.
Proof. split; vm_compute; reflexivity. Qed.

(* K3 (known finding): for the two 'anything' aliases the regex form is NOT its expansion when the regex matches a module
   together with its own sub modules: nodes 1, 1.2, 1.2.3, 1.4, 1.4.5; import 1.2.3 -> 1.4.5; pattern #1 matches 1.2 and 1.2.3.
   'modules matching #1 should not import anything' passes, 'modules named 1.2, 1.2.3 should not import anything' fails
   (named lists are reduced to their top-most modules when the alias is rewritten; regex matches are expanded afterwards). *)
Theorem C11_regex_anything_refuted :
  exists (g : @graph N) (rm : N -> list N -> bool),
    (forall n, rm 1%N n = Names.prefixb N.eqb [1;2]%N n) /\
    verdict N.eqb rm g (any_cfg true [URegex 1%N]) = Pass /\
    verdict N.eqb rm g (any_cfg true [UNamed [1;2]%N; UNamed [1;2;3]%N]) <> Pass.
Proof.
  exists {| nodes := [[1]; [1;2]; [1;2;3]; [1;4]; [1;4;5]]%N; imps := [([1;2;3], [1;4;5])]%N |}, (fun _ n => Names.prefixb N.eqb [1;2]%N n).
  split; [reflexivity|]. split; [vm_compute; reflexivity|vm_compute; discriminate].
Qed.
Print Assumptions C11_regex_anything_refuted.
