(* C10 — external-library options affect only external modules, never internal ones.
   [keep_import] / [external_modules] model import_filter.py, importee_module_calculator.py and the
   module filter of graph_generator.py; exclusion patterns on dotted names are the oracle [sc_ext_excl]. *)
From Coq Require Import List Bool NArith.
From PTA Require Import Names Graph Search Scan NamesProofs SearchProofs GraphProofs ScanProofs RerootProofs.
Import ListNotations.

Section C10.
Context (comp : Type) (ceqb : comp -> comp -> bool) (ceqb_spec : forall x y, reflect (x = y) (ceqb x y)).

(* externals excluded (default): no import to a module outside module_path, no external module *)
Theorem C10_excluded_no_external_import : forall (c : @scan_cfg comp) i,
  sc_exclude_external c = true -> keep_import ceqb c i = true -> is_internal ceqb c (i_importee i) = true.
Proof. exact (excluded_no_external ceqb). Qed.

Theorem C10_excluded_no_external_module : forall (c : @scan_cfg comp) imports,
  sc_exclude_external c = true -> external_modules ceqb c imports = [].
Proof. exact (excluded_no_external_modules ceqb). Qed.

(* included: every imported external module appears together with all of its ancestor packages *)
Theorem C10_included_ancestors : forall (c : @scan_cfg comp) imports i m,
  sc_exclude_external c = false -> sc_has_ext_excl c = false ->
  In i imports -> is_internal ceqb c (i_importee i) = false ->
  (m = i_importee i \/ In m (i_chain i)) -> In m (external_modules ceqb c imports).
Proof. exact (included_ancestors ceqb). Qed.

(* an external matching a pattern, or with a matching ancestor, disappears together with its imports *)
Theorem C10_pattern_removes_import : forall (c : @scan_cfg comp) i,
  sc_exclude_external c = false -> sc_has_ext_excl c = true -> is_internal ceqb c (i_importee i) = false ->
  (sc_ext_excl c (i_importee i) = true \/ exists p, In p (i_chain i) /\ sc_ext_excl c p = true) ->
  keep_import ceqb c i = false.
Proof. exact (pattern_removes_import ceqb). Qed.

Theorem C10_pattern_removes_module : forall (c : @scan_cfg comp) imports m,
  sc_exclude_external c = false -> sc_has_ext_excl c = true -> sc_ext_excl c m = true ->
  ~ In m (external_modules ceqb c imports).
Proof. exact (pattern_removes_module ceqb). Qed.

(* in every configuration: an import of an internal module is kept, and every module the options add is external -
   external options and patterns never add, remove or alter anything internal *)
Theorem C10_internal_import_kept : forall (c : @scan_cfg comp) i,
  is_internal ceqb c (i_importee i) = true -> keep_import ceqb c i = true.
Proof. intros c i. exact (internal_imports_invariant ceqb c c i). Qed.

Theorem C10_added_modules_external : forall (c : @scan_cfg comp) imports m,
  (forall i, In i imports -> forall p, In p (i_chain i) -> prefixb ceqb p (i_importee i) = true) ->
  In m (external_modules ceqb c imports) -> is_internal ceqb c m = false.
Proof. exact (external_modules_are_external ceqb ceqb_spec). Qed.
End C10.

Print Assumptions C10_excluded_no_external_import.
Print Assumptions C10_excluded_no_external_module.
Print Assumptions C10_included_ancestors.
Print Assumptions C10_pattern_removes_import.
Print Assumptions C10_pattern_removes_module.
Print Assumptions C10_internal_import_kept.
Print Assumptions C10_added_modules_external.

(* A FILE exclusion pattern is about paths: it reaches the architecture through the walk of the directory tree and through
   nothing else.  If it excludes no file or directory of the tree (the walk is the same as with the other predicate), the whole
   architecture is the same - in particular no external module, ancestor of one, or import to one is touched by it, however
   the pattern's text compares with their dotted names. *)
Theorem C10_file_patterns_act_on_paths_only :
  forall (comp : Type) (ceqb : comp -> comp -> bool) (c : @scan_cfg comp) (e : list comp -> bool),
  walk_from ceqb e (sc_root c) (sc_tree c) (sc_mp c) = walk_from ceqb (sc_excl c) (sc_root c) (sc_tree c) (sc_mp c) ->
  scan ceqb (with_excl c e) = scan ceqb c.
Proof. exact @scan_excl_only_through_walk. Qed.
Print Assumptions C10_file_patterns_act_on_paths_only.

(* non-vacuity: proj/m.py imports logging.handlers (9.10), os (11) and proj.n; pattern excludes 'logging' *)
Open Scope N_scope.
Example C10_example :
  let tree := [FFile 2 true [SImport [[9;10]]; SImport [[11]]; SImport [[1;3]]]; FFile 3 true []] in
  let c := {| sc_root := 1; sc_tree := tree; sc_mp := []; sc_excl := fun _ => false; sc_exclude_external := false;
              sc_ext_excl := fun m => match m with [9] => true | _ => false end; sc_has_ext_excl := true; sc_limit := None |} in
  option_map (fun r => (nodes (sr_graph r), imps (sr_graph r))) (scan N.eqb c)
  = Some ([[1]; [1;2]; [1;3]; [11]], [([1;2], [11]); ([1;2], [1;3])]).
Proof. vm_compute. reflexivity. Qed.
