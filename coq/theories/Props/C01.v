(* C01 — module-rule verdicts equal the documented rule semantics.
   Statements only; proofs in Proofs/RuleProofs.v (which rests on
   Proofs/SearchProofs.v: the three graph queries collapse to the documented
   comprehensions on pairwise unrelated filters).

   Reading guide: [verdict g cfg] is the model of Rule.assert_applies
   (Model/Rule.v), [mk_cfg v imp exc Ss Os] the configuration the fluent API
   builds for   Ss <v> import/be-imported-by [except] Os,   [spec_holds] the
   documented semantics (Model/SpecRule.v, 40 lines), [strict] the domain the
   property names: well-formed graph, every named module exists, subjects and
   objects pairwise unrelated in the hierarchy, both lists non-empty. *)
From Coq Require Import List Bool NArith.
From PTA Require Import Names Graph Search Rule SpecRule SpecLines NamesProofs SearchProofs RuleProofs.
Import ListNotations.

Theorem C01_verdict :
  forall (comp : Type) (ceqb : comp -> comp -> bool),
  (forall x y, reflect (x = y) (ceqb x y)) ->
  forall (rmatch : N -> list comp -> bool) g v imp exc Ss Os,
  strict ceqb g Ss Os ->
  verdict ceqb rmatch g (mk_cfg v imp exc Ss Os) =
    if spec_holds ceqb g v imp exc Ss Os then Pass
    else Fail (lines_of (verdict ceqb rmatch g (mk_cfg v imp exc Ss Os))).
Proof. exact @strict_verdict. Qed.
Print Assumptions C01_verdict.

(* never an error on the strict domain: returns normally or raises AssertionError *)
Theorem C01_total :
  forall (comp : Type) (ceqb : comp -> comp -> bool),
  (forall x y, reflect (x = y) (ceqb x y)) ->
  forall (rmatch : N -> list comp -> bool) g v imp exc Ss Os,
  strict ceqb g Ss Os ->
  is_err (verdict ceqb rmatch g (mk_cfg v imp exc Ss Os)) = false.
Proof. exact @strict_total. Qed.
Print Assumptions C01_total.

(* the three public graph queries are the documented comprehensions *)
Theorem C01_query_between :
  forall (comp : Type) (ceqb : comp -> comp -> bool),
  (forall x y, reflect (x = y) (ceqb x y)) ->
  forall g d u, wf_graph g -> exists_f ceqb g d = true -> exists_f ceqb g u = true ->
  related ceqb (fid d) (fid u) = false ->
  q_between ceqb g d u = Ok (filter (fun e => inD ceqb d (fst e) && inD ceqb u (snd e)) (imps g)).
Proof. exact @q_between_char. Qed.
Print Assumptions C01_query_between.

Theorem C01_query_other_out :
  forall (comp : Type) (ceqb : comp -> comp -> bool),
  (forall x y, reflect (x = y) (ceqb x y)) ->
  forall g d us, wf_graph g -> exists_f ceqb g d = true -> (forall u, In u us -> exists_f ceqb g u = true) ->
  unrel_from ceqb d us -> pw_unrel ceqb (map fid us) ->
  q_other_out ceqb g d us = Ok (filter (fun e => is_other ceqb true d us e) (imps g)).
Proof. exact @q_other_out_char. Qed.
Print Assumptions C01_query_other_out.

Theorem C01_query_other_in :
  forall (comp : Type) (ceqb : comp -> comp -> bool),
  (forall x y, reflect (x = y) (ceqb x y)) ->
  forall g ds u, wf_graph g -> exists_f ceqb g u = true -> (forall d, In d ds -> exists_f ceqb g d = true) ->
  unrel_from ceqb u ds -> pw_unrel ceqb (map fid ds) ->
  q_other_in ceqb g ds u = Ok (filter (fun e => is_other ceqb false u ds (snd e, fst e)) (imps g)).
Proof. exact @q_other_in_char. Qed.
Print Assumptions C01_query_other_in.

(* ---- non-vacuity: a 7-module tree with 5 imports and a 2-subject / 2-object rule is strict ---- *)
Open Scope N_scope.
Definition ex_g : @graph N :=
  {| nodes := [[1]; [1;2]; [1;3]; [1;4]; [1;4;5]; [1;4;6]; [1;7]];
     imps := [([1;2], [1;3]); ([1;4;5], [1;2]); ([1;4;6], [1;7]); ([1;3], [1;4;5]); ([1;7], [1])] |}.
Definition ex_Ss : list (@filt N) := [Named [1;2]; SubOf [1;4]].
Definition ex_Os : list (@filt N) := [Named [1;3]; Named [1;7]].

Lemma N_eqb_reflect : forall x y : N, reflect (x = y) (N.eqb x y).
Proof. intros x y. apply N.eqb_spec. Qed.

Example C01_strict_example : strict N.eqb ex_g ex_Ss ex_Os.
Proof.
  constructor.
  - intros a b H. simpl in H.
    repeat (destruct H as [H|H]; [injection H as <- <-; simpl; intuition congruence|]). destruct H.
  - intros f H. simpl in H. repeat (destruct H as [<-|H]; [reflexivity|]). destruct H.
  - simpl. repeat split; intros y Hy; simpl in Hy; repeat (destruct Hy as [<-|Hy]; [reflexivity|]); destruct Hy.
  - discriminate.
  - discriminate.
Qed.

(* and both verdicts occur on it *)
Example C01_example_verdicts :
  verdict N.eqb (fun _ _ => false) ex_g (mk_cfg Should true false ex_Ss ex_Os) <> Pass /\
  verdict N.eqb (fun _ _ => false) ex_g (mk_cfg ShouldNot false false ex_Ss [Named [1;7]]) = Pass.
Proof. split; [vm_compute; discriminate | vm_compute; reflexivity]. Qed.
