(* placeholder until the theorems land: states nothing, so the proof stage reports it broken *)
