(* C01 — module-rule verdicts equal the documented rule semantics.
   Statements only; proofs in Proofs/RuleProofs.v (which rests on
   Proofs/SearchProofs.v: the three graph queries collapse to the documented
   comprehensions on pairwise unrelated filters).

   Reading guide: [verdict g cfg] is the model of Rule.assert_applies
   (Model/Rule.v), [mk_cfg v imp exc Ss Os] the configuration the fluent API
   builds for   Ss <v> import/be-imported-by [except] Os,   [spec_holds] the
   documented semantics (Model/SpecRule.v, 40 lines), [strict] the domain the
   property names: well-formed graph, every named module exists, subjects and
   objects pairwise unrelated in the hierarchy, both lists non-empty. *)
From Coq Require Import List Bool NArith.
From PTA Require Import Names Graph Search Worklist Rule WRule SpecRule SpecLines NamesProofs SearchProofs RuleProofs GraphProofs WorklistProofs WRuleProofs AlgebraProofs AliasProofs Builder BuilderProofs.
Import ListNotations.

Theorem C01_verdict :
  forall (comp : Type) (ceqb : comp -> comp -> bool),
  (forall x y, reflect (x = y) (ceqb x y)) ->
  forall (rmatch : N -> list comp -> bool) g v imp exc Ss Os,
  strict ceqb g Ss Os ->
  verdict ceqb rmatch g (mk_cfg v imp exc Ss Os) =
    if spec_holds ceqb g v imp exc Ss Os then Pass
    else Fail (lines_of (verdict ceqb rmatch g (mk_cfg v imp exc Ss Os))).
Proof. exact @strict_verdict. Qed.
Print Assumptions C01_verdict.

(* never an error on the strict domain: returns normally or raises AssertionError *)
Theorem C01_total :
  forall (comp : Type) (ceqb : comp -> comp -> bool),
  (forall x y, reflect (x = y) (ceqb x y)) ->
  forall (rmatch : N -> list comp -> bool) g v imp exc Ss Os,
  strict ceqb g Ss Os ->
  is_err (verdict ceqb rmatch g (mk_cfg v imp exc Ss Os)) = false.
Proof. exact @strict_total. Qed.
Print Assumptions C01_total.

(* the two aliases: 'Ss should not import anything' / 'Ss should not be imported by anything' with pairwise unrelated
   existing subjects pass exactly when the documented semantics of 'should not ... except' hold with the subjects
   themselves as the objects - no import leaves (enters) a subject for (from) something outside every subject -
   and are never an error.  (C01_verdict does not cover this shape: a subject is related to itself as an object.) *)
Theorem C01_alias_verdict :
  forall (comp : Type) (ceqb : comp -> comp -> bool),
  (forall x y, reflect (x = y) (ceqb x y)) ->
  forall (rmatch : N -> list comp -> bool) g imp (ss : list (@filt comp)),
  wf_graph g -> (forall f, In f ss -> exists_f ceqb g f = true) -> pw_unrel ceqb (map fid ss) -> ss <> [] ->
  (verdict ceqb rmatch g (any_cfg imp (map (@to_u comp) ss)) = Pass <-> spec_holds ceqb g ShouldNot imp true ss ss = true) /\
  is_err (verdict ceqb rmatch g (any_cfg imp (map (@to_u comp) ss))) = false.
Proof. exact @alias_verdict. Qed.
Print Assumptions C01_alias_verdict.

(* the three public graph queries are the documented comprehensions *)
Theorem C01_query_between :
  forall (comp : Type) (ceqb : comp -> comp -> bool),
  (forall x y, reflect (x = y) (ceqb x y)) ->
  forall g d u, wf_graph g -> exists_f ceqb g d = true -> exists_f ceqb g u = true ->
  related ceqb (fid d) (fid u) = false ->
  q_between ceqb g d u = Ok (filter (fun e => inD ceqb d (fst e) && inD ceqb u (snd e)) (imps g)).
Proof. exact @q_between_char. Qed.
Print Assumptions C01_query_between.

Theorem C01_query_other_out :
  forall (comp : Type) (ceqb : comp -> comp -> bool),
  (forall x y, reflect (x = y) (ceqb x y)) ->
  forall g d us, wf_graph g -> exists_f ceqb g d = true -> (forall u, In u us -> exists_f ceqb g u = true) ->
  unrel_from ceqb d us -> pw_unrel ceqb (map fid us) ->
  q_other_out ceqb g d us = Ok (filter (fun e => is_other ceqb true d us e) (imps g)).
Proof. exact @q_other_out_char. Qed.
Print Assumptions C01_query_other_out.

Theorem C01_query_other_in :
  forall (comp : Type) (ceqb : comp -> comp -> bool),
  (forall x y, reflect (x = y) (ceqb x y)) ->
  forall g ds u, wf_graph g -> exists_f ceqb g u = true -> (forall d, In d ds -> exists_f ceqb g d = true) ->
  unrel_from ceqb u ds -> pw_unrel ceqb (map fid ds) ->
  q_other_in ceqb g ds u = Ok (filter (fun e => is_other ceqb false u ds (snd e, fst e)) (imps g)).
Proof. exact @q_other_in_char. Qed.
Print Assumptions C01_query_other_in.

(* ---- the loops as written ----
   Model/Worklist.v transcribes the four loops of breadth_first_searches.py (stack, checked set, successor /
   predecessor enumeration, hierarchy-edge test, nodes_to_exclude bookkeeping).  On every graph whose node set is
   closed under ancestors and whose imports are between nodes and never a hierarchy pair they terminate within the
   fuel the queries give them and return exactly the imports of the comprehensions above ([res_equiv]: same error,
   or lists with the same elements) - for ANY filters, related or not.  C01_built_graph_wellformed: every graph the
   library builds (any module list, import list, level limit) satisfies the three hypotheses. *)
Definition anc_closed {comp} (g : @graph comp) : Prop :=
  forall n p, In n (nodes g) -> In p (proper_prefixes n) -> In p (nodes g).
Definition no_hier_imports {comp} (ceqb : comp -> comp -> bool) (g : @graph comp) : Prop :=
  forall a b, In (a, b) (imps g) -> childb ceqb a b = false.

Theorem C01_built_graph_wellformed :
  forall (comp : Type) (ceqb : comp -> comp -> bool), (forall x y, reflect (x = y) (ceqb x y)) ->
  forall mods imports lim,
  wf_graph (build_graph ceqb mods imports lim) /\ anc_closed (build_graph ceqb mods imports lim) /\
  no_hier_imports ceqb (build_graph ceqb mods imports lim).
Proof.
  intros comp ceqb Hs mods imports lim. split; [|split].
  - intros a b H. apply (build_imps_between_nodes ceqb Hs) in H. exact H.
  - intros n p Hn Hp. exact (build_nodes_ancestor_closed_lim ceqb Hs lim mods imports n p Hn Hp).
  - intros a b H. exact (build_imps_no_hier ceqb Hs mods imports lim a b H).
Qed.
Print Assumptions C01_built_graph_wellformed.

Theorem C01_loop_submodules :
  forall (comp : Type) (ceqb : comp -> comp -> bool), (forall x y, reflect (x = y) (ceqb x y)) ->
  forall g, wf_graph g -> anc_closed g -> forall start, In start (nodes g) ->
  exists l, w_submodules ceqb g start = Some l /\ forall x, In x l <-> (In x (nodes g) /\ prefixb ceqb start x = true).
Proof.
  intros comp ceqb Hs g Hwf Hanc start Hin.
  destruct (w_submodules_spec ceqb Hs g Hwf Hanc start Hin) as [l [E H]]. exists l. split; [exact E|].
  intros x. rewrite H. apply (in_desc_incl ceqb).
Qed.
Print Assumptions C01_loop_submodules.

Theorem C01_loop_between :
  forall (comp : Type) (ceqb : comp -> comp -> bool), (forall x y, reflect (x = y) (ceqb x y)) ->
  forall g, wf_graph g -> anc_closed g -> no_hier_imports ceqb g -> forall d u,
  exists r, w_between ceqb g d u = Some r /\ res_equiv r (q_between ceqb g d u).
Proof. exact @w_between_refines. Qed.
Print Assumptions C01_loop_between.

Theorem C01_loop_other_out :
  forall (comp : Type) (ceqb : comp -> comp -> bool), (forall x y, reflect (x = y) (ceqb x y)) ->
  forall g, wf_graph g -> anc_closed g -> no_hier_imports ceqb g -> forall d us,
  exists r, w_other_out ceqb g d us = Some r /\ res_equiv r (q_other_out ceqb g d us).
Proof. exact @w_other_out_refines. Qed.
Print Assumptions C01_loop_other_out.

Theorem C01_loop_other_in :
  forall (comp : Type) (ceqb : comp -> comp -> bool), (forall x y, reflect (x = y) (ceqb x y)) ->
  forall g, wf_graph g -> anc_closed g -> no_hier_imports ceqb g -> forall ds u,
  exists r, w_other_in ceqb g ds u = Some r /\ res_equiv r (q_other_in ceqb g ds u).
Proof. exact @w_other_in_refines. Qed.
Print Assumptions C01_loop_other_in.

(* ... and therefore the whole evaluation: Rule.assert_applies run over the transcribed loops (Model/WRule.v: same
   conversion, requirement checks and eight buckets, the three graph queries being the worklist loops) never runs out of
   fuel and has the outcome of [verdict] - same class, same error, same SET of report lines - for EVERY configuration
   (any filters, regexes, aliases, incomplete or contradictory ones) on every such graph.  Every theorem about [verdict]
   (C01_verdict, C03, C11, C12, C13, C15) thereby speaks about the loops of breadth_first_searches.py. *)
Theorem C01_loops_verdict :
  forall (comp : Type) (ceqb : comp -> comp -> bool), (forall x y, reflect (x = y) (ceqb x y)) ->
  forall (rmatch : N -> list comp -> bool) g, wf_graph g -> anc_closed g -> no_hier_imports ceqb g -> forall c,
  exists o, w_assert_applies ceqb rmatch g c = Some o /\ outcome_equiv o (verdict ceqb rmatch g c).
Proof. intros comp ceqb Hs rmatch g Hwf Hanc Hnh c. exact (w_assert_applies_refines ceqb Hs rmatch g Hwf Hanc Hnh c). Qed.
Print Assumptions C01_loops_verdict.

(* What a rule object states is what was written LAST: when a module list (are_named, are_sub_modules_of, have_name_matching,
   have_name_containing) is followed at once by another one, the evaluation is that of the history without the first - whatever
   the lists are, wherever in the history [h ... t] the two calls stand, and whatever was evaluated in between (the model's
   evaluation does not change the builder state: C15_rule_object_unchanged).  The premise says that the first list was
   accepted, i.e. that a side had been opened. *)
Theorem C01_last_list_wins :
  forall (comp : Type) (ceqb : comp -> comp -> bool) (rmatch : N -> list comp -> bool)
         (g : @graph comp) (h : list (@rcall comp)) (c1 c2 : @rcall comp) (t : list (@rcall comp)),
  is_modules_call c1 = true -> is_modules_call c2 = true ->
  (exists st, rbuild rinit (h ++ [c1]) = Ok st) ->
  run_rule ceqb rmatch g (h ++ c1 :: c2 :: t) = run_rule ceqb rmatch g (h ++ c2 :: t).
Proof. intros comp ceqb rmatch. exact (last_list_wins ceqb rmatch). Qed.
Print Assumptions C01_last_list_wins.

(* ---- non-vacuity: a 7-module tree with 5 imports and a 2-subject / 2-object rule is strict ---- *)
Open Scope N_scope.
Definition ex_g : @graph N :=
  {| nodes := [[1]; [1;2]; [1;3]; [1;4]; [1;4;5]; [1;4;6]; [1;7]];
     imps := [([1;2], [1;3]); ([1;4;5], [1;2]); ([1;4;6], [1;7]); ([1;3], [1;4;5]); ([1;7], [1])] |}.
Definition ex_Ss : list (@filt N) := [Named [1;2]; SubOf [1;4]].
Definition ex_Os : list (@filt N) := [Named [1;3]; Named [1;7]].

Lemma N_eqb_reflect : forall x y : N, reflect (x = y) (N.eqb x y).
Proof. intros x y. apply N.eqb_spec. Qed.

Example C01_strict_example : strict N.eqb ex_g ex_Ss ex_Os.
Proof.
  constructor.
  - intros a b H. simpl in H.
    repeat (destruct H as [H|H]; [injection H as <- <-; simpl; intuition congruence|]). destruct H.
  - intros f H. simpl in H. repeat (destruct H as [<-|H]; [reflexivity|]). destruct H.
  - simpl. repeat split; intros y Hy; simpl in Hy; repeat (destruct Hy as [<-|Hy]; [reflexivity|]); destruct Hy.
  - discriminate.
  - discriminate.
Qed.

(* and both verdicts occur on it *)
Example C01_example_verdicts :
  verdict N.eqb (fun _ _ => false) ex_g (mk_cfg Should true false ex_Ss ex_Os) <> Pass /\
  verdict N.eqb (fun _ _ => false) ex_g (mk_cfg ShouldNot false false ex_Ss [Named [1;7]]) = Pass.
Proof. split; [vm_compute; discriminate | vm_compute; reflexivity]. Qed.

(* the loops run: on the example graph the worklist queries return the same imports as the comprehensions *)
Example C01_loop_example :
  w_between N.eqb ex_g (Named [1;4]) (Named [1;2]) = Some (Ok [([1;4;5], [1;2])]) /\
  q_between N.eqb ex_g (Named [1;4]) (Named [1;2]) = Ok [([1;4;5], [1;2])] /\
  w_other_out N.eqb ex_g (SubOf [1;4]) [Named [1;2]] = Some (Ok [([1;4;6], [1;7])]) /\
  w_other_in N.eqb ex_g [Named [1;2]] (Named [1;4]) = Some (Ok [([1;3], [1;4;5])]) /\
  w_submodules N.eqb ex_g [1;4] = Some [[1;4]; [1;4;6]; [1;4;5]].
Proof. repeat split; vm_compute; reflexivity. Qed.

(* the premise of C01_last_list_wins is met by an ordinary chain: modules_that().are_named(..).should().import_modules_that().are_named(..) *)
Example C01_last_list_example :
  exists st, rbuild rinit ([RModulesThat; RAreNamed [[1;2]]; RShould; RImport] ++ [RAreNamed [[1;3]]]) = Ok st /\
  run_rule N.eqb (fun _ _ => false) ex_g ([RModulesThat; RAreNamed [[1;2]]; RShould; RImport] ++ [RAreNamed [[1;7]]; RAreNamed [[1;3]]]) = Pass.
Proof. eexists. split; vm_compute; reflexivity. Qed.
