(* Wire.v — encoders/decoders between sx and the core model types, with
   components instantiated to N (the harness numbers the distinct component
   strings of a case; the core only ever compares them). *)
From Coq Require Import List Bool NArith.
From PTA Require Import Sx Names Graph Search Worklist Rule WRule.
Import ListNotations.
Open Scope N_scope.

Notation nm := (list N).
Definition ceq := N.eqb.

Definition as_name (s : sx) : option nm := as_Ns s.
Definition of_name (n : nm) : sx := of_Ns n.

Definition as_edge := as_pair as_name as_name.
Definition of_edge := of_pair of_name of_name.

(* (0 nodes imps): a graph given directly; (1 mods imports limit): built like NetworkxGraph *)
Definition as_graph (s : sx) : option (@graph N) :=
  match s with
  | L [A 0; ns; es] =>
    match as_list as_name ns, as_list as_edge es with
    | Some ns, Some es => Some {| nodes := ns; imps := es |}
    | _, _ => None
    end
  | L [A 1; ms; es; lim] =>
    match as_list as_name ms, as_list as_edge es, as_opt as_N lim with
    | Some ms, Some es, Some lim => Some (build_graph ceq ms es (option_map N.to_nat lim))
    | _, _, _ => None
    end
  | _ => None
  end.
Definition of_graph (g : @graph N) : sx := L [A 0; of_list of_name (nodes g); of_list of_edge (imps g)].

Definition as_filt (s : sx) : option (@filt N) :=
  match s with
  | L [A 0; n] => option_map Named (as_name n)
  | L [A 1; n] => option_map SubOf (as_name n)
  | _ => None
  end.
Definition of_filt (f : @filt N) : sx :=
  match f with Named n => L [A 0; of_name n] | SubOf n => L [A 1; of_name n] end.

Definition as_ufilt (s : sx) : option (@ufilt N) :=
  match s with
  | L [A 0; n] => option_map UNamed (as_name n)
  | L [A 1; n] => option_map USubOf (as_name n)
  | L [A 2; A r] => Some (URegex r)
  | _ => None
  end.
Definition of_ufilt (f : @ufilt N) : sx :=
  match f with UNamed n => L [A 0; of_name n] | USubOf n => L [A 1; of_name n] | URegex r => L [A 2; A r] end.

Definition as_cfg (s : sx) : option (@cfg N) :=
  match s with
  | L [su; ob; sh; on; no; ex; im; an] =>
    match as_opt (as_list as_ufilt) su, as_opt (as_list as_ufilt) ob,
          as_bool sh, as_bool on, as_bool no, as_bool ex, as_opt as_bool im, as_bool an with
    | Some su, Some ob, Some sh, Some on, Some no, Some ex, Some im, Some an =>
      Some {| c_subj := su; c_obj := ob; c_should := sh; c_only := on; c_not := no;
              c_exc := ex; c_imp := im; c_any := an |}
    | _, _, _, _, _, _, _, _ => None
    end
  | _ => None
  end.
Definition of_cfg (c : @cfg N) : sx :=
  L [of_opt (of_list of_ufilt) (c_subj c); of_opt (of_list of_ufilt) (c_obj c);
     of_bool (c_should c); of_bool (c_only c); of_bool (c_not c); of_bool (c_exc c);
     of_opt of_bool (c_imp c); of_bool (c_any c)].

(* regex truth table computed by the harness with the real [re] *)
Definition rtable := list (N * list nm).
Definition as_rtable : sx -> option rtable := as_list (as_pair as_N (as_list as_name)).
Definition rmatch_of (t : rtable) (r : N) (n : nm) : bool :=
  existsb (fun rn => N.eqb (fst rn) r && memb ceq n (snd rn)) t.

Definition of_err (e : err) : sx :=
  A (match e with EConfig => 0 | EInconsistent => 1 | ENoMatch => 2 | ELookup => 3 end).

Definition of_line (l : @line N) : sx :=
  match l with
  | LConc x y => L [A 0; of_name x; of_name y]
  | LMissing s os => L [A 1; of_filt s; of_list of_filt os]
  | LMissingAny s os => L [A 2; of_filt s; of_list of_filt os]
  end.

Definition of_outcome (o : @outcome N) : sx :=
  match o with
  | Pass => L [A 0]
  | Fail ls => L [A 1; of_list of_line ls]
  | Err e => L [A 2; of_err e]
  end.

Definition of_res {X} (f : X -> sx) (r : res X) : sx :=
  match r with Ok x => L [A 0; f x] | Er e => L [A 2; of_err e] end.

(* fn 10: Rule.assert_applies of each configuration on one graph *)
Definition run_assert_applies (arg : sx) : sx :=
  match arg with
  | L [g; t; cs] =>
    match as_graph g, as_rtable t, as_list as_cfg cs with
    | Some g, Some t, Some cs =>
      L (map (fun c => let r := assert_applies ceq (rmatch_of t) g c in
                       L [of_cfg (fst r); of_outcome (snd r)]) cs)
    | _, _, _ => sx_err
    end
  | _ => sx_err
  end.

(* fn 34: the same, with the graph queries run by the worklist loops; an evaluation that ran out of fuel is answered [A 9] *)
Definition run_wassert_applies (arg : sx) : sx :=
  match arg with
  | L [g; t; cs] =>
    match as_graph g, as_rtable t, as_list as_cfg cs with
    | Some g, Some t, Some cs =>
      L (map (fun c => match w_assert_applies ceq (rmatch_of t) g c with
                       | Some o => L [of_cfg c; of_outcome o]
                       | None => L [of_cfg c; L [A 9]]
                       end) cs)
    | _, _, _ => sx_err
    end
  | _ => sx_err
  end.

(* fn 11..13: the three public queries *)
Definition run_q_between (arg : sx) : sx :=
  match arg with
  | L [g; ds; us] =>
    match as_graph g, as_list as_filt ds, as_list as_filt us with
    | Some g, Some ds, Some us =>
      of_res (of_list (of_pair (of_pair of_filt of_filt) (of_list of_edge))) (get_dependencies ceq g ds us)
    | _, _, _ => sx_err
    end
  | _ => sx_err
  end.
Definition run_other (out : bool) (arg : sx) : sx :=
  match arg with
  | L [g; ds; us] =>
    match as_graph g, as_list as_filt ds, as_list as_filt us with
    | Some g, Some ds, Some us =>
      of_res (of_list (of_pair of_filt (of_list of_edge)))
             (if out then other_out_all ceq g ds us else other_in_all ceq g ds us)
    | _, _, _ => sx_err
    end
  | _ => sx_err
  end.

(* fn 31..33: the same three queries computed by the worklist loops (Model/Worklist.v); out of fuel = sx_err *)
Definition of_ores {X} (f : X -> sx) (r : option (res X)) : sx :=
  match r with None => sx_err | Some r => of_res f r end.
Definition run_wq_between (arg : sx) : sx :=
  match arg with
  | L [g; ds; us] =>
    match as_graph g, as_list as_filt ds, as_list as_filt us with
    | Some g, Some ds, Some us =>
      of_ores (of_list (of_pair (of_pair of_filt of_filt) (of_list of_edge))) (w_get_dependencies ceq g ds us)
    | _, _, _ => sx_err
    end
  | _ => sx_err
  end.
Definition run_wother (out : bool) (arg : sx) : sx :=
  match arg with
  | L [g; ds; us] =>
    match as_graph g, as_list as_filt ds, as_list as_filt us with
    | Some g, Some ds, Some us =>
      of_ores (of_list (of_pair of_filt (of_list of_edge)))
              (if out then w_other_out_all ceq g ds us else w_other_in_all ceq g ds us)
    | _, _, _ => sx_err
    end
  | _ => sx_err
  end.

(* ---- builders and layers ---- *)
From PTA Require Import Builder Layer WLayer.

Definition as_rcall (s : sx) : option (@rcall N) :=
  match s with
  | L [A 0] => Some RModulesThat
  | L [A 1; ns] => option_map RAreNamed (as_list as_name ns)
  | L [A 2; ns] => option_map RAreSubModulesOf (as_list as_name ns)
  | L [A 3; A r] => Some (RHaveNameMatching r)
  | L [A 4; rs] => option_map RHaveNameContaining (as_Ns rs)
  | L [A 5] => Some RShould
  | L [A 6] => Some RShouldOnly
  | L [A 7] => Some RShouldNot
  | L [A 8] => Some RImport
  | L [A 9] => Some RBeImportedBy
  | L [A 10] => Some RImportExcept
  | L [A 11] => Some RBeImportedByExcept
  | L [A 12] => Some RImportAnything
  | L [A 13] => Some RBeImportedByAnything
  | _ => None
  end.

(* fn 14: Rule call histories, each followed by assert_applies(g); also what the specification automaton says *)
Definition run_rule_histories (arg : sx) : sx :=
  match arg with
  | L [g; t; hs] =>
    match as_graph g, as_rtable t, as_list (as_list as_rcall) hs with
    | Some g, Some t, Some hs =>
      L (map (fun h => L [of_outcome (run_rule ceq (rmatch_of t) g h); of_bool (spec_accepts h)]) hs)
    | _, _, _ => sx_err
    end
  | _ => sx_err
  end.

Definition as_lfilt (s : sx) : option (@lfilt N) :=
  match s with
  | L [A 0; n] => option_map LName (as_name n)
  | L [A 1; A r] => Some (LRegex r)
  | _ => None
  end.
Definition of_lfilt (f : @lfilt N) : sx :=
  match f with LName n => L [A 0; of_name n] | LRegex r => L [A 1; A r] end.
Definition as_larch : sx -> option (@larch N) := as_list (as_pair as_N (as_list as_lfilt)).
Definition of_larch (a : @larch N) : sx := of_list (of_pair A (of_list of_lfilt)) a.

Definition as_lacall (s : sx) : option (@lacall N) :=
  match s with
  | L [A 0; A l] => Some (LALayer l)
  | L [A 1; m] => option_map LAContainingStr (as_name m)
  | L [A 2; ms] => option_map LAContainingList (as_list as_name ms)
  | L [A 3; A r] => Some (LAMatching r)
  | L [A 4] => Some LAWithLayer
  | _ => None
  end.

(* number of calls accepted before the first rejection, and the architecture reached *)
Fixpoint la_trace (a : @larch N) (cs : list (@lacall N)) (k : N) : N * @larch N :=
  match cs with
  | [] => (k, a)
  | c :: r => match la_step ceq a c with Ok a' => la_trace a' r (N.succ k) | Er _ => (k, a) end
  end.

(* fn 15: LayeredArchitecture call histories *)
Definition run_la_histories (arg : sx) : sx :=
  match as_list (as_list as_lacall) arg with
  | Some hs => L (map (fun h => let r := la_trace [] h 0 in L [A (fst r); of_larch (snd r)]) hs)
  | None => sx_err
  end.

(* fn 37: the same histories, the caller going on after every rejected call: accepted flags and final definition *)
Definition run_la_histories_lenient (arg : sx) : sx :=
  match as_list (as_list as_lacall) arg with
  | Some hs => L (map (fun h => let r := la_run_lenient ceq [] h in
                                L [of_list (fun b : bool => A (if b then 1 else 0)) (snd r); of_larch (fst r)]) hs)
  | None => sx_err
  end.

Definition as_lrcall (s : sx) : option (@lrcall N) :=
  match s with
  | L [A 0; a] => option_map LRBasedOn (as_larch a)
  | L [A 1] => Some LRLayersThat
  | L [A 2; A l] => Some (LRAreNamedStr l)
  | L [A 3; ls] => option_map LRAreNamedList (as_Ns ls)
  | L [A 4] => Some LRShould
  | L [A 5] => Some LRShouldOnly
  | L [A 6] => Some LRShouldNot
  | L [A 7] => Some LRAccess
  | L [A 8] => Some LRBeAccessedBy
  | L [A 9] => Some LRAccessExcept
  | L [A 10] => Some LRBeAccessedByExcept
  | L [A 11] => Some LRAccessAny
  | L [A 12] => Some LRBeAccessedByAny
  | _ => None
  end.

Definition of_lline (l : @lline N) : sx :=
  match l with
  | LLConc x lx y ly => L [A 0; of_name x; of_opt A lx; of_name y; of_opt A ly]
  | LLMissing l ms => L [A 1; A l; of_Ns ms]
  | LLMissingAny l ms => L [A 2; A l; of_Ns ms]
  end.
Definition of_loutcome (o : @loutcome N) : sx :=
  match o with
  | LPass => L [A 0]
  | LFail ls => L [A 1; of_list of_lline ls]
  | LErr e => L [A 2; of_err e]
  end.

(* fn 16: LayerRule call histories, each followed by assert_applies(g) *)
Definition run_layer_histories (arg : sx) : sx :=
  match arg with
  | L [g; t; hs] =>
    match as_graph g, as_rtable t, as_list (as_list as_lrcall) hs with
    | Some g, Some t, Some hs => L (map (fun h => of_loutcome (run_layer_rule ceq (rmatch_of t) g h)) hs)
    | _, _, _ => sx_err
    end
  | _ => sx_err
  end.

(* fn 35: the same, the graph queries run by the worklist loops; out of fuel is answered [A 9] *)
Definition run_wlayer_histories (arg : sx) : sx :=
  match arg with
  | L [g; t; hs] =>
    match as_graph g, as_rtable t, as_list (as_list as_lrcall) hs with
    | Some g, Some t, Some hs => L (map (fun h => match w_run_layer_rule ceq (rmatch_of t) g h with
                                                  | Some o => of_loutcome o
                                                  | None => L [A 9]
                                                  end) hs)
    | _, _, _ => sx_err
    end
  | _ => sx_err
  end.

(* ---- scanning ---- *)
From PTA Require Import Scan.

Fixpoint as_stmt_fuel (fuel : nat) (s : sx) : option (@stmt N) :=
  match fuel with
  | O => None
  | S f =>
    match s with
    | L [A 0; ns] => option_map SImport (as_list as_name ns)
    | L [A 1; A lv; md; ns] =>
        match as_opt as_name md, as_Ns ns with
        | Some md, Some ns => Some (SFrom (N.to_nat lv) md ns)
        | _, _ => None
        end
    | L [A 2; L cs] => option_map SBlock (map_opt (as_stmt_fuel f) cs)
    | L [A 3] => Some SOther
    | _ => None
    end
  end.
Definition as_stmt := as_stmt_fuel 64.

Fixpoint as_fsnode_fuel (fuel : nat) (s : sx) : option (@fsnode N) :=
  match fuel with
  | O => None
  | S f =>
    match s with
    | L [A 0; A nm; py; L body] =>
        match as_bool py, map_opt as_stmt body with
        | Some py, Some body => Some (FFile nm py body)
        | _, _ => None
        end
    | L [A 1; A nm; L cs] => option_map (FDir nm) (map_opt (as_fsnode_fuel f) cs)
    | _ => None
    end
  end.
Definition as_fsnode := as_fsnode_fuel 64.

(* fn 20: scan.  (root tree mp excluded_paths exclude_external excluded_external_names has_ext_patterns limit) *)
Definition run_scan (arg : sx) : sx :=
  match arg with
  | L [A root; L tree; mp; excl; ee; xexcl; hx; lim] =>
    match map_opt as_fsnode tree, as_name mp, as_list as_name excl, as_bool ee, as_list as_name xexcl, as_bool hx, as_opt as_N lim with
    | Some tree, Some mp, Some excl, Some ee, Some xexcl, Some hx, Some lim =>
      let c := {| sc_root := root; sc_tree := tree; sc_mp := mp;
                  sc_excl := fun p => memb ceq p excl;
                  sc_exclude_external := ee;
                  sc_ext_excl := fun m => memb ceq m xexcl; sc_has_ext_excl := hx;
                  sc_limit := option_map N.to_nat lim |} in
      match scan ceq c with
      | Some r => L [A 1; of_list of_name (sr_modules r); of_list of_name (nodes (sr_graph r)); of_list of_edge (imps (sr_graph r))]
      | None => L [A 0]
      end
    | _, _, _, _, _, _, _ => sx_err
    end
  | _ => sx_err
  end.

(* ---- diagram rules ---- *)
From PTA Require Import Diagram WDiagram.
(* fn 22: (graph only (base?) mods rel) *)
Definition run_diagram (arg : sx) : sx :=
  match arg with
  | L [g; on; base; ms; rel] =>
    match as_graph g, as_bool on, as_opt as_name base, as_list as_name ms, as_list as_edge rel with
    | Some g, Some on, Some base, Some ms, Some rel =>
      of_outcome (diagram_apply ceq (fun _ _ => false) g on base {| pd_mods := ms; pd_rel := rel |})
    | _, _, _, _, _ => sx_err
    end
  | _ => sx_err
  end.

(* fn 36: the same, every generated rule evaluated over the worklist loops; out of fuel is answered [A 9] *)
Definition run_wdiagram (arg : sx) : sx :=
  match arg with
  | L [g; on; base; ms; rel] =>
    match as_graph g, as_bool on, as_opt as_name base, as_list as_name ms, as_list as_edge rel with
    | Some g, Some on, Some base, Some ms, Some rel =>
      match w_diagram_apply ceq (fun _ _ => false) g on base {| pd_mods := ms; pd_rel := rel |} with
      | Some o => of_outcome o
      | None => L [A 9]
      end
    | _, _, _, _, _ => sx_err
    end
  | _ => sx_err
  end.
