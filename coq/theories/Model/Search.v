(* Search.v — the three graph queries of evaluable_graph.py /
   breadth_first_searches.py at the comprehension level: the exclusion sets are
   built in the code's order (add, add subject id, remove parent ids), the
   worklist loops are replaced by the sets they compute on a well-formed graph
   (every strict ancestor of a node is a node).  Definitions only. *)
From Coq Require Import List Bool.
From PTA Require Import Names Graph.
Import ListNotations.

Section Search.
Context {comp : Type} (ceqb : comp -> comp -> bool).
Notation name := (list comp).
Notation name_eqb := (name_eqb ceqb).
Notation prefixb := (prefixb ceqb).
Notation memb := (memb ceqb).
Notation removeb := (removeb ceqb).
Notation graph := (@graph comp).

(* ModuleNameFilter / ParentModuleNameFilter *)
Inductive filt := Named (n : name) | SubOf (n : name).
Definition fid (f : filt) : name := match f with Named n | SubOf n => n end.
Definition fparent (f : filt) : bool := match f with SubOf _ => true | Named _ => false end.
Definition filt_eqb (f1 f2 : filt) : bool :=
  match f1, f2 with
  | Named a, Named b | SubOf a, SubOf b => name_eqb a b
  | _, _ => false
  end.

Inductive err := EConfig | EInconsistent | ENoMatch | ELookup.
Inductive res (X : Type) := Ok (x : X) | Er (e : err).
Arguments Ok {X} x.  Arguments Er {X} e.

Definition bind {X Y} (r : res X) (f : X -> res Y) : res Y :=
  match r with Ok x => f x | Er e => Er e end.

Fixpoint map_res {X Y} (f : X -> res Y) (l : list X) : res (list Y) :=
  match l with
  | [] => Ok []
  | x :: r => bind (f x) (fun y => bind (map_res f r) (fun r' => Ok (y :: r')))
  end.

Definition exists_f (g : graph) (f : filt) : bool := memb (fid f) (nodes g).

(* get_all_submodules_of: the node and everything below it *)
Definition desc_incl (g : graph) (n : name) : list name := filter (prefixb n) (nodes g).

(* what a filter denotes: Named X = X and descendants, SubOf X = strict descendants *)
Definition inD (f : filt) (m : name) : bool :=
  prefixb (fid f) m && negb (fparent f && name_eqb (fid f) m).

Definition parent_ids (fs : list filt) : list name := map fid (filter fparent fs).

(* get_dependency_between_modules *)
Definition q_between (g : graph) (d u : filt) : res (list (name * name)) :=
  if exists_f g u && exists_f g d then
    let ex := parent_ids [d; u] in
    Ok (filter (fun e => memb (fst e) (desc_incl g (fid d)) && memb (snd e) (desc_incl g (fid u))
                         && negb (memb (fst e) ex) && negb (memb (snd e) ex)) (imps g))
  else Er ELookup.

(* nodes_to_exclude of the two "other" searches *)
Definition excl_base (g : graph) (self : filt) (others : list filt) : list name :=
  flat_map (fun o => if filt_eqb o self then [] else desc_incl g (fid o)) others.
Definition remove_parent_ids (others : list filt) (e : list name) : list name :=
  fold_left (fun e o => if fparent o then removeb (fid o) e else e) others e.

Definition others_exist (g : graph) (self : filt) (others : list filt) : bool :=
  forallb (fun o => filt_eqb o self || exists_f g o) others.

(* any_dependency_to_module_other_than *)
Definition excl_out (g : graph) (d : filt) (us : list filt) : list name :=
  let e1 := excl_base g d us in
  let e2 := if fparent d then fid d :: e1 else e1 in
  (* the subject's own filter among the objects does not re-admit its parent module *)
  remove_parent_ids (filter (fun u => negb (filt_eqb u d)) us) e2.

Definition q_other_out (g : graph) (d : filt) (us : list filt) : res (list (name * name)) :=
  if others_exist g d us && exists_f g d then
    let ex := excl_out g d us in
    let nf := desc_incl g (fid d) in
    Ok (filter (fun e => memb (fst e) nf && negb (memb (fst e) ex)
                         && negb (memb (snd e) ex) && negb (memb (snd e) nf)) (imps g))
  else Er ELookup.

(* any_other_dependency_to_module_than (importers are not followed further) *)
Definition q_other_in (g : graph) (ds : list filt) (u : filt) : res (list (name * name)) :=
  if others_exist g u ds && exists_f g u then
    let nf0 := desc_incl g (fid u) in
    let nf := if fparent u then removeb (fid u) nf0 else nf0 in
    let ex := remove_parent_ids ds (excl_base g u ds) in
    Ok (filter (fun e => memb (snd e) nf && negb (memb (fst e) ex) && negb (memb (fst e) nf)) (imps g))
  else Er ELookup.

(* the three public queries *)
Definition get_dependencies (g : graph) (ds us : list filt) : res (list ((filt * filt) * list (name * name))) :=
  map_res (fun du => bind (q_between g (fst du) (snd du)) (fun l => Ok (du, l))) (list_prod ds us).

Definition other_out_all (g : graph) (ds us : list filt) : res (list (filt * list (name * name))) :=
  map_res (fun d => bind (q_other_out g d us) (fun l => Ok (d, l))) ds.

Definition other_in_all (g : graph) (ds us : list filt) : res (list (filt * list (name * name))) :=
  map_res (fun u => bind (q_other_in g ds u) (fun l => Ok (u, l))) us.

End Search.
Arguments Ok {X} x.  Arguments Er {X} e.
Arguments Named {comp} n.  Arguments SubOf {comp} n.
