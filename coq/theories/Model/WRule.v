(* WRule.v — Rule.assert_applies over the WORKLIST loops of breadth_first_searches.py (Model/Worklist.v) instead of the
   comprehension queries of Search.v: the same conversion, the same requirement checks, the same eight buckets, only the
   three graph queries are the transcribed loops.  [None] = a loop ran out of fuel (never, see WRuleProofs).
   Definitions only. *)
From Coq Require Import List Bool NArith.
From PTA Require Import Names Graph Search Worklist Rule.
Import ListNotations.

Section WRule.
Context {comp : Type} (ceqb : comp -> comp -> bool).
Variable rmatch : N -> list comp -> bool.
Notation name := (list comp).
Notation graph := (@graph comp).
Notation filt := (@filt comp).
Notation cfg := (@cfg comp).
Notation line := (@line comp).

(* the eight buckets of RuleMatcher.match, from the two query tables *)
Definition buckets (c : cfg) (imp : bool) (subjs objs : list filt)
           (e : list ((filt * filt) * list (name * name))) (o : list (filt * list (name * name))) : list line :=
  let on (b : bool) (l : list line) := if b then l else [] in
     on (c_should c && negb (c_exc c)) (missing_explicit ceqb imp subjs e)
  ++ on (c_only c && negb (c_exc c)) (realised imp o)
  ++ on (c_only c && negb (c_exc c)) (missing_explicit ceqb imp subjs e)
  ++ on (c_not c && negb (c_exc c)) (realised imp e)
  ++ on (c_should c && c_exc c) (missing_any objs o)
  ++ on (c_only c && c_exc c) (realised imp e)
  ++ on (c_only c && c_exc c) (missing_any objs o)
  ++ on (c_not c && c_exc c) (realised imp o).

Definition w_violations (g : graph) (c : cfg) (imp : bool) (subjs objs : list filt) : option (res (list line)) :=
  let importers := if imp then subjs else objs in
  let importees := if imp then objs else subjs in
  let need_expl := expl_required c || expl_forbidden c in
  let need_other := other_required c || other_forbidden c in
  match (if need_expl then w_get_dependencies ceqb g importers importees else Some (Ok [])) with
  | None => None
  | Some (Er e) => Some (Er e)
  | Some (Ok e) =>
    match (if need_other then
             (if imp then w_other_out_all ceqb g importers importees else w_other_in_all ceqb g importers importees)
           else Some (Ok [])) with
    | None => None
    | Some (Er e') => Some (Er e')
    | Some (Ok o) => Some (Ok (buckets c imp subjs objs e o))
    end
  end.

Definition w_assert_applies (g : graph) (c0 : cfg) : option (@outcome comp) :=
  if c_any c0 && (c_should c0 || c_only c0) then Some (Err EConfig) else
  let c := convert_aliases ceqb c0 in
  if negb (required_present c) then Some (Err EConfig) else
  if negb (behavior_consistent c) then Some (Err EInconsistent) else
  if c_any c0 && removed_unknown ceqb g (opt_list (c_subj c0)) then Some (Err ENoMatch) else
  let imp := match c_imp c with Some b => b | None => true end in
  match convert rmatch g (opt_list (c_subj c)) with
  | Er e => Some (Err e)
  | Ok subjs =>
    match convert rmatch g (opt_list (c_obj c)) with
    | Er e => Some (Err e)
    | Ok objs =>
      match w_violations g c imp subjs objs with
      | None => None
      | Some (Er e) => Some (Err e)
      | Some (Ok []) => Some Pass
      | Some (Ok ls) => Some (Fail ls)
      end
    end
  end.

End WRule.
