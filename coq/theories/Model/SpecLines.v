(* SpecLines.v — which report lines a failing rule must contain (C03), in terms
   of the import relation and D(.) only. *)
From Coq Require Import List Bool.
From PTA Require Import Names Graph Search Rule SpecRule.
Import ListNotations.

Section SpecLines.
Context {comp : Type} (ceqb : comp -> comp -> bool).
Notation name := (list comp).
Notation graph := (@graph comp).
Notation filt := (@filt comp).
Notation line := (@line comp).
Notation inD := (inD ceqb).

Definition need_edge (v : verb) (exc : bool) : bool :=
  match v with Should | ShouldOnly => negb exc | ShouldNot => false end.
Definition forbid_edge (v : verb) (exc : bool) : bool :=
  match v with ShouldNot => negb exc | ShouldOnly => exc | Should => false end.
Definition need_other (v : verb) (exc : bool) : bool :=
  match v with Should | ShouldOnly => exc | ShouldNot => false end.
Definition forbid_other (v : verb) (exc : bool) : bool :=
  match v with ShouldNot => exc | ShouldOnly => negb exc | Should => false end.

(* the import (importer, importee) behind a reported (subject-side, other-side) pair *)
Definition unorient (imp : bool) (xy : name * name) : name * name :=
  if imp then xy else (snd xy, fst xy).

Definition violating (g : graph) (v : verb) (imp exc : bool) (Ss Os : list filt) (l : line) : Prop :=
  match l with
  | LConc x y =>
      (* a real import, between a module of some subject and ... *)
      In (unorient imp (x, y)) (imps g) /\
      exists S, In S Ss /\
        ((* ... a module of an object, where that is forbidden *)
         (forbid_edge v exc = true /\ inD S x = true /\ exists O, In O Os /\ inD O y = true)
         \/ (* ... something else, where that is not allowed *)
         (forbid_other v exc = true /\ is_other ceqb imp S Os (x, y) = true))
  | LMissing sf os =>
      need_edge v exc = true /\ In sf Ss /\ os <> [] /\
      forall O, In O os <-> (In O Os /\ sp_edge ceqb g imp sf O = false)
  | LMissingAny sf os =>
      need_other v exc = true /\ In sf Ss /\ os = Os /\ sp_other ceqb g imp sf Os = false
  end.

End SpecLines.
