(* WDiagram.v — DiagramRule's evaluation (Model/Diagram.v) with every generated rule evaluated over the worklist loops
   (Model/WRule.v).  [None] = out of fuel (never, see WDiagramProofs).  Definitions only. *)
From Coq Require Import List Bool NArith.
From PTA Require Import Names Graph Search Worklist Rule WRule Diagram.
Import ListNotations.

Section WDiagram.
Context {comp : Type} (ceqb : comp -> comp -> bool).
Variable rmatch : N -> list comp -> bool.

Fixpoint w_aggregate (os : list (option (@outcome comp))) (failed : bool) (acc : list (@line comp)) : option (@outcome comp) :=
  match os with
  | [] => Some (if failed then Fail acc else Pass)
  | None :: _ => None
  | Some Pass :: r => w_aggregate r failed acc
  | Some (Fail ls) :: r => w_aggregate r true (acc ++ ls)
  | Some (Err e) :: _ => Some (Err e)
  end.

Definition w_diagram_apply (g : @graph comp) (only : bool) (base : option (list comp)) (d : @pdeps comp) : option (@outcome comp) :=
  w_aggregate (map (w_assert_applies ceqb rmatch g) (diagram_rules ceqb only (prefix_deps base d))) false [].

End WDiagram.
