(* SpecLayer.v — the documented semantics of layer rules.
   A layer is the union of its listed modules and all their descendants;
   'access' requirements need at least one import from some module of the
   subject layer into EACH named object layer; 'not'/'only' requirements forbid
   every such import; 'something else' = any module outside the subject layer
   and outside the named object layers, including modules in no layer and
   modules of layers the rule does not mention.  Imports between two modules of
   the subject layer never count. *)
From Coq Require Import List Bool.
From PTA Require Import Names Graph Search SpecRule.
Import ListNotations.

Section SpecLayer.
Context {comp : Type} (ceqb : comp -> comp -> bool).
Notation name := (list comp).
Notation prefixb := (prefixb ceqb).
Notation graph := (@graph comp).

(* xs: the modules a layer lists (after regex resolution); m belongs to the layer *)
Definition lmember (xs : list name) (m : name) : bool := existsb (fun x => prefixb x m) xs.

Definition l_access (g : graph) (imp : bool) (XL XM : list name) : bool :=
  existsb (fun e => let xy := orient imp e in lmember XL (fst xy) && lmember XM (snd xy)) (imps g).

Definition l_is_other (XL : list name) (XMs : list (list name)) (xy : name * name) : bool :=
  lmember XL (fst xy) && negb (lmember XL (snd xy)) && forallb (fun XM => negb (lmember XM (snd xy))) XMs.

Definition l_other (g : graph) (imp : bool) (XL : list name) (XMs : list (list name)) : bool :=
  existsb (fun e => l_is_other XL XMs (orient imp e)) (imps g).

Definition lspec_holds (g : graph) (v : verb) (imp exc : bool) (XL : list name) (XMs : list (list name)) : bool :=
  match v, exc with
  | Should, false => forallb (l_access g imp XL) XMs
  | ShouldNot, false => forallb (fun XM => negb (l_access g imp XL XM)) XMs
  | ShouldOnly, false => forallb (l_access g imp XL) XMs && negb (l_other g imp XL XMs)
  | Should, true => l_other g imp XL XMs
  | ShouldOnly, true => l_other g imp XL XMs && forallb (fun XM => negb (l_access g imp XL XM)) XMs
  | ShouldNot, true => negb (l_other g imp XL XMs)
  end.

End SpecLayer.
