(* Glob.v — model of utils/partial_match_to_regex_converter.py and of the
   fragment of Python's [re.match] semantics that its output lives in
   (file_filter.py applies [re.match] to the path string).
   Strings are lists of code points.  Definitions only. *)
From Coq Require Import List NArith Bool.
From PTA Require Import Sx.
Import ListNotations.
Open Scope N_scope.

Definition STAR := 42.  Definition DOT := 46.  Definition DOLLAR := 36.
Definition BSL := 92.   Definition NL := 10.

(* re.escape (CPython 3.7+): exactly these code points get a backslash *)
Definition special_chars : list N :=
  [9; 10; 11; 12; 13; 32; 35; 36; 38; 40; 41; 42; 43; 45; 46; 63; 91; 92; 93; 94; 123; 124; 125; 126].
Definition is_special (c : N) : bool := existsb (N.eqb c) special_chars.

Definition escape_char (c : N) : str := if is_special c then [BSL; c] else [c].
Definition re_escape (s : str) : str := flat_map escape_char s.

Definition starts_star (p : str) : bool :=
  match p with c :: _ => N.eqb c STAR | [] => false end.
Definition ends_star (p : str) : bool :=
  match rev p with c :: _ => N.eqb c STAR | [] => false end.

(* match[start_index:end_index] *)
Definition glob_body (p : str) : str :=
  let q := if starts_star p then tl p else p in
  if ends_star p then removelast q else q.

Definition glob_to_regex (p : str) : str :=
  (if starts_star p then [DOT; STAR] else [])
  ++ re_escape (glob_body p)
  ++ (if ends_star p then [DOT; STAR] else [DOLLAR]).

(* ---- the regex fragment: [.*] literal* ([.*] | [$]) ---- *)
Inductive rpost := PStar | PDollar.
Record rx := { rx_pre : bool; rx_body : str; rx_post : rpost }.

Definition ast_of (p : str) : rx :=
  {| rx_pre := starts_star p; rx_body := glob_body p;
     rx_post := if ends_star p then PStar else PDollar |}.

(* parser of regex text into the fragment; fuel = length of the text *)
Fixpoint parse_items (fuel : nat) (r : str) : option (str * rpost) :=
  match fuel with
  | O => None
  | S fuel' =>
    match r with
    | [] => None
    | [c] => if N.eqb c DOLLAR then Some ([], PDollar) else None
    | c :: ((d :: r') as rest) =>
      if N.eqb c BSL then
        (if is_special d then
           match parse_items fuel' r' with Some (b, q) => Some (d :: b, q) | None => None end
         else None)
      else if N.eqb c DOT && N.eqb d STAR && (match r' with [] => true | _ => false end)
      then Some ([], PStar)
      else if is_special c then None
      else match parse_items fuel' rest with Some (b, q) => Some (c :: b, q) | None => None end
    end
  end.

Definition parse_regex (r : str) : option rx :=
  match parse_items (S (length r)) r with
  | Some (b, q) => Some {| rx_pre := false; rx_body := b; rx_post := q |}
  | None =>
    match r with
    | c :: d :: r' =>
      if N.eqb c DOT && N.eqb d STAR then
        match parse_items (S (length r')) r' with
        | Some (b, q) => Some {| rx_pre := true; rx_body := b; rx_post := q |}
        | None => None
        end
      else None
    | _ => None
    end
  end.

(* ---- Python re.match semantics on the fragment ---- *)
Fixpoint strip_prefix (b s : str) : option str :=
  match b, s with
  | [], _ => Some s
  | x :: b', y :: s' => if N.eqb x y then strip_prefix b' s' else None
  | _ :: _, [] => None
  end.

(* [$] matches at the end and before a final newline; [.*] then anything *)
Definition post_ok (q : rpost) (rest : str) : bool :=
  match q with
  | PStar => true
  | PDollar => match rest with [] => true | [c] => N.eqb c NL | _ => false end
  end.

Definition match_here (b : str) (q : rpost) (s : str) : bool :=
  match strip_prefix b s with Some rest => post_ok q rest | None => false end.

(* leading [.*]: any number of non-newline characters, with backtracking *)
Fixpoint match_after_dotstar (b : str) (q : rpost) (s : str) : bool :=
  match_here b q s ||
  match s with
  | [] => false
  | c :: s' => negb (N.eqb c NL) && match_after_dotstar b q s'
  end.

Definition rx_match (r : rx) (s : str) : bool :=
  if rx_pre r then match_after_dotstar (rx_body r) (rx_post r) s
  else match_here (rx_body r) (rx_post r) s.

(* what FileFilter does with one glob pattern: convert, compile, re.match *)
Definition glob_match (p s : str) : bool :=
  match parse_regex (glob_to_regex p) with
  | Some r => rx_match r s
  | None => false
  end.

(* match of an already converted regex text (regex_exclusions written in the fragment) *)
Definition regex_text_match (r s : str) : option bool :=
  match parse_regex r with Some a => Some (rx_match a s) | None => None end.

(* ---- exhaustive tables: the model enumerates the subject strings itself ---- *)
Fixpoint strings_of_len (alpha : list N) (k : nat) : list str :=
  match k with
  | O => [[]]
  | S k' => flat_map (fun c => map (cons c) (strings_of_len alpha k')) alpha
  end.
Definition strings_upto (alpha : list N) (n : nat) : list str :=
  flat_map (strings_of_len alpha) (seq 0 (S n)).

Fixpoint true_indices (i : N) (l : list bool) : list N :=
  match l with
  | [] => []
  | b :: r => if b then i :: true_indices (N.succ i) r else true_indices (N.succ i) r
  end.

Definition glob_table (p : str) (alpha : list N) (n : nat) : list N :=
  match parse_regex (glob_to_regex p) with
  | Some r => true_indices 0 (map (rx_match r) (strings_upto alpha n))
  | None => []
  end.

(* ---- wire ---- *)
Definition run_glob_convert (arg : sx) : sx :=
  match as_Ns arg with Some p => of_Ns (glob_to_regex p) | None => sx_err end.
Definition run_glob_match (arg : sx) : sx :=
  match as_pair as_Ns as_Ns arg with
  | Some (p, s) => of_bool (glob_match p s)
  | None => sx_err end.
Definition run_glob_table (arg : sx) : sx :=
  match arg with
  | L [p; alpha; A n] =>
    match as_Ns p, as_Ns alpha with
    | Some p, Some alpha => of_Ns (glob_table p alpha (N.to_nat n))
    | _, _ => sx_err end
  | _ => sx_err end.
