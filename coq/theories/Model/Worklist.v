(* Worklist.v — the loops of breadth_first_searches.py as they are written: a stack of
   nodes to check (list.pop takes the last element = head of the model's list), a set of
   checked nodes, successor / predecessor enumeration of the graph backend and the
   hierarchy-edge test.  Recursion on explicit fuel; running out of fuel is [None] and is
   excluded by WorklistProofs for the fuel [fuel_for g work] the queries use.

   Search.v states what these loops compute (comprehensions over the import list);
   WorklistProofs.v proves the two layers agree on every graph whose node set is closed
   under ancestors and whose imports never coincide with a hierarchy pair - which is what
   Graph.build_graph produces.  Definitions only. *)
From Coq Require Import List Bool.
From PTA Require Import Names Graph Search.
Import ListNotations.

Section Worklist.
Context {comp : Type} (ceqb : comp -> comp -> bool).
Notation name := (list comp).
Notation name_eqb := (name_eqb ceqb).
Notation memb := (memb ceqb).
Notation removeb := (removeb ceqb).
Notation childb := (childb ceqb).
Notation graph := (@graph comp).
Notation filt := (@filt comp).
Notation filt_eqb := (filt_eqb ceqb).

(* ---- the generic loop ----
     while nodes_to_check:
         node = nodes_to_check.pop()
         if node in checked_nodes: continue        (and, in one loop: if node in nodes_to_exclude: continue)
         checked_nodes.add(node)
         for child in ...: (push child | emit a dependency)                                  *)
Section Loop.
Context {out : Type}.
Variable visit : name -> list name * list out.     (* pushes (in iteration order), emitted results *)
Variable skip : name -> bool.

Fixpoint wl (fuel : nat) (work checked : list name) (acc : list out) : option (list out) :=
  match fuel with
  | O => None
  | S f =>
    match work with
    | [] => Some acc
    | n :: w =>
      if memb n checked || skip n then wl f w checked acc
      else wl f (rev (fst (visit n)) ++ w) (n :: checked) (acc ++ snd (visit n))
    end
  end.
End Loop.

(* ---- graph backend primitives ---- *)
(* direct_successor_nodes: hierarchy children and import targets *)
Definition hsucc (g : graph) (n : name) : list name := filter (childb n) (nodes g).
Definition isucc (g : graph) (n : name) : list name := map snd (filter (fun e => name_eqb (fst e) n) (imps g)).
Definition succs (g : graph) (n : name) : list name := hsucc g n ++ isucc g n.
(* direct_predecessor_nodes: the hierarchy parent and importers *)
Definition hpred (g : graph) (n : name) : list name := filter (fun p => childb p n) (nodes g).
Definition ipred (g : graph) (n : name) : list name := map fst (filter (fun e => name_eqb (snd e) n) (imps g)).
Definition preds (g : graph) (n : name) : list name := hpred g n ++ ipred g n.
(* parent_child_relationship(a, b): the edge carries inherits=True *)
Definition is_hier (a b : name) : bool := childb a b.

(* enough fuel for every loop below: each node is expanded at most once and pushes at most |succs| nodes,
   every other iteration pops an entry of the initial stack or a pushed one *)
Definition fuel_for (g : graph) (work : list name) : nat :=
  S (length work + list_sum (map (fun u => S (length (succs g u))) (nodes g))).

(* ---- get_all_submodules_of ---- *)
Definition sub_visit (g : graph) (n : name) : list name * list name :=
  (filter (is_hier n) (succs g n), [n]).
Definition w_submodules (g : graph) (start : name) : option (list name) :=
  wl (sub_visit g) (fun _ => false) (fuel_for g [start]) [start] [] [].

(* ---- get_dependency_between_modules ---- *)
Definition between_visit (g : graph) (upon ex : list name) (n : name) : list name * list (name * name) :=
  (filter (is_hier n) (succs g n),
   map (fun c => (n, c))
       (filter (fun c => negb (is_hier n c) && memb c upon && negb (memb n ex) && negb (memb c ex)) (succs g n))).

Definition w_between (g : graph) (d u : filt) : option (res (list (name * name))) :=
  if exists_f ceqb g u && exists_f ceqb g d then
    match w_submodules g (fid u) with
    | None => None
    | Some upon =>
      match wl (between_visit g upon (parent_ids [d; u])) (fun _ => false) (fuel_for g [fid d]) [fid d] [] [] with
      | None => None
      | Some l => Some (Ok l)
      end
    end
  else Some (Er ELookup).

(* the union over the other filters of their submodule sets, skipping the filter equal to [self] *)
Fixpoint w_excl_base (g : graph) (self : filt) (others : list filt) : option (list name) :=
  match others with
  | [] => Some []
  | o :: r =>
    match w_excl_base g self r with
    | None => None
    | Some e =>
      if filt_eqb o self then Some e
      else match w_submodules g (fid o) with None => None | Some s => Some (s ++ e) end
    end
  end.

(* ---- any_dependency_to_module_other_than ---- *)
Definition other_out_visit (g : graph) (ex nf : list name) (n : name) : list name * list (name * name) :=
  let cs := filter (fun c => negb (is_hier n c)) (succs g n) in
  (filter (fun c => memb c ex || memb c nf) cs,
   map (fun c => (n, c)) (filter (fun c => negb (memb c ex) && negb (memb c nf)) cs)).

Definition w_other_out (g : graph) (d : filt) (us : list filt) : option (res (list (name * name))) :=
  if others_exist ceqb g d us && exists_f ceqb g d then
    match w_excl_base g d us, w_submodules g (fid d) with
    | Some e1, Some nf =>
      let e2 := if fparent d then fid d :: e1 else e1 in
      let ex := remove_parent_ids ceqb (filter (fun u => negb (filt_eqb u d)) us) e2 in
      match wl (other_out_visit g ex nf) (fun n => memb n ex) (fuel_for g nf) nf [] [] with
      | None => None
      | Some l => Some (Ok l)
      end
    | _, _ => None
    end
  else Some (Er ELookup).

(* ---- any_other_dependency_to_module_than ---- *)
Definition other_in_visit (g : graph) (ex nf : list name) (n : name) : list name * list (name * name) :=
  ([], map (fun p => (p, n))
           (filter (fun p => negb (is_hier p n) && negb (memb p ex) && negb (memb p nf)) (preds g n))).

Definition w_other_in (g : graph) (ds : list filt) (u : filt) : option (res (list (name * name))) :=
  if others_exist ceqb g u ds && exists_f ceqb g u then
    match w_excl_base g u ds, w_submodules g (fid u) with
    | Some e1, Some nf0 =>
      let nf := if fparent u then removeb (fid u) nf0 else nf0 in
      let ex := remove_parent_ids ceqb ds e1 in
      match wl (other_in_visit g ex nf) (fun _ => false) (fuel_for g nf) nf [] [] with
      | None => None
      | Some l => Some (Ok l)
      end
    | _, _ => None
    end
  else Some (Er ELookup).

(* ---- the three public queries of evaluable_graph.py over the loops ---- *)
Fixpoint map_ores {X Y} (f : X -> option (res Y)) (l : list X) : option (res (list Y)) :=
  match l with
  | [] => Some (Ok [])
  | x :: r =>
    match f x with
    | None => None
    | Some (Er e) => Some (Er e)
    | Some (Ok y) =>
      match map_ores f r with
      | None => None
      | Some (Er e) => Some (Er e)
      | Some (Ok r') => Some (Ok (y :: r'))
      end
    end
  end.

Definition tag_ores {K X} (k : K) (r : option (res X)) : option (res (K * X)) :=
  match r with None => None | Some (Er e) => Some (Er e) | Some (Ok x) => Some (Ok (k, x)) end.

Definition w_get_dependencies (g : graph) (ds us : list filt) :=
  map_ores (fun du => tag_ores du (w_between g (fst du) (snd du))) (list_prod ds us).
Definition w_other_out_all (g : graph) (ds us : list filt) :=
  map_ores (fun d => tag_ores d (w_other_out g d us)) ds.
Definition w_other_in_all (g : graph) (ds us : list filt) :=
  map_ores (fun u => tag_ores u (w_other_in g ds u)) us.

End Worklist.
