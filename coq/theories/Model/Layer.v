(* Layer.v — layered_architecture_rule.py (both builders), LayerMapping
   (evaluable_architecture.py), LayerRuleMatcher (rule_matcher.py),
   layer_rule_violation_detector.py and the layer message lines.
   Definitions only. *)
From Coq Require Import List Bool NArith.
From PTA Require Import Names Graph Search Rule Builder.
Import ListNotations.

Section Layer.
Context {comp : Type} (ceqb : comp -> comp -> bool).
Notation name := (list comp).
Notation name_eqb := (name_eqb ceqb).
Notation sprefixb := (sprefixb ceqb).
Notation memb := (memb ceqb).
Notation graph := (@graph comp).
Notation filt := (@filt comp).
Notation ufilt := (@ufilt comp).
Variable rmatch : N -> name -> bool.

(* ---- LayeredArchitecture ---- *)
Inductive lfilt := LName (n : name) | LRegex (r : N).
Definition larch := list (N * list lfilt).      (* ordered: layer name -> module filters; [] = being defined *)

Inductive lacall :=
  | LALayer (l : N)
  | LAContainingStr (m : name)
  | LAContainingList (ms : list name)
  | LAMatching (r : N)
  | LAWithLayer.

Definition pending (a : larch) : list N :=
  flat_map (fun lm => match snd lm with [] => [fst lm] | _ => [] end) a.

Definition listed_names (a : larch) : list name :=
  flat_map (fun lm => flat_map (fun f => match f with LName n => [n] | LRegex _ => [] end) (snd lm)) a.

Definition set_layer (a : larch) (l : N) (fs : list lfilt) : larch :=
  map (fun lm => if N.eqb (fst lm) l then (fst lm, fs) else lm) a.

Definition la_set_pending (a : larch) (fs : list lfilt) : res larch :=
  match pending a with
  | [l] => Ok (set_layer a l fs)
  | _ => Er EConfig
  end.

Definition la_containing (a : larch) (ms : list name) : res larch :=
  match pending a with
  | [_] => if existsb (fun m => memb m (listed_names a)) ms then Er EConfig     (* module already in a layer *)
           else la_set_pending a (map LName ms)
  | _ => Er EConfig                                                              (* no layer open *)
  end.

Definition la_step (a : larch) (c : lacall) : res larch :=
  match c with
  | LAWithLayer => Ok a
  | LALayer l =>
      match pending a with
      | _ :: _ => Er EConfig                                      (* a layer is still waiting for its modules *)
      | [] => if existsb (fun lm => N.eqb (fst lm) l) a then Er EConfig   (* layer name defined twice *)
              else Ok (a ++ [(l, [])])
      end
  | LAContainingStr m => la_containing a [m]         (* a string is treated as a one-element list *)
  | LAContainingList ms => la_containing a ms
  | LAMatching r => la_set_pending a [LRegex r]
  end.

Fixpoint la_run (a : larch) (cs : list lacall) : res larch :=
  match cs with
  | [] => Ok a
  | c :: r => match la_step a c with Ok a' => la_run a' r | Er e => Er e end
  end.

(* a history in which the caller catches the rejections and goes on with the same builder object: a rejected call leaves the
   definition as it was; the flags say which calls were accepted *)
Fixpoint la_run_lenient (a : larch) (cs : list lacall) : larch * list bool :=
  match cs with
  | [] => (a, [])
  | c :: r =>
    match la_step a c with
    | Ok a' => let p := la_run_lenient a' r in (fst p, true :: snd p)
    | Er _ => let p := la_run_lenient a r in (fst p, false :: snd p)
    end
  end.

(* the calls of a history that were accepted *)
Fixpoint accepted_calls (a : larch) (cs : list lacall) : list lacall :=
  match cs with
  | [] => []
  | c :: r =>
    match la_step a c with
    | Ok a' => c :: accepted_calls a' r
    | Er _ => accepted_calls a r
    end
  end.

(* ---- LayerRule builder ---- *)
Inductive lrcall :=
  | LRBasedOn (a : larch)
  | LRLayersThat
  | LRAreNamedStr (l : N)
  | LRAreNamedList (ls : list N)
  | LRShould | LRShouldOnly | LRShouldNot
  | LRAccess | LRBeAccessedBy | LRAccessExcept | LRBeAccessedByExcept
  | LRAccessAny | LRBeAccessedByAny.

Record lrstate := {
  lr_arch : option larch;
  lr_map : larch;                       (* layer mapping captured by layers_that *)
  lr_rule : option (@rstate comp)
}.
Definition lrinit : lrstate := {| lr_arch := None; lr_map := []; lr_rule := None |}.

Definition lookup_layer (a : larch) (l : N) : option (list lfilt) :=
  match filter (fun lm => N.eqb (fst lm) l) a with
  | lm :: _ => Some (snd lm)
  | [] => None
  end.

Definition lfilt_to_u (f : lfilt) : ufilt := match f with LName n => UNamed n | LRegex r => URegex r end.

(* Rule._add_modules / _append_modules: append to the side currently being specified *)
Definition append_modules (st : @rstate comp) (fs : list ufilt) : @rstate comp :=
  let c := st_cfg st in
  match st_next st with
  | Some true =>
      {| st_cfg := set_field c (Some (opt_list (c_subj c) ++ fs)) (c_obj c) (c_should c) (c_only c) (c_not c) (c_exc c) (c_imp c) (c_any c);
         st_next := st_next st |}
  | _ =>
      {| st_cfg := set_field c (c_subj c) (Some (opt_list (c_obj c) ++ fs)) (c_should c) (c_only c) (c_not c) (c_exc c) (c_imp c) (c_any c);
         st_next := st_next st |}
  end.

Definition lr_are_named (st : lrstate) (is_list : bool) (ls : list N) : res lrstate :=
  match lr_rule st, lr_arch st with
  | None, _ => Er EConfig
  | Some _, None => Er EConfig
  | Some r, Some a =>
    let subj_empty := is_empty_opt (c_subj (st_cfg r)) in
    if subj_empty && is_list then Er EConfig                       (* subjects cannot be given in batch *)
    else if negb subj_empty && (match st_next r with Some true => true | _ => false end)
    then Er EConfig                                                (* exactly one subject layer *)
    else
      match map_res (fun l => match lookup_layer a l with Some fs => Ok fs | None => Er ELookup end) ls with
      | Er e => Er e
      | Ok fss => Ok {| lr_arch := lr_arch st; lr_map := lr_map st;
                        lr_rule := Some (append_modules r (map lfilt_to_u (concat fss))) |}
      end
  end.

Definition lr_delegate (st : lrstate) (c : @rcall comp) : res lrstate :=
  match lr_rule st with
  | None => Er EConfig
  | Some r => match rstep r c with
              | Ok r' => Ok {| lr_arch := lr_arch st; lr_map := lr_map st; lr_rule := Some r' |}
              | Er e => Er e
              end
  end.

Definition lr_step (st : lrstate) (c : lrcall) : res lrstate :=
  match c with
  | LRBasedOn a => match lr_arch st with
                   | Some _ => Er EConfig
                   | None => Ok {| lr_arch := Some a; lr_map := lr_map st; lr_rule := lr_rule st |}
                   end
  | LRLayersThat => match lr_arch st with
                    | None => Er EConfig
                    | Some a => Ok {| lr_arch := lr_arch st; lr_map := a;
                                      lr_rule := Some {| st_cfg := cfg_init; st_next := Some true |} |}
                    end
  | LRAreNamedStr l => lr_are_named st false [l]
  | LRAreNamedList ls => lr_are_named st true ls
  | LRShould => lr_delegate st RShould
  | LRShouldOnly => lr_delegate st RShouldOnly
  | LRShouldNot => lr_delegate st RShouldNot
  | LRAccess => lr_delegate st RImport
  | LRBeAccessedBy => lr_delegate st RBeImportedBy
  | LRAccessExcept => lr_delegate st RImportExcept
  | LRBeAccessedByExcept => lr_delegate st RBeImportedByExcept
  | LRAccessAny => lr_delegate st RImportAnything
  | LRBeAccessedByAny => lr_delegate st RBeImportedByAnything
  end.

Fixpoint lr_run (st : lrstate) (cs : list lrcall) : res lrstate :=
  match cs with
  | [] => Ok st
  | c :: r => match lr_step st c with Ok st' => lr_run st' r | Er e => Er e end
  end.

(* ---- evaluation ---- *)
(* updated layer mapping: regexes mentioned by the rule are replaced by the modules they match;
   regex layers the rule does not mention contribute no modules *)
Definition mentioned_regexes (c : @cfg comp) : list N :=
  regexes (opt_list (c_subj c)) ++ regexes (opt_list (c_obj c)).

Definition updated_mapping (g : graph) (c : @cfg comp) (a : larch) : list (N * list name) :=
  map (fun lm => (fst lm,
        flat_map (fun f => match f with
                           | LName n => [n]
                           | LRegex r => if existsb (N.eqb r) (mentioned_regexes c)
                                         then filter (rmatch r) (nodes g) else []
                           end) (snd lm))) a.

(* layer of a listed module: the last layer listing it (dict semantics) *)
Definition exact_layer (um : list (N * list name)) (m : name) : option N :=
  match rev (filter (fun lm => memb m (snd lm)) um) with
  | lm :: _ => Some (fst lm)
  | [] => None
  end.

Fixpoint ndedup (l : list N) : list N :=
  match l with
  | [] => []
  | x :: r => if existsb (N.eqb x) r then ndedup r else x :: ndedup r
  end.

(* get_layer_for_module_name *)
Definition layer_of (um : list (N * list name)) (m : name) : res (option N) :=
  match exact_layer um m with
  | Some l => Ok (Some l)
  | None =>
    let listed := flat_map snd um in
    let cands := filter (fun x => sprefixb x m) listed in
    let ls := ndedup (flat_map (fun x => match exact_layer um x with Some l => [l] | None => [] end) cands) in
    match ls with
    | [] => Ok None
    | [l] => Ok (Some l)
    | _ => Er ELookup
    end
  end.

Inductive lline :=
  | LLConc (x : name) (lx : option N) (y : name) (ly : option N)
  | LLMissing (l : N) (ms : list N)
  | LLMissingAny (l : N) (ms : list N).
Inductive loutcome := LPass | LFail (ls : list lline) | LErr (e : err).

Definition opt_eqb (a b : option N) : bool :=
  match a, b with Some x, Some y => N.eqb x y | None, None => true | _, _ => false end.

(* realised dependencies in user order, same-layer pairs removed, tagged with layers *)
Definition lrealised {K} (um : list (N * list name)) (imp : bool) (r : list (K * list (name * name))) : res (list lline) :=
  bind (map_res (fun e : name * name =>
          let e' := if imp then e else swap_pair e in
          bind (layer_of um (fst e')) (fun lx => bind (layer_of um (snd e')) (fun ly =>
          Ok (if opt_eqb lx ly then [] else [LLConc (fst e') lx (snd e') ly]))))
        (flat_map snd r))
       (fun ls => Ok (concat ls)).

(* abstract dependencies grouped by the layer of their object; a layer none of whose
   requested pairs is realised contributes all its pairs (reported as subject layer / object layer) *)
Definition lmissing_explicit (um : list (N * list name)) (imp : bool)
           (r : list ((filt * filt) * list (name * name))) : res (list lline) :=
  bind (map_res (fun kv : (filt * filt) * list (name * name) =>
          let so := if imp then fst kv else swap_pair (fst kv) in
          bind (layer_of um (fid (snd so))) (fun lo => bind (layer_of um (fid (fst so))) (fun ls =>
          Ok (ls, lo, is_nil (snd kv))))) r)
  (fun tagged =>
    Ok (flat_map (fun lm : N * list name =>
          let mine := filter (fun t => opt_eqb (snd (fst t)) (Some (fst lm))) tagged in
          if is_nil mine then []
          else if forallb (fun t => snd t) mine then
            flat_map (fun t => match fst (fst t) with
                               | Some ls => [LLMissing ls [fst lm]]
                               | None => [] end) mine
          else []) um)).

Definition lmissing_any (um : list (N * list name)) (imp : bool) (subjs objs : list filt)
           (filtered_others : list lline) : res (list lline) :=
  if is_nil filtered_others then
    bind (map_res (fun s => bind (layer_of um (fid s)) (fun ls =>
            bind (map_res (fun o => layer_of um (fid o)) objs) (fun los => Ok (ls, los)))) subjs)
    (fun rows => Ok (flat_map (fun row => match fst row with
                                          | Some ls => [LLMissingAny ls (flat_map (fun lo => match lo with Some l => [l] | None => [] end) (snd row))]
                                          | None => [] end) rows))
  else Ok [].

Definition lviolations (g : graph) (c : @cfg comp) (um : list (N * list name)) (imp : bool) (subjs objs : list filt)
  : res (list lline) :=
  let importers := if imp then subjs else objs in
  let importees := if imp then objs else subjs in
  let need_expl := expl_required c || expl_forbidden c in
  let need_other := other_required c || other_forbidden c in
  bind (if need_expl then get_dependencies ceqb g importers importees else Ok [])
  (fun e =>
  bind (if need_other then (if imp then other_out_all ceqb g importers importees
                            else other_in_all ceqb g importers importees) else Ok [])
  (fun o =>
  bind (lrealised um imp e) (fun re =>
  bind (lrealised um imp o) (fun ro =>
  bind (lmissing_explicit um imp e) (fun me =>
  bind (lmissing_any um imp subjs objs ro) (fun ma =>
    let on (b : bool) (l : list lline) := if b then l else [] in
    Ok (on (c_should c && negb (c_exc c)) me
     ++ on (c_only c && negb (c_exc c)) ro
     ++ on (c_only c && negb (c_exc c)) me
     ++ on (c_not c && negb (c_exc c)) re
     ++ on (c_should c && c_exc c) ma
     ++ on (c_only c && c_exc c) re
     ++ on (c_only c && c_exc c) ma
     ++ on (c_not c && c_exc c) ro))))))).

Definition layer_assert_applies (g : graph) (a : larch) (c0 : @cfg comp) : loutcome :=
  if c_any c0 && (c_should c0 || c_only c0) then LErr EConfig else
  let c := convert_aliases ceqb c0 in
  if negb (required_present c) then LErr EConfig else
  if negb (behavior_consistent c) then LErr EInconsistent else
  if c_any c0 && removed_unknown ceqb g (opt_list (c_subj c0)) then LErr ENoMatch else      (* the lowered Rule's check, D23 *)
  let imp := match c_imp c with Some b => b | None => true end in
  match convert rmatch g (opt_list (c_subj c)) with
  | Er e => LErr e
  | Ok subjs =>
    match convert rmatch g (opt_list (c_obj c)) with
    | Er e => LErr e
    | Ok objs =>
      match lviolations g c (updated_mapping g c a) imp subjs objs with
      | Er e => LErr e
      | Ok [] => LPass
      | Ok ls => LFail ls
      end
    end
  end.

(* a LayerRule history followed by assert_applies(g) *)
Definition run_layer_rule (g : graph) (calls : list lrcall) : loutcome :=
  match lr_run lrinit calls with
  | Er e => LErr e
  | Ok st => match lr_rule st with
             | None => LErr EConfig
             | Some r => layer_assert_applies g (lr_map st) (st_cfg r)
             end
  end.

End Layer.
Arguments LName {comp} n.  Arguments LRegex {comp} r.
Arguments LALayer {comp} l.  Arguments LAContainingStr {comp} m.  Arguments LAContainingList {comp} ms.
Arguments LAMatching {comp} r.  Arguments LAWithLayer {comp}.
Arguments LRBasedOn {comp} a.  Arguments LRLayersThat {comp}.  Arguments LRAreNamedStr {comp} l.
Arguments LRAreNamedList {comp} ls.  Arguments LRShould {comp}.  Arguments LRShouldOnly {comp}.
Arguments LRShouldNot {comp}.  Arguments LRAccess {comp}.  Arguments LRBeAccessedBy {comp}.
Arguments LRAccessExcept {comp}.  Arguments LRBeAccessedByExcept {comp}.  Arguments LRAccessAny {comp}.
Arguments LRBeAccessedByAny {comp}.
Arguments LLConc {comp} x lx y ly.  Arguments LLMissing {comp} l ms.  Arguments LLMissingAny {comp} l ms.
Arguments LPass {comp}.  Arguments LFail {comp} ls.  Arguments LErr {comp} e.
