(* Dispatch.v — single entry point [run : sx -> sx] used by the OCaml driver
   and by the in-Coq extraction self-check.  A case is [L [A fn; arg]]. *)
From Coq Require Import List NArith Bool.
From PTA Require Import Sx Glob.
Import ListNotations.
Open Scope N_scope.

Definition run (c : sx) : sx :=
  match c with
  | L [A 1; arg] => run_glob_convert arg
  | L [A 2; arg] => run_glob_match arg
  | L [A 3; arg] => run_glob_table arg
  | _ => sx_err
  end.
