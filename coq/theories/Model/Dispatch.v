(* Dispatch.v — single entry point [run : sx -> sx] used by the OCaml driver
   and by the in-Coq extraction self-check.  A case is [L [A fn; arg]]. *)
From Coq Require Import List NArith Bool.
From PTA Require Import Sx Glob Wire Label Puml.
Import ListNotations.
Open Scope N_scope.

Definition run (c : sx) : sx :=
  match c with
  | L [A 1; arg] => run_glob_convert arg
  | L [A 2; arg] => run_glob_match arg
  | L [A 3; arg] => run_glob_table arg
  | L [A 10; arg] => run_assert_applies arg
  | L [A 11; arg] => run_q_between arg
  | L [A 12; arg] => run_other true arg
  | L [A 13; arg] => run_other false arg
  | L [A 14; arg] => run_rule_histories arg
  | L [A 15; arg] => run_la_histories arg
  | L [A 16; arg] => run_layer_histories arg
  | L [A 17; arg] => run_plot_labels arg
  | L [A 18; arg] => run_draw_kwargs arg
  | L [A 20; arg] => run_scan arg
  | L [A 21; arg] => run_puml arg
  | L [A 22; arg] => run_diagram arg
  | L [A 31; arg] => run_wq_between arg
  | L [A 32; arg] => run_wother true arg
  | L [A 33; arg] => run_wother false arg
  | L [A 34; arg] => run_wassert_applies arg
  | L [A 35; arg] => run_wlayer_histories arg
  | L [A 36; arg] => run_wdiagram arg
  | L [A 37; arg] => run_la_histories_lenient arg
  | _ => sx_err
  end.
