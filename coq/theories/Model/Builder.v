(* Builder.v — the fluent API of Rule as a state machine over call histories
   (query_language/rule.py), and an independent specification automaton that
   classifies a history as complete / incomplete / contradictory from the kinds
   of the calls alone (C13).  Definitions only. *)
From Coq Require Import List Bool NArith.
From PTA Require Import Names Graph Search Rule.
Import ListNotations.

Section Builder.
Context {comp : Type} (ceqb : comp -> comp -> bool).
Notation name := (list comp).
Notation graph := (@graph comp).
Notation ufilt := (@ufilt comp).
Variable rmatch : N -> name -> bool.

Inductive rcall :=
  | RModulesThat
  | RAreNamed (ns : list name)
  | RAreSubModulesOf (ns : list name)
  | RHaveNameMatching (r : N)
  | RHaveNameContaining (rs : list N)      (* one regex per partial name *)
  | RShould | RShouldOnly | RShouldNot
  | RImport | RBeImportedBy | RImportExcept | RBeImportedByExcept
  | RImportAnything | RBeImportedByAnything.

Record rstate := { st_cfg : @cfg comp; st_next : option bool (* Some true: subject next; Some false: object next *) }.

Definition rinit : rstate := {| st_cfg := cfg_init; st_next := None |}.

Definition set_field (c : @cfg comp) (subj obj : option (list ufilt)) (sh on no ex : bool) (im : option bool) (an : bool) :=
  {| c_subj := subj; c_obj := obj; c_should := sh; c_only := on; c_not := no; c_exc := ex; c_imp := im; c_any := an |}.

Definition set_modules (st : rstate) (fs : list ufilt) : res rstate :=
  let c := st_cfg st in
  match st_next st with
  | None => Er EConfig
  | Some true => Ok {| st_cfg := set_field c (Some fs) (c_obj c) (c_should c) (c_only c) (c_not c) (c_exc c) (c_imp c) (c_any c); st_next := st_next st |}
  | Some false => Ok {| st_cfg := set_field c (c_subj c) (Some fs) (c_should c) (c_only c) (c_not c) (c_exc c) (c_imp c) (c_any c); st_next := st_next st |}
  end.

Definition set_dep (st : rstate) (imp exc any : bool) : rstate :=
  let c := st_cfg st in
  {| st_cfg := set_field c (c_subj c) (c_obj c) (c_should c) (c_only c) (c_not c)
                         (c_exc c || exc) (Some imp) (c_any c || any);
     st_next := Some false |}.

Definition rstep (st : rstate) (call : rcall) : res rstate :=
  let c := st_cfg st in
  match call with
  | RModulesThat => Ok {| st_cfg := c; st_next := Some true |}
  | RAreNamed ns => set_modules st (map UNamed ns)
  | RAreSubModulesOf ns => set_modules st (map USubOf ns)
  | RHaveNameMatching r => set_modules st [URegex r]
  | RHaveNameContaining rs => set_modules st (map URegex rs)
  | RShould => Ok {| st_cfg := set_field c (c_subj c) (c_obj c) true (c_only c) (c_not c) (c_exc c) (c_imp c) (c_any c); st_next := st_next st |}
  | RShouldOnly => Ok {| st_cfg := set_field c (c_subj c) (c_obj c) (c_should c) true (c_not c) (c_exc c) (c_imp c) (c_any c); st_next := st_next st |}
  | RShouldNot => Ok {| st_cfg := set_field c (c_subj c) (c_obj c) (c_should c) (c_only c) true (c_exc c) (c_imp c) (c_any c); st_next := st_next st |}
  | RImport => Ok (set_dep st true false false)
  | RBeImportedBy => Ok (set_dep st false false false)
  | RImportExcept => Ok (set_dep st true true false)
  | RBeImportedByExcept => Ok (set_dep st false true false)
  | RImportAnything => Ok (set_dep st true false true)
  | RBeImportedByAnything => Ok (set_dep st false false true)
  end.

Fixpoint rbuild (st : rstate) (calls : list rcall) : res rstate :=
  match calls with
  | [] => Ok st
  | c :: r => match rstep st c with Ok st' => rbuild st' r | Er e => Er e end
  end.

(* a chain of builder calls followed by assert_applies(g) *)
Definition run_rule (g : graph) (calls : list rcall) : @outcome comp :=
  match rbuild rinit calls with
  | Er e => Err e
  | Ok st => snd (assert_applies ceqb rmatch g (st_cfg st))
  end.

(* ---- specification automaton: only the kinds of calls matter ---- *)
Record sview := {
  v_side : option bool;     (* which side the next module list fills *)
  v_subj : bool;            (* a non-empty subject list is set *)
  v_obj : bool;             (* a non-empty object list is set *)
  v_should : bool; v_only : bool; v_not : bool;
  v_imp : bool;             (* an import type was chosen *)
  v_any : bool              (* an 'anything' object was chosen *)
}.

Definition sinit : sview :=
  {| v_side := None; v_subj := false; v_obj := false; v_should := false; v_only := false; v_not := false;
     v_imp := false; v_any := false |}.

Definition nonempty_call (call : rcall) : bool :=
  match call with
  | RAreNamed ns | RAreSubModulesOf ns => negb (match ns with [] => true | _ => false end)
  | RHaveNameContaining rs => negb (match rs with [] => true | _ => false end)
  | RHaveNameMatching _ => true
  | _ => false
  end.

Definition is_modules_call (call : rcall) : bool :=
  match call with
  | RAreNamed _ | RAreSubModulesOf _ | RHaveNameMatching _ | RHaveNameContaining _ => true
  | _ => false
  end.

(* None = the call itself is rejected (object or subject list before any side was opened) *)
Definition sstep (v : sview) (call : rcall) : option sview :=
  let upd side subj obj sh on no im an :=
      {| v_side := side; v_subj := subj; v_obj := obj; v_should := sh; v_only := on; v_not := no; v_imp := im; v_any := an |} in
  if is_modules_call call then
    match v_side v with
    | None => None
    | Some true => Some (upd (v_side v) (nonempty_call call) (v_obj v) (v_should v) (v_only v) (v_not v) (v_imp v) (v_any v))
    | Some false => Some (upd (v_side v) (v_subj v) (nonempty_call call) (v_should v) (v_only v) (v_not v) (v_imp v) (v_any v))
    end
  else
  match call with
  | RModulesThat => Some (upd (Some true) (v_subj v) (v_obj v) (v_should v) (v_only v) (v_not v) (v_imp v) (v_any v))
  | RShould => Some (upd (v_side v) (v_subj v) (v_obj v) true (v_only v) (v_not v) (v_imp v) (v_any v))
  | RShouldOnly => Some (upd (v_side v) (v_subj v) (v_obj v) (v_should v) true (v_not v) (v_imp v) (v_any v))
  | RShouldNot => Some (upd (v_side v) (v_subj v) (v_obj v) (v_should v) (v_only v) true (v_imp v) (v_any v))
  | RImport | RBeImportedBy | RImportExcept | RBeImportedByExcept =>
      Some (upd (Some false) (v_subj v) (v_obj v) (v_should v) (v_only v) (v_not v) true (v_any v))
  | RImportAnything | RBeImportedByAnything =>
      Some (upd (Some false) (v_subj v) (v_obj v) (v_should v) (v_only v) (v_not v) true true)
  | _ => None
  end.

Fixpoint srun (v : sview) (calls : list rcall) : option sview :=
  match calls with
  | [] => Some v
  | c :: r => match sstep v c with Some v' => srun v' r | None => None end
  end.

(* the documented conditions for a rule that may be evaluated at all *)
Definition complete (v : sview) : bool :=
  v_subj v                                          (* a subject *)
  && (v_should v || v_only v || v_not v)            (* a verb *)
  && v_imp v                                        (* an import type *)
  && (v_obj v || v_any v)                           (* an object, or 'anything' *)
  && negb (v_not v && (v_should v || v_only v))     (* should_not is not combined with another verb *)
  && negb (v_any v && (v_should v || v_only v)).    (* 'anything' only with should_not *)

Definition spec_accepts (calls : list rcall) : bool :=
  match srun sinit calls with Some v => complete v | None => false end.

End Builder.
Arguments RModulesThat {comp}.  Arguments RAreNamed {comp} ns.  Arguments RAreSubModulesOf {comp} ns.
Arguments RHaveNameMatching {comp} r.  Arguments RHaveNameContaining {comp} rs.
Arguments RShould {comp}.  Arguments RShouldOnly {comp}.  Arguments RShouldNot {comp}.
Arguments RImport {comp}.  Arguments RBeImportedBy {comp}.  Arguments RImportExcept {comp}.
Arguments RBeImportedByExcept {comp}.  Arguments RImportAnything {comp}.  Arguments RBeImportedByAnything {comp}.
