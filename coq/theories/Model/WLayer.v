(* WLayer.v — LayerRule.assert_applies over the WORKLIST loops (Model/Worklist.v): as Model/Layer.v's
   [layer_assert_applies], the three graph queries being the transcribed loops.  [None] = out of fuel (never, see
   WLayerProofs).  Definitions only. *)
From Coq Require Import List Bool NArith.
From PTA Require Import Names Graph Search Worklist Rule Builder Layer.
Import ListNotations.

Section WLayer.
Context {comp : Type} (ceqb : comp -> comp -> bool).
Variable rmatch : N -> list comp -> bool.
Notation name := (list comp).
Notation graph := (@graph comp).
Notation filt := (@filt comp).

(* everything LayerRuleMatcher does with the two query tables *)
Definition lbuckets (c : @cfg comp) (um : list (N * list name)) (imp : bool) (subjs objs : list filt)
           (e : list ((filt * filt) * list (name * name))) (o : list (filt * list (name * name))) : res (list lline) :=
  bind (lrealised ceqb um imp e) (fun re =>
  bind (lrealised ceqb um imp o) (fun ro =>
  bind (lmissing_explicit ceqb um imp e) (fun me =>
  bind (lmissing_any ceqb um imp subjs objs ro) (fun ma =>
    let on (b : bool) (l : list lline) := if b then l else [] in
    Ok (on (c_should c && negb (c_exc c)) me
     ++ on (c_only c && negb (c_exc c)) ro
     ++ on (c_only c && negb (c_exc c)) me
     ++ on (c_not c && negb (c_exc c)) re
     ++ on (c_should c && c_exc c) ma
     ++ on (c_only c && c_exc c) re
     ++ on (c_only c && c_exc c) ma
     ++ on (c_not c && c_exc c) ro))))).

Definition w_lviolations (g : graph) (c : @cfg comp) (um : list (N * list name)) (imp : bool) (subjs objs : list filt)
  : option (res (list lline)) :=
  let importers := if imp then subjs else objs in
  let importees := if imp then objs else subjs in
  let need_expl := expl_required c || expl_forbidden c in
  let need_other := other_required c || other_forbidden c in
  match (if need_expl then w_get_dependencies ceqb g importers importees else Some (Ok [])) with
  | None => None
  | Some (Er e) => Some (Er e)
  | Some (Ok e) =>
    match (if need_other then (if imp then w_other_out_all ceqb g importers importees
                               else w_other_in_all ceqb g importers importees) else Some (Ok [])) with
    | None => None
    | Some (Er e') => Some (Er e')
    | Some (Ok o) => Some (lbuckets c um imp subjs objs e o)
    end
  end.

Definition w_layer_assert_applies (g : graph) (a : @larch comp) (c0 : @cfg comp) : option loutcome :=
  if c_any c0 && (c_should c0 || c_only c0) then Some (LErr EConfig) else
  let c := convert_aliases ceqb c0 in
  if negb (required_present c) then Some (LErr EConfig) else
  if negb (behavior_consistent c) then Some (LErr EInconsistent) else
  if c_any c0 && removed_unknown ceqb g (opt_list (c_subj c0)) then Some (LErr ENoMatch) else
  let imp := match c_imp c with Some b => b | None => true end in
  match convert rmatch g (opt_list (c_subj c)) with
  | Er e => Some (LErr e)
  | Ok subjs =>
    match convert rmatch g (opt_list (c_obj c)) with
    | Er e => Some (LErr e)
    | Ok objs =>
      match w_lviolations g c (updated_mapping rmatch g c a) imp subjs objs with
      | None => None
      | Some (Er e) => Some (LErr e)
      | Some (Ok []) => Some LPass
      | Some (Ok ls) => Some (LFail ls)
      end
    end
  end.

(* a LayerRule history followed by assert_applies(g), evaluated over the loops *)
Definition w_run_layer_rule (g : graph) (calls : list (@lrcall comp)) : option loutcome :=
  match lr_run lrinit calls with
  | Er e => Some (LErr e)
  | Ok st => match lr_rule st with
             | None => Some (LErr EConfig)
             | Some r => w_layer_assert_applies g (lr_map st) (st_cfg r)
             end
  end.

End WLayer.
