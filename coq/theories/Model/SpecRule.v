(* SpecRule.v — the documented semantics of module rules, stated over the
   prefix order on names and the import relation only.  Short enough to read
   in minutes; no exclusion-set bookkeeping, no buckets.

   D(Named X)  = X and all its descendants;   D(SubOf X) = X's strict descendants.
   "edge"  requirements are judged per subject/object pair;
   "other" requirements per subject against all objects jointly.
   Imports that stay inside the subject never count as "something else":
     import direction:      a target inside X's whole subtree is inside, also for SubOf X
     be-imported direction: an importer counts as inside only if it is in D(S);
                            for SubOf X the parent X itself is "something else"
   (this asymmetry is the code's and its docstrings'; the user documentation is
   silent about X itself — see DESIGN section 3). *)
From Coq Require Import List Bool.
From PTA Require Import Names Graph Search.
Import ListNotations.

Section SpecRule.
Context {comp : Type} (ceqb : comp -> comp -> bool).
Notation name := (list comp).
Notation prefixb := (prefixb ceqb).
Notation graph := (@graph comp).
Notation filt := (@filt comp).
Notation inD := (inD ceqb).

Inductive verb := Should | ShouldOnly | ShouldNot.

(* (subject-side module, other-side module) of an import edge, per direction *)
Definition orient (imp : bool) (e : name * name) : name * name :=
  if imp then e else (snd e, fst e).

Definition inside (imp : bool) (S : filt) (y : name) : bool :=
  if imp then prefixb (fid S) y else inD S y.

(* some module of D(S) imports (is imported by) some module of D(O) *)
Definition sp_edge (g : graph) (imp : bool) (S O : filt) : bool :=
  existsb (fun e => let xy := orient imp e in inD S (fst xy) && inD O (snd xy)) (imps g).

(* the pair (x, y) is an import between D(S) and "something else" *)
Definition is_other (imp : bool) (S : filt) (Os : list filt) (xy : name * name) : bool :=
  inD S (fst xy) && negb (inside imp S (snd xy)) && forallb (fun O => negb (inD O (snd xy))) Os.

Definition sp_other (g : graph) (imp : bool) (S : filt) (Os : list filt) : bool :=
  existsb (fun e => is_other imp S Os (orient imp e)) (imps g).

Definition spec_holds (g : graph) (v : verb) (imp exc : bool) (Ss Os : list filt) : bool :=
  match v, exc with
  | Should, false => forallb (fun S => forallb (sp_edge g imp S) Os) Ss
  | ShouldNot, false => forallb (fun S => forallb (fun O => negb (sp_edge g imp S O)) Os) Ss
  | ShouldOnly, false => forallb (fun S => forallb (sp_edge g imp S) Os) Ss
                         && forallb (fun S => negb (sp_other g imp S Os)) Ss
  | Should, true => forallb (fun S => sp_other g imp S Os) Ss
  | ShouldOnly, true => forallb (fun S => sp_other g imp S Os) Ss
                        && forallb (fun S => forallb (fun O => negb (sp_edge g imp S O)) Os) Ss
  | ShouldNot, true => forallb (fun S => negb (sp_other g imp S Os)) Ss
  end.

End SpecRule.
