(* Names.v — module names as lists of components.  The core model uses no
   operation on components other than [ceqb] (this is what makes C14 a free
   theorem).  Definitions only. *)
From Coq Require Import List Bool.
Import ListNotations.

Section Names.
Context {comp : Type} (ceqb : comp -> comp -> bool).

Definition name := list comp.

Fixpoint name_eqb (a b : name) : bool :=
  match a, b with
  | [], [] => true
  | x :: a', y :: b' => ceqb x y && name_eqb a' b'
  | _, _ => false
  end.

(* a is b or an ancestor of b *)
Fixpoint prefixb (a b : name) : bool :=
  match a, b with
  | [], _ => true
  | x :: a', y :: b' => ceqb x y && prefixb a' b'
  | _ :: _, [] => false
  end.

Definition sprefixb (a b : name) : bool := prefixb a b && negb (name_eqb a b).
Definition related (a b : name) : bool := prefixb a b || prefixb b a.

Definition memb (n : name) (l : list name) : bool := existsb (name_eqb n) l.
Definition removeb (n : name) (l : list name) : list name := filter (fun m => negb (name_eqb n m)) l.

Definition pair_eqb (e f : name * name) : bool := name_eqb (fst e) (fst f) && name_eqb (snd e) (snd f).
Definition pmemb (e : name * name) (l : list (name * name)) : bool := existsb (pair_eqb e) l.

Fixpoint dedup (l : list name) : list name :=
  match l with
  | [] => []
  | x :: r => if memb x r then dedup r else x :: dedup r
  end.

Fixpoint pdedup (l : list (name * name)) : list (name * name) :=
  match l with
  | [] => []
  | x :: r => if pmemb x r then pdedup r else x :: pdedup r
  end.

(* proper ancestors, shortest first: types.get_parent_modules *)
Fixpoint proper_prefixes (n : name) : list name :=
  match n with
  | [] => []
  | [_] => []
  | x :: r => [x] :: map (cons x) (proper_prefixes r)
  end.

End Names.

(* ---- the string layer: a component is a string, a name renders with dots ---- *)
From Coq Require Import NArith.
Definition DOTC : N := 46%N.
Fixpoint render (n : list (list N)) : list N :=
  match n with
  | [] => []
  | [c] => c
  | c :: r => c ++ DOTC :: render r
  end.
