(* Sx.v — the wire format between the harness and the model.

   One case = one s-expression of natural numbers.  Decoders and encoders are
   written in Gallina so that the very same [run] is evaluated by the extracted
   OCaml binary and, for the extraction self-check, by [vm_compute] inside Coq.
   Definitions only; no proofs in Model/. *)
From Coq Require Import List NArith Bool.
Import ListNotations.

Inductive sx := A (n : N) | L (l : list sx).

Definition str := list N.          (* a string = list of code points *)

Definition sx_err : sx := L [A 99%N; A 99%N; A 99%N].   (* malformed case *)

Definition as_N (s : sx) : option N := match s with A n => Some n | L _ => None end.
Definition as_L (s : sx) : option (list sx) := match s with L l => Some l | A _ => None end.

Fixpoint map_opt {X Y} (f : X -> option Y) (l : list X) : option (list Y) :=
  match l with
  | [] => Some []
  | x :: r => match f x, map_opt f r with Some y, Some r' => Some (y :: r') | _, _ => None end
  end.

Definition as_Ns (s : sx) : option (list N) :=
  match s with L l => map_opt as_N l | A _ => None end.
Definition as_Nss (s : sx) : option (list (list N)) :=
  match s with L l => map_opt as_Ns l | A _ => None end.
Definition as_bool (s : sx) : option bool :=
  match s with A 0%N => Some false | A 1%N => Some true | _ => None end.
Definition as_pair {X Y} (f : sx -> option X) (g : sx -> option Y) (s : sx) : option (X * Y) :=
  match s with
  | L [a; b] => match f a, g b with Some x, Some y => Some (x, y) | _, _ => None end
  | _ => None
  end.
Definition as_list {X} (f : sx -> option X) (s : sx) : option (list X) :=
  match s with L l => map_opt f l | A _ => None end.
Definition as_opt {X} (f : sx -> option X) (s : sx) : option (option X) :=
  match s with
  | L [] => Some None
  | L [a] => match f a with Some x => Some (Some x) | None => None end
  | _ => None
  end.

Definition of_bool (b : bool) : sx := A (if b then 1%N else 0%N).
Definition of_Ns (l : list N) : sx := L (map A l).
Definition of_Nss (l : list (list N)) : sx := L (map of_Ns l).
Definition of_list {X} (f : X -> sx) (l : list X) : sx := L (map f l).
Definition of_pair {X Y} (f : X -> sx) (g : Y -> sx) (p : X * Y) : sx := L [f (fst p); g (snd p)].
Definition of_opt {X} (f : X -> sx) (o : option X) : sx :=
  match o with None => L [] | Some x => L [f x] end.
