(* Puml.v — diagram_parser.py on the documented subset of PlantUML component
   diagrams: tag slicing, line forms (declarations, arrows), alias resolution
   and merge of dependencies per component.  Strings are lists of code points.
   Definitions only. *)
From Coq Require Import List Bool NArith.
From PTA Require Import Sx Names Search Label.
Import ListNotations.
Open Scope N_scope.

(* ---- semantic level ---- *)
Inductive pline :=
  | PDecl (n : str) (alias : option str)        (* [n] / component n / component [n], optionally 'as alias' *)
  | PArrow (dependor dependee : str)            (* references as written: a component name or an alias *)
  | PNoise.

Definition lookup_alias (aliases : list (str * str)) (s : str) : str :=
  match find (fun an => str_eqb (fst an) s) aliases with
  | Some an => snd an
  | None => s
  end.

Definition smemb (s : str) (l : list str) : bool := existsb (str_eqb s) l.
Fixpoint sdedup (l : list str) : list str :=
  match l with [] => [] | x :: r => if smemb x r then sdedup r else x :: sdedup r end.
Definition spair_eqb (p q : str * str) : bool := str_eqb (fst p) (fst q) && str_eqb (snd p) (snd q).
Fixpoint spdedup (l : list (str * str)) : list (str * str) :=
  match l with [] => [] | x :: r => if existsb (spair_eqb x) r then spdedup r else x :: spdedup r end.

Definition decls (ls : list pline) : list (str * option str) :=
  flat_map (fun l => match l with PDecl n a => [(n, a)] | _ => [] end) ls.
Definition aliases_of (ls : list pline) : list (str * str) :=
  flat_map (fun l => match l with PDecl n (Some a) => [(a, n)] | _ => [] end) ls.
Definition arrows (ls : list pline) : list (str * str) :=
  flat_map (fun l => match l with PArrow a b => [(a, b)] | _ => [] end) ls.

(* ParsedDependencies: all components, and the dependor -> dependee relation, aliases resolved *)
Definition parse_lines (ls : list pline) : list str * list (str * str) :=
  let al := aliases_of ls in
  let rel := map (fun ab => (lookup_alias al (fst ab), lookup_alias al (snd ab))) (arrows ls) in
  (sdedup (map fst (decls ls) ++ flat_map (fun ab => [fst ab; snd ab]) rel), spdedup rel).

(* ---- lexical level ---- *)
Definition SP := 32.  Definition TAB := 9.  Definition LF := 10.  Definition CR := 13.
Definition LBR := 91. Definition RBR := 93. Definition MINUS := 45. Definition LT := 60. Definition GT := 62.
Definition USC := 95.

Definition is_ws (c : N) : bool := N.eqb c SP || N.eqb c TAB || N.eqb c CR.

(* \w for the code points the generators use: ASCII letters, digits, underscore, and everything above 127 *)
Definition is_word (c : N) : bool :=
  (N.leb 48 c && N.leb c 57) || (N.leb 65 c && N.leb c 90) || (N.leb 97 c && N.leb c 122) || N.eqb c USC || N.leb 128 c.
Definition is_name_char (c : N) : bool := is_word c || N.eqb c DOTC.      (* dotted module names *)
Definition is_name (s : str) : bool := negb (match s with [] => true | _ => false end) && forallb is_name_char s.

(* split on runs of whitespace *)
Fixpoint tokens_aux (cur : str) (s : str) : list str :=
  match s with
  | [] => match cur with [] => [] | _ => [rev cur] end
  | c :: r => if is_ws c then (match cur with [] => tokens_aux [] r | _ => rev cur :: tokens_aux [] r end)
              else tokens_aux (c :: cur) r
  end.
Definition tokens (s : str) : list str := tokens_aux [] s.

Definition COMPONENT : str := [99; 111; 109; 112; 111; 110; 101; 110; 116].
Definition AS : str := [97; 115].

(* "[name]" -> name *)
Definition unbracket (t : str) : option str :=
  match t with
  | c :: r => if N.eqb c LBR then
                match rev r with
                | d :: m => if N.eqb d RBR then (let n := rev m in if is_name n then Some n else None) else None
                | [] => None
                end
              else None
  | [] => None
  end.

(* a reference in an arrow line: bracketed or bare *)
Definition as_ref (t : str) : option str :=
  match unbracket t with
  | Some n => Some n
  | None => if is_name t then Some t else None
  end.

(* -->, ->, -text->  /  <--, <-, <-text- *)
Definition arrow_right (t : str) : bool :=
  match t with
  | c :: r => N.eqb c MINUS &&
      match rev r with
      | g :: m => N.eqb g GT &&
          (match m with
           | [] => true                                    (* -> *)
           | d :: w => N.eqb d MINUS && forallb is_word w  (* --> and -text-> (text reversed in w) *)
           end)
      | [] => false
      end
  | [] => false
  end.
Definition arrow_left (t : str) : bool :=
  match t with
  | c :: d :: r => N.eqb c LT && N.eqb d MINUS &&
      match rev r with
      | [] => true                                         (* <- *)
      | e :: w => N.eqb e MINUS && forallb is_word w       (* <-- and <-text- *)
      end
  | _ => false
  end.

Definition join_sp (ts : list str) : str := concat (map (fun t => t ++ [SP]) ts).

Definition lex_line (s : str) : pline :=
  match tokens s with
  | [t] => match unbracket t with Some n => PDecl n None | None => PNoise end
  | [t1; t2] =>
      if str_eqb t1 COMPONENT then
        match unbracket t2 with
        | Some n => PDecl n None
        | None => if is_name t2 then PDecl t2 None else PNoise
        end
      else PNoise
  | [a; ar; b] =>
      match as_ref a, as_ref b with
      | Some x, Some y => if arrow_right ar then PArrow x y else if arrow_left ar then PArrow y x
                          else (match unbracket a with
                                | Some n => if str_eqb ar AS then PDecl n (Some b) else PNoise
                                | None => PNoise end)
      | _, _ => match unbracket a with
                | Some n => if str_eqb ar AS then PDecl n (Some b) else PNoise
                | None => PNoise end
      end
  | [c; t; a; al] =>
      if str_eqb c COMPONENT && str_eqb a AS then
        match unbracket t with Some n => PDecl n (Some al) | None => PNoise end
      else PNoise
  | _ => PNoise
  end.

(* ---- text level: tags, lines ---- *)
Definition STARTUML : str := [64; 115; 116; 97; 114; 116; 117; 109; 108].
Definition ENDUML : str := [64; 101; 110; 100; 117; 109; 108].

(* positions (as remaining suffixes) where [pat] occurs *)
Fixpoint split_lines_aux (cur : str) (s : str) : list str :=
  match s with
  | [] => [rev cur]
  | c :: r => if N.eqb c LF then rev cur :: split_lines_aux [] r else split_lines_aux (c :: cur) r
  end.
Definition split_lines (s : str) : list str := split_lines_aux [] s.

(* text before the last occurrence of pat, and text after it *)
Fixpoint last_split_aux (pat : str) (fuel : nat) (before : str) (s : str) (best : option (str * str)) : option (str * str) :=
  match fuel with
  | O => best
  | S f =>
    let best' := if starts_with pat s then Some (rev before, skipn (length pat) s) else best in
    match s with
    | [] => best'
    | c :: r => last_split_aux pat f (c :: before) r best'
    end
  end.
Definition last_split (pat s : str) : option (str * str) := last_split_aux pat (S (length s)) [] s None.

(* re.search('.*@startuml(.+)@enduml.*', DOTALL): the last @enduml, and before it the last @startuml
   that leaves at least one character in between *)
Definition slice_tags (s : str) : option str :=
  match last_split ENDUML s with
  | None => None
  | Some (before_end, _) =>
      (* the last start tag inside before_end with non-empty content after it *)
      match last_split STARTUML (removelast before_end) with
      | Some (_, content) => Some (content ++ (match rev before_end with c :: _ => [c] | [] => [] end))
      | None => None
      end
  end.

Definition parse_text (s : str) : option (list str * list (str * str)) :=
  match slice_tags s with
  | None => None                                   (* PumlParsingError *)
  | Some content => Some (parse_lines (map lex_line (split_lines content)))
  end.

(* fn 21 *)
Definition run_puml (arg : sx) : sx :=
  match as_Ns arg with
  | Some s => match parse_text s with
              | None => L [A 0]
              | Some (ms, rel) => L [A 1; of_Nss ms; of_list (of_pair of_Ns of_Ns) rel]
              end
  | None => sx_err
  end.
