(* Diagram.v — dependency_to_rule_converter.py, diagram_rule.py (prefixing),
   multiple_rule_applier.py (aggregation).  Definitions only. *)
From Coq Require Import List Bool NArith.
From PTA Require Import Names Graph Search Rule.
Import ListNotations.

Section Diagram.
Context {comp : Type} (ceqb : comp -> comp -> bool).
Notation name := (list comp).
Notation name_eqb := (name_eqb ceqb).
Notation memb := (memb ceqb).
Notation graph := (@graph comp).
Variable rmatch : N -> name -> bool.

(* parsed dependencies: all components, dependor -> dependee pairs *)
Record pdeps := { pd_mods : list name; pd_rel : list (name * name) }.

(* ModulePrefixer.prefix / with_base_module *)
Definition prefix_deps (p : option name) (d : pdeps) : pdeps :=
  match p with
  | None => d
  | Some pre => {| pd_mods := map (app pre) (pd_mods d);
                   pd_rel := map (fun e => (pre ++ fst e, pre ++ snd e)) (pd_rel d) |}
  end.

Definition targets (d : pdeps) (a : name) : list name :=
  dedup ceqb (flat_map (fun e => if name_eqb (fst e) a then [snd e] else []) (pd_rel d)).
Definition dependors (d : pdeps) : list name := dedup ceqb (map fst (pd_rel d)).
Definition non_targets (d : pdeps) (a : name) : list name :=
  filter (fun b => negb (name_eqb b a) && negb (memb b (targets d a))) (pd_mods d).

Definition rule_cfg (sh on no : bool) (s : name) (os : list name) : @cfg comp :=
  {| c_subj := Some [UNamed s]; c_obj := Some (map UNamed os);
     c_should := sh; c_only := on; c_not := no; c_exc := false; c_imp := Some true; c_any := false |}.

(* one should(-only) rule per component with arrows, one should-not rule per component over all non-targets *)
Definition diagram_rules (only : bool) (d : pdeps) : list (@cfg comp) :=
  map (fun a => rule_cfg (negb only) only false a (targets d a)) (dependors d)
  ++ flat_map (fun a => match non_targets d a with
                        | [] => []
                        | ns => [rule_cfg false false true a ns]
                        end) (pd_mods d).

(* MultipleRuleApplier: evaluate every rule, aggregate the failures; another exception ends the evaluation *)
Fixpoint aggregate (os : list (@outcome comp)) (failed : bool) (acc : list (@line comp)) : @outcome comp :=
  match os with
  | [] => if failed then Fail acc else Pass
  | Pass :: r => aggregate r failed acc
  | Fail ls :: r => aggregate r true (acc ++ ls)
  | Err e :: _ => Err e
  end.

Definition diagram_apply (g : graph) (only : bool) (base : option name) (d : pdeps) : @outcome comp :=
  aggregate (map (verdict ceqb rmatch g) (diagram_rules only (prefix_deps base d))) false [].

(* DiagramRule: a file has to be given; the parser may reject it *)
Definition diagram_rule (g : graph) (only : bool) (has_file : bool) (base : option name) (parsed : option pdeps) : @outcome comp :=
  if negb has_file then Err EConfig
  else match parsed with
       | None => Err ELookup                 (* PumlParsingError *)
       | Some d => diagram_apply g only base d
       end.

(* the DiagramRule builder: from_file / with_base_module / base_module_included_in_module_names, in any order and number *)
Inductive dcall := DFromFile | DWithBase (p : name) | DBaseIncluded.
Definition dstep (st : bool * option name) (c : dcall) : bool * option name :=
  match c with
  | DFromFile => (true, snd st)
  | DWithBase p => (fst st, Some p)
  | DBaseIncluded => st
  end.
(* [parsed]: what the parser makes of the file given last (None: PumlParsingError, e.g. no start/end tags - Puml.parse_text) *)
Definition diagram_history (g : graph) (only : bool) (calls : list dcall) (parsed : option pdeps) : @outcome comp :=
  let st := fold_left dstep calls (false, None) in
  diagram_rule g only (fst st) (snd st) parsed.

End Diagram.
