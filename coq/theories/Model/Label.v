(* Label.v — networkxgraph.py:212-296: plot labels with aliases (string level),
   existence check, hand-off of the remaining drawing options.  Definitions only. *)
From Coq Require Import List Bool NArith.
From PTA Require Import Sx Names Search.
Import ListNotations.
Open Scope N_scope.

Fixpoint str_eqb (a b : str) : bool :=
  match a, b with
  | [], [] => true
  | x :: a', y :: b' => N.eqb x y && str_eqb a' b'
  | _, _ => false
  end.

Fixpoint starts_with (p s : str) : bool :=
  match p, s with
  | [], _ => true
  | x :: p', y :: s' => N.eqb x y && starts_with p' s'
  | _ :: _, [] => false
  end.

(* the aliased module is the module itself or an ancestor: whole dotted components *)
Definition key_matches (k m : str) : bool := str_eqb m k || starts_with (k ++ [DOTC]) m.

(* sorted(aliases.keys(), key=len, reverse=True): stable insertion sort, longest first *)
Fixpoint insert_by_len (ka : str * str) (l : list (str * str)) : list (str * str) :=
  match l with
  | [] => [ka]
  | kb :: r => if Nat.ltb (length (fst kb)) (length (fst ka)) then ka :: kb :: r else kb :: insert_by_len ka r
  end.
Definition sort_by_len_desc (l : list (str * str)) : list (str * str) :=
  fold_right (fun ka acc => insert_by_len ka acc) [] (rev l).

(* _create_label: first aliased name (longest first) at or above the module; its text replaced by the alias *)
Definition label (aliases : list (str * str)) (m : str) : str :=
  match find (fun ka => key_matches (fst ka) m) (sort_by_len_desc aliases) with
  | Some ka => snd ka ++ skipn (length (fst ka)) m
  | None => m
  end.

(* _create_plot_labels_with_alias: every alias key must be a module; then one label per module *)
Definition plot_labels (aliases : list (str * str)) (mods : list str) : option str + list (str * str) :=
  match find (fun ka => negb (existsb (str_eqb (fst ka)) mods)) aliases with
  | Some ka => inl (Some (fst ka))                     (* KeyError naming the unknown module *)
  | None => inr (map (fun m => (m, label aliases m)) mods)
  end.

(* draw with keyword options: 'spacing' and 'aliases' are consumed, 'pos' / 'labels' added, the rest untouched.
   Option names are numbers: 0 spacing, 1 aliases, 2 pos, 3 labels, >= 4 anything else. *)
Definition K_SPACING := 0.  Definition K_ALIASES := 1.  Definition K_POS := 2.  Definition K_LABELS := 3.
Definition set_kw (k : N) (v : N) (kw : list (N * N)) : list (N * N) :=
  if existsb (fun kv => N.eqb (fst kv) k) kw
  then map (fun kv => if N.eqb (fst kv) k then (k, v) else kv) kw
  else kw ++ [(k, v)].
Definition remove_kw (k : N) (kw : list (N * N)) : list (N * N) := filter (fun kv => negb (N.eqb (fst kv) k)) kw.
Definition has_kw (k : N) (kw : list (N * N)) : bool := existsb (fun kv => N.eqb (fst kv) k) kw.

(* pos_token / labels_token stand for the computed layout and label dict *)
Definition draw_kwargs (kw : list (N * N)) (pos_token labels_token : N) : list (N * N) :=
  let kw1 := if has_kw K_SPACING kw then set_kw K_POS pos_token (remove_kw K_SPACING kw) else kw in
  if has_kw K_ALIASES kw1 then set_kw K_LABELS labels_token (remove_kw K_ALIASES kw1) else kw1.

(* ---- wire ---- *)
Definition as_alias : sx -> option (str * str) := as_pair as_Ns as_Ns.
Definition run_plot_labels (arg : sx) : sx :=
  match as_pair (as_list as_alias) (as_list as_Ns) arg with
  | Some (al, mods) =>
    match plot_labels al mods with
    | inl (Some k) => L [A 1; of_Ns k]
    | inl None => L [A 1; L []]
    | inr ls => L [A 0; of_list (of_pair of_Ns of_Ns) ls]
    end
  | None => sx_err
  end.
Definition run_draw_kwargs (arg : sx) : sx :=
  match as_list (as_pair as_N as_N) arg with
  | Some kw => of_list (of_pair A A) (draw_kwargs kw 1000 1001)
  | None => sx_err
  end.
