(* Rule.v — query_language/rule.py (configuration, alias rewrite, required
   configuration), behavior_requirement.py (four flags + validation),
   module_requirement.py (importer/importee swap), module_name_converter.py
   (regex -> names through an oracle), rule_matcher.py,
   rule_violation_detector.py (eight buckets), message_generator.py (abstract
   lines).  Definitions only. *)
From Coq Require Import List Bool NArith.
From PTA Require Import Names Graph Search.
Import ListNotations.

Section Rule.
Context {comp : Type} (ceqb : comp -> comp -> bool).
Notation name := (list comp).
Notation name_eqb := (name_eqb ceqb).
Notation prefixb := (prefixb ceqb).
Notation sprefixb := (sprefixb ceqb).
Notation memb := (memb ceqb).
Notation graph := (@graph comp).
Notation filt := (@filt comp).

(* Python's re.match(pattern, name) is not None, for the patterns of one rule *)
Variable rmatch : N -> name -> bool.

(* filters as the user writes them *)
Inductive ufilt := UNamed (n : name) | USubOf (n : name) | URegex (r : N).

Record cfg := {
  c_subj : option (list ufilt);      (* modules_to_check *)
  c_obj : option (list ufilt);       (* modules_to_check_against *)
  c_should : bool;
  c_only : bool;
  c_not : bool;
  c_exc : bool;                      (* except_present *)
  c_imp : option bool;               (* import_ *)
  c_any : bool                       (* rule_object_anything *)
}.

Definition cfg_init : cfg :=
  {| c_subj := None; c_obj := None; c_should := false; c_only := false; c_not := false;
     c_exc := false; c_imp := None; c_any := false |}.

(* ---- alias rewrite: "anything" = "except the subjects themselves" ---- *)
Definition uname (f : ufilt) : option name :=
  match f with UNamed n | USubOf n => Some n | URegex _ => None end.

Definition has_listed_ancestor (fs : list ufilt) (f : ufilt) : bool :=
  match uname f with
  | None => false
  | Some n => existsb (fun f' => match uname f' with Some n' => sprefixb n' n | None => false end) fs
  end.

Definition drop_children (fs : list ufilt) : list ufilt :=
  filter (fun f => negb (has_listed_ancestor fs f)) fs.

Definition convert_aliases (c : cfg) : cfg :=
  if c_any c then
    let s' := option_map drop_children (c_subj c) in
    {| c_subj := s'; c_obj := s'; c_should := c_should c; c_only := c_only c; c_not := c_not c;
       c_exc := true; c_imp := c_imp c; c_any := false |}
  else c.

Definition is_empty_opt {X} (o : option (list X)) : bool :=
  match o with None => true | Some [] => true | Some _ => false end.

(* _assert_required_configuration_present *)
Definition required_present (c : cfg) : bool :=
  (c_should c || c_only c || c_not c)
  && (match c_imp c with Some _ => true | None => false end)
  && negb (is_empty_opt (c_subj c)) && negb (is_empty_opt (c_obj c)).

(* ---- BehaviorRequirement ---- *)
Definition expl_required (c : cfg) := (c_should c || c_only c) && negb (c_exc c).
Definition other_required (c : cfg) := c_exc c && (c_should c || c_only c).
Definition expl_forbidden (c : cfg) := (c_not c && negb (c_exc c)) || (c_only c && c_exc c).
Definition other_forbidden (c : cfg) := (c_not c && c_exc c) || (c_only c && negb (c_exc c)).
Definition behavior_consistent (c : cfg) : bool :=
  negb (expl_required c && expl_forbidden c) && negb (other_required c && other_forbidden c).

(* ---- ModuleNameConverter.convert ---- *)
Definition regexes (fs : list ufilt) : list N :=
  flat_map (fun f => match f with URegex r => [r] | _ => [] end) fs.
Definition plain (fs : list ufilt) : list filt :=
  flat_map (fun f => match f with UNamed n => [Named n] | USubOf n => [SubOf n] | URegex _ => [] end) fs.

Definition convert (g : graph) (fs : list ufilt) : res (list filt) :=
  let rs := regexes fs in
  if forallb (fun r => existsb (rmatch r) (nodes g)) rs then
    Ok (map Named (filter (fun n => existsb (fun r => rmatch r n) rs) (nodes g)) ++ plain fs)
  else Er ENoMatch.

(* ---- abstract message lines ---- *)
Inductive line :=
  | LConc (x y : name)                         (* "x" imports "y" / "x" is imported by "y" (user order) *)
  | LMissing (s : filt) (os : list filt)       (* S does not import O1, O2 *)
  | LMissingAny (s : filt) (os : list filt).   (* S does not import any module that is not O1, O2 *)

Inductive outcome := Pass | Fail (ls : list line) | Err (e : err).

Definition swap_pair {X} (p : X * X) : X * X := (snd p, fst p).

(* realised dependencies of a query result, in user (subject, object) order *)
Definition realised {K} (imp : bool) (r : list (K * list (name * name))) : list line :=
  flat_map (fun kv => map (fun e => let e' := if imp then e else swap_pair e in LConc (fst e') (snd e')) (snd kv)) r.

Definition is_nil {X} (l : list X) : bool := match l with [] => true | _ => false end.

(* abstract (subject, object) pairs without realisation, grouped per subject *)
Definition missing_explicit (imp : bool) (subjs : list filt)
           (r : list ((filt * filt) * list (name * name))) : list line :=
  flat_map (fun s =>
    let os := flat_map (fun kv =>
                let so := if imp then fst kv else swap_pair (fst kv) in
                if filt_eqb ceqb (fst so) s && is_nil (snd kv) then [snd so] else []) r in
    if is_nil os then [] else [LMissing s os]) subjs.

Definition missing_any (objs : list filt) (r : list (filt * list (name * name))) : list line :=
  flat_map (fun kv => if is_nil (snd kv) then [LMissingAny (fst kv) objs] else []) r.

(* ---- RuleMatcher.match: queries, eight buckets ---- *)
Definition violations (g : graph) (c : cfg) (imp : bool) (subjs objs : list filt) : res (list line) :=
  let importers := if imp then subjs else objs in
  let importees := if imp then objs else subjs in
  let need_expl := expl_required c || expl_forbidden c in
  let need_other := other_required c || other_forbidden c in
  bind (if need_expl then bind (get_dependencies ceqb g importers importees) (fun r => Ok (Some r)) else Ok None)
  (fun expl =>
  bind (if need_other then
          bind (if imp then other_out_all ceqb g importers importees
                else other_in_all ceqb g importers importees) (fun r => Ok (Some r))
        else Ok None)
  (fun oth =>
    let e := match expl with Some r => r | None => [] end in
    let o := match oth with Some r => r | None => [] end in
    let on (b : bool) (l : list line) := if b then l else [] in
    Ok (on (c_should c && negb (c_exc c)) (missing_explicit imp subjs e)            (* should *)
     ++ on (c_only c && negb (c_exc c)) (realised imp o)                            (* should_only, forbidden import *)
     ++ on (c_only c && negb (c_exc c)) (missing_explicit imp subjs e)              (* should_only, no import *)
     ++ on (c_not c && negb (c_exc c)) (realised imp e)                             (* should_not *)
     ++ on (c_should c && c_exc c) (missing_any objs o)                             (* should except *)
     ++ on (c_only c && c_exc c) (realised imp e)                                   (* should_only except, forbidden *)
     ++ on (c_only c && c_exc c) (missing_any objs o)                               (* should_only except, no import *)
     ++ on (c_not c && c_exc c) (realised imp o)))).                                (* should_not except *)

Definition opt_list {X} (o : option (list X)) : list X := match o with Some l => l | None => [] end.

(* _assert_modules_removed_for_alias_exist (fix D23): a name dropped by the alias rewrite because its parent
   is listed too must still be a module of the graph *)
Definition removed_unknown (g : graph) (fs : list ufilt) : bool :=
  existsb (fun f => has_listed_ancestor fs f &&
                    match uname f with Some n => negb (memb n (nodes g)) | None => false end) fs.

(* Rule.assert_applies: returns the configuration the rule object is left with, and the outcome.
   The alias is rewritten for the evaluation only: the rule object keeps the configuration it was given. *)
Definition assert_applies (g : graph) (c0 : cfg) : cfg * outcome :=
  if c_any c0 && (c_should c0 || c_only c0) then (c0, Err EConfig) else
  let c := convert_aliases c0 in
  if negb (required_present c) then (c0, Err EConfig) else
  if negb (behavior_consistent c) then (c0, Err EInconsistent) else
  if c_any c0 && removed_unknown g (opt_list (c_subj c0)) then (c0, Err ENoMatch) else
  let imp := match c_imp c with Some b => b | None => true end in
  (c0,
   match convert g (opt_list (c_subj c)) with
   | Er e => Err e
   | Ok subjs =>
     match convert g (opt_list (c_obj c)) with
     | Er e => Err e
     | Ok objs =>
       match violations g c imp subjs objs with
       | Er e => Err e
       | Ok [] => Pass
       | Ok ls => Fail ls
       end
     end
   end).

Definition verdict (g : graph) (c : cfg) : outcome := snd (assert_applies g c).

End Rule.
Arguments UNamed {comp} n.  Arguments USubOf {comp} n.  Arguments URegex {comp} r.
Arguments LConc {comp} x y.  Arguments LMissing {comp} s os.  Arguments LMissingAny {comp} s os.
Arguments Pass {comp}.  Arguments Fail {comp} ls.  Arguments Err {comp} e.
