(* Graph.v — the dependency graph as the rule evaluation sees it, and its
   construction (networkxgraph.py).  The hierarchy is carried by the names:
   networkx holds one [inherits] flag per ordered node pair and construction
   always finishes by re-marking hierarchy pairs, so an import from a module to
   its direct child is absorbed.  Definitions only. *)
From Coq Require Import List Bool.
From PTA Require Import Names.
Import ListNotations.

Section Graph.
Context {comp : Type} (ceqb : comp -> comp -> bool).
Notation name := (list comp).
Notation name_eqb := (name_eqb ceqb).
Notation prefixb := (prefixb ceqb).
Notation memb := (memb ceqb).

Record graph := { nodes : list name; imps : list (name * name) }.

(* b = a ++ [c] *)
Definition childb (a b : name) : bool :=
  prefixb a b && Nat.eqb (length b) (S (length a)).

(* _flatten_graph_node: at most limit+1 components *)
Definition flatten (limit : option nat) (n : name) : name :=
  match limit with None => n | Some k => firstn (S k) n end.

Definition add_node (ns : list name) (n : name) : list name :=
  if memb n ns then ns else ns ++ [n].

(* _add_all_modules_as_nodes: each module and all its proper ancestors *)
Definition add_module (limit : option nat) (ns : list name) (m : name) : list name :=
  fold_left add_node (map (flatten limit) (m :: proper_prefixes m)) ns.

(* the loop over imports also creates the importer's ancestors as nodes *)
Definition add_importer (limit : option nat) (ns : list name) (e : name * name) : list name :=
  fold_left add_node (map (flatten limit) (proper_prefixes (fst e))) ns.

Definition build_nodes (limit : option nat) (mods : list name) (imports : list (name * name)) : list name :=
  fold_left (add_importer limit) imports (fold_left (add_module limit) mods []).

(* _create_edge(importer, importee): both flattened nodes exist, not a self edge;
   a pair that is a hierarchy pair is re-marked inherits=True afterwards *)
(* an import becomes an edge only if both of its ends are nodes of the architecture built WITHOUT level limit
   ([full]: _nodes_without_level_limit) - an import of something that is not part of the architecture (an excluded
   file, a name that is no module) must not turn into an import of the ancestor its name is truncated to *)
Definition keep_import (full ns : list name) (limit : option nat) (e : name * name) : option (name * name) :=
  let a := flatten limit (fst e) in
  let b := flatten limit (snd e) in
  if negb (memb (fst e) full && memb (snd e) full) then None
  else if name_eqb a b then None
  else if memb a ns && memb b ns && negb (childb a b) then Some (a, b) else None.

Fixpoint filter_map {X Y} (f : X -> option Y) (l : list X) : list Y :=
  match l with
  | [] => []
  | x :: r => match f x with Some y => y :: filter_map f r | None => filter_map f r end
  end.

Definition build_graph (mods : list name) (imports : list (name * name)) (limit : option nat) : graph :=
  (* nodes known when an import edge is attempted: all modules plus the ancestors of the
     importers processed so far; importer ancestors are ancestors of modules, so the
     final node set is already reached after the module pass *)
  let ns := build_nodes limit mods imports in
  let full := build_nodes None mods imports in
  {| nodes := ns; imps := pdedup ceqb (filter_map (keep_import full ns limit) imports) |}.

End Graph.
Arguments nodes {comp} g.
Arguments imps {comp} g.
