(* Scan.v — from a directory tree to the dependency graph:
   parser.py (walk, module naming from root_path), converter.py (collecting
   import statements anywhere in the statement tree, name resolution),
   graph_generator.py (internal prefix, absolute-import prefix, level limit,
   external modules), import_filter.py, importee_module_calculator.py,
   pytestarch.py (option validation).  Definitions only.

   A path is a list of components below the root directory; a module name is
   root_name :: path.  File/directory exclusion and external exclusion patterns
   are oracles (their glob fragment is modelled and proved in Glob.v). *)
From Coq Require Import List Bool NArith.
From PTA Require Import Names Graph Search.
Import ListNotations.

Section Scan.
Context {comp : Type} (ceqb : comp -> comp -> bool).
Notation name := (list comp).
Notation name_eqb := (name_eqb ceqb).
Notation prefixb := (prefixb ceqb).
Notation memb := (memb ceqb).

(* ---- statement trees ---- *)
Inductive stmt :=
  | SImport (names : list name)                                 (* import a.b.c [as x], d.e *)
  | SFrom (level : nat) (module : option name) (names : list comp)   (* from ..P import n, m   /  from . import n *)
  | SBlock (children : list stmt)       (* any statement with nested statement lists: def, class, if/else, try/except/else/finally, loops, with, match *)
  | SOther.

(* every import statement, at any depth *)
Fixpoint collect_stmt (s : stmt) : list stmt :=
  match s with
  | SImport _ | SFrom _ _ _ => [s]
  | SBlock cs => flat_map collect_stmt cs
  | SOther => []
  end.
Definition collect (body : list stmt) : list stmt := flat_map collect_stmt body.

(* ---- directory trees ---- *)
Inductive fsnode :=
  | FFile (nm : comp) (py : bool) (body : list stmt)
  | FDir (nm : comp) (children : list fsnode).

(* Parser.parse: (module names, (module name, body) of every parsed file); [path] = components below root *)
Fixpoint walk (excl : name -> bool) (root : comp) (path : name) (n : fsnode) : list name * list (name * list stmt) :=
  match n with
  | FFile nm py body =>
      let p := path ++ [nm] in
      if py && negb (excl p) then ([root :: p], [(root :: p, body)]) else ([], [])
  | FDir nm children =>
      let p := path ++ [nm] in
      if excl p then ([], [])
      else
        let rs := map (walk excl root p) children in
        ((root :: p) :: flat_map fst rs, flat_map snd rs)
  end.

(* the children of the directory at [mp] (components below root); None if there is no such directory *)
Fixpoint subdir (children : list fsnode) (mp : name) : option (list fsnode) :=
  match mp with
  | [] => Some children
  | c :: rest =>
      match find (fun n => match n with FDir nm _ => ceqb nm c | FFile _ _ _ => false end) children with
      | Some (FDir _ cs) => subdir cs rest
      | _ => None
      end
  end.

Definition walk_from (excl : name -> bool) (root : comp) (children : list fsnode) (mp : name)
  : option (list name * list (name * list stmt)) :=
  match subdir children mp with
  | None => None
  | Some cs =>
      if excl mp then Some ([], [])
      else let rs := map (walk excl root mp) cs in
           Some ((root :: mp) :: flat_map fst rs, flat_map snd rs)
  end.

(* ---- import resolution ---- *)
Record import_rec := { i_importer : name; i_importee : name; i_chain : list name }.

Definition adjust (internal : list name) (aprefix : option name) (n : name) : name :=
  match aprefix with
  | Some p => if memb (p ++ n) internal then p ++ n else n
  | None => n
  end.

Definition resolve_stmt (internal : list name) (aprefix : option name) (u : name) (s : stmt) : list import_rec :=
  match s with
  | SImport names =>
      map (fun n => let t := adjust internal aprefix n in
                    {| i_importer := u; i_importee := t; i_chain := proper_prefixes t |}) names
  | SFrom O (Some P) names =>
      map (fun nm =>
             let c := adjust internal aprefix (P ++ [nm]) in
             let t := if memb c internal then c else adjust internal aprefix P in
             {| i_importer := u; i_importee := t; i_chain := proper_prefixes t |}) names
  | SFrom O None _ => []
  | SFrom (S l) md names =>
      let base := firstn (length u - S l) u in
      map (fun nm =>
             let rel := match md with Some P => P | None => [nm] end in
             let t := base ++ rel in
             match md with
             | Some P => if memb (t ++ [nm]) internal
                         then {| i_importer := u; i_importee := t ++ [nm]; i_chain := proper_prefixes (t ++ [nm]) |}
                         else {| i_importer := u; i_importee := t; i_chain := proper_prefixes t |}
             | None => {| i_importer := u; i_importee := t; i_chain := proper_prefixes t |}
             end) names
  | _ => []
  end.

Definition file_imports (internal : list name) (aprefix : option name) (f : name * list stmt) : list import_rec :=
  flat_map (resolve_stmt internal aprefix (fst f)) (collect (snd f)).

(* ---- the whole pipeline ---- *)
Record scan_cfg := {
  sc_root : comp;                       (* root_path's directory name *)
  sc_tree : list fsnode;                (* contents of root_path *)
  sc_mp : name;                         (* module_path, as components below root_path *)
  sc_excl : name -> bool;               (* file/directory exclusion on the path below root *)
  sc_exclude_external : bool;
  sc_ext_excl : name -> bool;           (* external exclusion pattern on a dotted module name *)
  sc_has_ext_excl : bool;
  sc_limit : option nat
}.

Definition internal_base (c : scan_cfg) : name := sc_root c :: sc_mp c.
Definition is_internal (c : scan_cfg) (m : name) : bool := prefixb (internal_base c) m.

Definition abs_prefix (c : scan_cfg) : option name :=
  match sc_mp c with [] => None | _ => Some (sc_root c :: removelast (sc_mp c)) end.

Definition effective_limit (c : scan_cfg) : option nat :=
  match sc_limit c with None => None | Some k => Some (k + length (sc_mp c)) end.

Definition keep_import (c : scan_cfg) (i : import_rec) : bool :=
  if is_internal c (i_importee i) then true
  else if sc_exclude_external c then false
  else if sc_has_ext_excl c
       then negb (sc_ext_excl c (i_importee i) || existsb (sc_ext_excl c) (i_chain i))
       else true.

Definition external_modules (c : scan_cfg) (imports : list import_rec) : list name :=
  if sc_exclude_external c then []
  else
    let ext := filter (fun i => negb (is_internal c (i_importee i))) imports in
    let ms := flat_map (fun i => i_importee i :: i_chain i) ext in
    if sc_has_ext_excl c then filter (fun m => negb (sc_ext_excl c m)) ms else ms.

Record scan_result := { sr_modules : list name; sr_imports : list (name * name); sr_graph : @graph comp }.

Definition scan (c : scan_cfg) : option scan_result :=
  match walk_from (sc_excl c) (sc_root c) (sc_tree c) (sc_mp c) with
  | None => None
  | Some (mods, files) =>
      let internal := filter (is_internal c) mods in
      let imports := filter (keep_import c) (flat_map (file_imports internal (abs_prefix c)) files) in
      let all_mods := dedup ceqb (mods ++ external_modules c imports) in
      let edges := map (fun i => (i_importer i, i_importee i)) imports in
      Some {| sr_modules := all_mods; sr_imports := edges;
              sr_graph := build_graph ceqb all_mods edges (effective_limit c) |}
  end.

(* get_evaluable_architecture: the three option guards *)
Definition options_valid (exclusions regex_exclusions exclude_external external_exclusions regex_external_exclusions : bool) : bool :=
  negb (regex_exclusions && exclusions)
  && negb (regex_external_exclusions && external_exclusions)
  && negb (exclude_external && (external_exclusions || regex_external_exclusions)).

End Scan.
Arguments SImport {comp} names.  Arguments SFrom {comp} level module names.  Arguments SBlock {comp} children.
Arguments SOther {comp}.  Arguments FFile {comp} nm py body.  Arguments FDir {comp} nm children.
