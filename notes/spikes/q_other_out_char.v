From Coq Require Import List Bool Arith Lia.
Import ListNotations.

Section Core.
Variable comp : Type.
Variable ceqb : comp -> comp -> bool.
Hypothesis ceqb_spec : forall x y, reflect (x = y) (ceqb x y).

Definition name := list comp.

Fixpoint prefixb (a b : name) : bool :=
  match a, b with
  | [], _ => true
  | x :: a', y :: b' => ceqb x y && prefixb a' b'
  | _ :: _, [] => false
  end.

Fixpoint neqb (a b : name) : bool :=
  match a, b with
  | [], [] => true
  | x :: a', y :: b' => ceqb x y && neqb a' b'
  | _, _ => false
  end.

Lemma neqb_spec a b : reflect (a = b) (neqb a b).
Proof.
  revert b; induction a as [|x a IH]; intros [|y b]; simpl; try (constructor; congruence).
  destruct (ceqb_spec x y) as [->|Hn]; simpl.
  - destruct (IH b) as [->|Hn]; constructor; congruence.
  - constructor; congruence.
Qed.

Lemma prefixb_spec a b : prefixb a b = true <-> exists c, b = a ++ c.
Proof.
  revert b; induction a as [|x a IH]; intros b; simpl.
  - split; eauto.
  - destruct b as [|y b]; [split; [discriminate| intros [c Hc]; discriminate]|].
    rewrite andb_true_iff, IH. destruct (ceqb_spec x y) as [->|Hn].
    + split; [intros [_ [c ->]]; eauto | intros [c Hc]; injection Hc as ->; eauto].
    + split; [intros [H _]; discriminate | intros [c Hc]; injection Hc as -> _; congruence].
Qed.

Lemma prefixb_refl a : prefixb a a = true.
Proof. apply prefixb_spec; exists []; now rewrite app_nil_r. Qed.

Lemma prefixb_trans a b c : prefixb a b = true -> prefixb b c = true -> prefixb a c = true.
Proof. rewrite !prefixb_spec; intros [x ->] [y ->]; exists (x ++ y); now rewrite app_assoc. Qed.

(* two prefixes of the same name are comparable *)
Lemma prefixb_comparable a b c : prefixb a c = true -> prefixb b c = true -> prefixb a b = true \/ prefixb b a = true.
Proof.
  revert b c; induction a as [|x a IH]; intros b c; simpl; [auto|].
  destruct c as [|z c]; [discriminate|]. destruct b as [|y b]; simpl; [auto|].
  rewrite !andb_true_iff. intros [Hx Ha] [Hy Hb].
  destruct (ceqb_spec x z) as [->|]; [|discriminate]. destruct (ceqb_spec y z) as [->|]; [|discriminate].
  destruct (ceqb_spec z z); [|congruence]. simpl. destruct (IH b c Ha Hb); auto.
Qed.

Definition related a b := prefixb a b || prefixb b a.

Definition memb (n : name) (l : list name) := existsb (neqb n) l.
Lemma memb_spec n l : memb n l = true <-> In n l.
Proof. unfold memb; rewrite existsb_exists; split; [intros [x [Hi He]]; destruct (neqb_spec n x); [subst; auto|discriminate] | intros H; exists n; split; auto; destruct (neqb_spec n n); congruence]. Qed.

Inductive filt := Named (n : name) | SubOf (n : name).
Definition fid f := match f with Named n | SubOf n => n end.
Definition fparent f := match f with SubOf _ => true | _ => false end.
Definition filt_eqb f1 f2 := match f1, f2 with Named a, Named b | SubOf a, SubOf b => neqb a b | _, _ => false end.

Record graph := { nodes : list name; imps : list (name * name) }.

Definition desc_incl g n := filter (prefixb n) (nodes g).
Definition D g f := filter (fun m => prefixb (fid f) m && negb (fparent f && neqb (fid f) m)) (nodes g).

Definition removeb (n : name) (l : list name) := filter (fun m => negb (neqb n m)) l.

(* exclusion set of any_dependency_to_module_other_than, built in the code's order *)
Definition excl_out g (d : filt) (us : list filt) : list name :=
  let e1 := flat_map (fun u => if filt_eqb u d then [] else desc_incl g (fid u)) us in
  let e2 := if fparent d then fid d :: e1 else e1 in
  fold_left (fun e u => if fparent u then removeb (fid u) e else e) us e2.

Definition q_other_out g d us : list (name * name) :=
  let ex := excl_out g d us in
  let nf := desc_incl g (fid d) in
  filter (fun e => memb (fst e) nf && negb (memb (fst e) ex) && negb (memb (snd e) ex) && negb (memb (snd e) nf)) (imps g).

Definition unrelated_all (d : filt) (us : list filt) :=
  (forall u, In u us -> related (fid d) (fid u) = false) /\
  (forall u1 u2, In u1 us -> In u2 us -> u1 <> u2 -> related (fid u1) (fid u2) = false).

Definition wf g := forall a b, In (a,b) (imps g) -> In a (nodes g) /\ In b (nodes g).

Lemma in_removeb x n l : In x (removeb n l) <-> In x l /\ x <> n.
Proof. unfold removeb; rewrite filter_In. destruct (neqb_spec n x); simpl; split; intros [? ?]; split; auto; congruence. Qed.

Lemma fold_remove_in x (us : list filt) e :
  In x (fold_left (fun e u => if fparent u then removeb (fid u) e else e) us e) <->
  In x e /\ forall u, In u us -> fparent u = true -> x <> fid u.
Proof.
  revert e; induction us as [|u us IH]; intros e; simpl.
  - split; [intros H; split; auto; intros ? [] | tauto].
  - rewrite IH. destruct (fparent u) eqn:Hp.
    + rewrite in_removeb. split.
      * intros [[Hi Hn] H]. split; auto. intros v [<-|Hv] Hpv; auto.
      * intros [Hi H]. split; [split; auto|]; intros; apply H; auto.
    + split; intros [Hi H]; split; auto. intros v [<-|Hv] Hpv; [congruence|auto].
Qed.

Lemma in_desc_incl g n x : In x (desc_incl g n) <-> In x (nodes g) /\ prefixb n x = true.
Proof. unfold desc_incl; now rewrite filter_In. Qed.

Lemma in_D g f x : In x (D g f) <-> In x (nodes g) /\ prefixb (fid f) x = true /\ (fparent f = true -> x <> fid f).
Proof.
  unfold D; rewrite filter_In, andb_true_iff, negb_true_iff, andb_false_iff.
  split; intros [Hn H]; split; auto.
  - destruct H as [Hp H]; split; auto. intros Hf Hx; subst. destruct H as [H|H]; [congruence|]. destruct (neqb_spec (fid f) (fid f)); congruence.
  - destruct H as [Hp H]; split; auto. destruct (fparent f); auto. right. destruct (neqb_spec (fid f) x); auto. exfalso; apply H; auto.
Qed.

Lemma filt_eqb_spec f1 f2 : reflect (f1 = f2) (filt_eqb f1 f2).
Proof. destruct f1, f2; simpl; try (constructor; congruence); destruct (neqb_spec n n0); constructor; congruence. Qed.

(* the characterisation used by C01: under unrelatedness the bookkeeping collapses *)
Theorem q_other_out_char g d us a b :
  wf g -> unrelated_all d us ->
  (In (a,b) (q_other_out g d us) <->
   In (a,b) (imps g) /\ In a (D g d) /\ prefixb (fid d) b = false /\ forall u, In u us -> ~ In b (D g u)).
Proof.
  intros Hwf [Hdu Huu]. unfold q_other_out. rewrite filter_In. simpl.
  rewrite !andb_true_iff, !negb_true_iff.
  split.
  - intros [Hi [[[Hnf Hax] Hbx] Hbnf]]. split; auto.
    destruct (Hwf _ _ Hi) as [Han Hbn].
    apply memb_spec, in_desc_incl in Hnf. destruct Hnf as [_ Hpa].
    assert (Hb : prefixb (fid d) b = false).
    { destruct (prefixb (fid d) b) eqn:E; auto. assert (memb b (desc_incl g (fid d)) = true) by (apply memb_spec, in_desc_incl; auto). congruence. }
    split; [|split; auto].
    + apply in_D. split; auto. split; auto. intros Hp ->.
      (* a = fid d would be in excl unless removed; removal needs u parent with fid u = fid d, contradiction with unrelatedness *)
      assert (In (fid d) (excl_out g d us)).
      { unfold excl_out. apply fold_remove_in. rewrite Hp. split; [left; auto|].
        intros u Hu _ He. specialize (Hdu u Hu). unfold related in Hdu. rewrite <- He, prefixb_refl in Hdu. discriminate. }
      apply memb_spec in H. congruence.
    + intros u Hu Hbu. apply in_D in Hbu. destruct Hbu as [_ [Hpu Hne]].
      assert (In b (excl_out g d us)).
      { unfold excl_out. apply fold_remove_in. split.
        - assert (In b (flat_map (fun u0 => if filt_eqb u0 d then [] else desc_incl g (fid u0)) us)).
          { apply in_flat_map. exists u. split; auto. destruct (filt_eqb_spec u d) as [->|_].
            - specialize (Hdu d Hu). unfold related in Hdu. rewrite prefixb_refl in Hdu. discriminate.
            - apply in_desc_incl; auto. }
          destruct (fparent d); [right|]; auto.
        - intros v Hv Hpv ->. destruct (filt_eqb_spec u v) as [->|Hne'].
          + apply Hne; auto.
          + specialize (Huu u v Hu Hv Hne'). unfold related in Huu. rewrite Hpu in Huu. discriminate. }
      apply memb_spec in H. congruence.
  - intros [Hi [Ha [Hb Hnu]]]. split; auto.
    apply in_D in Ha. destruct Ha as [Han [Hpa Hne]].
    destruct (Hwf _ _ Hi) as [_ Hbn].
    assert (Hnot : forall x, prefixb (fid d) x = true -> (fparent d = true -> x <> fid d) -> ~ In x (excl_out g d us)).
    { intros x Hpx Hnx Hin. unfold excl_out in Hin. apply fold_remove_in in Hin. destruct Hin as [Hin _].
      assert (Hin' : In x (flat_map (fun u0 => if filt_eqb u0 d then [] else desc_incl g (fid u0)) us)).
      { destruct (fparent d); auto. destruct Hin as [<-|]; auto. exfalso; apply Hnx; auto. }
      apply in_flat_map in Hin'. destruct Hin' as [u [Hu Hx]]. destruct (filt_eqb u d); [destruct Hx|].
      apply in_desc_incl in Hx. destruct Hx as [_ Hux].
      destruct (prefixb_comparable _ _ _ Hpx Hux) as [H|H]; specialize (Hdu u Hu); unfold related in Hdu; rewrite H in Hdu; try discriminate.
      rewrite orb_true_r in Hdu; discriminate. }
    repeat split.
    + apply memb_spec, in_desc_incl; auto.
    + destruct (memb a (excl_out g d us)) eqn:E; auto. apply memb_spec in E. exfalso. eapply Hnot; eauto.
    + destruct (memb b (excl_out g d us)) eqn:E; auto. apply memb_spec in E. exfalso.
      unfold excl_out in E. apply fold_remove_in in E. destruct E as [E Hrm].
      assert (E' : In b (flat_map (fun u0 => if filt_eqb u0 d then [] else desc_incl g (fid u0)) us)).
      { destruct (fparent d); auto. destruct E as [<-|]; auto. rewrite prefixb_refl in Hb; discriminate. }
      apply in_flat_map in E'. destruct E' as [u [Hu Hx]]. destruct (filt_eqb u d); [destruct Hx|].
      apply in_desc_incl in Hx. destruct Hx as [_ Hux]. apply (Hnu u Hu). apply in_D. repeat split; auto.
    + destruct (memb b (desc_incl g (fid d))) eqn:E; auto. apply memb_spec, in_desc_incl in E. destruct E; congruence.
Qed.
End Core.
Check q_other_out_char.
Print Assumptions q_other_out_char.
