From Coq Require Import List Bool.
Import ListNotations.
From Param Require Import Param.
Section M.
  Variable comp : Type.
  Variable ceqb : comp -> comp -> bool.
  Fixpoint prefixb (a b : list comp) : bool :=
    match a, b with [], _ => true | x :: a', y :: b' => ceqb x y && prefixb a' b' | _ :: _, [] => false end.
  Definition verdict (E : list (list comp * list comp)) (s o : list comp) : bool :=
    existsb (fun e => prefixb s (fst e) && prefixb o (snd e)) E.
End M.
Parametricity Recursive verdict.

(* glue: instantiate the relation with the graph of an injective renaming *)
Section Glue.
  Variables (A B : Type) (f : A -> B) (ea : A -> A -> bool) (eb : B -> B -> bool).
  Hypothesis ea_spec : forall x y, reflect (x = y) (ea x y).
  Hypothesis eb_spec : forall x y, reflect (x = y) (eb x y).
  Hypothesis f_inj : forall x y, f x = f y -> x = y.
  Definition R (x : A) (y : B) : Type := f x = y.
  Lemma eq_R x1 y1 (r1 : R x1 y1) x2 y2 (r2 : R x2 y2) : bool_R (ea x1 x2) (eb y1 y2).
  Proof.
    unfold R in *; subst. destruct (ea_spec x1 x2) as [->|Hn].
    - destruct (eb_spec (f x2) (f x2)); [constructor|congruence].
    - destruct (eb_spec (f x1) (f x2)) as [He|]; [exfalso; auto|constructor].
  Qed.
  Lemma list_R_map l : list_R A B R l (map f l).
  Proof. induction l; simpl; constructor; auto. reflexivity. Qed.
  Lemma bool_R_eq b1 b2 : bool_R b1 b2 -> b1 = b2.
  Proof. destruct 1; reflexivity. Qed.
  Lemma edges_R E : list_R _ _ (prod_R _ _ (list_R A B R) _ _ (list_R A B R)) E (map (fun e => (map f (fst e), map f (snd e))) E).
  Proof. induction E as [|[a b] E IH]; simpl; constructor; auto. constructor; apply list_R_map. Qed.
  Theorem verdict_rename E s o :
    verdict A ea E s o = verdict B eb (map (fun e => (map f (fst e), map f (snd e))) E) (map f s) (map f o).
  Proof.
    apply bool_R_eq. apply (verdict_R A B R ea eb eq_R); auto using list_R_map, edges_R.
  Qed.
End Glue.
Check verdict_rename.
Print Assumptions verdict_rename.
