import sys
sys.path.insert(0, "/repo/src")
from pytestarch import Rule, LayerRule, LayeredArchitecture, DiagramRule
from pytestarch.eval_structure.evaluable_graph import EvaluableArchitectureGraph
from pytestarch.eval_structure.networkxgraph import NetworkxGraph
from pytestarch.eval_structure_generation.file_import.import_types import AbsoluteImport

def arch(mods, edges, level_limit=None):
    return EvaluableArchitectureGraph(NetworkxGraph(list(mods), [AbsoluteImport(a,b) for a,b in edges], level_limit))

def run(rule, ev):
    try:
        rule.assert_applies(ev)
        return ("PASS", "")
    except AssertionError as e:
        return ("FAIL", str(e))
    except Exception as e:
        return ("ERR:"+type(e).__name__, str(e))
