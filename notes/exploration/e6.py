from h import *
import os, tempfile, shutil, textwrap
from pytestarch import get_evaluable_architecture
from pytestarch.utils.partial_match_to_regex_converter import convert_partial_match_to_regex as conv
import re
def mk(tree):
    d = tempfile.mkdtemp(prefix="pta_")
    for p, c in tree.items():
        fp = os.path.join(d, p)
        os.makedirs(os.path.dirname(fp), exist_ok=True)
        if c is None: os.makedirs(fp, exist_ok=True); continue
        with open(fp, "w") as f: f.write(textwrap.dedent(c))
    return d
def edges(ev):
    g = ev._graph._graph
    return sorted((a,b) for a,b,d in g.edges(data=True) if not d["inherits"])
def snap(ev): return sorted(ev.modules), edges(ev)
print("--- C08 conv")
for p in ["abc","*abc","abc*","*abc*","*","**","a*b","a.b","*a+b*","", "***"]:
    print(repr(p), "->", repr(conv(p)))
print("--- C08 exclusions on tree")
tree = {"proj/__init__.py":"", "proj/a.py":"import proj.a_test\nimport proj.tests.t1\nimport proj.b\n", "proj/a_test.py":"import proj.b\n", "proj/b.py":"", "proj/tests/__init__.py":"", "proj/tests/t1.py":"import proj.b\n", "proj/tests/deep/x.py":"import proj.b\n", "proj/xtests/y.py":"import proj.b"}
d = mk(tree)
print(d)
for kw in [dict(), dict(exclusions=("*_test.py",)), dict(exclusions=("*tests*",)), dict(exclusions=("*/tests",)), dict(exclusions=("tests",)), dict(exclusions=(d+"/proj/tests",)), dict(regex_exclusions=(".*/tests",), exclusions=()), dict(regex_exclusions=(".*/tests$",), exclusions=()), dict(exclusions=("*a.py",))]:
    ev = get_evaluable_architecture(d+"/proj", d+"/proj", **kw)
    print(kw); print("   ", snap(ev))
shutil.rmtree(d)
