from h import *
import os, tempfile, shutil, textwrap
from pytestarch import get_evaluable_architecture
def mk(tree, base=None):
    d = tempfile.mkdtemp(prefix="pta_")
    for p, c in tree.items():
        fp = os.path.join(d, p)
        os.makedirs(os.path.dirname(fp), exist_ok=True)
        with open(fp, "w") as f: f.write(textwrap.dedent(c))
    return d
def edges(ev):
    g = ev._graph._graph
    return sorted((a,b) for a,b,d in g.edges(data=True) if not d["inherits"])
print("--- C02 nested positions")
d = mk({"proj/__init__.py":"", "proj/a.py":"""
    import proj.m0
    if x:
        import proj.m1
    else:
        import proj.m2
    try:
        import proj.m3
    except E:
        import proj.m4
    else:
        import proj.m5
    finally:
        import proj.m6
    for i in y:
        import proj.m7
    else:
        import proj.m8
    while z:
        import proj.m9
    else:
        import proj.m10
    with w:
        import proj.m11
    match q:
        case 1:
            import proj.m12
    def f():
        import proj.m13
        class K:
            import proj.m14
    async def g():
        async with a:
            import proj.m15
        async for b in c:
            import proj.m16
    if x: pass
    elif y:
        import proj.m17
    try:
        pass
    except* E:
        import proj.m18
    """, **{f"proj/m{i}.py":"" for i in range(19)}})
ev = get_evaluable_architecture(d+"/proj", d+"/proj")
got = {b for a,b in edges(ev) if a=="proj.a"}
print("missing:", sorted(set(f"proj.m{i}" for i in range(19))-got, key=lambda s:int(s[6:])))
shutil.rmtree(d)
print("--- C02 from package import submodule")
d = mk({"proj/__init__.py":"", "proj/pkg/__init__.py":"", "proj/pkg/sub.py":"", "proj/pkg/other.py":"from . import sub\nfrom .sub import x\nfrom ..pkg import sub as s2\n", "proj/b.py":"from proj.pkg import sub\nfrom proj import pkg\nimport proj.pkg.sub as q\nfrom proj.pkg import *\n",
        "proj/c.py":"from proj.pkg import sub\n"})
ev = get_evaluable_architecture(d+"/proj", d+"/proj")
print(edges(ev))
shutil.rmtree(d)
