from h import *
print("--- C09 related subject/object under flattening")
mods = ["proj","proj.p","proj.p.a","proj.p.a.x","proj.p.a.w","proj.q"]
E = [("proj.p.a.x","proj.p.a.w")]
full = arch(mods,E); flat = arch(mods,E,level_limit=2)
def R(): return Rule().modules_that().are_named("proj.p").should().import_modules_that().are_named("proj.p.a")
print(run(R(), full), run(R(), flat))
def R(): return Rule().modules_that().are_named("proj.p.a").should_not().import_modules_that().are_named("proj.p.a")
print(run(R(), full), run(R(), flat))
def R(): return Rule().modules_that().are_sub_modules_of("proj.p").should().import_modules_that().are_sub_modules_of("proj.p")
print(run(R(), full), run(R(), flat))
print("--- C13 unknown module names")
ev = arch(["r","r.a","r.b"],[("r.a","r.b")])
for mk in [lambda: Rule().modules_that().are_named("r.zz").should_not().import_modules_that().are_named("r.b"),
           lambda: Rule().modules_that().are_named("r.a").should_not().import_modules_that().are_named("r.zz"),
           lambda: Rule().modules_that().are_named("r.a").should().import_modules_that().are_named("r.zz"),
           lambda: Rule().modules_that().are_named("r.a").should_not().import_modules_except_modules_that().are_named("r.zz"),
           lambda: Rule().modules_that().are_named("r.a").should().import_modules_except_modules_that().are_named("r.zz"),
           lambda: Rule().modules_that().are_named("r.a").should_not().be_imported_by_modules_except_modules_that().are_named("r.zz"),
           lambda: Rule().modules_that().are_named("r.a").should_not().be_imported_by_modules_that().are_named("r.zz"),
           lambda: Rule().modules_that().are_sub_modules_of("r.zz").should_not().be_imported_by_modules_that().are_named("r.a"),
           lambda: Rule().modules_that().are_named("r.zz").should_not().import_anything(),
           lambda: Rule().modules_that().have_name_matching("zzz").should_not().import_anything(),
           lambda: Rule().modules_that().are_named("r.a").should_not().import_modules_that().have_name_matching("zzz"),
           ]:
    print(run(mk(), ev))
