from h import *
import random, itertools, re, tempfile, os
from pathlib import Path
rnd = random.Random(3)
def anc(a,b): return b==a or b.startswith(a+".")
mism=[]; cnt=0; errs=0
tmp = tempfile.mkdtemp()
for it in range(1500):
    n = rnd.randint(2,5)
    comps = rnd.sample(["a","ab","b","a_b","c","aa","d"], n)
    arrows = {(x,y) for x in comps for y in comps if x!=y and rnd.random()<0.3}
    nodes = ["r"] + [f"r.{c}" for c in comps] + ["r.zz"] + [f"r.{c}.s" for c in comps if rnd.random()<0.4]
    leaves = [x for x in nodes if x!="r"]
    E=set()
    # mostly-conforming graph
    for (x,y) in arrows:
        if rnd.random()<0.85: E.add((rnd.choice([m for m in nodes if anc("r."+x,m)]), rnd.choice([m for m in nodes if anc("r."+y,m)])))
    for _ in range(rnd.randint(0,2)):
        a,b = rnd.choice(leaves), rnd.choice(leaves)
        if a!=b and not (b.startswith(a+".") and b.count(".")==a.count(".")+1): E.add((a,b))
    ev = arch(nodes, sorted(E))
    lines = ["@startuml"] + [f"[{c}]" for c in comps] + [f"[{x}] --> [{y}]" for x,y in sorted(arrows)] + ["@enduml"]
    p = os.path.join(tmp, "d.puml"); open(p,"w").write("\n".join(lines)+"\n")
    def D(c): return {m for m in nodes if anc("r."+c, m)}
    def imp(x,y): return any((s,t) in E for s in D(x) for t in D(y))
    for only in [True, False]:
        got = run(DiagramRule(should_only_rule=only).from_file(Path(p)).with_base_module("r"), ev)
        exp = all(imp(x,y) == ((x,y) in arrows) for x in comps for y in comps if x!=y)
        if only:
            for x in comps:
                tg = {y for (a,y) in arrows if a==x}
                if tg:
                    allowed = D(x).union(*[D(y) for y in tg])
                    if any(s in D(x) and t not in allowed for (s,t) in E): exp=False
        cnt+=1
        if got[0].startswith("ERR"): errs+=1
        if (got[0]=="PASS")!=exp: mism.append((comps,sorted(arrows),nodes,sorted(E),only,got,exp))
print(cnt,errs,len(mism), sum(1 for m in mism if m[-1]))
for m in mism[:3]: print(m)
