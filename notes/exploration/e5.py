from h import *
import os, tempfile, shutil, textwrap
from pytestarch import get_evaluable_architecture
def mk(tree):
    d = tempfile.mkdtemp(prefix="pta_")
    for p, c in tree.items():
        fp = os.path.join(d, p)
        os.makedirs(os.path.dirname(fp), exist_ok=True)
        if c is None: os.makedirs(fp, exist_ok=True); continue
        with open(fp, "w") as f: f.write(textwrap.dedent(c))
    return d
def edges(ev):
    g = ev._graph._graph
    return sorted((a,b) for a,b,d in g.edges(data=True) if not d["inherits"])
def snap(ev): return sorted(ev.modules), edges(ev)
print("--- C10 externals")
tree = {"proj/__init__.py":"def helper(): pass\n", "proj/handlers.py":"import logging.handlers\nimport os\n", "proj/a.py":"from proj import handlers\nimport proj.handlers\nfrom . import helper\nfrom .handlers import x\nimport xml.etree.ElementTree\n", "proj/os.py":"", "proj/sub/__init__.py":"", "proj/sub/x.py":"from ..handlers import q\nfrom .. import os\n"}
d = mk(tree)
for kw in [dict(), dict(exclude_external_libraries=False), dict(exclude_external_libraries=False, external_exclusions=("*handlers",)), dict(exclude_external_libraries=False, external_exclusions=("os",)), dict(exclude_external_libraries=False, regex_external_exclusions=("xml",)),dict(exclude_external_libraries=False, external_exclusions=("logging",))]:
    ev = get_evaluable_architecture(d+"/proj", d+"/proj", **kw)
    print(kw); print("   ", snap(ev))
shutil.rmtree(d)
