import sys
sys.argv = [sys.argv[0]] + sys.argv[1:]
from scanref import *
def glob_spec(p, s):
    st = p.startswith("*"); en = p.endswith("*")
    core = p[(1 if st else 0):(len(p)-1 if en else len(p))]
    if len(p)==1 and p=="*": core=""
    if st and en: return core in s
    if st: return s.endswith(core)
    if en: return s.startswith(core)
    return s == core
mism=[]; n=0; nontriv=0
for it in range(int(sys.argv[3]) if len(sys.argv)>3 else 200):
    root, dirs, files = gen_tree(); gen_imports(root, dirs, files)
    d = materialise(root, dirs, files)
    try:
        names = sorted({x[-1] for x in dirs[1:]} | {f[-1]+".py" for f in files} | {f[-1] for f in files})
        for _ in range(6):
            pats=[]
            for _ in range(rnd.randint(1,2)):
                nm = rnd.choice(names); shape = rnd.choice(["*t","*t*","*/t","t","*/t*","full","t*"])
                if shape=="full":
                    tgt = rnd.choice(dirs[1:] or dirs); pats.append(os.path.join(d,*tgt))
                else: pats.append(shape.replace("t", nm))
            def pathstr(t, isfile): return os.path.join(d, *t) + (".py" if isfile else "")
            fileset=set(files)
            def excluded(t):
                s = pathstr(t, t in fileset)
                return any(glob_spec(p, s) for p in pats)
            mp = rnd.choice(dirs)
            ev = get_evaluable_architecture(os.path.join(d, root), os.path.join(d, *mp), exclusions=tuple(pats))
            got = snap(ev); exp = ref(root, dirs, files, mp, excluded=excluded, fixed=(SRC!="/repo/src")); n+=1
            base = ref(root, dirs, files, mp, fixed=(SRC!="/repo/src"))
            if exp != base: nontriv+=1
            if got!=exp: mism.append((pats,[dotted(x) for x in dirs],{dotted(f):[render(i) for i in im] for f,im in files.items()},mp,got,exp))
    finally: shutil.rmtree(d)
print("cases",n,"nontrivial",nontriv,"mismatch",len(mism))
for m in mism[:2]:
    print(m[0], m[3]); print(" dirs",m[1]); print(" files",m[2])
    print(" got-exp mods", sorted(set(m[4][0])-set(m[5][0])), " exp-got", sorted(set(m[5][0])-set(m[4][0])))
    print(" got-exp edges", sorted(set(m[4][1])-set(m[5][1])), " exp-got", sorted(set(m[5][1])-set(m[4][1])))
