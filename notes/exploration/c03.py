from h import *
import random, itertools, re
rnd = random.Random(11)
COMPS = ["a","ab","b","a_b","c","aa"]
def rand_tree(n):
    nodes = ["r"]
    for i in range(n):
        p = rnd.choice(nodes)
        if p.count(".") >= 3: p = "r"
        nodes.append(p + "." + rnd.choice(COMPS) )
    return sorted(set(nodes))
def anc(a,b): return b==a or b.startswith(a+".")
def related(a,b): return anc(a,b) or anc(b,a)
def desc(nodes, f):
    kind,n = f
    return {x for x in nodes if anc(n,x) and (kind=="are_named" or x!=n)}
def inside(nodes,f): return {x for x in nodes if anc(f[1],x)}
def q(s): return '"%s"'%s
def fmt_subj(S): return ('Sub modules of ' if S[0]!="are_named" else '') + q(S[1])
def fmt_obj(O): return ('a sub module of ' if O[0]!="are_named" else '') + q(O[1])
def spec_lines(nodes,E,Ss,verb,imp,exc,Os):
    E=set(E); lines=set()
    def edges(S,O):
        return {(s,o) for s in desc(nodes,S) for o in desc(nodes,O) if ((s,o) if imp else (o,s)) in E}
    def others(S):
        src = desc(nodes,S); ins = inside(nodes,S)
        excl = set().union(*[desc(nodes,O) for O in Os])
        r=set()
        for (a,b) in E:
            x,y = (a,b) if imp else (b,a)
            if x in src and y not in ins and y not in excl: r.add((x,y))
        return r
    v = "imports" if imp else "is imported by"
    def conc(pairs): 
        for x,y in pairs: lines.add(f"{q(x)} {v} {q(y)}.")
    def neg(S): 
        plural = S[0]!="are_named"
        if imp: return "do not import" if plural else "does not import"
        return "are not imported by" if plural else "is not imported by"
    need_edge = (verb in("should","should_only")) and not exc
    forbid_edge = (verb=="should_not" and not exc) or (verb=="should_only" and exc)
    need_other = exc and verb in ("should","should_only")
    forbid_other = (verb=="should_not" and exc) or (verb=="should_only" and not exc)
    for S in Ss:
        if need_edge:
            miss = sorted(fmt_obj(O) for O in Os if not edges(S,O))
            if miss: lines.add(f"{fmt_subj(S)} {neg(S)} {', '.join(miss)}.")
        if forbid_edge:
            for O in Os: conc(edges(S,O))
        if need_other and not others(S):
            lines.add(f"{fmt_subj(S)} {neg(S)} any module that is not {', '.join(sorted(fmt_obj(O) for O in Os))}.")
        if forbid_other: conc(others(S))
    return lines
def build(Ss, verb, imp, exc, Os):
    r = Rule().modules_that()
    def app(r, fs): return getattr(r, fs[0][0])([n for _,n in fs])
    r = app(r, Ss); r = getattr(r, verb)()
    d = ("import_modules" if imp else "be_imported_by_modules") + ("_except_modules_that" if exc else "_that")
    return app(getattr(r,d)(), Os)
mism=[]; cnt=0; fails=0
for it in range(6000):
    nodes = rand_tree(rnd.randint(3,8))
    E=set()
    for _ in range(rnd.randint(0,8)):
        a,b = rnd.choice(nodes), rnd.choice(nodes)
        if a!=b and not (b.startswith(a+".") and b.count(".")==a.count(".")+1): E.add((a,b))
    ev = arch(nodes, sorted(E))
    cand = [n for n in nodes if n!="r"]
    k1, k2 = rnd.randint(1,3), rnd.randint(1,3)
    pick = rnd.sample(cand, min(len(cand), k1+k2))
    if len(pick)<2 or any(related(a,b) for a,b in itertools.combinations(pick,2)): continue
    k1 = min(k1, len(pick)-1)
    sk = rnd.choice(["are_named","are_sub_modules_of"]); ok = rnd.choice(["are_named","are_sub_modules_of"])
    Ss = [(sk,n) for n in pick[:k1]]; Os=[(ok,n) for n in pick[k1:]]
    for verb in ["should","should_only","should_not"]:
        for imp in [True,False]:
            for exc in [False,True]:
                got = run(build(Ss,verb,imp,exc,Os), ev)
                exp = spec_lines(nodes,E,Ss,verb,imp,exc,Os)
                cnt+=1
                gl = set(got[1].split("\n")) if got[0]=="FAIL" else set()
                if got[0]=="FAIL": fails+=1
                if gl != exp: mism.append((nodes,sorted(E),Ss,verb,imp,exc,Os,sorted(gl),sorted(exp)))
print(cnt, fails, len(mism))
for m in mism[:4]: print(m)
