import sys, itertools, warnings
sys.path.insert(0, sys.argv[1] if len(sys.argv)>1 else "/repo/src")
warnings.simplefilter("ignore")
from h import arch
from pytestarch import Rule
ev = arch(["r","r.a","r.b"],[("r.a","r.b")])
CALLS = ["modules_that","named_a","named_b","sub_r","should","should_only","should_not","imp","beimp","imp_exc","beimp_exc","imp_any","beimp_any"]
def apply(r, c):
    if c=="modules_that": return r.modules_that()
    if c=="named_a": return r.are_named("r.a")
    if c=="named_b": return r.are_named(["r.b"])
    if c=="sub_r": return r.are_sub_modules_of("r")
    if c=="should": return r.should()
    if c=="should_only": return r.should_only()
    if c=="should_not": return r.should_not()
    if c=="imp": return r.import_modules_that()
    if c=="beimp": return r.be_imported_by_modules_that()
    if c=="imp_exc": return r.import_modules_except_modules_that()
    if c=="beimp_exc": return r.be_imported_by_modules_except_modules_that()
    if c=="imp_any": return r.import_anything()
    if c=="beimp_any": return r.be_imported_by_anything()
def spec_complete(h):
    side=None; subj=False; obj=False; verbs=set(); imp=False; anything=False
    for c in h:
        if c=="modules_that": side="S"
        elif c in ("named_a","named_b","sub_r"):
            if side is None: return None  # error at call
            if side=="S": subj=True
            else: obj=True
        elif c in ("should","should_only","should_not"): verbs.add(c)
        elif c in ("imp","beimp","imp_exc","beimp_exc"): imp=True; side="O"
        else: imp=True; side="O"; anything=True
    if not (subj and verbs and imp and (obj or anything)): return False
    if "should_not" in verbs and len(verbs)>1: return False
    if anything and verbs != {"should_not"}: return False
    return True
bad=[]; n=0; verd=0
for L in range(1,6):
    for h in itertools.product(CALLS, repeat=L):
        if L==5 and h[0]!="modules_that": continue   # prune length 5
        r = Rule(); out=None
        try:
            for c in h: r = apply(r,c)
        except Exception as e:
            out = "BUILD-ERR:"+type(e).__name__
        if out is None:
            try: r.assert_applies(ev); out="PASS"
            except AssertionError: out="FAIL"
            except Exception as e: out="ERR:"+type(e).__name__
        n+=1
        sc = spec_complete(h)
        if out in ("PASS","FAIL"):
            verd+=1
            if sc is not True: bad.append((h,out,sc))
print(n, verd, len(bad))
seen=set()
for b in bad:
    k = tuple(sorted(set(b[0])))
    if k in seen: continue
    seen.add(k); print(b)
    if len(seen)>12: break
rest = [b for b in bad if not (("imp_any" in b[0] or "beimp_any" in b[0]) and ("should" in b[0] or "should_only" in b[0]))]
print("not D14:", len(rest)); print(rest[:5])
