from h import *
import os, tempfile, shutil, textwrap
from pytestarch import get_evaluable_architecture
def mk(tree):
    d = tempfile.mkdtemp(prefix="pta_")
    for p, c in tree.items():
        fp = os.path.join(d, p)
        os.makedirs(os.path.dirname(fp), exist_ok=True)
        if c is None: os.makedirs(fp, exist_ok=True); continue
        with open(fp, "w") as f: f.write(textwrap.dedent(c))
    return d
def edges(ev):
    g = ev._graph._graph
    return sorted((a,b) for a,b,d in g.edges(data=True) if not d["inherits"])
def hedges(ev):
    g = ev._graph._graph
    return sorted((a,b) for a,b,d in g.edges(data=True) if d["inherits"])
def snap(ev): return sorted(ev.modules), edges(ev)
tree = {"proj/__init__.py":"", "proj/p/__init__.py":"", "proj/p/a/x.py":"import proj.p.b.y.z\nimport proj.p.a.w\nfrom . import w\n", "proj/p/a/w.py":"import proj.q\n", "proj/p/b/y/z.py":"import proj.p.b.v\n", "proj/p/b/v.py":"", "proj/q.py":"import proj.p.a.x"}
d = mk(tree)
for mp in ["/proj", "/proj/p"]:
  for k in [None,1,2,3]:
    ev = get_evaluable_architecture(d+"/proj", d+mp, level_limit=k)
    print(mp,k); print("   ", snap(ev)); 
    print("   H", hedges(ev))
shutil.rmtree(d)
