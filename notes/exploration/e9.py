from h import *
ev = arch(["r","r.a","r.b"],[("r.a","r.b")])
print("--- C13 anything with should / should_only")
print(run(Rule().modules_that().are_named("r.a").should().import_anything(), ev))
print(run(Rule().modules_that().are_named("r.b").should().import_anything(), ev))
print(run(Rule().modules_that().are_named("r.a").should_only().import_anything(), ev))
print(run(Rule().modules_that().are_named("r.a").should_only().be_imported_by_anything(), ev))
print("--- LayerRule any layer with should")
la = LayeredArchitecture().layer("A").containing_modules(["r.a"]).layer("B").containing_modules(["r.b"])
print(run(LayerRule().based_on(la).layers_that().are_named("A").should().access_any_layer(), ev))
print(run(LayerRule().based_on(la).layers_that().are_named("A").should_not().access_any_layer(), ev))
print(run(LayerRule().based_on(la).layers_that().are_named("B").should_not().access_any_layer(), ev))
print(run(LayerRule().based_on(la).layers_that().are_named("B").should_not().be_accessed_by_any_layer(), ev))
print("--- undefined layer")
print(run(LayerRule().based_on(la).layers_that().are_named("Z").should_not().access_any_layer(), ev))
try:
    print(run(LayerRule().based_on(la).layers_that().are_named("A").should_not().access_layers_that().are_named("Z"), ev))
except Exception as e: print("raised at build:", type(e).__name__, e)
print("--- incomplete")
for f in [lambda: Rule(), lambda: Rule().modules_that(), lambda: Rule().modules_that().are_named("r.a"), lambda: Rule().modules_that().are_named("r.a").should(), lambda: Rule().modules_that().are_named("r.a").should().import_modules_that(),
          lambda: Rule().modules_that().are_named("r.a").import_modules_that().are_named("r.b"),
          lambda: Rule().modules_that().are_named("r.a").should().are_named("r.b"),
          lambda: Rule().modules_that().are_named("r.a").should().should_not().import_modules_that().are_named("r.b"),
          lambda: Rule().modules_that().are_named("r.a").should().should_only().import_modules_that().are_named("r.b"),
          lambda: DiagramRule(),
          lambda: LayerRule(), lambda: LayerRule().based_on(la), lambda: LayerRule().based_on(la).layers_that(), lambda: LayerRule().based_on(la).layers_that().are_named("A"),
          lambda: LayerRule().based_on(la).layers_that().are_named("A").should().access_layers_that(),
          lambda: LayerRule().based_on(la).layers_that().are_named("A").are_named("B").should().access_layers_that().are_named("B"),
          ]:
    try: r = f()
    except Exception as e: print("build raised", type(e).__name__, e); continue
    print(run(r, ev))
