from h import *
import random, itertools, re
rnd = random.Random(5)
COMPS = ["a","ab","b","a_b","c","aa","d"]
def rand_tree(n):
    nodes = ["r"]
    for i in range(n):
        p = rnd.choice(nodes)
        if p.count(".") >= 3: p = "r"
        nodes.append(p + "." + rnd.choice(COMPS) )
    return sorted(set(nodes))
def anc(a,b): return b==a or b.startswith(a+".")
def related(a,b): return anc(a,b) or anc(b,a)
def spec(nodes,E,layers,subj,verb,imp,exc,objs):
    # layers: dict name -> list of module names
    def members(L): return {x for x in nodes for m in layers[L] if anc(m,x)}
    SL = members(subj); OL = {o: members(o) for o in objs}
    allobj = set().union(*OL.values()) if OL else set()
    def edge(o):
        return any((((s,t) if imp else (t,s)) in E) for s in SL for t in OL[o])
    def other():
        for (a,b) in E:
            x,y = (a,b) if imp else (b,a)
            if x in SL and y not in SL and y not in allobj: return True
        return False
    if not exc:
        if verb=="should": return all(edge(o) for o in objs)
        if verb=="should_not": return not any(edge(o) for o in objs)
        return all(edge(o) for o in objs) and not other()
    else:
        if verb=="should": return other()
        if verb=="should_not": return not other()
        return other() and not any(edge(o) for o in objs)
mism=[]; cnt=0; errs=0
for it in range(8000):
    nodes = rand_tree(rnd.randint(4,10))
    E=set()
    for _ in range(rnd.randint(0,8)):
        a,b = rnd.choice(nodes), rnd.choice(nodes)
        if a!=b and not (b.startswith(a+".") and b.count(".")==a.count(".")+1): E.add((a,b))
    ev = arch(nodes, sorted(E))
    cand = [n for n in nodes if n!="r"]
    rnd.shuffle(cand)
    chosen=[]
    for c in cand:
        if not any(related(c,x) for x in chosen): chosen.append(c)
    nl = rnd.randint(2,4)
    if len(chosen) < nl: continue
    layers = {f"L{i}":[] for i in range(nl)}
    for i,c in enumerate(chosen):
        if i<nl: layers[f"L{i}"].append(c)
        elif rnd.random()<0.6: layers[f"L{rnd.randrange(nl)}"].append(c)
    la = LayeredArchitecture()
    kinds={}
    for L,ms in layers.items():
        if rnd.random()<0.35:
            pat = "(" + "|".join(re.escape(m) for m in ms) + ")$"; kinds[L]="regex"
            la = la.layer(L).have_modules_with_names_matching(pat)
        else:
            kinds[L]="names"; la = la.layer(L).containing_modules(ms if rnd.random()<0.7 or len(ms)>1 else ms[0])
    names = list(layers)
    subj = rnd.choice(names); rest=[n for n in names if n!=subj]
    objs = rnd.sample(rest, rnd.randint(1,min(2,len(rest))))
    for verb in ["should","should_only","should_not"]:
        for imp in [True,False]:
            for exc in [False,True]:
                r = LayerRule().based_on(la).layers_that().are_named(subj)
                r = getattr(r,verb)()
                d = ("access_layers" if imp else "be_accessed_by_layers") + ("_except_layers_that" if exc else "_that")
                r = getattr(r,d)().are_named(objs if len(objs)>1 or rnd.random()<0.5 else objs[0])
                got = run(r, ev); exp = spec(nodes,E,layers,subj,verb,imp,exc,objs); cnt+=1
                if got[0].startswith("ERR"): errs+=1
                if (got[0]=="PASS") != exp: mism.append((nodes,sorted(E),layers,kinds,subj,verb,imp,exc,objs,got,exp))
print(cnt, errs, len(mism))
for m in mism[:4]: print(m)
