from h import *
import random, itertools, re, warnings
rnd = random.Random(7)
COMPS = ["a","ab","b","a_b","c","aa"]
def rand_tree(n):
    nodes = ["r"]
    for i in range(n):
        p = rnd.choice(nodes)
        if p.count(".") >= 3: p = "r"
        nodes.append(p + "." + rnd.choice(COMPS) )
    return sorted(set(nodes))
def anc(a,b): # a ancestor-or-equal of b
    return b==a or b.startswith(a+".")
def related(a,b): return anc(a,b) or anc(b,a)
def desc(nodes, f):
    kind,n = f
    return {x for x in nodes if anc(n,x) and (kind=="are_named" or x!=n)}
def inside(nodes,f):  # NF set: subtree incl root
    kind,n=f
    return {x for x in nodes if anc(n,x)}
def spec(nodes,E,Ss,verb,imp,exc,Os):
    E=set(E)
    def edge(S,O):
        return any((s,o) in E for s in desc(nodes,S) for o in desc(nodes,O)) if imp else any((o,s) in E for s in desc(nodes,S) for o in desc(nodes,O))
    def other(S):
        src = desc(nodes,S); ins = inside(nodes,S)
        excl = set().union(*[desc(nodes,O) for O in Os])
        for (a,b) in E:
            x,y = (a,b) if imp else (b,a)
            if x in src and y not in ins and y not in excl: return True
        return False
    if not exc:
        if verb=="should": return all(edge(S,O) for S in Ss for O in Os)
        if verb=="should_not": return not any(edge(S,O) for S in Ss for O in Os)
        return all(edge(S,O) for S in Ss for O in Os) and not any(other(S) for S in Ss)
    else:
        if verb=="should": return all(other(S) for S in Ss)
        if verb=="should_not": return not any(other(S) for S in Ss)
        return all(other(S) for S in Ss) and not any(edge(S,O) for S in Ss for O in Os)
def build(Ss, verb, imp, exc, Os):
    r = Rule().modules_that()
    def app(r, fs):
        kind = fs[0][0]
        return getattr(r, kind)([n for _,n in fs])
    r = app(r, Ss); r = getattr(r, verb)()
    d = ("import_modules" if imp else "be_imported_by_modules") + ("_except_modules_that" if exc else "_that")
    r = getattr(r,d)()
    return app(r, Os)
mism = []
cnt=0
for it in range(6000):
    nodes = rand_tree(rnd.randint(3,8))
    E=set()
    for _ in range(rnd.randint(0,7)):
        a,b = rnd.choice(nodes), rnd.choice(nodes)
        if a!=b: E.add((a,b))
    E = {(a,b) for (a,b) in E if not (b.startswith(a+".") and b.count(".")==a.count(".")+1)}
    ev = arch(nodes, sorted(E))
    cand = [n for n in nodes if n!="r"]
    k1, k2 = rnd.randint(1,3), rnd.randint(1,3)
    pick = rnd.sample(cand, min(len(cand), k1+k2))
    if any(related(a,b) for a,b in itertools.combinations(pick,2)): continue
    if len(pick)<2: continue
    k1 = min(k1, len(pick)-1)
    sk = rnd.choice(["are_named","are_sub_modules_of"]); ok = rnd.choice(["are_named","are_sub_modules_of"])
    Ss = [(sk,n) for n in pick[:k1]]; Os=[(ok,n) for n in pick[k1:]]
    for verb in ["should","should_only","should_not"]:
        for imp in [True,False]:
            for exc in [False,True]:
                got = run(build(Ss,verb,imp,exc,Os), ev)
                exp = spec(nodes,E,Ss,verb,imp,exc,Os)
                cnt+=1
                if (got[0]=="PASS") != exp: mism.append((nodes,sorted(E),Ss,verb,imp,exc,Os,got,exp))
print(cnt, len(mism))
for m in mism[:5]: print(m)
