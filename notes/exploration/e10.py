from h import *
import os, tempfile, shutil, textwrap, sys, importlib
from pytestarch import get_evaluable_architecture, get_evaluable_architecture_for_module_objects
def mk(tree):
    d = tempfile.mkdtemp(prefix="pta_")
    for p, c in tree.items():
        fp = os.path.join(d, p)
        os.makedirs(os.path.dirname(fp), exist_ok=True)
        if c is None: os.makedirs(fp, exist_ok=True); continue
        with open(fp, "w") as f: f.write(textwrap.dedent(c))
    return d
def edges(ev):
    g = ev._graph._graph
    return sorted((a,b) for a,b,d in g.edges(data=True) if not d["inherits"])
def snap(ev): return sorted(ev.modules), edges(ev)
tree = {"proj/__init__.py":"", "proj/src/__init__.py":"", "proj/src/p/__init__.py":"",
  "proj/src/p/a.py":"import proj.src.p.b\nimport src.p.c\nimport p.d\nfrom proj.src.p import e\nfrom src.p.f import q\nfrom . import g\nimport proj.src.other\nimport src.other2\n",
  **{f"proj/src/p/{n}.py":"" for n in "bcdefg"}, "proj/src/other.py":"import proj.src.p.a\n", "proj/src/other2.py":"", "proj/src/pp/x.py":"import proj.src.p.b\n", "proj/src/p/sub/y.py": "import proj.src.p.b\nimport src.p.sub.z\n", "proj/src/p/sub/z.py":"",
  "proj/src/p/empty_dir/readme.txt":"", "proj/src/p/nopy/data.json":"{}"}
d = mk(tree)
for mp in ["/proj", "/proj/src", "/proj/src/p", "/proj/src/p/sub"]:
    ev = get_evaluable_architecture(d+"/proj", d+mp)
    print(mp); print("   ", snap(ev))
print("trailing slash:")
try:
    ev = get_evaluable_architecture(d+"/proj/", d+"/proj/src/p/"); print("   ", snap(ev))
except Exception as e: print(type(e).__name__, e)
print("module_path outside root:")
try:
    ev = get_evaluable_architecture(d+"/proj/src", d+"/proj"); print("   ", snap(ev))
except Exception as e: print(type(e).__name__, e)
sys.path.insert(0, d)
import proj, proj.src.p
ev2 = get_evaluable_architecture_for_module_objects(proj, proj.src.p)
print("modobj equal:", snap(ev2) == snap(get_evaluable_architecture(d+"/proj", d+"/proj/src/p")))
shutil.rmtree(d)
