from h import *
import tempfile, os
from pathlib import Path
from pytestarch.diagram_extension.diagram_parser import PumlParser
def parse(txt):
    f = tempfile.NamedTemporaryFile("w", suffix=".puml", delete=False); f.write(txt); f.close()
    try:
        r = PumlParser().parse(Path(f.name)); return (sorted(r.all_modules), {k:sorted(v) for k,v in sorted(r.dependencies.items())})
    except Exception as e:
        return ("ERR", type(e).__name__, str(e))
    finally: os.unlink(f.name)
print("alias+name mix:", parse("@startuml\n[A] as a\na --> [B]\n[A] --> [C]\n@enduml\n"))
print("alias+name mix rev:", parse("@startuml\n[A] as a\n[A] --> [C]\na --> [B]\n@enduml\n"))
print("dotted:", parse("@startuml\n[src.a] --> [src.b]\n@enduml\n"))
print("dotted decl:", parse("@startuml\n[src.a]\ncomponent src.b\ncomponent [src.c] as C\nC --> [src.a]\n@enduml\n"))
print("bare names:", parse("@startuml\nA --> B\nC <- D\nE -up-> F\nG <-down- H\n@enduml\n"))
print("alias declared after use:", parse("@startuml\na --> [B]\n[A] as a\n@enduml\n"))
print("component X as alias:", parse("@startuml\ncomponent X as ax\nax -> [B]\n@enduml\n"))
print("no tags:", parse("[A] --> [B]\n"))
print("noise:", parse("hello [Z] --> [Q]\n@startuml\n[A] --> [B]\n@enduml\n[C] --> [D]\n"))
print("two on one line/indent:", parse("@startuml\n  [A] --> [B]\n@enduml\n"))
print("trailing text:", parse("@startuml\n[A] --> [B] : uses\n[C] <-- [D] : uses\n@enduml\n"))
print("ws names:", parse("@startuml\n[Module B] as MB\n[A] --> MB\n@enduml\n"))
print("single-line:", parse("@startuml [A] --> [B] @enduml"))
print("multiple targets:", parse("@startuml\n[A] --> [B]\n[A] --> [C]\n[B] <-- [C]\n@enduml\n"))
