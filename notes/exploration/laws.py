from h import *
import random, itertools, re, warnings
warnings.simplefilter("ignore")
rnd = random.Random(1)
def rand_tree(n):
    nodes = ["r"]
    for i in range(n):
        p = rnd.choice(nodes)
        if p.count(".") >= 3: p = "r"
        nodes.append(p + "." + rnd.choice(["a","ab","b","a_b","c"]) )
    return sorted(set(nodes))
def rand_graph():
    nodes = rand_tree(rnd.randint(2,7))
    E = set()
    for _ in range(rnd.randint(0,6)):
        a,b = rnd.choice(nodes), rnd.choice(nodes)
        if a!=b: E.add((a,b))
    return nodes, sorted(E)
VERBS = ["should","should_only","should_not"]
DIRS = ["import_modules_that","be_imported_by_modules_that","import_modules_except_modules_that","be_imported_by_modules_except_modules_that"]
def build(subj, verb, d, obj):
    r = Rule().modules_that()
    kind, names = subj
    r = getattr(r, kind)(names)
    r = getattr(r, verb)()
    r = getattr(r, d)()
    kind, names = obj
    return getattr(r, kind)(names)
def v(rule, ev):
    x = run(rule, ev); return x[0]
bad = {}
def note(k, info):
    bad.setdefault(k, []).append(info)
for it in range(3000):
    nodes, E = rand_graph()
    ev = arch(nodes, E)
    fk = lambda: rnd.choice(["are_named","are_sub_modules_of"])
    S = rnd.choice(nodes); O = rnd.choice(nodes)
    sk, ok = fk(), fk()
    # duality
    for verb in ["should","should_not"]:
        a = v(build((sk,S),verb,"import_modules_that",(ok,O)), ev)
        b = v(build((ok,O),verb,"be_imported_by_modules_that",(sk,S)), ev)
        if a!=b: note("duality", (nodes,E,sk,S,verb,ok,O,a,b))
    # negation
    for d in DIRS:
        a = v(build((sk,S),"should",d,(ok,O)), ev); b = v(build((sk,S),"should_not",d,(ok,O)), ev)
        if a.startswith("ERR") or b.startswith("ERR"): note("err",(nodes,E,sk,S,d,ok,O,a,b)); continue
        if (a=="PASS") == (b=="PASS"): note("negation", (nodes,E,sk,S,d,ok,O,a,b))
    # decomposition
    for imp in ["import","be_imported_by"]:
        so = v(build((sk,S),"should_only",imp+"_modules_that",(ok,O)), ev)
        s = v(build((sk,S),"should",imp+"_modules_that",(ok,O)), ev)
        sne = v(build((sk,S),"should_not",imp+"_modules_except_modules_that",(ok,O)), ev)
        if (so=="PASS") != (s=="PASS" and sne=="PASS"): note("decomp1",(nodes,E,sk,S,imp,ok,O,so,s,sne))
        soe = v(build((sk,S),"should_only",imp+"_modules_except_modules_that",(ok,O)), ev)
        se = v(build((sk,S),"should",imp+"_modules_except_modules_that",(ok,O)), ev)
        sn = v(build((sk,S),"should_not",imp+"_modules_that",(ok,O)), ev)
        if (soe=="PASS") != (se=="PASS" and sn=="PASS"): note("decomp2",(nodes,E,sk,S,imp,ok,O,soe,se,sn))
    # alias
    a = v(Rule().modules_that().are_named(S).should_not().import_anything(), ev)
    b = v(build(("are_named",S),"should_not","import_modules_except_modules_that",("are_named",S)), ev)
    if a!=b: note("alias",(nodes,E,S,a,b))
    a = v(getattr(Rule().modules_that(),sk)(S).should_not().be_imported_by_anything(), ev)
    b = v(build((sk,S),"should_not","be_imported_by_modules_except_modules_that",(sk,S)), ev)
    if a!=b: note("alias2",(nodes,E,sk,S,a,b))
    # batch = conjunction
    Ss = rnd.sample(nodes, min(len(nodes), rnd.randint(1,3))); Os = rnd.sample(nodes, min(len(nodes), rnd.randint(1,3)))
    for verb in VERBS:
        for d in DIRS:
            whole = v(build((sk,Ss),verb,d,(ok,Os)), ev)
            parts = [v(build((sk,s1),verb,d,(ok,Os)), ev) for s1 in Ss]
            if any(p.startswith("ERR") for p in parts+[whole]): note("err2",(nodes,E,sk,Ss,verb,d,ok,Os,whole,parts)); continue
            if (whole=="PASS") != all(p=="PASS" for p in parts): note("batch-subj",(nodes,E,sk,Ss,verb,d,ok,Os,whole,parts))
            if verb in ("should","should_not") and "except" not in d:
                parts = [v(build((sk,Ss),verb,d,(ok,o1)), ev) for o1 in Os]
                if (whole=="PASS") != all(p=="PASS" for p in parts): note("batch-obj",(nodes,E,sk,Ss,verb,d,ok,Os,whole,parts))
    # regex = expansion
    pat = rnd.choice([r"r\.a$", r"r\.a", r".*\.b$", r"r\.(a|b)$", r"r\.[ab]+$", r".*a_b.*"])
    matched = [n for n in nodes if re.match(pat, n)]
    for verb in VERBS:
        for d in DIRS:
            a = v(build(("have_name_matching",pat),verb,d,(ok,O)), ev)
            if not matched:
                if a != "ERR:ImpossibleMatch": note("regex-nomatch",(nodes,E,pat,a))
                continue
            b = v(build(("are_named",matched),verb,d,(ok,O)), ev)
            if a!=b: note("regex-subj",(nodes,E,pat,matched,verb,d,ok,O,a,b))
            a = v(build((sk,S),verb,d,("have_name_matching",pat)), ev)
            b = v(build((sk,S),verb,d,("are_named",matched)), ev)
            if a!=b: note("regex-obj",(nodes,E,pat,matched,verb,d,sk,S,a,b))
for k,vv in bad.items():
    print(k, len(vv)); print("   ", vv[0])
