from h import *
# transitive importer bug in any_other_dependency_to_module_than
ev = arch(["r","r.a","r.b","r.y","r.z"], [("r.b","r.a"),("r.y","r.a"),("r.z","r.y")])
r = Rule().modules_that().are_named("r.a").should_not().be_imported_by_modules_except_modules_that().are_named("r.b")
print(run(r, ev))
r = Rule().modules_that().are_named("r.a").should_only().be_imported_by_modules_that().are_named("r.b")
print(run(r, ev))
r = Rule().modules_that().are_named("r.a").should_not().be_imported_by_anything()
print(run(r, ev))
