import sys, os, random, tempfile, shutil, re, itertools
SRC = sys.argv[1] if len(sys.argv)>1 else "/repo/src"
sys.path.insert(0, SRC)
from pytestarch import get_evaluable_architecture
from pytestarch.eval_structure.evaluable_architecture import ModuleNameFilter
rnd = random.Random(int(sys.argv[2]) if len(sys.argv)>2 else 1)
POOL = ["a","ab","a_b","aa","b","ba","c","x1"]
BASE = "/dev/shm"
# ---- abstract project: dict path(tuple of comps, from root dir name) -> ('dir') or ('file', [imports])
def gen_tree():
    root = rnd.choice(["proj","p","pr"])
    dirs = [(root,)]; files = {}
    for _ in range(rnd.randint(1,4)):
        p = rnd.choice(dirs)
        if len(p) < 4:
            d = p + (rnd.choice(POOL),)
            if d not in dirs and d not in files: dirs.append(d)
    for d in dirs:
        for _ in range(rnd.randint(0,3)):
            f = d + (rnd.choice(POOL),)
            if f not in dirs and f not in files: files[f] = []
        if rnd.random() < 0.5: files[d + ("__init__",)] = []
    return root, dirs, files
def dotted(t): return ".".join(t)
def gen_imports(root, dirs, files, exts=("os","logging.handlers","xml.etree.ElementTree","loggingx","handlers")):
    mods = [d for d in dirs] + [f for f in files]
    for f in files:
        for _ in range(rnd.randint(0,4)):
            form = rnd.choice(["abs","abs_as","from_mod_name","from_pkg_mod","rel","ext","star"])
            tgt = rnd.choice(mods)
            if form == "ext":
                files[f].append(("abs", rnd.choice(exts))); continue
            if form in ("abs","abs_as"): files[f].append((form, dotted(tgt)))
            elif form == "from_mod_name": files[f].append(("from", dotted(tgt), "some_name", 0))
            elif form == "star": files[f].append(("from", dotted(tgt), "*", 0))
            elif form == "from_pkg_mod":
                if len(tgt) >= 2: files[f].append(("from", dotted(tgt[:-1]), tgt[-1], 0))
            elif form == "rel":
                pkg = f[:-1]
                lvl = rnd.randint(1, len(pkg))
                baseP = pkg[:len(pkg)-lvl+1]
                cands = [m for m in mods if m[:len(baseP)]==baseP and len(m)>len(baseP)]
                if cands:
                    t = rnd.choice(cands); rest = t[len(baseP):]
                    if len(rest)==1: files[f].append(("from", None, rest[0], lvl))
                    else: files[f].append(("from", dotted(rest[:-1]), rest[-1], lvl))
def render(imp):
    if imp[0]=="abs": return f"import {imp[1]}"
    if imp[0]=="abs_as": return f"import {imp[1]} as zz"
    _, mod, name, lvl = imp
    return f"from {'.'*lvl}{mod or ''} import {name}"
def materialise(root, dirs, files):
    global _ctr
    _ctr = globals().get("_ctr", 0) + 1
    d = os.path.join(BASE, "0000_%d_%d" % (os.getpid(), _ctr)); os.makedirs(d)
    for p in dirs: os.makedirs(os.path.join(d, *p), exist_ok=True)
    for f, imps in files.items():
        with open(os.path.join(d, *f[:-1], f[-1]+".py"), "w") as fh:
            fh.write("\n".join(render(i) for i in imps)+"\n")
    return d
def snap(ev):
    mods = sorted(ev.modules)
    roots = sorted({m.split(".")[0] for m in mods})
    E=set()
    for r1 in roots:
        for r2 in roots:
            dd = ev.get_dependencies([ModuleNameFilter(r1)],[ModuleNameFilter(r2)])
            for v in dd.values():
                for (a,b) in v: E.add((a.identifier,b.identifier))
    return mods, sorted(E)
# ---- reference model (fixed semantics: D9 resolved to P.n when scanned)
def ref(root, dirs, files, mp, excluded=lambda path: False, level_limit=None, fixed=True):
    # mp: tuple path of module_path
    scanned_dirs = [d for d in dirs if d[:len(mp)]==mp and not any(excluded(d[:i]) for i in range(len(mp), len(d)+1))]
    scanned_files = [f for f in files if f[:-1] in scanned_dirs and not excluded(f)]
    modules = {dotted(m) for m in scanned_dirs+scanned_files}
    anc = {dotted(mp[:i]) for i in range(1,len(mp))}
    diff = mp[1:]
    iprefix = dotted((root,)+diff)
    def internal(m): return (m==iprefix or m.startswith(iprefix+".")) if fixed else m.startswith(iprefix + ("" if diff else "."))
    internal_mods = {m for m in modules if internal(m)}
    aprefix = dotted(mp[:-1]) if diff else ""
    def adj(n):
        c = f"{aprefix}.{n}"
        return c if c in internal_mods else n
    E=set()
    for f in scanned_files:
        u = dotted(f)
        for imp in files[f]:
            if imp[0] in ("abs","abs_as"): tgts=[adj(imp[1])]
            else:
                _, mod, name, lvl = imp
                if lvl==0:
                    c = adj(f"{mod}.{name}")
                    tgts = [c if (fixed and c in internal_mods) else adj(mod)]
                else:
                    pkg = f[:-1]; baseP = pkg[:len(pkg)-lvl+1]
                    b = dotted(baseP) + ("."+mod if mod else "")
                    if mod is None: tgts=[b+"."+name]
                    else:
                        c = b+"."+name
                        tgts=[c if (fixed and c in internal_mods) else b]
            for t in tgts:
                if internal(t): E.add((u,t))
    allmods = (modules | anc) if modules else set()
    if level_limit is not None:
        k = level_limit + len(diff)
        tr = lambda n: ".".join(n.split(".")[:k+1])
    else: tr = lambda n: n
    nodes = {tr(m) for m in allmods}
    edges = {(tr(a),tr(b)) for (a,b) in E if tr(a)!=tr(b) and tr(a) in nodes and tr(b) in nodes}
    # hierarchy-coinciding imports are absorbed
    edges = {(a,b) for (a,b) in edges if not (b.startswith(a+".") and b.count(".")==a.count(".")+1)}
    return sorted(nodes), sorted(edges)
if __name__ == "__main__":
    mism = {}; n=0
    for it in range(int(sys.argv[3]) if len(sys.argv)>3 else 400):
        root, dirs, files = gen_tree(); gen_imports(root, dirs, files)
        d = materialise(root, dirs, files)
        try:
            for mp in dirs:
                for k in [None, 1, 2]:
                    ev = get_evaluable_architecture(os.path.join(d, root), os.path.join(d, *mp), level_limit=k)
                    got = snap(ev); exp = ref(root, dirs, files, mp, level_limit=k, fixed=(SRC!="/repo/src")); n+=1
                    if got != exp:
                        key = "mods" if got[0]!=exp[0] else "edges"
                        mism.setdefault(key, []).append((dirs, files, mp, k, got, exp))
        finally: shutil.rmtree(d)
    print("cases", n, {k:len(v) for k,v in mism.items()})
    for k,v in mism.items():
        dirs, files, mp, kk, got, exp = v[0]
        print(k, "mp=",mp,"k=",kk); print(" files", {dotted(f):[render(i) for i in im] for f,im in files.items() if im}); print(" dirs", [dotted(x) for x in dirs])
        print(" got-exp mods", sorted(set(got[0])-set(exp[0])), " exp-got", sorted(set(exp[0])-set(got[0])))
        print(" got-exp edges", sorted(set(got[1])-set(exp[1])), " exp-got", sorted(set(exp[1])-set(got[1])))
