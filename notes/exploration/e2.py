from h import *
print("--- D2 anything alias substring dedup (C14/C01)")
ev = arch(["r","r.a","r.ab","r.c"], [("r.ab","r.c")])
r = Rule().modules_that().are_named(["r.a","r.ab"]).should_not().import_anything()
print(run(r, ev), "expected FAIL since r.ab imports r.c")
ev2 = arch(["r","r.a","r.xb","r.c"], [("r.xb","r.c")])
r = Rule().modules_that().are_named(["r.a","r.xb"]).should_not().import_anything()
print(run(r, ev2), "renamed: FAIL")

print("--- D3 layer startswith (C14)")
ev = arch(["r","r.a","r.ab","r.c"], [("r.ab","r.c")])
la = LayeredArchitecture().layer("L1").containing_modules(["r.a"]).layer("L2").containing_modules(["r.c"])
r = LayerRule().based_on(la).layers_that().are_named("L2").should_not().be_accessed_by_layers_except_layers_that().are_named("L1")
print(run(r, ev), "expected FAIL with r.ab (no layer)")
ev2 = arch(["r","r.a","r.xb","r.c"], [("r.xb","r.c")])
print(run(LayerRule().based_on(la).layers_that().are_named("L2").should_not().be_accessed_by_layers_except_layers_that().are_named("L1"), ev2))

print("--- D4 containing_modules string dup (C16)")
try:
    la = LayeredArchitecture().layer("L1").containing_modules("r.a").layer("L2").containing_modules("r.a")
    print("accepted:", str(la))
except Exception as e:
    print("rejected", type(e).__name__, e)
try:
    la = LayeredArchitecture().layer("L1").containing_modules(["r.a"]).layer("L2").containing_modules(["r.a"])
    print("accepted:", str(la))
except Exception as e:
    print("rejected", type(e).__name__, e)
try:
    la = LayeredArchitecture().layer("L1").containing_modules(["abc"]).layer("L2").containing_modules("cab")
    print("accepted:", str(la))
except Exception as e:
    print("rejected", type(e).__name__, e)
try:
    la = LayeredArchitecture().layer("L1").containing_modules(["a"]).layer("L2").containing_modules("xa")
    print("accepted:", str(la))
except Exception as e:
    print("rejected (false reject!)", type(e).__name__, e)

print("--- D5 late-binding closure in _add_modules (C05 mixed)")
ev = arch(["r","r.a","r.b","r.c","r.d"], [("r.a","r.b"),("r.a","r.c")])
la = LayeredArchitecture().layer("A").containing_modules(["r.a"]).layer("B").have_modules_with_names_matching(r"r\.b$").layer("C").containing_modules(["r.c"])
print(run(LayerRule().based_on(la).layers_that().are_named("A").should().access_layers_that().are_named(["B","C"]), ev), "expected PASS")
print(run(LayerRule().based_on(la).layers_that().are_named("A").should().access_layers_that().are_named(["C","B"]), ev), "expected PASS")

print("--- D6 regex layer unused by rule (C05)")
print(run(LayerRule().based_on(la).layers_that().are_named("A").should().access_layers_that().are_named(["C"]), ev), "expected PASS")
print(run(LayerRule().based_on(la).layers_that().are_named("A").should_not().access_layers_that().are_named(["C"]), ev), "expected FAIL")

print("--- D7 intra-layer import counts as 'other' access (C05)")
ev = arch(["r","r.a","r.a2","r.b"], [("r.a","r.a2")])
la = LayeredArchitecture().layer("A").containing_modules(["r.a","r.a2"]).layer("B").containing_modules(["r.b"])
print(run(LayerRule().based_on(la).layers_that().are_named("A").should().access_layers_except_layers_that().are_named(["B"]), ev), "expected FAIL: only intra-layer import")
print(run(LayerRule().based_on(la).layers_that().are_named("A").should_not().access_layers_except_layers_that().are_named(["B"]), ev), "expected PASS")
