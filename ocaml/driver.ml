(* driver.ml — generic: text s-expression per line -> Model.run -> text per line.
   Only conversions: OCaml int <-> extracted binary N. *)
open Model

let rec pos_of_int i = if i = 1 then XH else if i land 1 = 1 then XI (pos_of_int (i lsr 1)) else XO (pos_of_int (i lsr 1))
let n_of_int i = if i = 0 then N0 else Npos (pos_of_int i)
let rec int_of_pos = function XH -> 1 | XO p -> 2 * int_of_pos p | XI p -> 2 * int_of_pos p + 1
let int_of_n = function N0 -> 0 | Npos p -> int_of_pos p

exception Parse of string

let parse (s : string) : sx =
  let len = String.length s in
  let pos = ref 0 in
  let rec skip () = if !pos < len && (s.[!pos] = ' ' || s.[!pos] = '\t' || s.[!pos] = '\r') then (incr pos; skip ()) in
  let rec item () =
    skip ();
    if !pos >= len then raise (Parse "eof");
    if s.[!pos] = '(' then begin
      incr pos;
      let acc = ref [] in
      let rec loop () =
        skip ();
        if !pos >= len then raise (Parse "unclosed");
        if s.[!pos] = ')' then incr pos else begin acc := item () :: !acc; loop () end in
      loop ();
      L (List.rev !acc)
    end else begin
      let st = !pos in
      while !pos < len && s.[!pos] >= '0' && s.[!pos] <= '9' do incr pos done;
      if !pos = st then raise (Parse "char");
      A (n_of_int (int_of_string (String.sub s st (!pos - st))))
    end in
  let r = item () in
  skip ();
  if !pos <> len then raise (Parse "trailing");
  r

let rec print buf = function
  | A n -> Buffer.add_string buf (string_of_int (int_of_n n))
  | L l ->
    Buffer.add_char buf '(';
    List.iteri (fun i x -> if i > 0 then Buffer.add_char buf ' '; print buf x) l;
    Buffer.add_char buf ')'

let () =
  let buf = Buffer.create 65536 in
  (try
    while true do
      let line = input_line stdin in
      (match (try Some (parse line) with Parse _ | Failure _ -> None) with
       | Some c -> print buf (run c)
       | None -> Buffer.add_string buf "PARSE-ERROR");
      Buffer.add_char buf '\n';
      if Buffer.length buf > 60000 then (print_string (Buffer.contents buf); Buffer.clear buf)
    done
  with End_of_file -> ());
  print_string (Buffer.contents buf)
