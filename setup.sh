#!/bin/sh
# Full offline build: every .v to .vo (never -vos), extraction, OCaml driver.
set -e
cd "$(dirname "$0")"
mkdir -p ocaml/gen evidence replays
cd coq
coq_makefile -f _CoqProject -o Makefile
timeout 3000 make -j16
cd ../ocaml/gen
ocamlfind ocamlopt -w -a model.mli model.ml ../driver.ml -o ../model_driver
echo "setup ok"
