"""Entry point: harness/check.py <ID> [--tier quick|thorough] [--replay file]"""
from __future__ import annotations

import argparse
import importlib
import os
import sys
import traceback
from pathlib import Path

sys.path.insert(0, str(Path(__file__).resolve().parent.parent))

from harness import common  # noqa: E402


def main() -> int:
    ap = argparse.ArgumentParser()
    ap.add_argument("pid")
    ap.add_argument("--tier", default=os.environ.get("VERIF_TIER") or "quick", choices=["quick", "thorough"])
    ap.add_argument("--replay", default=None)
    a = ap.parse_args()
    seed = int(os.environ.get("VERIF_SEED") or 0)
    pid = a.pid.upper()
    ctx = common.Ctx(pid, a.tier, seed, clean=not a.replay)
    try:
        mod = importlib.import_module(f"harness.props.{pid.lower()}")
    except ModuleNotFoundError:
        print(f"unknown property {pid}")
        return 2
    if a.replay:
        rc = mod.replay(ctx, a.replay)
        # A failing input that needs the history of the process (an object used a second time, a cache filled by an earlier
        # evaluation): the case is repeated in this process (the harness rotates argument spellings and second uses with every
        # evaluation), then the whole job the case came from is run again.
        for _ in range(10):
            if rc:
                break
            rc = mod.replay(ctx, a.replay)
        if not rc:
            import json
            try:
                job = (json.load(open(a.replay)).get("case") or {}).get("_job")
            except Exception:  # noqa: BLE001
                job = None
            if job:
                r = getattr(importlib.import_module(job["module"]), job["fn"])(tuple(job["args"]))
                found = r.get("violations", []) + r.get("disagreements", []) + r.get("known", [])
                if found:
                    print("the case alone does not fail; the job it came from (several cases in one process) does:", str(found[0][1])[:300])
                    print(f"VIOLATION property={pid} replay={a.replay}")
                    rc = 1
        return rc
    if os.environ.get("VERIF_CAMPAIGN_NO_PROOF") and os.environ.get("VERIF_OUT"):
        # mutation campaign (harness/mutate.py): many checks in parallel on scratch copies; the Coq development does not
        # depend on the repository, it was built and checked by the regular run.  Never set by a registered command.
        ctx.proof = {"ok": True, "obligations": 0, "discharged": 0, "theorems": [], "axioms": [], "log": "proof stage skipped (mutation campaign)", "broken": None, "skipped": True}
    else:
        ctx.proof = common.proof_stage(pid)
    if a.tier == "thorough" and ctx.proof["ok"]:
        chk = common.coqchk_stage(pid)
        ctx.extra["coqchk"] = chk
        if not chk["ok"]:
            ctx.proof["ok"] = False
            ctx.proof["broken"] = "coqchk rejected Props/%s.vo: %s" % (pid, chk["tail"][-300:])
    if not common.DRIVER.exists():
        ctx.disagreement({}, "model driver could not be built: " + (ctx.proof.get("log") or "")[-400:])
        return ctx.finish()
    # watchdog: a change that makes the library loop forever must end as a report, not as a check that never returns
    import signal
    budget = int(os.environ.get("VERIF_BUDGET_S") or (900 if a.tier == "quick" else 6 * 3600))

    class Overrun(Exception):
        pass

    def on_alarm(_sig, _frm):
        raise Overrun()
    signal.signal(signal.SIGALRM, on_alarm)
    signal.alarm(budget)
    try:
        mod.run(ctx)
    except Overrun:
        ctx.disagreement({"budget_seconds": budget}, f"the {a.tier} run did not finish within {budget} s (a non-terminating evaluation in the library, or a stuck harness): the property is not shown to hold")
    except Exception:
        # a crash of the harness itself is a broken correspondence, not a pass
        ctx.disagreement({"traceback": traceback.format_exc()[-3000:]}, "correspondence harness crashed")
    finally:
        signal.alarm(0)
    rc = ctx.finish()
    # worker processes stuck in a non-terminating evaluation must not outlive the check
    try:
        import multiprocessing
        for ch in multiprocessing.active_children():
            ch.kill()
    except Exception:  # noqa: BLE001
        pass
    return rc


if __name__ == "__main__":
    sys.exit(main())
