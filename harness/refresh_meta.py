"""Run a filed seed against checks and record the result in its meta.json.
usage: python3 harness/refresh_meta.py seeded/<name> C11[,C01...]   (never while other checks are running: patches /repo temporarily)"""
import json, subprocess, sys
from pathlib import Path
d = Path(sys.argv[1]); checks = sys.argv[2]
patch = d / "patch.diff"
rev = []
if not patch.exists():
    patch, rev = d / "fix.diff", ["--reverse"]
p = subprocess.run([sys.executable, str(Path(__file__).parent / "seedtest.py"), str(patch), "--checks", checks, *rev], capture_output=True, text=True)
line = [l for l in p.stdout.splitlines() if l.startswith("SUMMARY ")]
if not line:
    print(d.name, "FAILED:", p.stdout[-300:], p.stderr[-300:]); sys.exit(2)
res = json.loads(line[0][8:])
mp = d / "meta.json"
meta = json.loads(mp.read_text()) if mp.exists() else {}
meta.setdefault("checks_result", {}).update(res)
meta["caught_by"] = sorted(k for k, v in meta["checks_result"].items() if v["kind"] == "violation")
meta["caught_as_no_failing_input_by"] = sorted(k for k, v in meta["checks_result"].items() if v["kind"] == "no-failing-input")
mp.write_text(json.dumps(meta, indent=1, ensure_ascii=False))
print(d.name, {k: v["kind"] for k, v in res.items()})
