"""Prompt given to a fresh sub-agent that seeds a property-breaking change in its own scratch worktree (/tmp/wt_<ID>).
usage: agent_prompt.py <ID> [extra instructions]"""
import sys
pid=sys.argv[1]
import json
prop = next(json.dumps({k: j[k] for k in ("id", "title", "statement", "quantifier", "why_tests_cant")}, indent=1)
            for j in map(json.loads, open("/verif/properties.jsonl")) if j["id"] == pid)
print(f"""You are helping to evaluate a verification framework by producing a realistic *seeded defect* for a Python library. Work ONLY inside the scratch git worktree /tmp/wt_{pid} (a checkout of the library "pytestarch": a pytest-oriented library that builds a module import graph from Python ASTs and checks ArchUnit-style architectural rules). Do NOT read or write anything under /repo or /verif. Sources are in /tmp/wt_{pid}/src/pytestarch, docs in /tmp/wt_{pid}/docs, tests in /tmp/wt_{pid}/tests.

Here is a semantic property of the library that is supposed to hold for ALL inputs:

{prop}

YOUR TASK: make a small source change (1-15 lines, in /tmp/wt_{pid}/src/pytestarch only) that BREAKS this property, while
 (1) the code still imports/compiles,
 (2) the existing test suite still passes exactly as before. Run it with:
       cd /tmp/wt_{pid} && PYTHONPATH=/tmp/wt_{pid}/src /venv/bin/python -m pytest -q -p no:cacheprovider --timeout=120 --deselect tests/test_architecture.py
     (On the unmodified tree this gives 851 passed and 5 failed; the 5 failures are in tests/eval_structure_generation/test_module_graph.py and are pre-existing/unrelated. Your change must not alter this: still 851 passed, the same 5 failed. NEVER run the deselected file, it hangs.)
 (3) the breakage is SUBTLE: it should need something specific to manifest - an unusual input, a particular combination of options, a multi-step sequence of calls, a particular naming of modules, two code sites that each look fine alone, etc. - NOT something that ordinary use would expose at once. Think like a plausible refactoring slip or an "optimisation" a maintainer might merge.
 (4) Do not touch tests, docs or packaging; do not add new dependencies.

Also write a DEMONSTRATION: a small standalone Python script /tmp/seed_{pid}/demo.py that uses the library's public API (run as `PYTHONPATH=<tree>/src /venv/bin/python demo.py`; it may create temporary files/directories under /tmp and must clean them up) and exits 0 when the property holds on the concrete scenario and exits 1 (printing what went wrong) when it is violated. It must exit 1 with your change applied and exit 0 on the unmodified tree (check both: ``git apply -R` / `git apply` of your own diff in the worktree (NOT `git stash`: the stash is shared by all worktrees of the repository), or compare against a second checkout you create with `git -C /tmp/wt_{pid} worktree add /tmp/wt_{pid}_orig HEAD` and remove afterwards).

Deliverables (create the directory /tmp/seed_{pid}/):
  /tmp/seed_{pid}/patch.diff   - output of `git -C /tmp/wt_{pid} diff` (the source change only)
  /tmp/seed_{pid}/demo.py      - the demonstration
  /tmp/seed_{pid}/notes.txt    - 5-10 lines: what the change is, why tests still pass, exactly what is needed for the violation to manifest.
Leave the change applied in the worktree. In your final answer, summarise the change, the trigger condition, and the results of the three runs (test suite with change; demo with change -> exit 1; demo without change -> exit 0).
Use /venv/bin/python (Python 3.12, has networkx, matplotlib, pytest). There is no network access.""")
