"""Re-test every filed seed (seeded/regress_*, seeded/agent*_*) against the check recorded as catching it.

Each seed is applied to a scratch copy of /repo under /dev/shm (never to /repo itself), and the check is run against that copy
(VERIF_REPO / VERIF_OUT, proof stage skipped for these runs only: the Coq development does not depend on the repository).
Several seeds are tested at the same time.  The scratch copies are removed as soon as their check has finished.

usage: VERIF_SEED=<n> /venv/bin/python harness/regress_all.py [-j 6] [--refactorings] [name-prefix ...]
--refactorings: the behaviour-preserving refactorings (seeded/refactor_*) instead; all 17 checks must stay silent on each.
"""
from __future__ import annotations

import json
import os
import shutil
import subprocess
import sys
from concurrent.futures import ThreadPoolExecutor
from pathlib import Path

V = Path("/verif/seeded")
SCRATCH = Path("/dev/shm/regress_scratch")


ALL = ["C%02d" % i for i in range(1, 18)]


def plan(refactorings=False):
    kf = json.load(open("/verif/known_findings.json"))["findings"]
    for d in sorted(V.iterdir()):
        if refactorings:
            # the converse test: behaviour-preserving refactorings, all 17 checks must stay silent
            if d.is_dir() and d.name.startswith("refactor_") and (d / "patch.diff").exists():
                yield d.name, d / "patch.diff", False, ALL
            continue
        if not d.is_dir() or d.name.startswith("refactor_"):
            continue
        meta = json.loads((d / "meta.json").read_text()) if (d / "meta.json").exists() else {}
        if d.name.startswith("regress_"):
            did = d.name.split("_")[1]
            checks = [f["property"] for f in kf if f["id"] == did][:1]
        else:
            pid = d.name.split("_")[1]
            cb = meta.get("caught_by") or []
            checks = [pid] if pid in cb or not cb else cb[:1]
        patch, rev = d / "patch.diff", False
        if not patch.exists():
            patch, rev = d / "fix.diff", True
        yield d.name, patch, rev, checks


def one(item):
    name, patch, rev, checks = item
    wd = SCRATCH / name
    shutil.rmtree(wd, ignore_errors=True)
    copy, out = wd / "repo", wd / "out"
    copy.mkdir(parents=True)
    out.mkdir()
    try:
        subprocess.run("git -C /repo archive HEAD | tar -x -C " + str(copy), shell=True, check=True)
        r = subprocess.run(["git", "apply", *(["-R"] if rev else []), str(patch)], cwd=copy, capture_output=True, text=True)
        if r.returncode != 0:
            return name, None, "patch does not apply: " + r.stderr[:200]
        env = dict(os.environ, VERIF_REPO=str(copy), VERIF_OUT=str(out), VERIF_CAMPAIGN_NO_PROOF="1", VERIF_NCPU="3", PYTHONHASHSEED="0")
        kinds = {}
        for pid in checks:
            p = subprocess.run(["/verif/check", pid, "--tier", "quick"], cwd="/verif", env=env, capture_output=True, text=True, timeout=1500)
            lines = [ln for ln in p.stdout.split("\n") if ln.startswith("VIOLATION")]
            kinds[pid] = "silent" if not lines else ("no-failing-input" if lines[0].rstrip().endswith("no-failing-input-found") else "violation")
        return name, kinds, ""
    except Exception as e:  # noqa: BLE001
        return name, None, repr(e)[:200]
    finally:
        shutil.rmtree(wd, ignore_errors=True)


def main():
    args = sys.argv[1:]
    j = 6
    if args[:1] == ["-j"]:
        j = int(args[1])
        args = args[2:]
    refactorings = args[:1] == ["--refactorings"]
    if refactorings:
        args = args[1:]
    items = [it for it in plan(refactorings) if not args or any(it[0].startswith(a) for a in args)]
    bad = []
    with ThreadPoolExecutor(j) as ex:
        for name, kinds, err in ex.map(one, items):
            if refactorings:
                ok = bool(kinds) and all(v == "silent" for v in kinds.values())
                print(name, {k: v for k, v in (kinds or {}).items() if v != "silent"} if kinds is not None else "ERROR " + err, "all silent" if ok else "<<<<<< ALARM", flush=True)
            else:
                ok = bool(kinds) and any(v != "silent" for v in kinds.values())
                print(name, kinds if kinds is not None else "ERROR " + err, "" if ok else "<<<<<< NOT CAUGHT", flush=True)
            if not ok:
                bad.append(name)
    shutil.rmtree(SCRATCH, ignore_errors=True)
    print("ALARMS ON REFACTORINGS:" if refactorings else "NOT CAUGHT:", bad)


if __name__ == "__main__":
    main()
