"""Shared generators / runners for the module-rule properties (C01, C03, C11, C12, C13, C14, C15).

A *case* is an abstract graph (dotted names + import pairs) and a list of rule
specs.  The real code is driven through Rule's fluent API; the model through
fn 10 of the wire protocol.
"""
from __future__ import annotations

import itertools
import re
import warnings
from pathlib import Path

from harness import common
from harness.common import SX_ERR

warnings.simplefilter("ignore")
warnings.showwarning = lambda *a, **k: None   # the deprecated-API decorator re-enables warnings on every call
import os
os.environ["PYTHONWARNINGS"] = "ignore"

VERBS = ("should", "should_only", "should_not")
COLLISION_FREE = ["m0", "m1", "m2", "m3", "m4", "m5", "m6", "m7", "m8", "m9"]
ADVERSARIAL = ["a", "ab", "a_b", "aa", "b", "ba", "a1", "_a", "A"]
# names with characters that sort BEFORE the dot ('-', '+', ' ', '$', '#'): "r.a" < "r.a-b" < "r.a.x" - a sibling between a package and its
# sub modules in sorted order.  Legal as directory names and as names of directly constructed graphs (never written into import statements).
SORT_TRICKY = ["a", "a-b", "a+b", "a b", "a$", "a#1", "ab", "b", "b-"]
# large / unusual: 30 numbered names (m2 < m10 numerically, not lexicographically), non-ASCII identifiers, a very long name
LARGE_POOL = ["m%d" % i for i in range(30)] + ["m01", "m001", "m1_0", "step_1", "step_01", "pkg_\u00e9", "\u00df_mod", "\u03b4elta", "long_" + "x" * 60, "Z9", "_"]
# non-ASCII names, some of them not stable under Unicode normalisation (micro sign, fi ligature, combining accent, full-width letter)
UNICODE_POOL = ["\u00b5_core", "\ufb01le", "e\u0301", "\uff41b", "\u00e9", "\u00aa", "x", "\u03bc_core"]


# --------------------------------------------------------------------------
# real code


def impl():
    import pytestarch  # noqa: F401
    from pytestarch import Rule
    from pytestarch.eval_structure.evaluable_graph import EvaluableArchitectureGraph
    from pytestarch.eval_structure.networkxgraph import NetworkxGraph
    from pytestarch.eval_structure_generation.file_import.import_types import AbsoluteImport
    return Rule, EvaluableArchitectureGraph, NetworkxGraph, AbsoluteImport


def make_arch_direct(nodes, edges, limit=None):
    Rule, EAG, NXG, AbsoluteImport = impl()
    return EAG(NXG(list(nodes), [AbsoluteImport(a, b) for a, b in edges], limit))


def hash_free_choice(a: str, b: str) -> int:
    """A choice that depends on the two names only (no PRNG state, no hash seed)."""
    return sum(map(ord, a)) + 3 * sum(map(ord, b))


def make_arch_scan(nodes, edges, limit=None, keep=None):
    """Materialise a real file tree (leaves = .py files, inner nodes = directories
    without __init__.py), scan it with the public entry point.  Only leaves may import."""
    from pytestarch import get_evaluable_architecture
    nodes = sorted(set(nodes))
    inner = {n for n in nodes if any(m.startswith(n + ".") for m in nodes)}
    d = common.scratch_dir()
    try:
        root = min(nodes, key=len)
        for n in nodes:
            p = d.joinpath(*n.split("."))
            if n in inner:
                p.mkdir(parents=True, exist_ok=True)
        for n in nodes:
            if n in inner:
                continue
            p = d.joinpath(*n.split("."))
            p.parent.mkdir(parents=True, exist_ok=True)
            # both spellings of an absolute import; 'from pkg import leaf' only when it names the same module
            src = "".join((f"from {b.rsplit('.', 1)[0]} import {b.rsplit('.', 1)[1]}\n" if ("." in b and (hash_free_choice(n, b) % 4)) else f"import {b}\n") for a, b in edges if a == n)
            p.with_suffix(".py").write_text(src)
        rp = str(d / root)
        kw = {} if limit is None else {"level_limit": limit}
        return get_evaluable_architecture(rp, rp, **kw)
    finally:
        import shutil
        shutil.rmtree(d, ignore_errors=True)


_SPELL = [0]
# Set by the checks that compare verdicts and error families only (C01, C10, C13, C17): message texts legitimately show a
# name through its own str(), so the checks that read messages keep plain strings.
MEMBER_SPELLING = False


def _spell_names(names):
    """The documented spellings of a module list (str | Sequence[str]), rotated: a list, a tuple, and for a single name the bare string."""
    _SPELL[0] += 1
    k = _SPELL[0] % 4
    if MEMBER_SPELLING and (_SPELL[0] // 4) % 3 == 2:
        # every third round of spellings: str-Enum-like members (a str whose str() is not its value) instead of plain strings
        names = [StrMember(x) for x in names]
    if len(names) == 1 and k in (1, 3):
        return names[0]
    if names and (_SPELL[0] // 4) % 5 == 3:
        # every fifth round of spellings: the first name listed twice in a row ([a, a, b]): a batch is one rule per listed
        # module, naming a module twice states nothing new
        names = [names[0]] + list(names)
    return tuple(names) if k == 2 else list(names)


class StrMember(str):
    """A str whose str() differs from its value - what a member of `class Mod(str, Enum)` is on Python >= 3.11
    (str(Mod.DOMAIN) == 'Mod.DOMAIN' although Mod.DOMAIN == 'app.domain' and both hash alike)."""

    def __str__(self):
        return "Member<" + str.__str__(self).upper() + ">"

    __repr__ = __str__


def build_rule(spec):
    """spec: dict(subj=(kind, [names]) | None, verbs=[...], imp=True/False/None, exc=bool,
    obj=(kind, [names]) | None, anything=bool).  kind in named/sub/regex/containing."""
    Rule = impl()[0]
    r = Rule()
    meth = {"named": "are_named", "sub": "are_sub_modules_of", "regex": "have_name_matching", "containing": "have_name_containing"}

    def call(obj, name, *args):
        # the fluent API: every call is made on what the previous call returned, as in rule.modules_that().are_named(..).should()...
        nxt = getattr(obj, name)(*args)
        if nxt is None:
            raise FluentChainBroken(f"{name}() returned None: the call chain cannot be continued")
        return nxt
    if spec.get("subj") is not None:
        r = call(r, "modules_that")
        kind, names = spec["subj"]
        r = call(r, meth[kind], names[0] if kind == "regex" else _spell_names(names))
    for v in spec.get("verbs", []):
        r = call(r, v)
    if spec.get("anything"):
        r = call(r, "import_anything" if spec["imp"] else "be_imported_by_anything")
    elif spec.get("imp") is not None:
        name = ("import_modules" if spec["imp"] else "be_imported_by_modules") + ("_except_modules_that" if spec.get("exc") else "_that")
        r = call(r, name)
    if spec.get("obj") is not None:
        kind, names = spec["obj"]
        r = call(r, meth[kind], names[0] if kind == "regex" else _spell_names(names))
    return r


class FluentChainBroken(Exception):
    pass


CONFIG_ERRORS = ("ImproperlyConfigured", "RuleInconsistency")
LOOKUP_ERRORS = ("ImpossibleMatch", "NetworkXError", "KeyError", "NodeNotFound", "LayerMismatch")


def classify_exception(e: BaseException) -> str:
    names = [c.__name__ for c in type(e).__mro__]
    if any(n in CONFIG_ERRORS for n in names):
        return "ConfigError"
    if any(n in LOOKUP_ERRORS for n in names):
        return "LookupError"
    return "OtherError:" + type(e).__name__


class EvaluationTimeout(Exception):
    """An evaluation in the library used more CPU time than any terminating evaluation of a generated case can need."""


def cpu_limited(fn, seconds=None):
    """Runs fn() under a CPU-time limit (ITIMER_VIRTUAL / SIGVTALRM: independent of the wall-clock watchdog of check.py).
    A library change that makes an evaluation loop forever then surfaces as an outcome of THAT input instead of a stuck check."""
    import signal
    import threading
    if threading.current_thread() is not threading.main_thread():
        return fn()
    seconds = seconds or float(os.environ.get("VERIF_EVAL_CPU_S") or 8)

    def on_timer(_s, _f):
        raise EvaluationTimeout(f"no result after {seconds} s of CPU time")
    old = signal.signal(signal.SIGVTALRM, on_timer)
    signal.setitimer(signal.ITIMER_VIRTUAL, seconds)
    try:
        return fn()
    finally:
        signal.setitimer(signal.ITIMER_VIRTUAL, 0)
        signal.signal(signal.SIGVTALRM, old)


_TIMED_OUT = [0]


def run_rule(rule, arch):
    """-> (verdict, detail): ('PASS', ''), ('FAIL', message), ('ERR', family)"""
    if _TIMED_OUT[0] >= 2:
        # two evaluations in this process already failed to terminate: report those, do not spend the budget on more
        return ("ERR", "NonTermination: not evaluated (earlier evaluations in this run did not terminate)")
    _RUNS[0] += 1
    if _RUNS[0] % 5 == 0:
        # every fifth rule object is used twice, and it is the SECOND evaluation that is compared with the documented
        # semantics and the model: what a rule states does not depend on whether the object has been evaluated before -
        # on the same architecture, or (every tenth) on another one in which some of the modules do not exist
        _run_rule_once(rule, arch if _RUNS[0] % 10 else _decoy_for(arch))
    return _run_rule_once(rule, arch)


_RUNS = [0]
_RESPEC = [0]
_BATCH = [0]
_DECOYS = {}


def _decoy_for(arch):
    """another architecture object: the modules of `arch` without every other leaf module, plus one module `arch` does not
    have, and no imports at all (kept per architecture object; the object is kept alive with it so that ids are not reused)"""
    hit = _DECOYS.get(id(arch))
    if hit is not None and hit[0] is arch:
        return hit[1]
    try:
        mods = sorted(arch.modules)
        leaves = [m for m in mods if not any(o.startswith(m + ".") for o in mods)]
        drop = set(leaves[1::2])
        keep = [m for m in mods if m not in drop]
        top = min(mods, key=len) if mods else "r"
        decoy = make_arch_direct(keep + [top + ".only_in_decoy"], [])
    except Exception:  # noqa: BLE001
        decoy = arch
    if len(_DECOYS) > 64:
        _DECOYS.clear()
    _DECOYS[id(arch)] = (arch, decoy)
    return decoy


def _run_rule_once(rule, arch):
    try:
        cpu_limited(lambda: rule.assert_applies(arch))
        return ("PASS", "")
    except AssertionError as e:
        return ("FAIL", str(e))
    except EvaluationTimeout as e:
        _TIMED_OUT[0] += 1
        return ("ERR", "NonTermination: " + str(e))
    except Exception as e:  # noqa: BLE001
        return ("ERR", classify_exception(e))


LINE_RE = re.compile(
    r'^(Sub modules of )?"([^"]*)" (does not import|do not import|is not imported by|are not imported by|imports|is imported by) '
    r'(any module that is not )?(.*)\.$')
OBJ_RE = re.compile(r'^(a sub module of )?"([^"]*)"$')


def parse_message(msg: str):
    """Message text -> frozenset of canonical lines, or None if a line is not understood."""
    out = set()
    for ln in msg.split("\n"):
        m = LINE_RE.match(ln)
        if not m:
            return None
        sub_pre, subj, verb, anyp, objs = m.groups()
        olist = []
        for o in objs.split(", "):
            mo = OBJ_RE.match(o)
            if not mo:
                return None
            olist.append(("sub" if mo.group(1) else "named", mo.group(2)))
        if verb in ("imports", "is imported by"):
            if sub_pre or anyp or len(olist) != 1 or olist[0][0] != "named":
                return None
            out.add(("C", subj, olist[0][1]))
        else:
            s = ("sub" if sub_pre else "named", subj)
            out.add(("A" if anyp else "M", s, frozenset(olist)))
    return frozenset(out)


# --------------------------------------------------------------------------
# encoding for the model


class Enc:
    """Numbers the component strings of one case."""

    def __init__(self):
        self.ids = {}
        self.rev = {}

    def comp(self, c: str) -> int:
        if c not in self.ids:
            self.ids[c] = len(self.ids) + 1
            self.rev[self.ids[c]] = c
        return self.ids[c]

    def name(self, dotted: str):
        return [self.comp(c) for c in dotted.split(".")]

    def unname(self, l) -> str:
        return ".".join(self.rev[i] for i in l)

    def graph_direct(self, nodes, edges):
        return [0, [self.name(n) for n in nodes], [[self.name(a), self.name(b)] for a, b in edges]]

    def graph_built(self, mods, imports, limit=None):
        return [1, [self.name(n) for n in mods], [[self.name(a), self.name(b)] for a, b in imports], [] if limit is None else [limit]]

    def ufilt(self, kind, name, rids=None):
        if kind == "named":
            return [0, self.name(name)]
        if kind == "sub":
            return [1, self.name(name)]
        return [2, rids[name]]

    def cfg(self, spec, rids=None):
        def side(x):
            if x is None:
                return []
            kind, names = x
            return [[self.ufilt(kind, n, rids) for n in names]]
        verbs = spec.get("verbs", [])
        imp = spec.get("imp")
        return [side(spec.get("subj")), side(spec.get("obj")),
                "should" in verbs, "should_only" in verbs, "should_not" in verbs,
                bool(spec.get("exc")) and not spec.get("anything"), [] if imp is None else [bool(imp)], bool(spec.get("anything"))]

    def dec_filt(self, f):
        return ("named" if f[0] == 0 else "sub", self.unname(f[1]))

    def dec_outcome(self, o):
        """model outcome sx -> ('PASS','') | ('FAIL', frozenset(lines)) | ('ERR', family)"""
        if o[0] == 0:
            return ("PASS", "")
        if o[0] == 2:
            return ("ERR", "ConfigError" if o[1] in (0, 1) else "LookupError")
        lines = set()
        for l in o[1]:
            if l[0] == 0:
                lines.add(("C", self.unname(l[1]), self.unname(l[2])))
            else:
                lines.add(("M" if l[0] == 1 else "A", self.dec_filt(l[1]), frozenset(self.dec_filt(f) for f in l[2])))
        return ("FAIL", frozenset(lines))


def regex_table(enc: Enc, regexes: dict, node_names):
    """regexes: {pattern: id}.  Truth table from the real re.match over the graph's names."""
    t = []
    for pat, rid in regexes.items():
        cp = re.compile(pat)
        t.append([rid, [enc.name(n) for n in node_names if re.match(cp, n) is not None]])
    return t


# --------------------------------------------------------------------------
# python reference oracle for the strict domain (documented semantics; C01/C03)


def anc(a: str, b: str) -> bool:
    return b == a or b.startswith(a + ".")


def related(a: str, b: str) -> bool:
    return anc(a, b) or anc(b, a)


def denote(nodes, f):
    kind, n = f
    return {x for x in nodes if anc(n, x) and (kind == "named" or x != n)}


def spec_lines(nodes, E, Ss, verb, imp, exc, Os):
    """Documented semantics on a strict rule: the set of violating lines (empty = pass).
    Ss/Os: lists of (kind, name)."""
    # an import from a module to its direct child is not representable (absorbed by the hierarchy edge)
    E = {(a, b) for (a, b) in E if not (b.startswith(a + ".") and b.count(".") == a.count(".") + 1)}

    def edges(S, O):
        ds, do = denote(nodes, S), denote(nodes, O)
        if imp:
            return {(s, o) for (s, o) in E if s in ds and o in do}
        return {(s, o) for (o, s) in E if s in ds and o in do}

    def others(S):
        src = denote(nodes, S)
        # import direction: X itself counts as inside "sub modules of X" (as a target);
        # be-imported direction: X as an importer is "something else" (code + docstrings; DESIGN 3)
        ins = src if (not imp and S[0] == "sub") else {x for x in nodes if anc(S[1], x)}
        excl = set().union(*[denote(nodes, O) for O in Os]) if Os else set()
        out = set()
        for (a, b) in E:
            x, y = (a, b) if imp else (b, a)
            if x in src and y not in ins and y not in excl:
                out.add((x, y))
        return out

    lines = set()
    need_edge = (verb in ("should", "should_only")) and not exc
    forbid_edge = (verb == "should_not" and not exc) or (verb == "should_only" and exc)
    need_other = (verb in ("should", "should_only")) and exc
    forbid_other = (verb == "should_not" and exc) or (verb == "should_only" and not exc)
    for S in Ss:
        if need_edge:
            miss = frozenset(O for O in Os if not edges(S, O))
            if miss:
                lines.add(("M", S, miss))
        if forbid_edge:
            for O in Os:
                for (s, o) in edges(S, O):
                    lines.add(("C", s, o))
        if need_other and not others(S):
            lines.add(("A", S, frozenset(Os)))
        if forbid_other:
            for (s, o) in others(S):
                lines.add(("C", s, o))
    return frozenset(lines)


# --------------------------------------------------------------------------
# generators


def rand_tree(rng, pool, max_nodes=12, max_depth=4, root="r"):
    nodes = [root]
    for _ in range(rng.randint(2, max_nodes)):
        # deep trees: half of the time extend the module added last (chains reach max_depth)
        p = nodes[-1] if max_depth > 4 and rng.random() < 0.5 else rng.choice(nodes)
        if p.count(".") >= max_depth - 1:
            p = root
        nodes.append(p + "." + rng.choice(pool))
    return sorted(set(nodes))


def rand_edges(rng, nodes, k_max=8):
    E = set()
    for _ in range(rng.randint(0, k_max)):
        a, b = rng.choice(nodes), rng.choice(nodes)
        if a != b:
            E.add((a, b))
    return sorted(E)


def pick_filters(rng, nodes, strict: bool, root="r", kmax=3):
    cand = [n for n in nodes if n != root]
    if len(cand) < 2:
        return None
    k1, k2 = rng.randint(1, kmax), rng.randint(1, kmax)
    for _ in range(20):
        pick = rng.sample(cand, min(len(cand), k1 + k2))
        if len(pick) < 2:
            return None
        if strict and any(related(a, b) for a, b in itertools.combinations(pick, 2)):
            continue
        k = min(k1, len(pick) - 1)
        sk = rng.choice(["named", "sub"])
        ok = rng.choice(["named", "sub"])
        return (sk, pick[:k]), (ok, pick[k:])
    return None


def all_shapes(subj, obj, with_aliases=True):
    out = []
    for verb in VERBS:
        for imp in (True, False):
            for exc in (False, True):
                out.append(dict(subj=subj, verbs=[verb], imp=imp, exc=exc, obj=obj))
    if with_aliases:
        for imp in (True, False):
            out.append(dict(subj=subj, verbs=["should_not"], imp=imp, anything=True))
    return out


def spec_key(spec):
    def side(x):
        return None if x is None else (x[0], tuple(x[1]))
    return (side(spec.get("subj")), tuple(spec.get("verbs", [])), spec.get("imp"), bool(spec.get("exc")), side(spec.get("obj")), bool(spec.get("anything")))


def is_strict(spec) -> bool:
    names = list(spec["subj"][1]) + (list(spec["obj"][1]) if spec.get("obj") else [])
    return not any(related(a, b) for a, b in itertools.combinations(names, 2))


def oracle_for(nodes, edges, spec):
    """Reference lines for a strict name-based single-verb rule (aliases expanded as documented)."""
    Ss = [(spec["subj"][0], n) for n in spec["subj"][1]]
    if spec.get("anything"):
        return spec_lines(nodes, edges, Ss, "should_not", spec["imp"], True, Ss)
    Os = [(spec["obj"][0], n) for n in spec["obj"][1]]
    return spec_lines(nodes, edges, Ss, spec["verbs"][0], spec["imp"], bool(spec.get("exc")), Os)


# --------------------------------------------------------------------------
# evaluation engine: real code and model on the same cases


def eval_cases(cases):
    """cases: list of dict(nodes, edges, specs, mode='direct'|'scan', limit=None).
    Returns for each case a list of (impl_outcome, model_outcome, wire_in, wire_out) per spec.
    impl_outcome = ('PASS','') | ('FAIL', message) | ('ERR', family);
    model_outcome = ('PASS','') | ('FAIL', frozenset(lines)) | ('ERR', family)."""
    wire = []
    encs = []
    impl_out = []
    for c in cases:
        enc = Enc()
        nodes, edges, specs = c["nodes"], c["edges"], c["specs"]
        if c.get("mode") == "scan":
            arch = make_arch_scan(nodes, edges, c.get("limit"))
            c["obs"] = observe(arch, nodes, edges)
            g = enc.graph_direct(*c["obs"])
        else:
            arch = make_arch_direct(nodes, edges, c.get("limit"))
            g = enc.graph_built(nodes, edges, c.get("limit"))
        pats = {}
        for s in specs:
            for side in ("subj", "obj"):
                x = s.get(side)
                if x is not None and x[0] == "regex":
                    for p in x[1]:
                        pats.setdefault(p, len(pats) + 1)
                if x is not None and x[0] == "containing":
                    raise ValueError("expand 'containing' before calling eval_cases")
        rt = regex_table(enc, pats, list(arch.modules)) if pats else []
        outs = []
        for s in specs:
            try:
                _RESPEC[0] += 1
                if _RESPEC[0] % 7 == 0 and s.get("obj") is not None and not s.get("anything") and s["obj"][0] in ("named", "sub") \
                        and s.get("subj") is not None and s["subj"][0] in ("named", "sub"):
                    # every seventh rule object is first written with another object list (the subject's own first module),
                    # evaluated, and then given its object list again: the rule states what was written last
                    rule = build_rule(dict(s, obj=("named", list(s["subj"][1])[:1])))
                    _run_rule_once(rule, arch)
                    kind, names = s["obj"]
                    rule = getattr(rule, {"named": "are_named", "sub": "are_sub_modules_of"}[kind])(_spell_names(names))
                    if rule is None:
                        raise FluentChainBroken("re-specifying the object returned None")
                else:
                    rule = build_rule(s)
            except Exception as e:  # noqa: BLE001  (builder rejected the chain)
                outs.append(("ERR", classify_exception(e)))
                continue
            outs.append(run_rule(rule, arch))
        impl_out.append(outs)
        wire.append([10, [g, rt, [enc.cfg(s, pats) for s in specs]]])
        encs.append(enc)
    mres = common.model_run(wire)
    # the same evaluations with the graph queries run by the transcribed worklist loops (fn 34, Model/WRule.v): must give the
    # outcome of the comprehension model (C01_loops_verdict proves it; this is the executable side of that theorem)
    wres = common.model_run([[34, w[1]] for w in wire])
    result = []
    for c, enc, outs, w, m, mw in zip(cases, encs, impl_out, wire, mres, wres):
        if m is None or m == SX_ERR or mw is None or mw == SX_ERR:
            raise RuntimeError("model rejected case: " + common.sx_dump(w)[:300])
        rec = []
        for io, mo, mwo in zip(outs, m, mw):
            d10 = enc.dec_outcome(mo[1])
            if mwo[1] == [9]:
                d10 = ("ERR", "model: worklist loop ran out of fuel")
            elif enc.dec_outcome(mwo[1]) != d10:
                d10 = ("ERR", "model: worklist evaluation %r differs from comprehension evaluation %r" % (enc.dec_outcome(mwo[1])[0], d10[0]))
            rec.append((io, d10))
        result.append((rec, w, m))
    return result


def partial_match_converter():
    """The library's converter of partial names / glob patterns to regexes; when the helper has moved, the documented
    translation (text compared in full, a leading * any prefix, a trailing * any suffix)."""
    try:
        from pytestarch.utils.partial_match_to_regex_converter import convert_partial_match_to_regex
        return convert_partial_match_to_regex
    except Exception:  # noqa: BLE001
        import re

        def documented(p: str) -> str:
            st, en = p.startswith("*"), p.endswith("*")
            text = p[(1 if st else 0):(len(p) - 1 if en else len(p))]
            return (".*" if st else "") + re.escape(text) + (".*" if en else "$")
        return documented


class HarnessError(RuntimeError):
    """The harness cannot reach something it needs inside the library (an internal moved): a broken correspondence, never a verdict."""


def nx_of(arch):
    """The networkx graph an architecture object holds, found by walking its attributes (private names may change)."""
    import networkx
    seen, frontier = set(), [arch]
    for _ in range(5):
        nxt = []
        for o in frontier:
            if isinstance(o, networkx.Graph):
                return o
            if id(o) in seen or isinstance(o, (str, bytes, int, float, bool, type(None))):
                continue
            seen.add(id(o))
            d = getattr(o, "__dict__", None)
            if isinstance(d, dict):
                nxt.extend(d.values())
            for sl in getattr(type(o), "__slots__", ()) or ():
                if hasattr(o, sl):
                    nxt.append(getattr(o, sl))
        frontier = nxt
    raise HarnessError("no networkx graph found inside the architecture object (internal representation changed?)")


def is_hierarchy_pair(a: str, b: str) -> bool:
    """(package, direct sub module): the graph holds one edge per node pair, and for such a pair it is the hierarchy edge
    (an import of a direct sub module is absorbed by it)."""
    return b.startswith(a + ".") and "." not in b[len(a) + 1:]


def observe(arch, nodes, edges):
    """The architecture's own modules and import relation."""
    nx = nx_of(arch)
    ns = list(arch.modules)
    es = [(a, b) for a, b in nx.edges() if not is_hierarchy_pair(a, b)]
    return ns, sorted(es)


def same_verdict(io, mo) -> bool:
    if io[0] != mo[0]:
        return False
    if io[0] == "ERR":
        return not io[1].startswith("OtherError")
    return True


def same_lines(io, mo) -> bool:
    if io[0] != "FAIL" or mo[0] != "FAIL":
        return True
    return parse_message(io[1]) == mo[1]



# --------------------------------------------------------------------------
# the three public graph queries: real code vs comprehension model (fn 11-13) vs worklist model (fn 31-33)


def _real_queries(arch, ds, us):
    """-> {'between': {((kind,name),(kind,name)): set(edges)}, 'out': {(kind,name): set}, 'in': {...}} or ('ERR', family) per query."""
    from pytestarch.eval_structure.evaluable_architecture import ModuleNameFilter, ParentModuleNameFilter

    def mk(f):
        return ModuleNameFilter(name=f[1]) if f[0] == "named" else ParentModuleNameFilter(parent_module=f[1])

    def key(m):
        return ("named" if m.is_single_module else "sub", m.identifier)

    def edges(l):
        return frozenset((a.identifier, b.identifier) for a, b in l)
    D, U = [mk(f) for f in ds], [mk(f) for f in us]
    out = {}
    for name, fn in (("between", lambda: {(key(k[0]), key(k[1])): edges(v) for k, v in arch.get_dependencies(D, U).items()}),
                     ("out", lambda: {key(k): edges(v) for k, v in arch.any_dependencies_from_dependents_to_modules_other_than_dependent_upons(D, U).items()}),
                     ("in", lambda: {key(k): edges(v) for k, v in arch.any_other_dependencies_on_dependent_upons_than_from_dependents(D, U).items()})):
        if _TIMED_OUT[0] >= 2:
            out[name] = ("ERR", "NonTermination: not evaluated (earlier evaluations in this run did not terminate)")
            continue
        try:
            out[name] = cpu_limited(fn)
        except EvaluationTimeout as e:
            _TIMED_OUT[0] += 1
            out[name] = ("ERR", "NonTermination: " + str(e))
        except Exception as e:  # noqa: BLE001
            out[name] = ("ERR", classify_exception(e))
    return out


def _dec_query(enc, m, pairs):
    if m is None or m == SX_ERR:
        return ("MODEL-ERR", "")
    if m[0] == 2:
        return ("ERR", "LookupError" if m[1] not in (0, 1) else "ConfigError")
    out = {}
    for k, l in m[1]:
        kk = (enc.dec_filt(k[0]), enc.dec_filt(k[1])) if pairs else enc.dec_filt(k)
        out[kk] = frozenset((enc.unname(a), enc.unname(b)) for a, b in l)
    return out


def eval_queries(cases):
    """cases: dict(nodes, edges, ds, us, limit=None); ds/us lists of (kind, name).
    Returns per case {'between'|'out'|'in': (real, comprehension_model, worklist_model)}."""
    wire, encs, reals = [], [], []
    for c in cases:
        enc = Enc()
        arch = make_arch_direct(c["nodes"], c["edges"], c.get("limit"))
        g = enc.graph_built(c["nodes"], c["edges"], c.get("limit"))
        # the library de-duplicates filter lists through set(): do the same for the model (order is irrelevant to the compared maps)
        ds = list(dict.fromkeys(c["ds"]))
        us = list(dict.fromkeys(c["us"]))
        arg = [g, [enc.ufilt(k, n) for k, n in ds], [enc.ufilt(k, n) for k, n in us]]
        reals.append(_real_queries(arch, ds, us))
        for fn in (11, 12, 13, 31, 32, 33):
            wire.append([fn, arg])
        encs.append(enc)
    res = common.model_run(wire)
    out = []
    for i, (c, enc, real) in enumerate(zip(cases, encs, reals)):
        m = res[6 * i:6 * i + 6]
        out.append({"between": (real["between"], _dec_query(enc, m[0], True), _dec_query(enc, m[3], True)),
                    "out": (real["out"], _dec_query(enc, m[1], False), _dec_query(enc, m[4], False)),
                    "in": (real["in"], _dec_query(enc, m[2], False), _dec_query(enc, m[5], False)),
                    "pairs": list(zip(wire[6 * i:6 * i + 6], m))})
    return out


def query_outcomes_equal(a, b) -> bool:
    if isinstance(a, tuple) or isinstance(b, tuple):
        return isinstance(a, tuple) and isinstance(b, tuple) and a[0] == b[0] == "ERR" and not a[1].startswith("OtherError")
    return a == b


def check_query_cases(rng, n, pools=(COLLISION_FREE, ADVERSARIAL)):
    """Random graphs (also level-limited) x random filter lists (related and unrelated, with unknown names now and then)."""
    out = dict(n=0, nontrivial=0, stats={}, violations=[], disagreements=[], pairs=[], samples=[])
    cases = []
    for _ in range(n):
        nodes = rand_tree(rng, rng.choice(pools), max_nodes=rng.choice([5, 8, 12]))
        edges = rand_edges(rng, nodes, 10)
        cand = [x for x in nodes if x != "r"] or nodes

        def filters(k):
            fs = [(rng.choice(["named", "sub"]), rng.choice(cand)) for _ in range(k)]
            if rng.random() < 0.05:
                fs.append(("named", "r.zz.unknown"))
            return fs
        limit = rng.choice([None, None, None, 1, 2])
        if limit is not None:
            keep = lambda x: ".".join(x.split(".")[:limit + 1])
            cand = sorted({keep(x) for x in cand})
        cases.append(dict(nodes=nodes, edges=edges, ds=filters(rng.randint(1, 3)), us=filters(rng.randint(1, 3)), limit=limit))
    for c, r in zip(cases, eval_queries(cases)):
        for q in ("between", "out", "in"):
            real, comp, work = r[q]
            out["n"] += 1
            case = dict(nodes=c["nodes"], edges=c["edges"], dependents=c["ds"], dependent_upons=c["us"], level_limit=c["limit"], query=q,
                        impl=str(real)[:400], comprehension_model=str(comp)[:400], worklist_model=str(work)[:400])
            if not query_outcomes_equal(comp, work):
                out["disagreements"].append((case, f"query {q}: worklist model and comprehension model differ (they are proved equal on well-formed graphs)"))
            elif not query_outcomes_equal(real, work):
                out["disagreements"].append((case, f"query {q}: implementation and model differ"))
            elif isinstance(real, dict) and any(real.values()):
                out["nontrivial"] += 1
        if not out["pairs"]:
            out["pairs"] = r["pairs"][:6]
    out["stats"]["query_cases"] = n
    return out

# --------------------------------------------------------------------------
# case streams

SMALL_TREES = [
    (["r", "r.a", "r.b", "r.c", "r.c.d"], ["r.a", "r.b", "r.c.d"]),
    (["r", "r.a", "r.a.x", "r.a.y", "r.b"], ["r.a.x", "r.a.y", "r.b"]),
    (["r", "r.a", "r.a.x", "r.a.x.y", "r.b"], ["r.a.x.y", "r.b", "r.a"]),
]


def small_candidate_edges(nodes, leaves):
    out = []
    for l in leaves:
        for n in nodes:
            if n != l and not (n.startswith(l + ".") and n.count(".") == l.count(".") + 1):
                out.append((l, n))
    return out[:12]


def strict_filter_pairs(nodes, root="r", max_side=3):
    """All (subject filter list, object filter list) over pairwise unrelated non-root nodes."""
    cand = [n for n in nodes if n != root]
    out = []
    for k in range(2, min(len(cand), 2 * max_side) + 1):
        for pick in itertools.combinations(cand, k):
            if any(related(a, b) for a, b in itertools.combinations(pick, 2)):
                continue
            for mask in range(1, 2 ** k - 1):
                S = [p for i, p in enumerate(pick) if mask >> i & 1]
                O = [p for i, p in enumerate(pick) if not mask >> i & 1]
                if len(S) > max_side or len(O) > max_side:
                    continue
                for sk in ("named", "sub"):
                    for ok in ("named", "sub"):
                        out.append(((sk, S), (ok, O)))
    return out


def gen_small_cases(tree_idx, relation_indices):
    nodes, leaves = SMALL_TREES[tree_idx]
    cand = small_candidate_edges(nodes, leaves)
    pairs = strict_filter_pairs(nodes)
    specs = []
    for s, o in pairs:
        specs.extend(all_shapes(s, o))
    cases = []
    for ri in relation_indices:
        edges = [e for i, e in enumerate(cand) if ri >> i & 1]
        cases.append(dict(nodes=nodes, edges=edges, specs=specs, tag=("small", tree_idx, ri)))
    return cases


def gen_alias_nested_cases(rng, n):
    """'anything' rules whose NAMED subjects include a package together with some of its own sub modules, next to unrelated
    subjects with short / long names sorting before and after them (3-6 subjects)."""
    cases = []
    while len(cases) < n:
        pool = rng.choice((COLLISION_FREE, ADVERSARIAL, LARGE_POOL, UNICODE_POOL + ["\u044f", "\u30c7\u30fc\u30bf", "\u0100a"],
                           ["core", "api_controllers_and_views", "db", "ext", "x", "core_utils"]))
        nodes = rand_tree(rng, pool, max_nodes=rng.choice([10, 16, 24]), max_depth=5)
        nested = [(a, b) for a in nodes for b in nodes if a != "r" and b.startswith(a + ".")]
        if not nested:
            continue
        P, C = rng.choice(nested)
        others = [x for x in nodes if x not in (P, C, "r") and not related(x, P)]
        rng.shuffle(others)
        subj = [P, C] + others[:rng.randint(1, 4)] + ([rng.choice([b for a, b in nested if a == P])] if rng.random() < 0.3 else [])
        subj = list(dict.fromkeys(subj))
        rng.shuffle(subj)
        edges = rand_edges(rng, nodes, 20)
        specs = [dict(subj=("named", subj), verbs=["should_not"], imp=imp, anything=True) for imp in (True, False)]
        cases.append(dict(nodes=nodes, edges=edges, specs=specs, mode="direct", tag=("alias_nested",)))
    return cases


def quotient_graph(nodes, edges, limit):
    """The documented meaning of level_limit on a module list / import list: names truncated to limit+1 components."""
    tr = lambda x: ".".join(x.split(".")[:limit + 1])
    qn = sorted({tr(x) for x in nodes})
    qe = sorted({(tr(a), tr(b)) for a, b in edges if tr(a) != tr(b)})
    return qn, qe


def refine_for_limit(rng, nodes, edges):
    """A deeper graph whose level-limited view is the given one: the deepest modules get sub modules, some import ends move
    down into them, and level_limit = depth of the given graph.  -> (nodes2, edges2, limit)"""
    depth0 = max(x.count(".") for x in nodes)
    if depth0 < 1:
        return list(nodes), list(edges), None
    deepest = [x for x in nodes if x.count(".") == depth0]
    extra = {}
    for x in deepest:
        extra[x] = [x + "." + c for c in rng.sample(["x0", "x1", "sub.y"], rng.randint(1, 2))]
    nodes2 = sorted(set(nodes) | {y for ys in extra.values() for y in ys} | {y.rsplit(".", 1)[0] for ys in extra.values() for y in ys})
    edges2 = []
    for a, b in edges:
        a2 = rng.choice(extra[a]) if a in extra and rng.random() < 0.6 else a
        b2 = rng.choice(extra[b]) if b in extra and rng.random() < 0.6 else b
        edges2.append((a2, b2))
    # imports inside one refined module vanish in the limited view (self edges): add a few
    for x in deepest:
        if len(extra[x]) > 1 and rng.random() < 0.5:
            edges2.append((extra[x][0], extra[x][1]))
    return nodes2, sorted(set(edges2)), depth0


def gen_limited_cases(rng, n, strict):
    """Rules evaluated on a LEVEL-LIMITED architecture (two features combined): filters name modules that exist in the
    flattened graph; the oracle works on the quotient graph."""
    cases = []
    while len(cases) < n:
        nodes = rand_tree(rng, rng.choice((COLLISION_FREE, ADVERSARIAL, LARGE_POOL)), max_nodes=rng.choice([10, 16, 24]), max_depth=6)
        edges = rand_edges(rng, nodes, 14)
        limit = rng.randint(1, 3)
        qn, qe = quotient_graph(nodes, edges, limit)
        fp = pick_filters(rng, qn, strict, kmax=3)
        if fp is None:
            continue
        cases.append(dict(nodes=nodes, edges=edges, limit=limit, obs=(qn, qe), specs=all_shapes(*fp), mode="direct", tag=("rand", strict, "limited")))
    return cases


TWINS = ["step_1", "step_01", "step_001", "m1", "m01", "a1", "a01", "v2", "v02", "x_10", "x_010"]


def gen_twin_cases(rng, n):
    """Sibling modules whose names differ only in how a number is written (leading zeros), all standing in the same relation to one
    module: several report lines that coincide under any 'natural' or numeric reading of the names."""
    cases = []
    while len(cases) < n:
        twins = ["r.p." + t for t in rng.sample(TWINS, rng.randint(3, 6))]
        nodes = sorted(["r", "r.p", "r.x", "r.y"] + twins)
        E = set()
        for t in twins:
            r = rng.random()
            if r < 0.6:
                E.add((t, "r.x"))
            if rng.random() < 0.5:
                E.add(("r.y", t))
        subj = ("named", rng.sample(twins, rng.randint(2, len(twins))))
        specs = all_shapes(subj, ("named", ["r.x"])) + all_shapes(subj, ("named", ["r.y"]), with_aliases=False)
        cases.append(dict(nodes=nodes, edges=sorted(E), specs=specs, mode="direct", tag=("rand", True, "twins")))
    return cases


def gen_random_cases(rng, n, strict, mode="direct", pools=(COLLISION_FREE, ADVERSARIAL)):
    if mode == "alias_nested":
        return gen_alias_nested_cases(rng, n)
    if mode == "limited":
        return gen_limited_cases(rng, n, strict)
    if mode == "twins":
        return gen_twin_cases(rng, n)
    big = mode == "big"           # the quick tier's version of 'huge': 120 modules, 300 imports
    huge = mode in ("huge", "big")         # hundreds of modules, close to a thousand imports, deep chains: anything with a size threshold or a quadratic shortcut
    if huge:
        mode = "large"
    forest = mode == "forest"     # several top-level trees: the project, external libraries kept in the graph, a sibling of the root with a longer name
    if forest:
        mode = "direct"
    cases = []
    large = mode == "large"       # beyond the sizes of hand-written examples: up to 45 modules, 7 levels, 6 subjects x 6 objects, 30 imports
    if large:
        mode = "direct"
    while len(cases) < n:
        pool = LARGE_POOL if large else rng.choice(tuple(pools) + (SORT_TRICKY,)) if forest else rng.choice(pools)
        nodes = rand_tree(rng, pool, max_nodes=120 if big else rng.choice([250, 400]), max_depth=rng.choice([6, 12])) if huge else \
            rand_tree(rng, pool, max_nodes=rng.choice([25, 35, 45]), max_depth=rng.choice([5, 7, 10])) if large else \
            rand_tree(rng, pool, max_nodes=rng.choice([5, 8, 12]))
        if forest:
            extra = set()
            for top in rng.sample(["os", "ext", "rx", "r_", "R"], rng.randint(1, 3)):
                sub = rand_tree(rng, pool, max_nodes=rng.choice([2, 4]), root=top)
                extra.update(sub[: rng.randint(1, len(sub))] + [top])
            nodes = sorted(set(nodes) | extra)
        if mode == "scan":
            inner = {x for x in nodes if any(m.startswith(x + ".") for m in nodes)}
            leaves = [x for x in nodes if x not in inner]
            E = set()
            for _ in range(rng.randint(0, 8)):
                a, b = rng.choice(leaves), rng.choice(nodes)
                if a != b:
                    E.add((a, b))
            edges = sorted(E)
        else:
            edges = sorted({(a, b) for a, b in ((rng.choice(nodes), rng.choice(nodes)) for _ in range(300 if big else 900)) if a != b}) if huge else rand_edges(rng, nodes, 30 if large else 8)
        fp = pick_filters(rng, nodes, strict, kmax=6 if large else 3)
        if fp is None:
            continue
        specs = all_shapes(*fp)
        if rng.random() < 0.35 and fp[0][0] in ("named", "sub") and "." in fp[0][1][0]:
            # the same architecture object is first asked about the PARENT of the first subject (same objects): what an earlier
            # rule found out about a package says nothing about the rules that follow
            specs = all_shapes(("named", [fp[0][1][0].rsplit(".", 1)[0]]), fp[1], with_aliases=False) + specs
        cases.append(dict(nodes=nodes, edges=edges, specs=specs, mode=mode, tag=("rand", strict, "huge" if huge else "large" if large else "forest" if forest else mode)))
    return cases


def check_rule_cases(cases, use_oracle=True, lines=False):
    """Evaluate, compare.  Returns dict(n, nontrivial(set of keys), stats, violations, disagreements, pairs)."""
    res = eval_cases(cases)
    out = dict(n=0, nontrivial=0, stats={}, violations=[], disagreements=[], pairs=[], samples=[])

    def st(k):
        out["stats"][k] = out["stats"].get(k, 0) + 1
    for c, (rec, w, m) in zip(cases, res):
        verdicts = set()
        for spec, (io, mo) in zip(c["specs"], rec):
            out["n"] += 1
            st("impl_" + io[0])
            verdicts.add(io[0])
            strict = spec.get("subj") is not None and spec["subj"][0] in ("named", "sub") and \
                (spec.get("anything") or (spec.get("obj") is not None and spec["obj"][0] in ("named", "sub"))) and \
                len(spec.get("verbs", [])) == 1 and is_strict(spec) and \
                all(n in c.get("obs", (c["nodes"],))[0] for n in spec["subj"][1] + (spec["obj"][1] if spec.get("obj") else []))
            case = dict(nodes=c["nodes"], edges=c["edges"], observed=c.get("obs"), spec=_jsonable_spec(spec), mode=c.get("mode", "direct"),
                        impl=[io[0], io[1][:400]], model=[mo[0], _jsonable_lines(mo[1])])
            bad_model = not same_verdict(io, mo) or (lines and not same_lines(io, mo))
            # 'should not import / be imported by anything' with NAMED subjects that may be related (a package listed together with
            # its own sub modules): the documented meaning does not depend on relatedness - no import between a module of some
            # subject and a module outside every subject
            if (not strict) and use_oracle and spec.get("anything") and spec.get("subj") is not None and spec["subj"][0] == "named" \
                    and spec.get("verbs") == ["should_not"] and all(n in c["nodes"] for n in spec["subj"][1]):
                st("alias_related")
                onodes, oedges = c.get("obs", (c["nodes"], c["edges"]))
                E = {(a, b) for (a, b) in oedges if not (b.startswith(a + ".") and b.count(".") == a.count(".") + 1)}
                inside = {x for x in onodes if any(anc(sn, x) for sn in spec["subj"][1])}
                if spec["imp"]:
                    exp = frozenset(("C", a, b) for (a, b) in E if a in inside and b not in inside)
                else:
                    exp = frozenset(("C", b, a) for (a, b) in E if b in inside and a not in inside)
                if io[0] == "ERR" or (io[0] == "PASS") != (len(exp) == 0):
                    case["documented_lines"] = _jsonable_lines(exp)
                    out["violations"].append((case, f"verdict {io[0]} but documented semantics say {'pass' if not exp else 'fail'}: {spec_key(spec)}", _tags(c, spec, io)))
                    continue
                if lines and io[0] == "FAIL" and parse_message(io[1]) != exp:
                    case["documented_lines"] = _jsonable_lines(exp)
                    case["reported_lines"] = _jsonable_lines(parse_message(io[1]) or [])
                    out["violations"].append((case, f"reported lines differ from the rule's violating set: {spec_key(spec)}", _tags(c, spec, io)))
                    continue
            if strict and use_oracle:
                st("strict")
                onodes, oedges = c.get("obs", (c["nodes"], c["edges"]))
                exp = oracle_for(onodes, oedges, spec)
                impl_pass = io[0] == "PASS"
                if io[0] == "ERR" or impl_pass != (len(exp) == 0):
                    case["documented_lines"] = _jsonable_lines(exp)
                    out["violations"].append((case, f"verdict {io[0]} but documented semantics say {'pass' if not exp else 'fail'}: {spec_key(spec)}", _tags(c, spec, io)))
                    continue
                if lines and io[0] == "FAIL" and parse_message(io[1]) != exp:
                    case["documented_lines"] = _jsonable_lines(exp)
                    case["reported_lines"] = _jsonable_lines(parse_message(io[1]) or [])
                    out["violations"].append((case, f"reported lines differ from the rule's violating set: {spec_key(spec)}", _tags(c, spec, io)))
                    continue
            # a batch of subjects outside the strict domain (a package listed together with its own sub modules ...): the documented
            # meaning of a batch is one rule per subject, so its report is the union of the reports of the rules for each subject
            # alone - compared on the real code (report-level checks only, directly built architectures, every third such rule)
            if lines and use_oracle and not strict and not spec.get("anything") and spec.get("subj") is not None and spec["subj"][0] in ("named", "sub") \
                    and len(spec["subj"][1]) >= 2 and spec.get("obj") is not None and spec["obj"][0] in ("named", "sub") \
                    and c.get("mode", "direct") == "direct" and io[0] in ("PASS", "FAIL"):
                _BATCH[0] += 1
                if _BATCH[0] % 3 == 0:
                    st("batch_report_vs_single_subject_reports")
                    if c.get("_arch_again") is None:
                        c["_arch_again"] = make_arch_direct(c["nodes"], c["edges"], c.get("limit"))
                    singles = [_run_rule_once(build_rule(dict(spec, subj=(spec["subj"][0], [n1]))), c["_arch_again"]) for n1 in spec["subj"][1]]
                    if all(o1[0] in ("PASS", "FAIL") for o1 in singles):
                        union = frozenset().union(*[(parse_message(o1[1]) or frozenset()) if o1[0] == "FAIL" else frozenset() for o1 in singles])
                        got = (parse_message(io[1]) or frozenset()) if io[0] == "FAIL" else frozenset()
                        if got != union:
                            case["reported_lines"] = _jsonable_lines(got)
                            case["single_subject_lines"] = _jsonable_lines(union)
                            out["violations"].append((case, f"the report of a batch of subjects differs from the reports of the rules for each subject alone: {spec_key(spec)}", _tags(c, spec, io)))
                            continue
            if bad_model:
                out["disagreements"].append((case, f"model and implementation differ: impl={io[0]} model={mo[0]} {spec_key(spec)}"))
        c.pop("_arch_again", None)
        if len(verdicts) > 1:
            out["nontrivial"] += 1
        if len(out["pairs"]) < 2:
            # extraction self-check sample: keep it small (first 14 configurations of the case)
            out["pairs"].append(([10, [w[1][0], w[1][1], w[1][2][:14]]], m[:14]))
        if len(out["samples"]) < 1:
            out["samples"].append(dict(nodes=c["nodes"], edges=c["edges"], first_spec=_jsonable_spec(c["specs"][0]), impl=rec[0][0][0]))
    return out


def _jsonable_spec(s):
    return {k: (list(v) if isinstance(v, tuple) else v) for k, v in s.items()}


def _jsonable_lines(ls):
    if isinstance(ls, str):
        return ls
    return sorted([[l[0], list(l[1]) if isinstance(l[1], tuple) else l[1], sorted(map(list, l[2])) if isinstance(l[2], frozenset) else l[2]] for l in ls], key=str)


def _tags(c, spec, io):
    return {"anything": bool(spec.get("anything")), "imp": spec.get("imp"), "exc": bool(spec.get("exc")),
            "verb": (spec.get("verbs") or [None])[0], "impl": io[0]}


def merge_into(ctx, r):
    ctx.evaluations += r["n"]
    ctx.nontrivial_count += r["nontrivial"]
    for k, v in r["stats"].items():
        ctx.stat(k, v)
    for case, what, tags in r["violations"]:
        ctx.violation(case, what, tags)
    for case, what in r["disagreements"]:
        ctx.disagreement(case, what)
    ctx.selfcheck_pairs += r["pairs"][:1]
    for s in r["samples"]:
        ctx.sample(s)
