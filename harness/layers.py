"""Shared code for the layer properties (C05, C13 layer part, C16)."""
from __future__ import annotations

import re

from harness import rules, common


def impl():
    from pytestarch import LayeredArchitecture, LayerRule
    return LayeredArchitecture, LayerRule


# --------------------------------------------------------------------------
# LayeredArchitecture histories
# call = ("layer", name) | ("str", module) | ("list", [modules]) | ("regex", pattern) | ("with_layer",)


def chain(nxt, name):
    """the fluent API: the next call is made on what the previous call returned"""
    if nxt is None:
        raise rules.FluentChainBroken(f"{name}() returned None: the call chain cannot be continued")
    return nxt


StrMember = rules.StrMember


def mapping_listing(a):
    """the definition read through architecture[layer] for every layer its text names; module names by their string VALUE"""
    out = []
    for layer, _ in parse_arch_str(str(a)):
        names = []
        for f in a[layer]:
            ident = getattr(f, "identifier", None)
            if not isinstance(ident, str):
                raise rules.HarnessError("module filter without a string identifier: the harness cannot read the definition")
            names.append(str.__str__(ident))
        out.append((layer, names))
    return out


def run_la_impl(hist, member_names=False, recycle_lists=False, by_index=False):
    """-> (number of calls accepted before the first rejection, error family or None, {layer: [identifiers]} in order)
    member_names: module names and patterns are passed as StrMember objects (equal to, and hashing like, the plain strings)
    and the definition is read through the mapping instead of its text
    recycle_lists: the caller owns ONE list object, refills it for every list call and scribbles over it after the call
    returned - what was supplied is what the list held at the time of the call"""
    LA, _ = impl()
    a = LA()
    k = 0
    fam = None
    w = StrMember if member_names else (lambda x: x)
    buf = []
    for c in hist:
        try:
            if c[0] == "layer":
                a = chain(a.layer(c[1]), "layer")
            elif c[0] == "str":
                a = chain(a.containing_modules(w(c[1])), "containing_modules")
            elif c[0] == "list" and recycle_lists:
                buf[:] = [w(x) for x in c[1]]
                try:
                    a = chain(a.containing_modules(buf), "containing_modules")
                finally:
                    buf[:] = ["scribble_%d" % i for i in range(len(buf) + 1)]
            elif c[0] == "list":
                a = chain(a.containing_modules([w(x) for x in c[1]]), "containing_modules")
            elif c[0] == "regex":
                a = chain(a.have_modules_with_names_matching(w(c[1])), "have_modules_with_names_matching")
            elif c[0] == "peek":
                # someone looks at the architecture while it is being defined: a LayerRule is based on it, its
                # mapping and text are read.  Observation only: the definition must go on exactly as without it.
                try:
                    _, LR = impl()
                    LR().based_on(a).layers_that()
                    _ = a.layer_mapping
                    str(a)
                except Exception:  # noqa: BLE001
                    pass
            else:
                a = chain(a.with_layer(), "with_layer")
        except Exception as e:  # noqa: BLE001
            fam = rules.classify_exception(e)
            break
        k += 1
    if by_index:
        # names the text form cannot carry (the empty string): the definition is read through architecture[layer] for every
        # layer name the history mentions, in the order of first mention
        listing = []
        for nm in dict.fromkeys(c[1] for c in hist if c[0] == "layer"):
            try:
                listing.append((nm, [str.__str__(f.identifier) for f in a[nm]]))
            except KeyError:
                pass
        return k, fam, listing, a
    return k, fam, (mapping_listing(a) if member_names else parse_arch_str(str(a))), a


def run_la_impl_lenient(hist):
    """The caller catches every rejection and goes on with the same builder object.
    -> (list of accepted flags, error families of the rejected calls, listing at the end)"""
    LA, _ = impl()
    a = LA()
    flags, fams = [], []
    for c in hist:
        try:
            if c[0] == "layer":
                a = chain(a.layer(c[1]), "layer")
            elif c[0] == "str":
                a = chain(a.containing_modules(c[1]), "containing_modules")
            elif c[0] == "list":
                a = chain(a.containing_modules(list(c[1])), "containing_modules")
            elif c[0] == "regex":
                a = chain(a.have_modules_with_names_matching(c[1]), "have_modules_with_names_matching")
            elif c[0] == "peek":
                continue
            else:
                a = chain(a.with_layer(), "with_layer")
            flags.append(True)
        except Exception as e:  # noqa: BLE001
            flags.append(False)
            fams.append(rules.classify_exception(e))
    return flags, fams, parse_arch_str(str(a))


ARCH_RE = re.compile(r"Layer ([^:;]+): \[([^\]]*)\]")


def parse_arch_str(s: str):
    """'Layered Architecture: Layer A: [r.a, r.b]; Layer B: []' -> [(A, [r.a, r.b]), (B, [])]"""
    out = []
    for m in ARCH_RE.finditer(s):
        mods = [x for x in m.group(2).split(", ") if x]
        out.append((m.group(1), mods))
    return out


def build_arch(layers):
    """layers: list of (name, kind, value) with kind in str/list/regex."""
    LA, _ = impl()
    a = LA()
    for name, kind, val in layers:
        a = chain(a.layer(name), "layer")
        if kind == "regex":
            a = chain(a.have_modules_with_names_matching(val), "have_modules_with_names_matching")
        elif kind == "str":
            a = chain(a.containing_modules(val), "containing_modules")
        else:
            a = chain(a.containing_modules(list(val)), "containing_modules")
    return a


class LEnc:
    """Numbers layer names and regex patterns on top of a rules.Enc."""

    def __init__(self, enc: rules.Enc):
        self.enc = enc
        self.lids = {}
        self.lrev = {}
        self.pats = {}

    def layer(self, name: str) -> int:
        if name not in self.lids:
            self.lids[name] = len(self.lids) + 1
            self.lrev[self.lids[name]] = name
        return self.lids[name]

    def pat(self, p: str) -> int:
        return self.pats.setdefault(p, len(self.pats) + 1)

    def la_call(self, c):
        if c[0] == "layer":
            return [0, self.layer(c[1])]
        if c[0] == "str":
            return [1, self.enc.name(c[1])]
        if c[0] == "list":
            return [2, [self.enc.name(m) for m in c[1]]]
        if c[0] == "regex":
            return [3, self.pat(c[1])]
        return [4]

    def larch(self, layers):
        out = []
        for name, kind, val in layers:
            if kind == "regex":
                fs = [[1, self.pat(val)]]
            elif kind == "str":
                fs = [[0, self.enc.name(val)]]
            else:
                fs = [[0, self.enc.name(m)] for m in val]
            out.append([self.layer(name), fs])
        return out

    def dec_larch(self, a):
        rp = {v: k for k, v in self.pats.items()}
        return [(self.lrev[l], [self.enc.unname(f[1]) if f[0] == 0 else rp[f[1]] for f in fs]) for l, fs in a]

    def dec_loutcome(self, o):
        if o[0] == 0:
            return ("PASS", "")
        if o[0] == 2:
            return ("ERR", "ConfigError" if o[1] in (0, 1) else "LookupError")
        conc, miss, anym = set(), {}, {}
        for l in o[1]:
            if l[0] == 0:
                lx = self.lrev[l[2][0]] if l[2] else None
                ly = self.lrev[l[4][0]] if l[4] else None
                conc.add(("C", self.enc.unname(l[1]), lx, self.enc.unname(l[3]), ly))
            elif l[0] == 1:
                miss.setdefault(self.lrev[l[1]], set()).update(self.lrev[x] for x in l[2])
            else:
                anym.setdefault(self.lrev[l[1]], set()).update(self.lrev[x] for x in l[2])
        lines = set(conc)
        for k, v in miss.items():
            lines.add(("M", k, frozenset(v)))
        for k, v in anym.items():
            lines.add(("A", k, frozenset(v)))
        return ("FAIL", frozenset(lines))


# --------------------------------------------------------------------------
# layer messages

LCONC_RE = re.compile(r'^"([^"]*)" \((?:layer "([^"]*)"|no layer)\) (imports|is imported by) "([^"]*)" \((?:layer "([^"]*)"|no layer)\)\.$')
LMISS_RE = re.compile(r'^Layer "([^"]*)" (does not import|is not imported by) (any layer that is not )?(.*)\.$')
LOBJ_RE = re.compile(r'^layer "([^"]*)"$')


def parse_layer_message(msg: str):
    out = set()
    for ln in msg.split("\n"):
        m = LCONC_RE.match(ln)
        if m:
            out.add(("C", m.group(1), m.group(2), m.group(4), m.group(5)))
            continue
        m = LMISS_RE.match(ln)
        if not m:
            return None
        objs = []
        for o in m.group(4).split(", "):
            mo = LOBJ_RE.match(o)
            if not mo:
                return None
            objs.append(mo.group(1))
        out.add(("A" if m.group(3) else "M", m.group(1), frozenset(objs)))
    return frozenset(out)


# --------------------------------------------------------------------------
# LayerRule histories
# call = ("based_on", layers) | ("layers_that",) | ("named", "A") | ("named_list", ["A","B"]) | (verb,) | (access kind,)

LR_CODE = {"layers_that": 1, "should": 4, "should_only": 5, "should_not": 6, "access_layers_that": 7, "be_accessed_by_layers_that": 8,
           "access_layers_except_layers_that": 9, "be_accessed_by_layers_except_layers_that": 10, "access_any_layer": 11, "be_accessed_by_any_layer": 12}


def run_lr_impl(hist, arch_eval, shared_layered_arch=None, la_cache=None):
    """shared_layered_arch: a LayeredArchitecture object built earlier and used by several rules (the documented usage).
    la_cache: dict definition -> LayeredArchitecture object; equal definitions then share ONE object across the rules of a case"""
    _, LR = impl()
    r = LR()
    try:
        for c in hist:
            if c[0] == "based_on" and la_cache is not None and shared_layered_arch is None:
                key = repr(c[1])
                if key not in la_cache:
                    la_cache[key] = build_arch(c[1])
                r = chain(r.based_on(la_cache[key]), "based_on")
            elif c[0] == "based_on":
                r = chain(r.based_on(shared_layered_arch if shared_layered_arch is not None else build_arch(c[1])), "based_on")
            elif c[0] == "named":
                r = chain(r.are_named(c[1]), "are_named")
            elif c[0] == "named_list":
                r = chain(r.are_named(list(c[1])), "are_named")
            elif c[0] == "assert_applies":
                try:
                    r.assert_applies(arch_eval)
                except BaseException:  # noqa: BLE001  (outcome of the intermediate evaluation is irrelevant here)
                    pass
            else:
                r = chain(getattr(r, c[0])(), c[0])
    except AssertionError as e:
        return ("FAIL", "builder raised AssertionError: " + str(e))
    except Exception as e:  # noqa: BLE001
        return ("ERR", rules.classify_exception(e))
    return rules.run_rule(r, arch_eval)


def build_lr(hist):
    """The LayerRule object of a complete history (no evaluation); raises what the builder raises."""
    _, LR = impl()
    r = LR()
    for c in hist:
        if c[0] == "based_on":
            r = chain(r.based_on(build_arch(c[1])), "based_on")
        elif c[0] == "named":
            r = chain(r.are_named(c[1]), "are_named")
        elif c[0] == "named_list":
            r = chain(r.are_named(list(c[1])), "are_named")
        elif c[0] != "assert_applies":
            r = chain(getattr(r, c[0])(), c[0])
    return r


def enc_lr_history(lenc: LEnc, hist):
    out = []
    for c in hist:
        if c[0] == "assert_applies":
            continue          # the model's builder has no intermediate evaluation: it sees the history without it
        if c[0] == "based_on":
            out.append([0, lenc.larch(c[1])])
        elif c[0] == "named":
            out.append([2, lenc.layer(c[1])])
        elif c[0] == "named_list":
            out.append([3, [lenc.layer(x) for x in c[1]]])
        else:
            out.append([LR_CODE[c[0]]])
    return out


_SHARE = [0]


def eval_layer_histories(nodes, edges, hists, mode="direct", limit=None):
    """-> list of (impl outcome, model outcome) for LayerRule histories on one graph."""
    enc = rules.Enc()
    if mode == "scan":
        arch = rules.make_arch_scan(nodes, edges)
        obs = rules.observe(arch, nodes, edges)
        g = enc.graph_direct(*obs)
    else:
        arch = rules.make_arch_direct(nodes, edges, limit)
        obs = rules.observe(arch, nodes, edges) if limit is not None else (list(nodes), list(edges))
        g = enc.graph_built(nodes, edges, limit)
    lenc = LEnc(enc)
    wire_h = [enc_lr_history(lenc, h) for h in hists]
    rt = rules.regex_table(enc, lenc.pats, list(arch.modules))
    wire = [16, [g, rt, wire_h]]
    res, wres = common.model_run([wire, [35, wire[1]]])      # fn 35: the same histories with the graph queries run by the worklist loops
    if res is None or res == common.SX_ERR or wres is None or wres == common.SX_ERR:
        raise RuntimeError("model rejected layer case " + common.sx_dump(wire)[:300])
    out = []
    la_cache = {}
    _SHARE[0] += 1
    for h, m, mw in zip(hists, res, wres):
        # in every other case all rules with the same layer definition are based on ONE LayeredArchitecture object
        io = run_lr_impl(h, arch, la_cache=la_cache if _SHARE[0] % 2 == 0 else None)
        mo = lenc.dec_loutcome(m)
        if mw == [9]:
            mo = ("ERR", "model: worklist loop ran out of fuel")
        elif lenc.dec_loutcome(mw) != mo:
            mo = ("ERR", "model: worklist evaluation %r differs from comprehension evaluation %r" % (lenc.dec_loutcome(mw)[0], mo[0]))
        out.append((io, mo))
    eval_layer_histories.last_observed = obs
    return out, ([16, [g, rt, wire_h[:8]]], res[:8])


def same_layer_outcome(io, mo, lines=True):
    if io[0] != mo[0]:
        return False
    if io[0] == "ERR":
        return not io[1].startswith("OtherError")
    if io[0] == "FAIL" and lines:
        return parse_layer_message(io[1]) == mo[1]
    return True
