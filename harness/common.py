"""Shared machinery of the checks: wire format, model runner, proof stage,
extraction self-check, evidence, violation protocol, known findings.

Runs under /venv/bin/python (the interpreter that has pytestarch's
dependencies); the real code is always imported from /repo/src.
"""
from __future__ import annotations

import fcntl
import json
import os
import random
import re
import shutil
import subprocess
import sys
import tempfile
import time
from pathlib import Path

VERIF = Path(__file__).resolve().parent.parent
REPO = Path(os.environ.get("VERIF_REPO", "/repo"))
COQ = VERIF / "coq"
OCAML = VERIF / "ocaml"
DRIVER = OCAML / "model_driver"
# VERIF_OUT: where evidence and replays go instead of /verif (mutation campaign only: harness/mutate.py runs the checks on
# scratch copies of the repository in parallel and must neither overwrite the committed evidence nor touch /repo)
_OUT = Path(os.environ["VERIF_OUT"]) if os.environ.get("VERIF_OUT") else VERIF
EVIDENCE = _OUT / "evidence"
REPLAYS = _OUT / "replays"
CORPUS = VERIF / "corpus"
SHM = Path("/dev/shm") if Path("/dev/shm").is_dir() else Path(tempfile.gettempdir())

# the real code: always /repo/src, never an installed copy
sys.path.insert(0, str(REPO / "src"))
os.environ.setdefault("PYTHONHASHSEED", "0")
os.environ["PYTHONPATH"] = str(REPO / "src")

NCPU = int(os.environ.get("VERIF_NCPU") or min(16, os.cpu_count() or 1))


# --------------------------------------------------------------------------
# wire format


def sx_dump(x) -> str:
    if isinstance(x, bool):
        return "1" if x else "0"
    if isinstance(x, int):
        return str(x)
    return "(" + " ".join(sx_dump(y) for y in x) + ")"


def sx_parse(s: str):
    toks = re.findall(r"\(|\)|\d+", s)
    pos = 0

    def item():
        nonlocal pos
        t = toks[pos]
        pos += 1
        if t == "(":
            out = []
            while toks[pos] != ")":
                out.append(item())
            pos += 1
            return out
        return int(t)

    r = item()
    if pos != len(toks):
        raise ValueError("trailing tokens in " + s[:80])
    return r


def s2n(s: str) -> list[int]:
    return [ord(c) for c in s]


def n2s(l) -> str:
    return "".join(chr(c) for c in l)


def sx_coq(x) -> str:
    if isinstance(x, bool):
        return "A 1" if x else "A 0"
    if isinstance(x, int):
        return f"A {x}"
    return "L [" + "; ".join(sx_coq(y) for y in x) + "]"


SX_ERR = [99, 99, 99]


def model_run(cases: list) -> list:
    """Evaluate cases with the extracted model (one driver process)."""
    if not cases:
        return []
    inp = "\n".join(sx_dump(c) for c in cases) + "\n"
    p = subprocess.run([str(DRIVER)], input=inp, capture_output=True, text=True, timeout=3600)
    if p.returncode != 0:
        raise RuntimeError("model driver failed: " + p.stderr[:500])
    lines = p.stdout.split("\n")
    if lines and lines[-1] == "":
        lines.pop()
    if len(lines) != len(cases):
        raise RuntimeError(f"model driver returned {len(lines)} lines for {len(cases)} cases")
    out = []
    for l in lines:
        if l == "PARSE-ERROR":
            out.append(None)
        else:
            out.append(sx_parse(l))
    return out


# --------------------------------------------------------------------------
# build + proof stage


class BuildError(Exception):
    pass


def _locked(fn):
    def wrapper(*a, **k):
        lock = open(VERIF / ".build.lock", "w")
        fcntl.flock(lock, fcntl.LOCK_EX)
        try:
            return fn(*a, **k)
        finally:
            fcntl.flock(lock, fcntl.LOCK_UN)
            lock.close()

    return wrapper


@_locked
def ensure_built(targets: list[str]) -> tuple[bool, str]:
    """Incremental full-.vo build of the given targets (+ extraction + driver)."""
    log = []
    if not (COQ / "Makefile").exists():
        p = subprocess.run(["coq_makefile", "-f", "_CoqProject", "-o", "Makefile"], cwd=COQ, capture_output=True, text=True)
        log.append(p.stdout + p.stderr)
    (OCAML / "gen").mkdir(exist_ok=True)
    tg = ["theories/Extract.vo"] + targets
    p = subprocess.run(["timeout", "1500", "make", "-j", str(NCPU)] + tg, cwd=COQ, capture_output=True, text=True)
    log.append(p.stdout[-3000:] + p.stderr[-3000:])
    ok = p.returncode == 0
    gen = OCAML / "gen" / "model.ml"
    if gen.exists() and (not DRIVER.exists() or DRIVER.stat().st_mtime < gen.stat().st_mtime
                         or DRIVER.stat().st_mtime < (OCAML / "driver.ml").stat().st_mtime):
        q = subprocess.run(
            ["ocamlfind", "ocamlopt", "-w", "-a", "model.mli", "model.ml", "../driver.ml", "-o", "../model_driver"],
            cwd=OCAML / "gen", capture_output=True, text=True)
        log.append(q.stdout + q.stderr)
        ok = ok and q.returncode == 0
    return ok, "\n".join(log)


FORBIDDEN = re.compile(
    r"\b(Admitted|admit|Axiom|Axioms|Parameter|Parameters|Conjecture|Conjectures|Admit Obligations)\b"
    r"|Unset\s+Guard|bypass_check|type-in-type|impredicative-set|Unset\s+Universe\s+Checking|Unset\s+Positivity")

ALLOWED_AXIOMS: set[str] = set()   # target: none. Any stdlib axiom that becomes necessary is named here and in DESIGN §9.


def _strip_comments(src: str) -> str:
    out = []
    depth = 0
    i = 0
    while i < len(src):
        if src.startswith("(*", i):
            depth += 1
            i += 2
        elif src.startswith("*)", i) and depth:
            depth -= 1
            i += 2
        else:
            if depth == 0:
                out.append(src[i])
            i += 1
    return "".join(out)


def hygiene() -> list[str]:
    bad = []
    for f in sorted((COQ / "theories").rglob("*.v")):
        src = _strip_comments(f.read_text())
        for m in FORBIDDEN.finditer(src):
            bad.append(f"{f.relative_to(COQ)}: {m.group(0)}")
        if re.search(r"^\s*(Variable|Variables|Hypothesis|Hypotheses|Context)\b", src, re.M):
            # allowed only inside a Section: check nesting textually
            depth = 0
            for line in src.split("\n"):
                if re.match(r"\s*Section\s+\w+", line):
                    depth += 1
                elif re.match(r"\s*End\s+\w+\s*\.", line) and depth:
                    depth -= 1
                elif re.match(r"\s*(Variable|Variables|Hypothesis|Hypotheses|Context)\b", line) and depth == 0:
                    bad.append(f"{f.relative_to(COQ)}: section-less {line.strip()[:40]}")
    cp = (COQ / "_CoqProject").read_text()
    for flag in ("-type-in-type", "-impredicative-set", "-vos", "-vok", "-noinit"):
        if flag in cp:
            bad.append(f"_CoqProject: {flag}")
    return bad


def proof_stage(pid: str) -> dict:
    """Build Props/<pid>.vo and everything it depends on, then re-run coqc on
    the property file to collect what Print Assumptions says."""
    t0 = time.time()
    res = {"ok": False, "obligations": 0, "discharged": 0, "theorems": [], "axioms": [], "log": "", "broken": None}
    prop = COQ / "theories" / "Props" / f"{pid}.v"
    ok, log = ensure_built([f"theories/Props/{pid}.vo"])
    res["log"] = log[-4000:]
    src = _strip_comments(prop.read_text()) if prop.exists() else ""
    names = re.findall(r"^\s*(?:Theorem|Corollary)\s+(\w+)", src, re.M)
    res["theorems"] = names
    res["obligations"] = len(names)
    if not ok:
        res["broken"] = "build of Props/%s.vo failed: %s" % (pid, _first_error(log))
        res["wall_s"] = time.time() - t0
        return res
    tmpd = Path(tempfile.mkdtemp(prefix="pta_", dir=SHM))
    try:
        p = subprocess.run(["timeout", "600", "coqc", "-Q", "theories", "PTA", str(prop), "-o", str(tmpd / f"{pid}.vo")],
                           cwd=COQ, capture_output=True, text=True)
    finally:
        shutil.rmtree(tmpd, ignore_errors=True)
    out = p.stdout
    if p.returncode != 0:
        res["broken"] = "coqc Props/%s.v failed: %s" % (pid, _first_error(p.stderr))
        res["wall_s"] = time.time() - t0
        return res
    closed = out.count("Closed under the global context")
    axioms = re.findall(r"^Axioms:\n((?:.+\n?)+?)(?=^\S|\Z)", out, re.M)
    axnames = set()
    for blk in axioms:
        for m in re.finditer(r"^(\S+)\s*:", blk, re.M):
            axnames.add(m.group(1))
    res["axioms"] = sorted(axnames)
    n_assump_blocks = closed + len(axioms)
    bad_ax = [a for a in axnames if a not in ALLOWED_AXIOMS]
    hyg = hygiene()
    if n_assump_blocks < len(names):
        res["broken"] = f"Props/{pid}.v: {len(names)} theorems but only {n_assump_blocks} Print Assumptions results"
    elif bad_ax:
        res["broken"] = f"Props/{pid}.v depends on axioms not in the declared trusted base: {bad_ax}"
    elif hyg:
        res["broken"] = "development hygiene: " + "; ".join(hyg[:5])
    elif not names:
        res["broken"] = f"Props/{pid}.v states no theorem"
    else:
        res["ok"] = True
        res["discharged"] = len(names)
    res["wall_s"] = time.time() - t0
    return res


def _first_error(log: str) -> str:
    m = re.search(r"(File \"[^\"]+\", line \d+[^\n]*\n(?:.*\n){0,6})", log)
    return (m.group(1) if m else log[-600:]).strip()[:900]


def coqchk_stage(pid: str) -> dict:
    """Thorough tier: independent re-check of the compiled property file."""
    t0 = time.time()
    p = subprocess.run(["timeout", "1500", "coqchk", "-silent", "-o", "-Q", "theories", "PTA", f"PTA.Props.{pid}"],
                       cwd=COQ, capture_output=True, text=True)
    out = p.stdout + p.stderr
    ax = re.findall(r"^\s*\*\s+Axioms:\s*(.*)$", out, re.M)
    return {"ok": p.returncode == 0, "tail": out[-1500:], "wall_s": time.time() - t0, "axioms_line": ax}


def extraction_selfcheck(pairs: list, rng: random.Random, limit: int = 200) -> dict:
    """Re-evaluate a sample of (input, driver output) pairs inside Coq by vm_compute."""
    pairs = [p for p in pairs if p[1] is not None]
    if not pairs:
        return {"ok": True, "n": 0}
    sample = pairs if len(pairs) <= limit else rng.sample(pairs, limit)
    tmpd = Path(tempfile.mkdtemp(prefix="pta_sc_", dir=SHM))
    try:
        f = tmpd / "selfcheck.v"
        body = ["From Coq Require Import List NArith.", "From PTA Require Import Sx Dispatch.",
                "Import ListNotations.", "Open Scope N_scope."]
        body.append("Definition inputs : list sx := [" + ";\n ".join(sx_coq(i) for i, _ in sample) + "].")
        body.append("Definition outputs : list sx := [" + ";\n ".join(sx_coq(o) for _, o in sample) + "].")
        body.append("Example extraction_agrees : map run inputs = outputs.\nProof. vm_compute. reflexivity. Qed.")
        f.write_text("\n".join(body) + "\n")
        p = subprocess.run(["timeout", "900", "coqc", "-Q", str(COQ / "theories"), "PTA", str(f)],
                           cwd=tmpd, capture_output=True, text=True)
        return {"ok": p.returncode == 0, "n": len(sample), "err": (p.stderr or "")[-800:] if p.returncode else ""}
    finally:
        shutil.rmtree(tmpd, ignore_errors=True)


# --------------------------------------------------------------------------
# known findings


def load_known() -> list[dict]:
    f = VERIF / "known_findings.json"
    if not f.exists():
        return []
    return json.loads(f.read_text()).get("findings", [])


# --------------------------------------------------------------------------
# scratch directories (digit-only names so no pattern built from a tree's names matches them)


def scratch_dir() -> Path:
    base = SHM / "9071"
    base.mkdir(exist_ok=True)
    for _ in range(1000):
        d = base / str(random.SystemRandom().randrange(10**9, 10**10))
        try:
            d.mkdir()
            return d
        except FileExistsError:
            continue
    raise RuntimeError("no scratch dir")


# --------------------------------------------------------------------------
# check context: collects counts, disagreements, writes evidence, prints verdict

TRUSTED_BASE = [
    "Coq 8.16.1 kernel (coqc; vm_compute used for refuted-witness/non-vacuity Examples and the extraction self-check; native_compute not used)",
    "Print Assumptions of every property theorem: Closed under the global context (no axioms)",
    "extraction: ExtrOcamlBasic only (Extract Inductive bool/option/unit/list/prod/sumbool/sumor; no Extract Constant), OCaml 4.13.1, ocaml/driver.ml (text<->sx, int<->N)",
    "correspondence harness (harness/*.py): generators, file-tree materialiser, message-text parser, exception->enum mapping, regex truth tables handed to the model, known-findings matcher",
    "modelled not verified: CPython, re, ast, pathlib/os, networkx, matplotlib",
]


class Ctx:
    def __init__(self, pid: str, tier: str, seed: int, clean: bool = True):
        self.pid = pid
        self.tier = tier
        self.seed = seed
        self.t0 = time.time()
        self.rng = random.Random(seed * 1000003 + sum(map(ord, pid)))
        self.evaluations = 0
        self.nontrivial: set = set()
        self.nontrivial_count = 0
        self.samples: list = []
        self.stats: dict = {}
        self.violations: list[dict] = []     # genuine property failures (with replay input)
        self.disagreements: list[dict] = []  # model/impl differences that are not (shown to be) property failures
        self.known_hits: dict[str, int] = {}
        self.selfcheck_pairs: list = []
        self.notes: list[str] = []
        self.rule = ""
        self.exhaustive = False
        self.extra: dict = {}
        self.proof: dict | None = None
        self.known = [k for k in load_known() if k.get("property") == pid]
        for old in (REPLAYS.glob(f"{pid}-{tier}-{seed}*.json") if clean else ()):     # stale replays of an earlier run with the same parameters
            try:
                old.unlink()
            except OSError:
                pass

    quick = property(lambda self: self.tier == "quick")

    def stat(self, key: str, n: int = 1):
        self.stats[key] = self.stats.get(key, 0) + n

    def sample(self, s, cap: int = 6):
        if len(self.samples) < cap:
            self.samples.append(s)

    def mark_nontrivial(self, key):
        self.nontrivial.add(key)

    def match_known(self, case_tags: dict) -> dict | None:
        """A finding matches when every key of its 'match' equals the case's tag."""
        for k in self.known:
            if k.get("status") != "open":
                continue
            m = k.get("match", {})
            if m and all(case_tags.get(a) == b for a, b in m.items()):
                return k
        return None

    def violation(self, case: dict, what: str, tags: dict | None = None):
        k = self.match_known(tags or {})
        if k is not None:
            self.known_hits[k["id"]] = self.known_hits.get(k["id"], 0) + 1
            return
        self.violations.append({"what": what, "case": case, "tags": tags or {}})

    def disagreement(self, case: dict, what: str):
        self.disagreements.append({"what": what, "case": case})

    # -- finish ----------------------------------------------------------
    def finish(self) -> int:
        pid = self.pid
        REPLAYS.mkdir(parents=True, exist_ok=True)
        EVIDENCE.mkdir(parents=True, exist_ok=True)
        proof = self.proof or {"ok": False, "broken": "proof stage not run", "obligations": 0, "discharged": 0, "theorems": [], "axioms": []}
        sc = extraction_selfcheck(self.selfcheck_pairs, self.rng) if self.selfcheck_pairs else {"ok": True, "n": 0}
        lines = []
        for kid, n in sorted(self.known_hits.items()):
            k = next(x for x in self.known if x["id"] == kid)
            lines.append(f"KNOWN-FINDING: property={pid} {k['what']} ({n} matching cases this run)")
        exit_code = 0
        replay_path = None
        if self.violations:
            v = self.violations[0]
            replay_path = REPLAYS / f"{pid}-{self.tier}-{self.seed}.json"
            replay_path.write_text(json.dumps({
                "property": pid, "kind": "input", "seed": self.seed, "tier": self.tier,
                "what": v["what"], "case": v["case"], "tags": v["tags"],
                "others": [x["what"] for x in self.violations[1:20]],
                "total_violations": len(self.violations)}, indent=1, default=str))
            lines.append(f"VIOLATION property={pid} replay={replay_path}")
            exit_code = 1
        else:
            broken = []
            if not proof["ok"]:
                broken.append({"theorem_or_correspondence": f"Props/{pid}.v", "detail": proof.get("broken")})
            if not sc["ok"]:
                broken.append({"theorem_or_correspondence": "extraction self-check (vm_compute vs OCaml)", "detail": sc.get("err")})
            if self.disagreements:
                broken.append({"theorem_or_correspondence": f"correspondence model<->/repo for {pid}",
                               "detail": self.disagreements[0]["what"], "one_disagreeing_input": self.disagreements[0]["case"],
                               "n_disagreements": len(self.disagreements)})
            if broken:
                replay_path = REPLAYS / f"{pid}-{self.tier}-{self.seed}-nofail.json"
                replay_path.write_text(json.dumps({
                    "property": pid, "kind": "no-failing-input", "seed": self.seed, "tier": self.tier,
                    "no_longer_checks": broken,
                    "search": "the property's oracle was evaluated on the implementation for every generated case of this run and found no failing input"},
                    indent=1, default=str))
                lines.append(f"VIOLATION property={pid} replay={replay_path} no-failing-input-found")
                exit_code = 1
        cov = {
            "obligations": proof["obligations"], "discharged": proof["discharged"],
            "checker_cmd": f"make -C coq theories/Props/{pid}.vo && coqc -Q theories PTA theories/Props/{pid}.v (Print Assumptions parsed)",
            "trusted_base": TRUSTED_BASE,
            "theorems": proof["theorems"], "axioms_reported": proof.get("axioms", []),
            "evaluations": self.evaluations,
            "distinct_nontrivial": len(self.nontrivial) + self.nontrivial_count,
            "rule": self.rule, "samples": self.samples or ["(no correspondence case generated)"],
            "exhaustive": self.exhaustive,
            "distribution": dict(sorted(self.stats.items())),
            "extraction_selfcheck_cases": sc.get("n", 0),
            "known_finding_hits": self.known_hits,
            "model_impl_disagreements": len(self.disagreements),
        }
        cov.update(self.extra)
        ev = {
            "property_id": pid, "tier": self.tier, "seed": self.seed, "level": "proof",
            "coverage": cov,
            "assumptions": self.notes,
            "wall_s": round(time.time() - self.t0, 2),
            "violations": len(self.violations) + (1 if exit_code and not self.violations else 0),
        }
        (EVIDENCE / f"{pid}.json").write_text(json.dumps(ev, indent=1, default=str))
        for l in lines:
            print(l)
        print(f"[{pid}] tier={self.tier} seed={self.seed} theorems={proof['discharged']}/{proof['obligations']} "
              f"evaluations={self.evaluations} nontrivial={cov['distinct_nontrivial']} "
              f"violations={len(self.violations)} disagreements={len(self.disagreements)} "
              f"known={sum(self.known_hits.values())} wall={ev['wall_s']}s")
        sys.stdout.flush()
        return exit_code


def tag_job(out, module, fn, args):
    """Violations found by a job that runs many cases in one process carry the job's arguments: a defect that needs the
    history of the process (a cache filled by an earlier scan ...) is not reproduced by its last case alone, so `--replay`
    falls back to running the whole job again (harness/check.py)."""
    try:
        import json as _json
        _json.dumps(args)
    except TypeError:
        return out
    for key in ("violations", "disagreements", "known"):
        for v in out.get(key, []):
            if isinstance(v[0], dict):
                v[0]["_job"] = {"module": module, "fn": fn, "args": args}
    return out
