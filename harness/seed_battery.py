"""Deterministic battery of rule evaluations; prints one digest.  Run in a fresh interpreter
per PYTHONHASHSEED by C15: the digest must not depend on the hash seed."""
import hashlib
import random
import sys
from pathlib import Path

sys.path.insert(0, str(Path(__file__).resolve().parent.parent))
from harness import rules, layers  # noqa: E402
from harness import common  # noqa: E402
from harness.props import c05, c07  # noqa: E402


def run_full(rule, arch):
    """like rules.run_rule, with the complete text of an error as well"""
    out = rules.run_rule(rule, arch)
    if out[0] != "ERR":
        return out
    try:
        rule.assert_applies(arch)
    except BaseException as e:  # noqa: BLE001
        return ("ERR", out[1], type(e).__name__, str(e))
    return ("ERR", out[1], "no error the second time")


def related_to(x, y):
    return rules.related(x, y)


def main():
    seed = int(sys.argv[1])
    n = int(sys.argv[2])
    rng = random.Random(seed)
    h = hashlib.sha256()
    dump = open(sys.argv[3], 'w') if len(sys.argv) > 3 else None
    count = 0
    for i in range(n):
        if i % 4 == 3:
            # large cases: reports with dozens of lines, many subjects / objects (anything that sorts, truncates or de-duplicates through a set shows here)
            nodes = rules.rand_tree(rng, rules.LARGE_POOL, max_nodes=40, max_depth=6)
            edges = rules.rand_edges(rng, nodes, 60)
            fp = rules.pick_filters(rng, nodes, strict=rng.random() < 0.5, kmax=6)
        else:
            nodes = rules.rand_tree(rng, rng.choice((rules.COLLISION_FREE, rules.ADVERSARIAL)), max_nodes=10)
            edges = rules.rand_edges(rng, nodes)
            fp = rules.pick_filters(rng, nodes, strict=rng.random() < 0.5)
        if fp is None:
            continue
        mode = "scan" if i % 5 == 0 else "direct"
        if mode == "scan":
            inner = {x for x in nodes if any(m.startswith(x + ".") for m in nodes)}
            edges = [(a, b) for a, b in edges if a not in inner]
            arch = rules.make_arch_scan(nodes, edges)
        else:
            arch = rules.make_arch_direct(nodes, edges)
        h.update(repr(sorted(arch.modules)).encode())
        for spec in rules.all_shapes(*fp):
            out = run_full(rules.build_rule(spec), arch)
            h.update(repr(out).encode())
            if dump:
                dump.write(repr(("rule", mode, nodes, edges, rules._jsonable_spec(spec), out)) + "\n")
            count += 1
        # related object / subject lists: a package together with a package nested in it (both filter kinds, both listing orders),
        # the other side importing the inner package node itself - whatever the searches make of such lists must not depend on
        # the order in which a set of filters happens to be iterated
        nested = [(a, b) for a in nodes for b in nodes if a != "r" and b.startswith(a + ".")]
        outside = [x for x in nodes if x != "r" and nested and not related_to(x, nested[0][0])]
        if nested and outside:
            P, Q = nested[rng.randrange(len(nested))]
            outside = [x for x in nodes if x != "r" and not rules.related(x, P)]
            if outside:
                X = rng.choice(outside)
                arch2 = rules.make_arch_direct(nodes, sorted(set(edges) | {(X, Q), (Q, X)}))
                for kind in ("sub", "named"):
                    for pair in ([P, Q], [Q, P]):
                        for spec in rules.all_shapes(("named", [X]), (kind, pair), with_aliases=False) + rules.all_shapes((kind, pair), ("named", [X])):
                            out = run_full(rules.build_rule(spec), arch2)
                            h.update(repr(out).encode())
                            if dump:
                                dump.write(repr(("rule", "direct", nodes, sorted(set(edges) | {(X, Q), (Q, X)}), rules._jsonable_spec(spec), out)) + "\n")
                            count += 1
        # several partial names of which two or three match nothing: the error text names them
        cand = [x for x in nodes if x != "r"]
        pats = rng.sample(["*zz*", "*yy", "xx*", "*qq.q*", "*" + rng.choice(cand).split(".")[-1] + "*"], rng.randint(2, 4))
        for spec in (dict(subj=("containing", pats), verbs=["should_not"], imp=True, exc=False, obj=("named", [rng.choice(cand)])),
                     dict(subj=("named", [rng.choice(cand)]), verbs=["should"], imp=False, exc=False, obj=("containing", list(reversed(pats))))):
            out = run_full(rules.build_rule(spec), arch)
            h.update(repr(out).encode())
            if dump:
                dump.write(repr(("rule", mode, nodes, edges, rules._jsonable_spec(spec), out)) + "\n")
            count += 1
        c = c05.gen_case(rng)
        if c is not None:
            c["obj_as_str"] = False
            hs, _ = c05.histories(c)
            la = rules.make_arch_direct(c["nodes"], c["edges"])
            for hh in hs:
                out = layers.run_lr_impl(hh, la)
                h.update(repr(out).encode())
                if dump:
                    dump.write(repr(("layer_rule", c["nodes"], c["edges"], [list(x) for x in c["arch_calls"]], [list(x) if isinstance(x, tuple) else x for x in hh], out)) + "\n")
                count += 1
    # diagram rules, component names relative to a base module (with_base_module) and absolute; architectures that
    # satisfy the diagram, half of it, nothing of it (several violated components: their order in the report counts)
    from pytestarch import DiagramRule
    d = common.scratch_dir()
    try:
        for i in range(max(4, n // 8)):
            c = c07.gen_case(rng)
            short = {full: sh for full, sh in zip(c["comps"], c["short"])}
            p_rel = c07.write_puml(d, f"rel{i}.puml", c["short"], [(short[a], short[b]) for a, b in c["rel"]], random.Random(rng.randrange(1 << 30)))
            p_abs = c07.write_puml(d, f"abs{i}.puml", c["comps"], c["rel"], random.Random(rng.randrange(1 << 30)))
            extra = [(b, a) for a, b in c["rel"]][:3]
            # one component importing SEVERAL components it has no arrow to: several objects of one generated should-not rule are violated
            x = c["comps"][0]
            fan = [(x, y) for y in c["comps"][1:] if (x, y) not in c["rel"]][:4]
            for edges in (c["edges"], c["edges"][: len(c["edges"]) // 2], [], c["edges"] + extra, c["edges"] + fan, fan):
                arch = rules.make_arch_direct(c["nodes"], edges)
                for how, mk in (("relative names, with_base_module(%r)" % c["base"], lambda: DiagramRule().from_file(p_rel).with_base_module(c["base"])),
                                ("absolute names, base_module_included_in_module_names", lambda: DiagramRule().from_file(p_abs).base_module_included_in_module_names()),
                                ("relative names, with_base_module(%r), should_only_rule=False" % c["base"], lambda: DiagramRule(should_only_rule=False).from_file(p_rel).with_base_module(c["base"]))):
                    try:
                        out = rules.run_rule(mk(), arch)
                    except Exception as e:  # noqa: BLE001
                        out = ("EXC", type(e).__name__)
                    h.update(repr(out).encode())
                    if dump:
                        dump.write(repr(("diagram_rule", how, (p_abs if how.startswith("abs") else p_rel).read_text(), c["nodes"], edges, out)) + "\n")
                    count += 1
    finally:
        import shutil
        shutil.rmtree(d, ignore_errors=True)
    print(h.hexdigest(), count)


if __name__ == "__main__":
    main()
