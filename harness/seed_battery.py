"""Deterministic battery of rule evaluations; prints one digest.  Run in a fresh interpreter
per PYTHONHASHSEED by C15: the digest must not depend on the hash seed."""
import hashlib
import random
import sys
from pathlib import Path

sys.path.insert(0, str(Path(__file__).resolve().parent.parent))
from harness import rules, layers  # noqa: E402
from harness.props import c05  # noqa: E402


def main():
    seed = int(sys.argv[1])
    n = int(sys.argv[2])
    rng = random.Random(seed)
    h = hashlib.sha256()
    count = 0
    for i in range(n):
        if i % 4 == 3:
            # large cases: reports with dozens of lines, many subjects / objects (anything that sorts, truncates or de-duplicates through a set shows here)
            nodes = rules.rand_tree(rng, rules.LARGE_POOL, max_nodes=40, max_depth=6)
            edges = rules.rand_edges(rng, nodes, 60)
            fp = rules.pick_filters(rng, nodes, strict=rng.random() < 0.5, kmax=6)
        else:
            nodes = rules.rand_tree(rng, rng.choice((rules.COLLISION_FREE, rules.ADVERSARIAL)), max_nodes=10)
            edges = rules.rand_edges(rng, nodes)
            fp = rules.pick_filters(rng, nodes, strict=rng.random() < 0.5)
        if fp is None:
            continue
        mode = "scan" if i % 5 == 0 else "direct"
        if mode == "scan":
            inner = {x for x in nodes if any(m.startswith(x + ".") for m in nodes)}
            edges = [(a, b) for a, b in edges if a not in inner]
            arch = rules.make_arch_scan(nodes, edges)
        else:
            arch = rules.make_arch_direct(nodes, edges)
        h.update(repr(sorted(arch.modules)).encode())
        for spec in rules.all_shapes(*fp):
            out = rules.run_rule(rules.build_rule(spec), arch)
            h.update(repr(out).encode())
            count += 1
        c = c05.gen_case(rng)
        if c is not None:
            c["obj_as_str"] = False
            hs, _ = c05.histories(c)
            la = rules.make_arch_direct(c["nodes"], c["edges"])
            for hh in hs:
                out = layers.run_lr_impl(hh, la)
                h.update(repr(out).encode())
                count += 1
    print(h.hexdigest(), count)


if __name__ == "__main__":
    main()
