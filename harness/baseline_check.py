"""Runs /repo's suite (guard off) and compares with BASELINE.json's stable_pass list."""
import json, subprocess, sys, tempfile, os
import xml.etree.ElementTree as ET
base = json.load(open("/root/.vp/BASELINE.json"))
want = set(base["stable_pass"])
fd, path = tempfile.mkstemp(suffix=".xml"); os.close(fd)
repo = sys.argv[1] if len(sys.argv) > 1 else "/repo"
subprocess.run(["/venv/bin/python", "-m", "pytest", "-q", "-p", "no:cacheprovider", "--timeout=120",
                "--deselect", "tests/test_architecture.py", f"--junitxml={path}"], cwd=repo, capture_output=True,
               env={**os.environ, "PYTHONPATH": repo + "/src"})
passed = set()
for tc in ET.parse(path).getroot().iter("testcase"):
    if not any(ch.tag in ("failure", "error", "skipped") for ch in tc):
        passed.add(f"{tc.get('classname')}::{tc.get('name')}")
os.unlink(path)
missing = sorted(want - passed)
print(f"stable_pass={len(want)} passed_now={len(passed)} missing={len(missing)}")
for m in missing[:20]:
    print("  NOT PASSING:", m)
sys.exit(1 if missing else 0)
