"""Writes MANIFEST.json from the table below (kept in one place so it stays valid)."""
import json
from pathlib import Path

VERIF = Path(__file__).resolve().parent.parent
ALL = [f"C{i:02d}" for i in range(1, 18)]

CHECKS = {
    "C01": dict(
        text="Theorem C01_verdict (Coq, every graph, every strict rule, no bound): the model of Rule.assert_applies returns Pass exactly when the "
             "documented semantics (Model/SpecRule.v) hold and Fail otherwise, never an error (C01_total); the three public graph queries are "
             "proved equal to the documented comprehensions on pairwise unrelated filters; the four worklist loops of breadth_first_searches.py, transcribed in Model/Worklist.v, are proved to terminate and to return exactly "
             "the comprehension model's imports on every well-formed graph for any filters (C01_loop_*); the whole evaluation over those loops (Model/WRule.v) terminates and has the outcome of the comprehension model for every configuration (C01_loops_verdict); every graph the library builds is well-formed (C01_built_graph_wellformed). Tie to /repo: every case evaluated by the real Rule API "
             "and by the extracted model in both forms - comprehension queries and worklist loops - (verdict and report compared), exhaustive over import relations of three 5-node trees in thorough, plus random/scanned trees; "
             "strict rules are additionally checked against an independent executable reading of the documented semantics; the three public query functions are called directly "
             "and their result maps compared with the comprehension model and with the worklist model.",
        note="Theorems cover the 12 verb x direction x except shapes with name / sub-modules-of filters on the strict domain and the two 'anything' aliases for pairwise unrelated subjects (C01_alias_verdict); "
             "rules with related subjects/objects are covered by the algebra laws (C11, C12, C15) on the model and by correspondence. The rule evaluation uses the comprehension-level queries; the worklist layer is proved equal to them and both are compared with the real query functions. Trusted: Coq kernel, extraction, driver, harness.",
        technique="Coq proof (query characterisation lemmas + bucket analysis + worklist-loop refinement) + model/implementation correspondence",
        design="5/C01"),
    "C03": dict(
        text="Theorems C03_report_sound / C03_report_complete / C03_nothing_unrelated (Coq, all graphs, all strict rules): the model's report lines are exactly "
             "the rule's violating set (forbidden imports between subject and object, not-allowed imports between subject and something else, one "
             "'does not import' line per subject with exactly its missing objects). Tie to /repo: str(AssertionError) parsed back to abstract lines and "
             "compared as a set with the model's and with the documented violating set, same case space as C01.",
        note="English rendering (verb forms, quoting) is parsed by the harness, not verified. Searches: comprehension model proved equal to the worklist loops (see C01).",
        technique="Coq proof + model/implementation correspondence on parsed report lines",
        design="5/C03"),
    "C11": dict(
        text="Theorems (Coq, every graph, every rule shape): a regex subject/object gives the same outcome (verdict and report) as naming all matching modules "
             "(C11_regex_subject/object), a regex matching nothing is an error (C11_no_match_*), a batch of subjects with explicit objects passes iff every "
             "single-subject rule passes, for all 12 shapes and related modules (C11_batch_subjects), likewise over objects for plain should/should_not "
             "(C11_batch_objects); the partial-name form has the glob meaning (C11_partial_name via C08_glob). re.match is a Section variable (oracle). "
             "Tie to /repo: compact rule vs expanded rule(s) both evaluated on the real code (metamorphic), all evaluations compared with the model; "
             "have_name_containing (subject or object, dotted both-star names, lookalike modules) vs naming the modules the partial names match under their documented character-by-character meaning (no regex and no library converter in the expectation); one regex rule object applied to four architectures.",
        note="Python re on user regexes is an oracle: its truth table over the graph's names is computed with the real re and handed to the model. "
             "Open known finding K3 (known_findings.json): for the two 'anything' aliases a regex that matches a module together with its own sub modules does not equal its expansion "
             "(C11_regex_anything_refuted is the kernel-checked witness; the expansion theorems cover the 12 explicit shapes). Trusted: Coq kernel, extraction, driver, harness.",
        technique="Coq proof with regex oracle + metamorphic and model/implementation correspondence",
        design="5/C11"),
    "C12": dict(
        text="Theorems (Coq, EVERY graph and EVERY rule incl. related subjects/objects, regexes, batches): duality, negation and negation_except (single subject/object), "
             "both should_only decompositions, the 'anything' alias (= 'except' the subjects without listed ancestors, verdict and report, given that every subject the rewrite removes is a module - otherwise an error, C13_alias_unknown_name), four monotonicity laws under adding an import. "
             "Tie to /repo: each law evaluated directly on the real code (2-3 real assert_applies calls per instance; named, sub-module and regex sides; graphs built so that 'should' passes for a regex side with nested matches), every evaluation also compared with the model; source-level monotonicity (one import statement appended to one file).",
        note="Trusted: Coq kernel, extraction, driver, harness. Searches: comprehension model proved equal to the worklist loops (see C01).",
        technique="Coq proof (laws of the model) + laws evaluated on the implementation + correspondence",
        design="5/C12"),
    "C13": dict(
        text="Theorems (Coq, EVERY call history, no length bound): the Rule builder refines an independent specification automaton that sees only call kinds; "
             "a verdict (pass or AssertionError) is produced only for histories that supply subject, verb, import type and object/'anything', without should_not+other verb "
             "and without 'anything'+should/should_only (C13_rule_history); unknown module names and non-matching regexes are errors for all 12 shapes (C13_unknown_name, C13_no_match) and for the two 'anything' aliases, also when the alias rewrite drops the absent name because its parent is listed too (C13_alias_unknown_name); "
             "LayerRule histories yield a verdict only with an architecture, one subject layer and a complete lowered rule; undefined layers are rejected at the call; DiagramRule histories yield a verdict only if a file was given and the parser accepted it (C13_diagram_history), a text without end tag is rejected (C13_diagram_no_end_tag); "
             "the entry point's option guard is exactly the three documented exclusions (C13_options). Tie to /repo: exhaustive call sequences (<=4 quick, <=5 thorough, 14 symbols) + random longer + every single mutation of 11 complete chains on the real Rule / LayerRule; "
             "oracle on the real code: history rejected by the Python twin of the automaton => neither PASS nor AssertionError; model outcomes compared as well; "
             "unknown names (misspelt / too deep, alone or inside batches next to their own would-be parent) on random (level-limited) architectures, implementation and model; all 48 entry-point option combinations; DiagramRule without file / tags.",
        note="Entry-point option validation, module_path outside root_path and DiagramRule incompleteness are tied to /repo by finite enumeration on the implementation against the documented rejections (their Coq statements are C13_options / C13_diagram_*; the model is not in the loop for these two). "
             "Trusted: Coq kernel, extraction, driver, harness (incl. the Python twin automaton, cross-checked against the Coq one on every history).",
        technique="Coq refinement proof (builder state machine vs specification automaton) + exhaustive history correspondence",
        design="5/C13"),
    "C16": dict(
        text="Theorems (Coq, EVERY call history): an accepted LayeredArchitecture history defines exactly the layers/modules supplied, in order, with unique layer names, no module in two layers, "
             "only the last layer possibly pending (C16_accepted_definition, invariant by induction over the history); a call is rejected, with a configuration error, exactly when it violates one of the four "
             "documented conditions (C16_reject_at_call); string and list forms coincide; LayerRule: architecture first and once, exactly one subject layer, no subject batch. "
             "Tie to /repo: exhaustive call sequences up to length 5 (quick) / 6 (thorough) over 9 symbols + random longer ones on the real classes, also under layer / module names that are awkward in message templates (braces, percent signs, blanks): index of first rejected call, error family (must be a configuration error), str(architecture) "
             "compared with the documented rules and with the model.",
        note="Trusted: Coq kernel, extraction, driver, harness (parser of str(architecture)).",
        technique="Coq invariant proof over builder histories + exhaustive history correspondence",
        design="5/C16"),
    "C05": dict(
        text="Theorem C05_verdict / C05_buckets (Coq, every graph, every well-formed layered architecture - named and regex layers, unmentioned layers, any number of object layers - all 12 shapes): "
             "the model of LayerRule.assert_applies never errs and passes exactly when the documented layer semantics (Model/SpecLayer.v) hold; layer lookup goes by whole dotted components "
             "(C05_layer_of_member/nonmember). Proof: lowering to a strict module rule (C01's query characterisations), then the four lenient buckets, same-layer pairs dropped everywhere. "
             "Tie to /repo: random graphs x partitions into 2-4 layers (list / str / anchored regex; modules in no layer) x 14 shapes through the real LayeredArchitecture/LayerRule API vs the model "
             "(verdict + parsed report lines with layer tags) and vs an independent python reading of the documented semantics.",
        note="C05_loops_verdict: the layer rule evaluated over the transcribed worklist loops (Model/WLayer.v) terminates and has the same outcome for every builder history; the harness evaluates every layer case in both model forms (fn 16 / fn 35). The two any-layer aliases are covered by correspondence and the python oracle (the alias rewrite is C12_alias); a layer given by a regex is additionally compared with the same layer given by naming the matched modules, for both aliases - open known finding K3b (known_findings.json): they differ when the regex matches a module together with its own sub modules (the layer form of K3). Hypothesis lwf: listed (resolved) modules pairwise unrelated and existing, "
             "layer names distinct, object layers non-empty and different from the subject. Trusted: Coq kernel, extraction, driver, harness.",
        technique="Coq proof (reduction to strict module rule + bucket analysis) + model/implementation correspondence",
        design="5/C05"),
    "C14": dict(
        text="Free theorem (Paramcoq parametricity translation of the model's own definitions, Closed under the global context): the core model is parametric in the component type and uses only ceqb, "
             "hence for ANY injective renaming f of path components the verdict, violation lines (C14_rule_rename_invariant), layer verdicts / layer attributions (C14_layer_rename_invariant) and diagram-rule verdicts and reports in both modes (C14_diagram_rename_invariant) "
             "commute with f; plot labels: C14_label_rename_invariant / _unaliased (the label is the alias of the most specific aliased module + the remaining components, so it keeps the alias and renames the rest); C14_render_prefix: on dotted strings the component prefix order is exactly 'equal or starts with name + dot' (the test every name comparison in the code must use). "
             "Tie to /repo: every case materialised under several namings on the real code - collision-free and adversarial pools (a, ab, a_b, aa, ...; names repeating the root; a.b next to a_b) - real outcomes compared modulo the renaming "
             "(module rules, layer rules, diagram rules in both modes, plot labels, scanned projects), plus model agreement.",
        note="Regex specifications are outside the claim (renaming changes what they match): hypothesis rm_agree. "
             "Trusted: Coq kernel, the Paramcoq plugin only generates terms that the kernel re-checks, extraction, driver, harness.",
        technique="Coq free theorem via Paramcoq + string-level lemma + metamorphic double materialisation on the implementation",
        design="5/C14"),
    "C17": dict(
        text="Theorems (Coq, all alias maps and module names, string level): the label of a module at or below an aliased module is the alias of the most specific aliased module (by dotted components) "
             "plus the rest of its name (C17_label_most_specific, via the sorted-longest-first/first-match argument and C14_render_prefix); every other module keeps its name (C17_label_unaliased); "
             "every module labelled exactly once (C17_total); alias for a non-existent module rejected naming it (C17_unknown_alias); other drawing options passed through (C17_kwargs). "
             "Tie to /repo: random trees x alias maps (nested, prefix siblings, alias strings with dots/metacharacters/backslashes) x spacing on/off, keyword arguments observed at the intercepted "
             "draw_networkx / spring_layout; documented labelling evaluated directly on the real code; model labels compared.",
        note="re.sub('^key', '', name) is modelled as dropping len(key) characters (module names are identifiers joined by dots, so the only regex metacharacter in a key is '.', which matches the literal dot at that position). "
             "matplotlib/networkx drawing itself is not exercised (backend intercepted). Trusted: Coq kernel, extraction, driver, harness.",
        technique="Coq proof (string-level render/prefix lemmas, insertion sort) + model/implementation correspondence at the drawing backend",
        design="5/C17"),
    "C15": dict(
        text="PARTIAL by design (stated in DESIGN 5/C15). Proved (Coq, every graph/rule): passing is invariant under reordering and duplication of subjects, objects, modules and imports, all 12 shapes, "
             "related modules included (C15_order_independent, lists as sets), and so is the whole outcome class pass / AssertionError / error (C15_class_order_independent); the graph queries return the same Ok/error and the same set of imports (C15_query_order_independent); the configuration "
             "a rule object is left with after an evaluation evaluates like the original on every architecture (C15_reapply); the model's evaluable is an immutable value. "
             "Checked by execution on /repo (not provable in a model): 40-evaluation interleavings on one shared evaluable vs each evaluation alone, snapshot before/after, re-applied rule objects, "
             "all permutations of list arguments and layer orders, permuted exclusion tuples (also regex exclusions with an inline flag or a back reference, every order, against 'excluded iff one pattern matches'), shuffled Path.iterdir, two scans, 8 hash seeds in fresh interpreters (digest of all verdicts, messages and complete error texts of a deterministic battery of module rules, layer rules and diagram rules; on a difference the first differing evaluation is located and reported).",
        note="The runtime behaviour the model cannot exhibit: CPython set/dict iteration order, hash randomisation, Path.iterdir order, networkx freeze/mutation. Those are exercised, not proved. "
             "Trusted: Coq kernel, harness.",
        technique="Coq proof of order-independence / re-application on the model + execution under varied orders, histories and hash seeds",
        design="5/C15"),
    "C02": dict(
        text="Theorems (Coq): the traversal collects exactly the import statements occurring at any depth of any statement tree (C02_collect, nested induction over an arbitrary rose tree, so it covers "
             "statement-list positions of grammars not yet written); naming rules for the three forms (C02_names_*); the architecture's imports are exactly the resolved, kept import statements of the "
             "importer's file between two different graph modules (C02_edges_exact). Tie to /repo: statement-list positions enumerated from the running interpreter's ast grammar, nested to depth 3, "
             "x 9 import forms, built as ASTs, unparsed, re-parsed, written to real packages and scanned from root and from a sub-package; random projects whose files are spelt in semantics-preserving styles (aliases, parenthesised / backslash-continued imports, several names per statement in any order, comments and string literals containing import statements, tabs, trailing blanks, CRLF, UTF-8 BOM, no final newline, TYPE_CHECKING / try-except-ImportError / match / method blocks, one-line compound statements) and whose path arguments are spelt in 7 equivalent ways (trailing separators, pathlib.Path, '.' segments, 'x/../x' detours, relative to the current directory); scanned imports vs documented resolution (python oracle) and vs the model scan.",
        note="ast.parse (on the file's bytes), pathlib and the file system are exercised, not modelled: the model receives the statement tree from which the harness rendered the text. Trusted: Coq kernel, extraction, driver, harness.",
        technique="Coq proof (rose-tree induction, edge characterisation) + grammar-enumerated correspondence on real files",
        design="5/C02"),
    "C04": dict(
        text="Theorems (Coq, every directory tree, exclusion predicate abstract): the modules of a walk are exactly root::path of every non-excluded .py file and directory none of whose ancestors down from the start "
             "is excluded (C04_modules); parsed files are such modules; graph nodes = modules + every ancestor (C04_nodes), closed under ancestors (C04_ancestor_closed); sub modules = nodes whose name extends the module (C04_sub_modules); "
             "scanning a sub-directory = scanning the whole root restricted to that sub-tree, for modules (C04_subscan_modules) and for imports (C04_subscan_imports: relative imports unconditionally, absolute names when fully qualified only). "
             "Tie to /repo: random trees (depth<=5, prefix-sibling names, packages with/without __init__, empty dirs, non-.py files) x EVERY directory as module_path: modules vs tree, sub-module sets, sub scan vs restricted root scan, "
             "module-object entry point on really imported packages, all vs the model scan.",
        note="The module-object entry point is checked by correspondence only (it is dirname(__file__) of really imported packages). Import names readable both as root-qualified and as relative to module_path's parent are outside the claim (hypothesis unamb). pathlib/os modelled not verified. Trusted: Coq kernel, extraction, driver, harness.",
        technique="Coq proof (rose-tree induction over directory trees) + correspondence on real directory trees",
        design="5/C04"),
    "C06": dict(
        text="Theorems (Coq, every list of lines): the parsed relation is exactly the drawn arrows with both ends resolved through the alias table (C06_relation), the components exactly the declared or referenced ones "
             "(C06_components), aliases resolve to their component and other names stand for themselves, independent of line order (C06_order_independent, Permutation). Lexical layer: every documented line form "
             "(five declaration forms; six arrow forms x bracketed/bare references) lexes to the line it denotes for EVERY component name, alias and arrow label (C06_lex_*), in EVERY layout of the line - indentation, trailing blanks, runs of blanks / tabs between tokens (C06_lex_layout_independent, C06_lex_arrow_any_layout); "
             "text level: what stands outside the tag pair is ignored, a text without tags or without end tag is rejected (C06_text_outside_tags_ignored, C06_no_tags_rejected, C06_no_end_tag_rejected; texts whose only '@' are the tags). "
             "PARTIAL: texts with further '@' or repeated tags only by evaluation on instances (C06_lexical_forms_partial) and by correspondence. Tie to /repo: diagrams printed from random relations (all declaration/arrow/reference forms, "
             "dotted names, shuffled lines, noise, text outside tags, indentation / blank runs / tabs, LF / CRLF / CR line ends - the harness hands the model the text after Python's universal-newline translation) through the real PumlParser vs the drawn relation and vs the model parser (which reads the same text).",
        note="Python regex semantics of the parser's patterns are not modelled in general: only the documented subset is generated and modelled. Trusted: Coq kernel, extraction, driver, harness.",
        technique="Coq proof (semantic layer; lexical layer for all names) + evaluation of tag slicing instances + correspondence on printed diagrams",
        design="5/C06"),
    "C07": dict(
        text="Theorem C07_conformance (Coq, every graph, every well-formed diagram, both modes): DiagramRule passes exactly when for every ordered pair of distinct components a imports b iff a->b is drawn, and (should-only) no component "
             "with outgoing arrows imports anything outside its drawn targets and itself - proved by showing each generated rule strict and applying C01_verdict; C07_aggregates (all violated rules' lines, none lost); C07_base_module (definitional). "
             "Tie to /repo: random relations x near-conforming graphs x both modes x both naming options on real .puml files vs documented conformance (python oracle), aggregated message vs each violated pairwise rule, model compared.",
        note="C07_loops_verdict: the diagram rule with every generated rule evaluated over the transcribed worklist loops (Model/WDiagram.v) terminates and has the same outcome; every diagram case is evaluated in both model forms (fn 22 / fn 36). Trusted: Coq kernel, extraction, driver, harness.",
        technique="Coq proof (reduction to C01 per generated rule) + correspondence on real diagram files",
        design="5/C07"),
    "C09": dict(
        text="Theorems (Coq, every module list / import list / k): nodes of the limited graph = truncations of the full graph's nodes (C09_quotient_modules); a imports b iff some x->y of the full graph truncates to (a,b), a<>b, hierarchy-coinciding "
             "imports absorbed (C09_quotient_imports, under: import endpoints are modules); limit counted below module_path (C09_effective_limit); C09_related_refuted: kernel-checked witness that verdict preservation fails for related subject/object (known finding K1). "
             "C09_verdict_preserved: every rule of C01's strict space whose named modules lie at or above level k (sub-modules-of parents strictly above) passes on the flattened graph iff it passes on the full graph, and is never an error "
             "(via C01_verdict on both graphs + C09_semantics_preserved), under the extra hypothesis that no module imports its own descendant (C09_down_import_refuted shows it is needed; in a scan it takes a file and a directory of one name). "
             "Also checked on the real code (both architectures) for C01's shapes. Tie to /repo: random projects x module_path x k=1..depth: limited scan vs quotient of the unlimited scan and vs model.",
        note="K1 is an open known finding (known_findings.json), matched per case (related subject/object + level-limited). Trusted: Coq kernel, extraction, driver, harness.",
        technique="Coq proof (quotient characterisation, verdict preservation on the strict domain) + refuted-witnesses + metamorphic correspondence on real scans",
        design="5/C09"),
    "C10": dict(
        text="Theorems (Coq, exclusion patterns as oracle): externals excluded => every kept import is internal and no external module is added; included => every external importee and all its ancestors are modules; "
             "a match on the importee or an ancestor removes the import and the module; internal imports are kept in every configuration and every added module is external (C10_*). "
             "Tie to /repo: random projects with internal/external imports (nested externals, prefix/suffix-sharing names, root-package imports, non-module relative importees, relative imports leaving module_path) x 3 module_paths x "
             "{exclude, include, include+glob, include+regex, and mixes of glob / regex forms across file and external exclusions} (imports nested in every block kind incl. except handlers and match cases) vs the documented effect (python oracle), internal view compared across configurations, all vs the model scan.",
        note="Pattern matching on dotted names is the real re (oracle table handed to the model); glob fragment proved in C08. Trusted: Coq kernel, extraction, driver, harness.",
        technique="Coq proof (filter/extension lemmas with oracle) + correspondence on real scans",
        design="5/C10"),
    "C08": dict(
        text="Theorems (Coq): (a) all patterns and all newline-free path strings, no bound: the glob->regex converter always emits a regex of the modelled fragment that parses back to (leading star, literal text, trailing star), "
             "and convert+re.match equals the documented four-case meaning (C08_escape, C08_glob, four shape corollaries). (b) every directory tree, exclusion predicate abstract: the modules of a scan are exactly the files/directories "
             "none of whose ancestors-or-self down from module_path is excluded, and only those files are parsed (C08_scan_modules, C08_scan_files, C08_scan_files_exact); every import of the filtered scan into a remaining module is an import of the unfiltered scan between remaining modules and conversely "
             "(C08_scan_imports, under: externals excluded, module_path not excluded, no 'from P import n' of an excluded sub module of a remaining P, absolute names fully qualified only); C08_from_import_refuted: kernel-checked witness that the third hypothesis cannot be dropped (known finding K2). "
             "Tie to /repo: (a) exhaustive over a small alphabet (converter output string; real FileFilter vs model matcher incl. newline; four-case oracle on the real code); (b) random trees x exclusion tuples built from the tree's own paths "
             "(glob shapes and regex translations, names with regex metacharacters): filtered vs unfiltered real scan, vs model with the oracle from the real re; regex_exclusions passed alone (exclusions left at its default) must be refused or applied.",
        note="'Imports between remaining modules unchanged' is proved outside the K2 corner and the ambiguous-name corner (hypotheses k2free, unambR) and additionally checked on the real code with K2 instances matched as known finding. "
             "Trusted: Coq kernel, extraction (ExtrOcamlBasic) + driver, Python harness. Modelled not verified: CPython re on the emitted fragment (compared exhaustively up to the stated lengths).",
        technique="Coq proof (induction on pattern/subject; rose-tree induction and import-resolution case analysis for the tree part) + exhaustive model/implementation correspondence",
        design="5/C08"),
}

PENDING = "not claimed"


def main():
    checks = []
    for pid in ALL:
        if pid not in CHECKS:
            continue
        c = CHECKS[pid]
        checks.append({
            "property_id": pid,
            "quick_cmd": f"./check {pid} --tier quick",
            "thorough_cmd": f"./check {pid} --tier thorough",
            "evidence_file": f"/verif/evidence/{pid}.json",
            "replay_cmd_template": f"./check {pid} --replay {{path}}",
            "engine": "coq-model+correspondence",
            "level_claimed": {"category": "proof", "text": c["text"], "design_ref": c["design"]},
            "level_note": c["note"],
            "technique": c["technique"],
        })
    m = {
        "version": 1,
        "setup_cmd": "./setup.sh",
        "hooks": {
            "guard": "PYTESTARCH_VERIF",
            "enable": "no hook is needed: checks drive the public API of /repo/src from their own process",
            "baseline_off_cmd": "cd /repo && /venv/bin/python -m pytest -q -p no:cacheprovider --timeout=120 --deselect tests/test_architecture.py",
            "source_commits": [],
            "add_only": True,
        },
        "engines": [{
            "name": "coq-model+correspondence", "path": "/verif/coq, /verif/ocaml, /verif/harness",
            "serves_properties": [c["property_id"] for c in checks],
            "kind_free_text": "hand-written Gallina model + theorems (Coq 8.16.1), model extracted to OCaml and compared with /repo's current code through its public API on every run",
        }],
        "checks": checks,
        "notes": "tests/test_architecture.py is deselected in baseline_off_cmd: it loops forever when the checkout directory is not named 'pytestarch' (pre-existing, unrelated to hooks).",
        "not_applicable": [{"property_id": p, "reason": PENDING} for p in ALL if p not in CHECKS],
    }
    (VERIF / "MANIFEST.json").write_text(json.dumps(m, indent=1) + "\n")


if __name__ == "__main__":
    main()
