"""Writes MANIFEST.json from the table below (kept in one place so it stays valid)."""
import json
from pathlib import Path

VERIF = Path(__file__).resolve().parent.parent
ALL = [f"C{i:02d}" for i in range(1, 18)]

CHECKS = {
    "C01": dict(
        text="Theorem C01_verdict (Coq, every graph, every strict rule, no bound): the model of Rule.assert_applies returns Pass exactly when the "
             "documented semantics (Model/SpecRule.v) hold and Fail otherwise, never an error (C01_total); the three public graph queries are "
             "proved equal to the documented comprehensions on pairwise unrelated filters. Tie to /repo: every case evaluated by the real Rule API "
             "and the extracted model (verdict compared), exhaustive over import relations of three 5-node trees in thorough, plus random/scanned trees; "
             "strict rules are additionally checked against an independent executable reading of the documented semantics.",
        note="Theorems cover the 12 verb x direction x except shapes with name / sub-modules-of filters; the two 'anything' aliases are tied to "
             "'should_not ... except the subjects' by C12_alias on the model and by correspondence. Graph searches are modelled at the comprehension level "
             "(worklist loops not modelled; compared through verdicts and report lines). Trusted: Coq kernel, extraction, driver, harness.",
        technique="Coq proof (query characterisation lemmas + bucket analysis) + model/implementation correspondence",
        design="5/C01"),
    "C03": dict(
        text="Theorems C03_report_sound / C03_report_complete / C03_nothing_unrelated (Coq, all graphs, all strict rules): the model's report lines are exactly "
             "the rule's violating set (forbidden imports between subject and object, not-allowed imports between subject and something else, one "
             "'does not import' line per subject with exactly its missing objects). Tie to /repo: str(AssertionError) parsed back to abstract lines and "
             "compared as a set with the model's and with the documented violating set, same case space as C01.",
        note="English rendering (verb forms, quoting) is parsed by the harness, not verified. Searches at comprehension level (see C01).",
        technique="Coq proof + model/implementation correspondence on parsed report lines",
        design="5/C03"),
    "C11": dict(
        text="Theorems (Coq, every graph, every rule shape): a regex subject/object gives the same outcome (verdict and report) as naming all matching modules "
             "(C11_regex_subject/object), a regex matching nothing is an error (C11_no_match_*), a batch of subjects with explicit objects passes iff every "
             "single-subject rule passes, for all 12 shapes and related modules (C11_batch_subjects), likewise over objects for plain should/should_not "
             "(C11_batch_objects); the partial-name form has the glob meaning (C11_partial_name via C08_glob). re.match is a Section variable (oracle). "
             "Tie to /repo: compact rule vs expanded rule(s) both evaluated on the real code (metamorphic), all evaluations compared with the model.",
        note="Python re on user regexes is an oracle: its truth table over the graph's names is computed with the real re and handed to the model. "
             "Trusted: Coq kernel, extraction, driver, harness.",
        technique="Coq proof with regex oracle + metamorphic and model/implementation correspondence",
        design="5/C11"),
    "C12": dict(
        text="Theorems (Coq, EVERY graph and EVERY rule incl. related subjects/objects, regexes, batches): duality, negation and negation_except (single subject/object), "
             "both should_only decompositions, the 'anything' alias (definitional rewrite, verdict and report), four monotonicity laws under adding an import. "
             "Tie to /repo: each law evaluated directly on the real code (2-3 real assert_applies calls per instance), every evaluation also compared with the model.",
        note="Trusted: Coq kernel, extraction, driver, harness. Searches at comprehension level (see C01).",
        technique="Coq proof (laws of the model) + laws evaluated on the implementation + correspondence",
        design="5/C12"),
    "C13": dict(
        text="Theorems (Coq, EVERY call history, no length bound): the Rule builder refines an independent specification automaton that sees only call kinds; "
             "a verdict (pass or AssertionError) is produced only for histories that supply subject, verb, import type and object/'anything', without should_not+other verb "
             "and without 'anything'+should/should_only (C13_rule_history); unknown module names and non-matching regexes are errors for all 12 shapes (C13_unknown_name, C13_no_match); "
             "LayerRule histories yield a verdict only with an architecture, one subject layer and a complete lowered rule; undefined layers are rejected at the call. "
             "Tie to /repo: exhaustive call sequences (<=4 quick, <=5 thorough, 14 symbols) + random longer + every single mutation of 11 complete chains on the real Rule / LayerRule; "
             "oracle on the real code: history rejected by the Python twin of the automaton => neither PASS nor AssertionError; model outcomes compared as well; "
             "unknown names on random (level-limited) architectures; all 48 entry-point option combinations; DiagramRule without file / tags.",
        note="Entry-point option validation and DiagramRule incompleteness are checked on the implementation only (finite enumeration); their Coq model is part of the scan/diagram stage. "
             "Trusted: Coq kernel, extraction, driver, harness (incl. the Python twin automaton, cross-checked against the Coq one on every history).",
        technique="Coq refinement proof (builder state machine vs specification automaton) + exhaustive history correspondence",
        design="5/C13"),
    "C16": dict(
        text="Theorems (Coq, EVERY call history): an accepted LayeredArchitecture history defines exactly the layers/modules supplied, in order, with unique layer names, no module in two layers, "
             "only the last layer possibly pending (C16_accepted_definition, invariant by induction over the history); a call is rejected, with a configuration error, exactly when it violates one of the four "
             "documented conditions (C16_reject_at_call); string and list forms coincide; LayerRule: architecture first and once, exactly one subject layer, no subject batch. "
             "Tie to /repo: exhaustive call sequences up to length 5 (quick) / 6 (thorough) over 9 symbols + random longer ones on the real classes: index of first rejected call, error family, str(architecture) "
             "compared with the documented rules and with the model.",
        note="Trusted: Coq kernel, extraction, driver, harness (parser of str(architecture)).",
        technique="Coq invariant proof over builder histories + exhaustive history correspondence",
        design="5/C16"),
    "C05": dict(
        text="Theorem C05_verdict / C05_buckets (Coq, every graph, every well-formed layered architecture - named and regex layers, unmentioned layers, any number of object layers - all 12 shapes): "
             "the model of LayerRule.assert_applies never errs and passes exactly when the documented layer semantics (Model/SpecLayer.v) hold; layer lookup goes by whole dotted components "
             "(C05_layer_of_member/nonmember). Proof: lowering to a strict module rule (C01's query characterisations), then the four lenient buckets, same-layer pairs dropped everywhere. "
             "Tie to /repo: random graphs x partitions into 2-4 layers (list / str / anchored regex; modules in no layer) x 14 shapes through the real LayeredArchitecture/LayerRule API vs the model "
             "(verdict + parsed report lines with layer tags) and vs an independent python reading of the documented semantics.",
        note="The two any-layer aliases are covered by correspondence and the python oracle (the alias rewrite is C12_alias). Hypothesis lwf: listed (resolved) modules pairwise unrelated and existing, "
             "layer names distinct, object layers non-empty and different from the subject. Trusted: Coq kernel, extraction, driver, harness.",
        technique="Coq proof (reduction to strict module rule + bucket analysis) + model/implementation correspondence",
        design="5/C05"),
    "C14": dict(
        text="Free theorem (Paramcoq parametricity translation of the model's own definitions, Closed under the global context): the core model is parametric in the component type and uses only ceqb, "
             "hence for ANY injective renaming f of path components the verdict, violation lines (C14_rule_rename_invariant) and layer verdicts / layer attributions (C14_layer_rename_invariant) "
             "commute with f; C14_render_prefix: on dotted strings the component prefix order is exactly 'equal or starts with name + dot' (the test every name comparison in the code must use). "
             "Tie to /repo: every case materialised under three namings on the real code - collision-free and two adversarial pools (a, ab, a_b, aa, ...) - real outcomes compared modulo the renaming "
             "(module rules, layer rules, plot labels), plus model agreement.",
        note="Regex specifications are outside the claim (renaming changes what they match): hypothesis rm_agree. Label invariance is by C17's theorems + metamorphic check. "
             "Trusted: Coq kernel, the Paramcoq plugin only generates terms that the kernel re-checks, extraction, driver, harness.",
        technique="Coq free theorem via Paramcoq + string-level lemma + metamorphic double materialisation on the implementation",
        design="5/C14"),
    "C17": dict(
        text="Theorems (Coq, all alias maps and module names, string level): the label of a module at or below an aliased module is the alias of the most specific aliased module (by dotted components) "
             "plus the rest of its name (C17_label_most_specific, via the sorted-longest-first/first-match argument and C14_render_prefix); every other module keeps its name (C17_label_unaliased); "
             "every module labelled exactly once (C17_total); alias for a non-existent module rejected naming it (C17_unknown_alias); other drawing options passed through (C17_kwargs). "
             "Tie to /repo: random trees x alias maps (nested, prefix siblings, alias strings with dots/metacharacters/backslashes) x spacing on/off, keyword arguments observed at the intercepted "
             "draw_networkx / spring_layout; documented labelling evaluated directly on the real code; model labels compared.",
        note="re.sub('^key', '', name) is modelled as dropping len(key) characters (module names are identifiers joined by dots, so the only regex metacharacter in a key is '.', which matches the literal dot at that position). "
             "matplotlib/networkx drawing itself is not exercised (backend intercepted). Trusted: Coq kernel, extraction, driver, harness.",
        technique="Coq proof (string-level render/prefix lemmas, insertion sort) + model/implementation correspondence at the drawing backend",
        design="5/C17"),
    "C15": dict(
        text="PARTIAL by design (stated in DESIGN 5/C15). Proved (Coq, every graph/rule): passing is invariant under reordering and duplication of subjects, objects, modules and imports, all 12 shapes, "
             "related modules included (C15_order_independent, lists as sets); the graph queries return the same Ok/error and the same set of imports (C15_query_order_independent); the configuration "
             "a rule object is left with after an evaluation evaluates like the original on every architecture (C15_reapply); the model's evaluable is an immutable value. "
             "Checked by execution on /repo (not provable in a model): 40-evaluation interleavings on one shared evaluable vs each evaluation alone, snapshot before/after, re-applied rule objects, "
             "all permutations of list arguments and layer orders, permuted exclusion tuples, shuffled Path.iterdir, two scans, 8 hash seeds in fresh interpreters (digest of all verdicts+messages).",
        note="The runtime behaviour the model cannot exhibit: CPython set/dict iteration order, hash randomisation, Path.iterdir order, networkx freeze/mutation. Those are exercised, not proved. "
             "Trusted: Coq kernel, harness.",
        technique="Coq proof of order-independence / re-application on the model + execution under varied orders, histories and hash seeds",
        design="5/C15"),
    "C08": dict(
        text="Theorems (Coq, all patterns and all newline-free path strings, no bound): the glob->regex converter always emits a regex of the "
             "modelled fragment that parses back to (leading star, literal text, trailing star), and convert+re.match equals the documented "
             "four-case meaning (C08_escape, C08_glob, four shape corollaries). Tie to /repo: exhaustive correspondence over a small alphabet "
             "(real converter output string = model's; real FileFilter.is_excluded = model matcher, newline included) plus the four-case oracle "
             "evaluated directly on the real code.",
        note="Trusted: Coq kernel, extraction (ExtrOcamlBasic) + driver, Python harness. Modelled not verified: CPython re on the emitted fragment "
             "(compared exhaustively up to the stated lengths). Part (b) (tree-level exclusion) is covered by model<->code scan correspondence, see DESIGN.",
        technique="Coq proof (induction on pattern/subject) + exhaustive model/implementation correspondence",
        design="5/C08"),
}

PENDING = "check not built yet in this snapshot (Coq model and correspondence under construction; see DESIGN.md section 6 staging)"


def main():
    checks = []
    for pid in ALL:
        if pid not in CHECKS:
            continue
        c = CHECKS[pid]
        checks.append({
            "property_id": pid,
            "quick_cmd": f"./check {pid} --tier quick",
            "thorough_cmd": f"./check {pid} --tier thorough",
            "evidence_file": f"/verif/evidence/{pid}.json",
            "replay_cmd_template": f"./check {pid} --replay {{path}}",
            "engine": "coq-model+correspondence",
            "level_claimed": {"category": "proof", "text": c["text"], "design_ref": c["design"]},
            "level_note": c["note"],
            "technique": c["technique"],
        })
    m = {
        "version": 1,
        "setup_cmd": "./setup.sh",
        "hooks": {
            "guard": "PYTESTARCH_VERIF",
            "enable": "no hook is needed: checks drive the public API of /repo/src from their own process",
            "baseline_off_cmd": "cd /repo && /venv/bin/python -m pytest -q -p no:cacheprovider --timeout=120 --deselect tests/test_architecture.py",
            "source_commits": [],
            "add_only": True,
        },
        "engines": [{
            "name": "coq-model+correspondence", "path": "/verif/coq, /verif/ocaml, /verif/harness",
            "serves_properties": [c["property_id"] for c in checks],
            "kind_free_text": "hand-written Gallina model + theorems (Coq 8.16.1), model extracted to OCaml and compared with /repo's current code through its public API on every run",
        }],
        "checks": checks,
        "notes": "tests/test_architecture.py is deselected in baseline_off_cmd: it loops forever when the checkout directory is not named 'pytestarch' (pre-existing, unrelated to hooks).",
        "not_applicable": [{"property_id": p, "reason": PENDING} for p in ALL if p not in CHECKS],
    }
    (VERIF / "MANIFEST.json").write_text(json.dumps(m, indent=1) + "\n")


if __name__ == "__main__":
    main()
