"""Apply a seeded change to /repo, run checks, undo it straight afterwards.

usage: /venv/bin/python harness/seedtest.py <patch.diff> [--checks C01,C03 | --all] [--tier quick]
Prints, per check, whether it raised a VIOLATION line (and which kind), and a JSON summary line.
/repo must be clean before and is clean afterwards (git checkout -- .)."""
from __future__ import annotations

import argparse
import json
import subprocess
import sys
import time
from pathlib import Path

VERIF = Path(__file__).resolve().parent.parent
ALL = [f"C{i:02d}" for i in range(1, 18)]


def sh(*cmd, **kw):
    return subprocess.run(list(cmd), capture_output=True, text=True, **kw)


def main():
    ap = argparse.ArgumentParser()
    ap.add_argument("patch")
    ap.add_argument("--checks", default=None)
    ap.add_argument("--all", action="store_true")
    ap.add_argument("--tier", default="quick")
    ap.add_argument("--reverse", action="store_true", help="apply the patch in reverse (for 'git show' output of a fix commit)")
    a = ap.parse_args()
    st = sh("git", "-C", "/repo", "status", "--porcelain").stdout.strip()
    if st:
        print("refusing: /repo is not clean:\n" + st)
        return 2
    checks = ALL if a.all or not a.checks else a.checks.split(",")
    r = sh("git", "-C", "/repo", "apply", *(["-R"] if a.reverse else []), str(Path(a.patch).resolve()))
    if r.returncode != 0:
        print("patch does not apply:", r.stderr[:500])
        return 2
    results = {}
    try:
        for pid in checks:
            t0 = time.time()
            p = sh(str(VERIF / "check"), pid, "--tier", a.tier, cwd=VERIF)
            lines = [l for l in p.stdout.split("\n") if l.startswith("VIOLATION")]
            kind = "silent"
            replay = None
            if lines:
                kind = "no-failing-input" if lines[0].rstrip().endswith("no-failing-input-found") else "violation"
                replay = lines[0].split("replay=")[1].split()[0]
            what = ""
            if replay and Path(replay).exists():
                try:
                    j = json.loads(Path(replay).read_text())
                    what = (j.get("what") or json.dumps(j.get("no_longer_checks", ""))[:200])[:200]
                except Exception:  # noqa: BLE001
                    pass
            results[pid] = dict(exit=p.returncode, kind=kind, what=what, wall_s=round(time.time() - t0, 1))
            print(f"{pid}: exit={p.returncode} {kind} {what[:150]}")
            sys.stdout.flush()
    finally:
        sh("git", "-C", "/repo", "checkout", "--", ".")
        left = sh("git", "-C", "/repo", "status", "--porcelain").stdout.strip()
        if left:
            print("WARNING: /repo not clean after undo:", left)
    print("SUMMARY " + json.dumps(results))
    return 0


if __name__ == "__main__":
    sys.exit(main())
