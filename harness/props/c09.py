"""C09 — level_limit yields the quotient graph and preserves verdicts above the limit."""
from __future__ import annotations

import itertools
import json
import random
from multiprocessing import Pool

from harness import common, rules, scan
from harness.common import Ctx, NCPU


def trunc(name: str, depth: int) -> str:
    return ".".join(name.split(".")[:depth + 1])


def quotient(nodes, edges, depth):
    qn = sorted({trunc(n, depth) for n in nodes})
    qe = {(trunc(a, depth), trunc(b, depth)) for a, b in edges}
    qe = {(a, b) for a, b in qe if a != b and not (b.startswith(a + ".") and b.count(".") == a.count(".") + 1)}
    return qn, sorted(qe)


def _job(args):
    seed, n = args
    rng = random.Random(seed)
    out = dict(n=0, nontrivial=0, stats={}, violations=[], disagreements=[], pairs=[], samples=[], known=[])
    for it in range(n):
        root, dirs, files = scan.gen_tree(rng, max_depth=5)
        scan.gen_imports(rng, dirs, files, externals=scan.EXTERNALS if it % 3 == 2 else (), nested=True, per_file=6 if it % 3 == 2 else 4)
        # an import of a package that an exclusion pattern removes, next to an import (elsewhere) of something below that package:
        # neither importee is part of the architecture, with or without a limit
        forced_excl = None
        if it % 3 == 2:
            pk = [d for d in dirs if len(d) >= 3 and any(f[:len(d)] == d and v["py"] for f, v in files.items())]
            outside = lambda d: [f for f, v in files.items() if v["py"] and f[:len(d)] != d]
            pk = [d for d in pk if len(outside(d)) >= 2 and sum(1 for x in list(dirs) + list(files) if x[-1] == d[-1]) == 1]
            if pk:
                d0 = rng.choice(pk)
                below = rng.choice([f for f, v in files.items() if f[:len(d0)] == d0 and v["py"]])
                f1, f2 = rng.sample(outside(d0), 2)
                files[f1]["body"].append(("import", [scan.dotted(d0)]))
                files[f2]["body"].append(("import", [scan.dotted(below)]))
                forced_excl = "*/" + d0[-1]
        base = scan.materialise(dirs, files)
        try:
            # module_path = root, and one directory at each depth below it (1, 2, 3+ levels below root)
            mps = [(root,)] + [d for d in dirs if len(d) == 2][:1] + [d for d in dirs if len(d) == 3][:1] + [d for d in dirs if len(d) >= 4][:1]
            for mp in mps:
                # one third of the projects are scanned with further options switched on as well: a file / directory exclusion
                # built from the tree's own names, and / or external libraries kept - the limited scan must still be the
                # quotient of the unlimited scan made with the SAME options
                opts = {}
                if it % 3 == 2:
                    names = sorted({p[-1] for p in list(files) + list(dirs)[1:]})
                    if names and rng.random() < 0.8:
                        nm = rng.choice(names)
                        opts["exclusions"] = (rng.choice(["*" + nm + ".py", "*/" + nm, "*" + nm + "*"]),)
                    if forced_excl and rng.random() < 0.6:
                        opts["exclusions"] = (forced_excl,)
                        out["stats"]["excluded_package_imported_and_something_below_it_imported_elsewhere"] = out["stats"].get("excluded_package_imported_and_something_below_it_imported_elsewhere", 0) + 1
                    if rng.random() < 0.5:
                        opts["exclude_external_libraries"] = False
                        if rng.random() < 0.7:
                            # a pattern that hits a deep external module this project imports but not its parents, or a whole package
                            used = set()

                            def walk(st):
                                if st[0] == "import":
                                    used.update(st[1])
                                elif st[0] == "from" and st[1] == 0 and st[2]:
                                    used.update(st[2] + "." + nmx for nmx in st[3])
                                elif st[0] == "block":
                                    for c0 in st[2]:
                                        walk(c0)
                            for v0 in files.values():
                                for st in v0["body"]:
                                    walk(st)
                            deep = sorted(x for x in used if x.count(".") >= 1 and not x.startswith(root))
                            target = rng.choice(deep) if deep else "xml.etree.ElementTree"
                            if rng.random() < 0.5:
                                opts["external_exclusions"] = (rng.choice([target, "*" + target.rsplit(".", 1)[-1], target.split(".")[0] + "*"]),)
                            else:
                                import re as _re
                                opts["regex_external_exclusions"] = (rng.choice([_re.escape(target) + "$", _re.escape(target), ".*" + _re.escape("." + target.rsplit(".", 1)[-1]) + "$"]),)
                full = scan.real_scan(base, root, mp, **opts)
                if full[0] != "OK":
                    continue
                depth_max = max(len(x) for x in list(dirs) + list(files)) - len(mp)
                enc = rules.Enc()
                cases, metas = [], []
                # C09_deep_limit_is_identity on the implementation: a limit that no module name exceeds (externals included) is no limit
                k_deep = max([m.count(".") for m in full[1]] + [0]) - len(mp) + 1 + (it % 3)
                if k_deep >= 1:
                    deep = scan.real_scan(base, root, mp, level_limit=k_deep, **opts)
                    out["n"] += 1
                    out["stats"]["limits_deeper_than_every_name"] = out["stats"].get("limits_deeper_than_every_name", 0) + 1
                    if deep[:3] != full[:3]:
                        out["violations"].append((dict(dirs=[list(d) for d in dirs], files={scan.dotted(f): (scan.render_v(v) if v["py"] else None) for f, v in files.items()},
                                                       module_path=list(mp), level_limit=k_deep, options={kk: list(vv) if isinstance(vv, tuple) else vv for kk, vv in opts.items()},
                                                       got=list(deep[1:3]) if deep[0] == "OK" else deep[1], full=list(full[1:3])),
                                                  f"level_limit={k_deep} is deeper than every module name, yet the architecture differs from the unlimited one", {"kind": "quotient"}))
                        continue
                for k in range(0, max(1, depth_max) + 1):       # 0: everything collapses into module_path itself
                    lim = scan.real_scan(base, root, mp, level_limit=(True if k == 1 and it % 4 == 1 else k), **opts)      # True is the integer 1
                    out["n"] += 1
                    case = dict(dirs=[list(d) for d in dirs], files={scan.dotted(f): (scan.render_v(v) if v["py"] else None) for f, v in files.items()},
                                module_path=list(mp), level_limit=k, options={kk: list(vv) if isinstance(vv, tuple) else vv for kk, vv in opts.items()})
                    if lim[0] != "OK":
                        out["violations"].append((dict(case, error=lim[1]), f"scan with level_limit={k} failed", {"kind": "scan_error"}))
                        continue
                    depth = k + len(mp) - 1        # name truncated to k levels below module_path
                    qn, qe = quotient(full[1], full[2], depth)
                    if lim[1] != qn or lim[2] != qe:
                        out["violations"].append((dict(case, modules=lim[1], quotient_modules=qn, edges_surplus=sorted(set(lim[2]) - set(qe)), edges_missing=sorted(set(qe) - set(lim[2]))),
                                                  f"level_limit={k}: architecture is not the quotient of the full architecture", {"kind": "quotient"}))
                        continue
                    if not opts:
                        cases.append(scan.model_scan_case(enc, root, dirs, files, mp, limit=k))
                        metas.append((k, lim, case))
                    if len(qn) < len(full[1]):
                        out["nontrivial"] += 1
                    # verdict preservation for rules above the limit
                    above = [m for m in qn if m.count(".") <= depth]
                    cand = [m for m in above if m != root]
                    if len(cand) >= 2:
                        for _ in range(3):
                            k1 = rng.randint(1, 2)
                            pick = rng.sample(cand, min(len(cand), k1 + rng.randint(1, 2)))
                            kk = min(k1, len(pick) - 1)
                            sk, ok = rng.choice(["named", "sub"]), rng.choice(["named", "sub"])
                            S, O = pick[:kk], pick[kk:]
                            # 'sub modules of' parents must lie strictly above the limit
                            if sk == "sub" and any(x.count(".") >= depth for x in S):
                                sk = "named"
                            if ok == "sub" and any(x.count(".") >= depth for x in O):
                                ok = "named"
                            related = any(rules.related(a, b) for a, b in itertools.combinations(S + O, 2))
                            shapes = rules.all_shapes((sk, S), (ok, O))
                            # both evaluations also against the model on the observed graphs (faithful to the code, K1 included): a
                            # change of behaviour inside the known-finding class still shows as a disagreement
                            enc_f, enc_l = rules.Enc(), rules.Enc()
                            mres = common.model_run([[10, [enc_f.graph_direct(full[1], full[2]), [], [enc_f.cfg(sp, {}) for sp in shapes]]],
                                                     [10, [enc_l.graph_direct(lim[1], lim[2]), [], [enc_l.cfg(sp, {}) for sp in shapes]]]])
                            for si, spec in enumerate(shapes):
                                a = rules.run_rule(rules.build_rule(spec), full[3])
                                b = rules.run_rule(rules.build_rule(spec), lim[3])
                                out["n"] += 1
                                for which, io, enc_x, mr in (("full", a, enc_f, mres[0]), (f"level_limit={k}", b, enc_l, mres[1])):
                                    mo = enc_x.dec_outcome(mr[si][1]) if mr not in (None, common.SX_ERR) else ("ERR", "model rejected the case")
                                    if not rules.same_verdict(io, mo):
                                        out["disagreements"].append((dict(case, spec=rules._jsonable_spec(spec), architecture=which, impl=io[0], model=mo[0]),
                                                                     f"model and implementation differ on a rule over the {which} architecture: impl={io[0]} model={mo[0]}"))
                                if a[0] != b[0]:
                                    c2 = dict(case, spec=rules._jsonable_spec(spec), full=a[0], limited=b[0], related_subject_object=related)
                                    tags = {"kind": "verdict", "rule_has_related_subject_object": related, "level_limited": True}
                                    (out["known"] if related else out["violations"]).append((c2, f"verdict {a[0]} on the full architecture but {b[0]} with level_limit={k}: {rules.spec_key(spec)}", tags))
                res = common.model_run(cases)
                for (k, lim, case), w, m in zip(metas, cases, res):
                    d = scan.dec_scan(enc, m)
                    if d is None or d[0] != "OK" or d[1] != lim[1] or d[2] != lim[2]:
                        out["disagreements"].append((dict(case, impl_modules=lim[1], impl_edges=lim[2], model=str(d)[:500]), f"model scan and real scan differ (level_limit={k})"))
                if not out["pairs"] and cases:
                    out["pairs"].append((cases[0], res[0]))
            if not out["samples"]:
                out["samples"].append(dict(dirs=[scan.dotted(d) for d in dirs], files=[scan.dotted(f) for f in files]))
        finally:
            scan.cleanup(base)
    return common.tag_job(out, __name__, "_job", list(args))


def hidden_directory_stream(ctx, n):
    """module_path below a hidden directory (proj/.ci/tool): the dot of the directory's name is one more dot in the module
    names (proj..ci.tool, an empty component) - the limit still counts levels below module_path, the limited architecture is
    still the quotient of the unlimited one."""
    import os
    import shutil
    from pytestarch import get_evaluable_architecture
    for it in range(n):
        rng = ctx.rng
        hid = rng.choice([".ci", ".tools", "._x"])
        a, b, c = rng.sample(scan.POOL, 3)
        d = common.scratch_dir()
        try:
            tool = d / "proj" / hid / "tool"
            (tool / a / c).mkdir(parents=True)
            (tool / b).mkdir(parents=True)
            (tool / a / "a1.py").write_text(f"import tool.{b}.b1\n")
            (tool / b / "b1.py").write_text(f"from tool.{a}.{c} import deep\n")
            (tool / a / c / "deep.py").write_text(f"import tool.{b}\n")
            rp, mpp = str(d / "proj"), str(tool)

            def sc(**kw):
                arch = get_evaluable_architecture(rp, mpp, **kw)
                ns, es = rules.observe(arch, [], [])
                return sorted(ns), sorted(set(es))
            try:
                full = sc()
            except Exception as e:  # noqa: BLE001
                ctx.violation(dict(module_path=f"proj/{hid}/tool", error=type(e).__name__ + ": " + str(e)[:200]), "scan below a hidden directory failed", {"kind": "scan_error"})
                continue
            mp_dotted = "proj." + hid + ".tool"
            for k in range(0, 4):
                ctx.evaluations += 1
                ctx.stat("module_path_below_a_hidden_directory")
                try:
                    lim = sc(level_limit=k)
                except Exception as e:  # noqa: BLE001
                    ctx.violation(dict(module_path=f"proj/{hid}/tool", level_limit=k, error=type(e).__name__ + ": " + str(e)[:200]), f"scan below a hidden directory with level_limit={k} failed", {"kind": "scan_error"})
                    continue
                qn, qe = quotient(full[0], full[1], k + mp_dotted.count("."))
                if (lim[0], lim[1]) != (qn, qe):
                    ctx.violation(dict(module_path=f"proj/{hid}/tool", names=[a, b, c], level_limit=k, modules=lim[0], quotient_modules=qn,
                                       edges_surplus=sorted(set(lim[1]) - set(qe)), edges_missing=sorted(set(qe) - set(lim[1]))),
                                  f"module_path below the hidden directory {hid}: level_limit={k} is not the quotient of the full architecture", {"kind": "quotient"})
            ctx.mark_nontrivial(("hidden", hid, a, b, c))
        finally:
            shutil.rmtree(d, ignore_errors=True)


def run(ctx: Ctx):
    hidden_directory_stream(ctx, 6 if ctx.quick else 100)
    n = 160 if ctx.quick else 4000
    per = 10
    jobs = [(ctx.rng.randrange(1 << 30), per) for _ in range(n // per)]
    with Pool(NCPU) as pool:
        rs = pool.map(_job, jobs, chunksize=1)
    for r in rs:
        for case, what, tags in r.pop("known"):
            ctx.violation(case, what, tags)          # matched against known_findings.json (K1) by its tags
        rules.merge_into(ctx, r)
    ctx.stat("projects", n)
    ctx.rule = (f"{n} random projects x module_path in {{root, one directory each at 1, 2 and 3+ levels below root}} x level_limit k = 1..depth (one third of the projects additionally with a file/directory exclusion and/or externals kept): limited scan vs the quotient of the unlimited scan (names truncated to k levels below module_path, "
                "self edges dropped) and vs the model scan; C01's rule shapes over modules above the limit evaluated on both real architectures (verdict must coincide; rules with related subject/object are "
                "known finding K1); non-trivial = limit that actually merges modules")


def replay(ctx: Ctx, path: str) -> int:
    r = json.load(open(path))
    c = r["case"]
    dirs = [tuple(d) for d in c["dirs"]]
    files, sources = {}, {}
    for k, src in c["files"].items():
        t = tuple(k.split("."))
        files[t] = {"py": src is not None, "body": []}
        if src is not None:
            sources[t] = src
    base = scan.materialise(dirs, files, sources)
    try:
        mp = tuple(c["module_path"])
        full = scan.real_scan(base, dirs[0][0], mp)
        lim = scan.real_scan(base, dirs[0][0], mp, level_limit=c["level_limit"])
        bad = False
        if "spec" in c:
            spec = dict(c["spec"])
            for k in ("subj", "obj"):
                if spec.get(k) is not None:
                    spec[k] = (spec[k][0], spec[k][1])
            a = rules.run_rule(rules.build_rule(spec), full[3])
            b = rules.run_rule(rules.build_rule(spec), lim[3])
            print("full:", a[0], "limited:", b[0])
            bad = a[0] != b[0]
        else:
            qn, qe = quotient(full[1], full[2], c["level_limit"] + len(mp) - 1)
            bad = (lim[1], lim[2]) != (qn, qe)
            print("limited == quotient:", not bad)
        if bad:
            print(f"VIOLATION property=C09 replay={path}")
            return 1
        return 0
    finally:
        scan.cleanup(base)
