"""C12 — rule algebra.  Every law is evaluated directly on the real code (two or
three real assert_applies calls per instance, related modules included); a
violated instance is a replay without any model in the loop.  All evaluations
are also compared with the model."""
from __future__ import annotations

import json
import random
from multiprocessing import Pool

from harness import rules
from harness.common import Ctx, NCPU


def cls(o):
    return o[0]


def law_specs(S, O, single):
    """S, O: (kind, [names]).  Returns dict name -> spec."""
    d = {}
    for v in rules.VERBS:
        for imp in (True, False):
            for exc in (False, True):
                d[(v, imp, exc)] = dict(subj=S, verbs=[v], imp=imp, exc=exc, obj=O)
    # dual rules: B <v> be-imported-by A
    for v in ("should", "should_not"):
        d[("dual", v)] = dict(subj=O, verbs=[v], imp=False, exc=False, obj=S)
    nested = any(rules.related(x, y) for i0, x in enumerate(S[1]) for y in S[1][i0 + 1:])
    if single or (S[0] in ("named", "sub") and not nested) or S[0] == "named":
        # the alias law is not about single subjects: a batch of names (prefix siblings included) has it as well.  A list that
        # names a module together with its own sub modules stands for its top-most modules (C12_alias_anything: the explicit
        # rule is the one about drop_children Ss)
        top = (S[0], [x for x in S[1] if not any(y != x and x.startswith(y + ".") for y in S[1])])
        for imp in (True, False):
            d[("any", imp)] = dict(subj=S, verbs=["should_not"], imp=imp, anything=True)
            d[("anyx", imp)] = dict(subj=top, verbs=["should_not"], imp=imp, exc=True, obj=top)
    return d


def check_laws(out, single, tag, case, viol):
    def bad(law, detail):
        viol.append((dict(case, law=law, detail=detail), f"law {law} violated on the implementation: {detail}", {"law": law}))
    ok = lambda k: out[k][0]
    for v in ("should", "should_not"):
        if ok((v, True, False)) != ok(("dual", v)):
            bad("duality", f"{v}: import={ok((v, True, False))} be-imported-by(dual)={ok(('dual', v))}")
    for imp in (True, False):
        if single:
            for exc in (False, True):
                a, b = ok(("should", imp, exc)), ok(("should_not", imp, exc))
                if (a == "PASS") != (b == "FAIL"):
                    bad("negation" + ("_except" if exc else ""), f"imp={imp} should={a} should_not={b}")
        if ("any", imp) in out:
            a, b = out[("any", imp)], out[("anyx", imp)]
            if a[0] != b[0] or (a[0] == "FAIL" and rules.parse_message(a[1]) != rules.parse_message(b[1])):
                bad("alias_anything", f"imp={imp} anything={a[0]} except-itself={b[0]}")
        so, s, snx = ok(("should_only", imp, False)), ok(("should", imp, False)), ok(("should_not", imp, True))
        if (so == "PASS") != (s == "PASS" and snx == "PASS"):
            bad("should_only_decomposition", f"imp={imp} should_only={so} should={s} should_not_except={snx}")
        soe, se, sn = ok(("should_only", imp, True)), ok(("should", imp, True)), ok(("should_not", imp, False))
        if (soe == "PASS") != (se == "PASS" and sn == "PASS"):
            bad("should_only_except_decomposition", f"imp={imp} should_only_except={soe} should_except={se} should_not={sn}")


def check_monotone(out0, out1, case, viol):
    for imp in (True, False):
        for exc in (False, True):
            a, b = out0[("should", imp, exc)][0], out1[("should", imp, exc)][0]
            if a == "PASS" and b != "PASS":
                viol.append((dict(case, law="monotone_should", imp=imp, exc=exc), f"adding an import turned a passing should rule (imp={imp} exc={exc}) into {b}", {"law": "monotone"}))
            a, b = out0[("should_not", imp, exc)][0], out1[("should_not", imp, exc)][0]
            if a == "FAIL" and b != "FAIL":
                viol.append((dict(case, law="monotone_should_not", imp=imp, exc=exc), f"adding an import turned a failing should_not rule (imp={imp} exc={exc}) into {b}", {"law": "monotone"}))


def _job(args):
    seed, n, mode = args
    rng = random.Random(seed)
    cases, metas = [], []
    stats_regex_conforming = [0]
    while len(cases) < 2 * n:
        large = rng.random() < 0.1          # now and then beyond hand-written sizes
        pool = rules.LARGE_POOL if large else rng.choice((rules.COLLISION_FREE, rules.ADVERSARIAL))
        nodes = rules.rand_tree(rng, pool, max_nodes=rng.choice([25, 40]), max_depth=7) if large else rules.rand_tree(rng, pool, max_nodes=rng.choice([5, 8, 12]))
        if mode == "scan":
            inner = {x for x in nodes if any(m.startswith(x + ".") for m in nodes)}
            srcs = [x for x in nodes if x not in inner]
        else:
            srcs = nodes
        E = set()
        for _ in range(rng.randint(0, 25 if large else 8)):
            a, b = rng.choice(srcs), rng.choice(nodes)
            if a != b:
                E.add((a, b))
        edges = sorted(E)
        single = rng.random() < 0.5
        cand = nodes if rng.random() < 0.2 else [x for x in nodes if x != "r"]
        if len(cand) < 2:
            continue
        if single:
            S = (rng.choice(["named", "sub"]), [rng.choice(cand)])
            O = (rng.choice(["named", "sub"]), [rng.choice(cand)])
        else:
            fp = rules.pick_filters(rng, nodes, strict=rng.random() < 0.4, kmax=6 if large else 3)
            if fp is None:
                continue
            S, O = fp
            if rng.random() < 0.2:
                # a side given by a regex (prefix match: a module together with its sub modules, siblings sharing the prefix)
                import re as _re
                stem = rng.choice(cand)
                rx = ("regex", [rng.choice([_re.escape(stem), _re.escape(stem) + r"(\..*)?$", _re.escape(stem) + ".*"])])
                if rng.random() < 0.5:
                    S = rx
                else:
                    O = rx
        if rng.random() < 0.15:
            # decomposition laws need a passing 'should': a regex side matching a module together with its sub modules, every
            # match importing (imported by) the other side, plus imports that stay INSIDE the outer match / go elsewhere
            import re as _re
            stems = [x for x in cand if any(m.startswith(x + ".") for m in nodes)]
            others = [x for x in cand if stems and not rules.related(x, stems[0])]
            if stems and others:
                stem = rng.choice(stems)
                others = [x for x in cand if not rules.related(x, stem)]
                if others:
                    o = rng.choice(others)
                    rxs = _re.escape(stem) + rng.choice([".*", r"(\..*)?$"])
                    matched = [m for m in nodes if _re.match(rxs, m)]
                    fwd = rng.random() < 0.5
                    E = set()
                    for m in matched:
                        src_pool = [x for x in srcs if x == m or x.startswith(m + ".")] or [m]
                        a_, b_ = rng.choice(src_pool), o
                        if not fwd:
                            a_, b_ = rng.choice([x for x in srcs if x == o or x.startswith(o + ".")] or [o]), m
                        if a_ in srcs:
                            E.add((a_, b_))
                    inside = [x for x in nodes if x.startswith(stem + ".")]
                    for _ in range(rng.randint(0, 2)):
                        a_, b_ = rng.choice(inside), rng.choice(inside + [stem])
                        if a_ != b_ and a_ in srcs and not rules.related(a_, b_):
                            E.add((a_, b_))
                    if rng.random() < 0.3:
                        a_, b_ = rng.choice(srcs), rng.choice(nodes)
                        if a_ != b_:
                            E.add((a_, b_))
                    edges = sorted(E)
                    single = False
                    S, O = (("regex", [rxs]), ("named", [o])) if fwd else (("named", [o]), ("regex", [rxs]))
                    stats_regex_conforming[0] += 1
        d = law_specs(S, O, single)
        keys = list(d)
        # an extra import between two distinct nodes that are not a hierarchy pair
        for _ in range(10):
            a, b = rng.choice(srcs), rng.choice(nodes)
            if a != b and not (b.startswith(a + ".") and b.count(".") == a.count(".") + 1) and (a, b) not in E:
                break
        else:
            continue
        specs = [d[k] for k in keys]
        cases.append(dict(nodes=nodes, edges=edges, specs=specs, mode=mode))
        cases.append(dict(nodes=nodes, edges=sorted(E | {(a, b)}), specs=specs, mode=mode))
        metas.append((keys, single, (a, b)))
    res = rules.eval_cases(cases)
    viol, disag, stats = [], [], {"regex_side_with_nested_matches_and_passing_should": stats_regex_conforming[0]}
    n_eval = 0
    nontriv = 0
    pairs = []
    for i, (keys, single, extra) in enumerate(metas):
        outs = []
        for j in (0, 1):
            c = cases[2 * i + j]
            rec, w, m = res[2 * i + j]
            out = {}
            for k, spec, (io, mo) in zip(keys, c["specs"], rec):
                out[k] = io
                n_eval += 1
                stats["impl_" + io[0]] = stats.get("impl_" + io[0], 0) + 1
                if not rules.same_verdict(io, mo) or not rules.same_lines(io, mo):
                    disag.append((dict(nodes=c["nodes"], edges=c["edges"], spec=rules._jsonable_spec(spec), mode=c.get("mode"), impl=[io[0], io[1][:300]], model=[mo[0], rules._jsonable_lines(mo[1])]),
                                  f"model and implementation differ: impl={io[0]} model={mo[0]} {rules.spec_key(spec)}"))
            case = dict(nodes=c["nodes"], edges=c["edges"], subj=c["specs"][0]["subj"], obj=c["specs"][0]["obj"], mode=c.get("mode"))
            check_laws(out, single, None, case, viol)
            outs.append(out)
            if len({o[0] for o in out.values()}) > 1:
                nontriv += 1
            if len(pairs) < 1:
                pairs.append(([10, [w[1][0], w[1][1], w[1][2][:14]]], m[:14]))
        c0 = cases[2 * i]
        check_monotone(outs[0], outs[1], dict(nodes=c0["nodes"], edges=c0["edges"], added=list(extra), subj=c0["specs"][0]["subj"], obj=c0["specs"][0]["obj"], mode=c0.get("mode")), viol)
        stats["single" if single else "batch"] = stats.get("single" if single else "batch", 0) + 1
    sample = dict(nodes=cases[0]["nodes"], edges=cases[0]["edges"], subj=cases[0]["specs"][0]["subj"], obj=cases[0]["specs"][0]["obj"])
    return dict(n=n_eval, nontrivial=nontriv, stats=stats, violations=viol, disagreements=disag, pairs=pairs, samples=[sample])


def source_level_monotonicity(ctx: Ctx, n: int):
    """Monotonicity at the level of source files: a project, and the same project with ONE import statement appended to one
    file (any form: import a.b, from a import b, from a.b import name, star, relative).  Every import edge of the first scan
    must still be there, so every 'x should import y' that passed still passes and every 'x should not import y' that failed
    still fails - evaluated on the real code for each edge of the first scan."""
    from harness import scan
    for it in range(n):
        rng = ctx.rng
        root, dirs, files = scan.gen_tree(rng, max_depth=4)
        scan.gen_imports(rng, dirs, files, nested=True)
        pyfiles = [f for f, v in files.items() if v["py"]]
        if not pyfiles:
            continue
        mods = list(dirs) + pyfiles
        f = rng.choice(pyfiles)
        stmt = scan.gen_import_stmt(rng, f, mods)
        if rng.random() < 0.5 and files[f]["body"]:
            # same imported name as an existing from-import of this file, taken from another module
            prev = [s0 for s0 in files[f]["body"] if s0[0] == "from" and s0[1] == 0]
            if prev:
                others = [m for m in mods if len(m) >= 2 and scan.dotted(m[:-1]) != prev[0][2]]
                if others:
                    stmt = ("from", 0, scan.dotted(rng.choice(others)[:-1]), list(prev[0][3]))
        files2 = {k: dict(v, body=list(v["body"])) for k, v in files.items()}
        files2[f]["body"].append(stmt)
        b1, b2 = scan.materialise(dirs, files), scan.materialise(dirs, files2)
        try:
            r1, r2 = scan.real_scan(b1, root, (root,)), scan.real_scan(b2, root, (root,))
            ctx.evaluations += 2
            if r1[0] != "OK" or r2[0] != "OK":
                continue
            lost = sorted(set(r1[2]) - set(r2[2]))
            for (a, b) in lost[:3]:
                spec = dict(subj=("named", [a]), verbs=["should"], imp=True, exc=False, obj=("named", [b]))
                o1 = rules.run_rule(rules.build_rule(spec), r1[3])
                o2 = rules.run_rule(rules.build_rule(spec), r2[3])
                ctx.evaluations += 2
                if o1[0] == "PASS" and o2[0] != "PASS":
                    ctx.violation(dict(dirs=[list(d) for d in dirs], file=scan.dotted(f), source_before=scan.render_v(files[f]), appended=scan.render_stmt(stmt)[0],
                                       rule=f"{a} should import {b}", before=o1[0], after=o2[0]),
                                  f"appending '{scan.render_stmt(stmt)[0]}' to {scan.dotted(f)} turned the passing rule '{a} should import {b}' into {o2[0]}", {"law": "monotone", "kind": "source"})
                    break
            if r1[2]:
                ctx.mark_nontrivial(("srcmono", it))
        finally:
            scan.cleanup(b1)
            scan.cleanup(b2)


def run(ctx: Ctx):
    from harness.props import c01 as _c01
    _c01.interpreter_flags(ctx, 8 if ctx.quick else 80)      # the laws are laws of ONE evaluator: it must be the same with and without -O
    source_level_monotonicity(ctx, 120 if ctx.quick else 3000)
    n_graphs = 2000 if ctx.quick else 40000
    per = 50
    jobs = [(ctx.rng.randrange(1 << 30), per, "scan" if i % 4 == 3 else "direct") for i in range(n_graphs // per)]
    with Pool(NCPU) as pool:
        rs = pool.map(_job, jobs, chunksize=1)
    for r in rs:
        rules.merge_into(ctx, r)
    ctx.stat("graphs", n_graphs)
    ctx.rule = (f"{n_graphs} random graphs (trees <=13 nodes, collision-free and adversarial names, 1/4 scanned from real file trees whose imports are written 'import a.b' or 'from a import b'), each with one "
                "subject/object pick (single or batch; related modules allowed, root included sometimes) and one extra import; all laws "
                "(duality, negation, negation_except, both decompositions, alias, 4 monotonicity laws) evaluated on the real code, every evaluation also compared with the model; monotonicity also at source level (one import statement of any form appended to one file of a scanned project: "
                "every rule 'x should import y' for an import of the first scan still passes); "
                "non-trivial = graph on which the rule shapes give different verdicts")


def replay(ctx: Ctx, path: str) -> int:
    r = json.load(open(path))
    c = r["case"]
    S = (c["subj"][0], c["subj"][1])
    O = (c["obj"][0], c["obj"][1])
    single = len(S[1]) == 1 and len(O[1]) == 1
    d = law_specs(S, O, single)
    keys = list(d)
    edges = [tuple(e) for e in c["edges"]]
    cases = [dict(nodes=c["nodes"], edges=edges, specs=[d[k] for k in keys], mode=c.get("mode") or "direct")]
    if c.get("added"):
        cases.append(dict(nodes=c["nodes"], edges=sorted(set(edges) | {tuple(c["added"])}), specs=[d[k] for k in keys], mode=c.get("mode") or "direct"))
    res = rules.eval_cases(cases)
    viol = []
    outs = []
    for (rec, w, m) in res:
        out = {k: io for k, (io, mo) in zip(keys, rec)}
        check_laws(out, single, None, {}, viol)
        outs.append(out)
    if len(outs) == 2:
        check_monotone(outs[0], outs[1], {}, viol)
    for v in viol:
        print(v[1])
    if viol:
        print(f"VIOLATION property=C12 replay={path}")
        return 1
    return 0
