"""C07 — DiagramRule passes exactly when the imports conform to the diagram."""
from __future__ import annotations

import json
import random
from multiprocessing import Pool
from pathlib import Path

from harness import common, rules
from harness.common import Ctx, NCPU

COMP_NAMES = ["a", "ab", "b", "core", "api", "x1", "ui", "db", "m2", "m10", "svc_\u00e9", "cache", "auth", "z",
              "lib.core", "lib.util", "deep.er.mod", "ext.v1.client"]      # components that are themselves dotted (below the base module)


def denote(nodes, comp):
    return {m for m in nodes if m == comp or m.startswith(comp + ".")}


def conforms(nodes, edges, comps, rel, only):
    """Documented conformance: -> (ok, reason)."""
    E = {(a, b) for (a, b) in edges if not (b.startswith(a + ".") and b.count(".") == a.count(".") + 1)}
    D = {c: denote(nodes, c) for c in comps}
    for a in comps:
        for b in comps:
            if a == b:
                continue
            has = any(s in D[a] and t in D[b] for (s, t) in E)
            drawn = (a, b) in rel
            if has != drawn:
                return False, f"{a}->{b}: imports={has} drawn={drawn}"
    if only:
        for a in comps:
            tg = [b for (x, b) in rel if x == a]
            if not tg:
                continue
            allowed = D[a].union(*[D[b] for b in tg])
            for (s, t) in E:
                if s in D[a] and t not in allowed:
                    return False, f"{a} imports {t} outside its drawn targets"
    return True, ""


def gen_case(rng):
    k = rng.randint(7, min(12, len(COMP_NAMES))) if rng.random() < 0.12 else rng.randint(2, 6)      # now and then a large diagram
    comps_short = rng.sample(COMP_NAMES, k)
    base = rng.choice(["r", "r.pkg"])
    comps = [base + "." + c for c in comps_short]
    nodes = {"r"}
    for p in base.split("."):
        pass
    parts = base.split(".")
    for i in range(1, len(parts) + 1):
        nodes.add(".".join(parts[:i]))
    nodes.update(comps)
    for c in comps:
        parts_c = c.split(".")
        for i in range(1, len(parts_c)):
            nodes.add(".".join(parts_c[:i]))          # the packages a dotted component lies in
    for c in comps:
        for _ in range(rng.randint(0, 2)):
            nodes.add(c + "." + rng.choice(["m", "n", "sub"]))
    for _ in range(rng.randint(0, 2)):
        nodes.add(base + "." + rng.choice(["bystander", "other", "zz"]))
    nodes = sorted(nodes)
    rel = set()
    for _ in range(rng.randint(1, 7) if k <= 6 else rng.randint(8, 20)):
        a, b = rng.choice(comps), rng.choice(comps)
        if a != b:
            rel.add((a, b))
    # imports: start from a conforming realisation, then perturb a little so that both verdicts occur
    E = set()
    for (a, b) in sorted(rel):
        E.add((rng.choice(sorted(denote(nodes, a))), rng.choice(sorted(denote(nodes, b)))))
    r = rng.random()
    if r < 0.25 and E:
        E.discard(rng.choice(sorted(E)))
    elif r < 0.5:
        a, b = rng.choice(nodes), rng.choice(nodes)
        if a != b:
            E.add((a, b))
    elif r < 0.6:
        a = rng.choice(comps)
        E.add((rng.choice(sorted(denote(nodes, a))), rng.choice([n for n in nodes if "bystander" in n or "other" in n or n == "r"] or nodes)))
    elif r < 0.78 and rel:
        # one component violating two pairwise rules at once: a drawn arrow it does not fulfil AND an import of a component it has
        # no arrow to (both messages have to be in the aggregated error, in either mode)
        a, b = rng.choice(sorted(rel))
        E = {(x, y) for (x, y) in E if not ((x == a or x.startswith(a + ".")) and (y == b or y.startswith(b + ".")))}
        others = [c for c in comps if c != a and (a, c) not in rel]
        if others:
            c2 = rng.choice(others)
            E.add((rng.choice(sorted(denote(nodes, a))), rng.choice(sorted(denote(nodes, c2)))))
    E = {(a, b) for a, b in E if a != b}
    return dict(base=base, comps=comps, short=comps_short, nodes=nodes, edges=sorted(E), rel=sorted(rel))


def write_puml(d, name, comps, rel, rng):
    lines = []
    for c in comps:
        if rng.random() < 0.6:
            lines.append(f"[{c}]")
    for a, b in rel:
        lines.append(rng.choice([f"[{a}] --> [{b}]", f"[{b}] <-- [{a}]", f"[{a}] -> [{b}]"]))
    rng.shuffle(lines)
    eol = "\n"
    if rng.random() < 0.3:
        # the same diagram laid out differently: indentation, trailing blanks, tabs between tokens, CRLF line ends
        lines = [rng.choice(["", "  ", "\t"]) + l.replace(" ", rng.choice([" ", "  ", "\t"])) + rng.choice(["", " ", "\t"]) for l in lines]
        eol = rng.choice(["\n", "\r\n"])
    p = Path(d) / name
    before = after = ""
    if rng.random() < 0.25 and len(comps) >= 2:
        # text outside the tags is ignored - also when it looks like a declaration or an arrow between this diagram's own components
        a0, b0 = rng.sample(list(comps), 2)
        outside = [f"[{b0}] --> [{a0}]", f"[{a0}] <-- [{b0}]", "[zz_outside] --> [" + a0 + "]", "[zz_outside]", "Legend: " + a0 + " -> " + b0]
        before = eol.join(rng.sample(outside, rng.randint(0, 2)))
        after = eol.join(rng.sample(outside, rng.randint(1, 2)))
        before = before + eol if before else ""
        after = after + eol
    with open(p, "w", encoding="utf-8", newline="") as fh:
        fh.write(before + "@startuml" + eol + eol.join(lines) + eol + "@enduml" + eol + after)
    return p


def _job(args):
    from pytestarch import DiagramRule
    seed, n = args
    rng = random.Random(seed)
    out = dict(n=0, nontrivial=0, stats={}, violations=[], disagreements=[], pairs=[], samples=[])
    d = common.scratch_dir()
    try:
        wire, metas = [], []
        for i in range(n):
            c = gen_case(rng)
            lim = None
            if rng.random() < 0.1:
                # DiagramRule on a LEVEL-LIMITED architecture whose limited view is the generated graph
                n2, e2, lim = rules.refine_for_limit(rng, c["nodes"], c["edges"])
                arch = rules.make_arch_direct(n2, e2, lim)
                c["graph_for_model"] = (n2, e2, lim)
                obs_n, obs_e = rules.observe(arch, [], [])
                c["edges"] = sorted(set(obs_e))             # the oracle judges the architecture's own (limited) import relation
                out["stats"]["level_limited"] = out["stats"].get("level_limited", 0) + 1
            else:
                arch = rules.make_arch_direct(c["nodes"], c["edges"])
            # components mentioned nowhere in the relation are only in the diagram if declared: declare all
            verdicts = set()
            for only in (True, False):
                short_rel = [(a[len(c["base"]) + 1:], b[len(c["base"]) + 1:]) for a, b in c["rel"]]
                p_short = write_puml(d, f"s{i}.puml", c["short"], short_rel, random.Random(seed * 7 + i))
                p_full = write_puml(d, f"f{i}.puml", c["comps"], c["rel"], random.Random(seed * 7 + i))
                # force every component to be declared so that the diagram's component set is known
                for p, names in ((p_short, c["short"]), (p_full, c["comps"])):
                    txt = p.read_text().replace("@startuml\n", "@startuml\n" + "".join(f"component [{x}]\n" for x in names))
                    p.write_text(txt)
                # the documented default is the should-only mode: half of those rules are built with the bare constructor
                mk = (lambda: DiagramRule()) if only and i % 2 == 0 else (lambda: DiagramRule(should_only_rule=only))
                r1 = rules.run_rule(mk().from_file(p_short).with_base_module(c["base"]), arch)
                r2 = rules.run_rule(mk().from_file(p_full).base_module_included_in_module_names(), arch)
                out["n"] += 2
                ok, why = conforms(c["nodes"], c["edges"], c["comps"], set(map(tuple, c["rel"])), only)
                case = dict(nodes=c["nodes"], edges=c["edges"], components=c["comps"], relation=c["rel"], should_only=only, base_module=c["base"],
                            impl_with_base=[r1[0], r1[1][:300]], impl_full_names=[r2[0], r2[1][:300]], documented="pass" if ok else "fail: " + why)
                verdicts.add(r1[0])
                if r1[0] == "ERR" or (r1[0] == "PASS") != ok:
                    out["violations"].append((case, f"DiagramRule (should_only={only}) gives {r1[0]} but the imports {'conform' if ok else 'do not conform'} to the diagram ({why})", {"kind": "conformance"}))
                    continue
                if r1[0] != r2[0] or (r1[0] == "FAIL" and rules.parse_message(r1[1]) != rules.parse_message(r2[1])):
                    out["violations"].append((case, "with_base_module(p) differs from writing every component as p.name", {"kind": "base_module"}))
                    continue
                # aggregation: every violated pairwise rule's lines are in the aggregated message
                if r1[0] == "FAIL":
                    agg = rules.parse_message(r1[1]) or frozenset()
                    comps = c["comps"]
                    relset = set(map(tuple, c["rel"]))
                    for a in comps:
                        tg = [b for (x, b) in c["rel"] if x == a]
                        singles = []
                        if tg:
                            singles.append(dict(subj=("named", [a]), verbs=["should_only" if only else "should"], imp=True, exc=False, obj=("named", tg)))
                        nt = [b for b in comps if b != a and (a, b) not in relset]
                        if nt:
                            singles.append(dict(subj=("named", [a]), verbs=["should_not"], imp=True, exc=False, obj=("named", nt)))
                        for spec in singles:
                            o = rules.run_rule(rules.build_rule(spec), arch)
                            out["n"] += 1
                            if o[0] == "FAIL" and not (rules.parse_message(o[1]) or frozenset()) <= agg:
                                out["violations"].append((dict(case, single_rule=rules._jsonable_spec(spec), single_message=o[1][:300]),
                                                          "the aggregated error does not contain the message of a violated pairwise rule", {"kind": "aggregation"}))
                enc = rules.Enc()
                w = [22, [enc.graph_built(*c["graph_for_model"]) if c.get("graph_for_model") else enc.graph_built(c["nodes"], c["edges"]), only, [], [enc.name(x) for x in c["comps"]], [[enc.name(a), enc.name(b)] for a, b in c["rel"]]]]
                wire.append(w)
                metas.append((enc, r2, case))
            if c["rel"] and c["edges"]:
                out["nontrivial"] += 1
        res = common.model_run(wire)
        wres = common.model_run([[36, w[1]] for w in wire])      # fn 36: every generated rule evaluated over the worklist loops
        for (enc, r, case), w, m, mw in zip(metas, wire, res, wres):
            mo = enc.dec_outcome(m)
            if mw == [9] or mw is None or enc.dec_outcome(mw) != mo:
                mo = ("ERR", "model: worklist evaluation differs from comprehension evaluation (or ran out of fuel)")
            if not rules.same_verdict(r, mo) or not rules.same_lines(r, mo):
                out["disagreements"].append((dict(case, model=[mo[0], rules._jsonable_lines(mo[1])]), "model and implementation differ on a diagram rule"))
        out["pairs"].append((wire[0], res[0]))
        out["samples"].append(dict(components=metas[0][2]["components"], relation=metas[0][2]["relation"], edges=metas[0][2]["edges"]))
    finally:
        import shutil
        shutil.rmtree(d, ignore_errors=True)
    return out


def hidden_source_stream(ctx, n):
    """Scanned projects in which the import that decides a pairwise diagram rule is written in a file below a hidden directory
    (a/.generated/stub.py) or in a dot-file (a/.gen.py) of the importing component: all python files under module_path are
    scanned, so that import belongs to component a like any other."""
    import shutil
    from pytestarch import DiagramRule, get_evaluable_architecture
    for it in range(n):
        rng = ctx.rng
        a, b, c = rng.sample(["a", "ab", "b", "c", "core", "ui"], 3)
        hidden_dir = rng.random() < 0.6
        d = common.scratch_dir()
        try:
            pkg = d / "pkg"
            for x in (a, b, c):
                (pkg / x).mkdir(parents=True)
                (pkg / x / "m.py").write_text("")
            where = (pkg / a / ".generated" / "stub.py") if hidden_dir else (pkg / a / ".gen.py")
            where.parent.mkdir(parents=True, exist_ok=True)
            puml = d / "d.puml"
            puml.write_text(f"@startuml\n[{a}] --> [{c}]\n[{b}]\n@enduml\n")
            for scenario in ("forbidden import hidden", "required import hidden"):
                if scenario == "forbidden import hidden":
                    (pkg / a / "m.py").write_text(f"import pkg.{c}.m\n")
                    where.write_text(f"import pkg.{b}.m\n")
                    want = {True: "FAIL", False: "FAIL"}          # a imports b although no arrow is drawn: a violation in both modes
                else:
                    (pkg / a / "m.py").write_text("")
                    where.write_text(f"from pkg.{c} import m\n")
                    want = {True: "PASS", False: "PASS"}
                arch = get_evaluable_architecture(str(pkg), str(pkg))
                for only in (True, False):
                    io = rules.run_rule(DiagramRule(should_only_rule=only).from_file(puml).with_base_module("pkg"), arch)
                    ctx.evaluations += 1
                    ctx.stat("deciding_import_in_a_hidden_directory_or_dot_file")
                    if io[0] != want[only]:
                        ctx.violation(dict(components=[a, b, c], diagram=f"[{a}] --> [{c}]; [{b}]", hidden=str(where.relative_to(d)), scenario=scenario, should_only=only, result=[io[0], io[1][:300]], documented=want[only]),
                                      f"DiagramRule (should_only={only}) gives {io[0]}, documented {want[only]}: the deciding import is written in {where.relative_to(pkg)}", {"kind": "conformance_hidden_source"})
            ctx.mark_nontrivial(("hidden_source", a, b, c, hidden_dir))
        finally:
            shutil.rmtree(d, ignore_errors=True)


def run(ctx: Ctx):
    hidden_source_stream(ctx, 6 if ctx.quick else 100)
    n = 1500 if ctx.quick else 40000
    per = 50
    jobs = [(ctx.rng.randrange(1 << 30), per) for _ in range(n // per)]
    with Pool(NCPU) as pool:
        rs = pool.map(_job, jobs, chunksize=1)
    for r in rs:
        rules.merge_into(ctx, r)
    ctx.stat("diagrams", n)
    ctx.rule = (f"{n} random component relations over 2-6 components (sibling names that are string prefixes included) x import graphs over the components, their sub modules and bystander modules, "
                "biased to near-conforming so that both verdicts occur x both modes (should-only / should) x both naming options (with_base_module vs fully qualified names), diagrams written as real .puml files; "
                "verdict vs the documented conformance (python oracle), aggregated message vs each violated pairwise rule, base-module option vs explicit prefixing, everything vs the model; "
                "non-trivial = case with at least one arrow and at least one import")


def replay(ctx: Ctx, path: str) -> int:
    from pytestarch import DiagramRule
    r = json.load(open(path))
    c = r["case"]
    d = common.scratch_dir()
    try:
        arch = rules.make_arch_direct(c["nodes"], [tuple(e) for e in c["edges"]])
        p = Path(d) / "x.puml"
        p.write_text("@startuml\n" + "".join(f"component [{x}]\n" for x in c["components"]) + "".join(f"[{a}] --> [{b}]\n" for a, b in c["relation"]) + "@enduml\n")
        o = rules.run_rule(DiagramRule(should_only_rule=c["should_only"]).from_file(p).base_module_included_in_module_names(), arch)
        ok, why = conforms(c["nodes"], [tuple(e) for e in c["edges"]], c["components"], set(map(tuple, c["relation"])), c["should_only"])
        print(o[0], "documented:", "pass" if ok else "fail " + why)
        if o[0] == "ERR" or (o[0] == "PASS") != ok:
            print(f"VIOLATION property=C07 replay={path}")
            return 1
        return 0
    finally:
        import shutil
        shutil.rmtree(d, ignore_errors=True)
