"""C15 — purity, order/history/hash-seed independence: the runtime part, by execution.
Any difference is a concrete replay (history + seed)."""
from __future__ import annotations

import itertools
import json
import os
import random
import re
import subprocess
import sys
from multiprocessing import Pool
from pathlib import Path

from harness import common, layers, rules
from harness.common import Ctx, NCPU, VERIF
from harness.props import c05


def snapshot(arch):
    nx = rules.nx_of(arch)
    # the edge attributes as they are (whatever they are called): only ever compared between two runs of the same code
    return (tuple(arch.modules), tuple(sorted((a, b, rules.is_hierarchy_pair(a, b), repr(sorted(dt.items()))) for a, b, dt in nx.edges(data=True))))


def _history_job(args):
    seed, n = args
    rng = random.Random(seed)
    viol = []
    n_eval = nontriv = 0
    stats = {}
    sample = None
    for it in range(n):
        large = it % 10 == 7
        nodes = rules.rand_tree(rng, rules.LARGE_POOL, max_nodes=35, max_depth=7) if large else rules.rand_tree(rng, rng.choice((rules.COLLISION_FREE, rules.ADVERSARIAL)), max_nodes=10)
        edges = rules.rand_edges(rng, nodes, 25 if large else 8)
        mode = "scan" if it % 4 == 0 else "direct"
        if mode == "scan":
            inner = {x for x in nodes if any(m.startswith(x + ".") for m in nodes)}
            edges = [(a, b) for a, b in edges if a not in inner]
        mk = (lambda: rules.make_arch_scan(nodes, edges)) if mode == "scan" else (lambda: rules.make_arch_direct(nodes, edges))
        # the pool of evaluations: module rules, layer rules
        pool = []
        fp = rules.pick_filters(rng, nodes, strict=rng.random() < 0.5, kmax=5 if large else 3)
        if fp is not None:
            for spec in rules.all_shapes(*fp):
                pool.append(("rule", spec))
        c = None
        for _ in range(5):
            c = c05.gen_case(random.Random(rng.randrange(1 << 30)))
            if c is not None:
                break
        if c is not None:
            # layer rules over this graph's own modules
            cand = [x for x in nodes if x != "r"]
            chosen = []
            for x in cand:
                if not any(rules.related(x, y) for y in chosen):
                    chosen.append(x)
            if len(chosen) >= 2:
                half = len(chosen) // 2
                cc = dict(arch_calls=[("A", "list", chosen[:half]), ("B", "list", chosen[half:])], subj="A", objs=["B"], obj_as_str=False)
                hs, _ = c05.histories(cc)
                for hh in hs:
                    pool.append(("layer", hh))
        if not pool:
            continue

        def evaluate(item, arch, obj=None):
            if item[0] == "rule":
                r = obj if obj is not None else rules.build_rule(item[1])
                return rules.run_rule(r, arch), r
            return layers.run_lr_impl(item[1], arch), None
        ref = [evaluate(p, mk())[0] for p in pool]          # each alone on a fresh architecture
        shared = mk()
        before = snapshot(shared)
        order = [rng.randrange(len(pool)) for _ in range(40)]
        for step, i in enumerate(order):
            out, _ = evaluate(pool[i], shared)
            n_eval += 1
            if out != ref[i]:
                viol.append((dict(nodes=nodes, edges=edges, mode=mode, history=[pool[j][0] + ":" + str(rules.spec_key(pool[j][1]) if pool[j][0] == "rule" else j) for j in order[:step + 1]],
                                  alone=[ref[i][0], ref[i][1][:200]], in_history=[out[0], out[1][:200]]),
                             f"evaluation #{step} gives {out[0]} after a history of evaluations but {ref[i][0]} alone", {"kind": "history"}))
                break
        after = snapshot(shared)
        if before != after:
            viol.append((dict(nodes=nodes, edges=edges, mode=mode, before=str(before)[:300], after=str(after)[:300]), "evaluating rules changed the evaluable architecture", {"kind": "purity"}))
        # the same rule object re-applied, and applied to a second architecture
        other = rules.make_arch_direct(nodes, edges[: len(edges) // 2])
        for p in pool[:14]:
            if p[0] != "rule":
                continue
            o1, robj = evaluate(p, shared)
            o2, _ = evaluate(p, shared, robj)
            o3, _ = evaluate(p, other, robj)
            o3_fresh, _ = evaluate(p, other)
            n_eval += 3
            if o1 != o2 or o3 != o3_fresh:
                viol.append((dict(nodes=nodes, edges=edges, spec=rules._jsonable_spec(p[1]), first=o1[0], second=o2[0], other_arch=o3[0], other_arch_fresh=o3_fresh[0]),
                             "re-applying the same rule object gives a different outcome", {"kind": "reapply"}))
        # rule objects whose subject / object is a regex or partial name, applied to architectures in which the pattern
        # matches different modules (or nothing): each evaluation must equal that of a fresh rule object
        rx_nodes = [x for x in nodes if x != "r"]
        if len(rx_nodes) >= 3:
            stem = rng.choice(rx_nodes)
            pat = re.escape(stem) + (".*" if rng.random() < 0.7 else r"(\..*)?$")
            other_nodes = [x for x in nodes if not re.match(pat, x)] or ["r"]
            third_nodes = [x for x in nodes if x != stem]
            archs = [shared, rules.make_arch_direct(other_nodes, [(a, b) for a, b in edges if a in other_nodes and b in other_nodes]),
                     rules.make_arch_direct(third_nodes, [(a, b) for a, b in edges if a in third_nodes and b in third_nodes]), shared]
            plain = rng.choice([x for x in rx_nodes if x != stem])
            for spec in rules.all_shapes(("regex", [pat]), ("named", [plain]), with_aliases=True)[:14:3] + rules.all_shapes(("named", [plain]), ("regex", [pat]), with_aliases=False)[::4]:
                try:
                    robj = rules.build_rule(spec)
                except Exception:  # noqa: BLE001
                    continue
                for k_a, a_ in enumerate(archs):
                    got = rules.run_rule(robj, a_)
                    fresh = rules.run_rule(rules.build_rule(spec), a_)
                    n_eval += 2
                    if got != fresh:
                        viol.append((dict(nodes=nodes, edges=edges, pattern=pat, spec=rules._jsonable_spec(spec), architecture_index=k_a, reused=got[0], fresh=fresh[0]),
                                     f"a rule object with a regex, re-applied to architecture #{k_a}, gives {got[0]}; a fresh rule object gives {fresh[0]}", {"kind": "reapply_regex"}))
                        break
        # permutations of list-valued arguments (all 12 shapes and the two aliases; also a parent listed with its own sub module)
        perm_inputs = []
        if fp is not None:
            perm_inputs.append(fp)
        nested = [(a, b) for a in nodes for b in nodes if a != "r" and b.startswith(a + ".")]
        if nested:
            a, b = rng.choice(nested)
            others = [x for x in nodes if x not in (a, b, "r")]
            perm_inputs.append(((rng.choice(["named", "sub"]), [b, a] + others[:1]), (rng.choice(["named", "sub"]), others[1:2] or [a])))
        for fpx in perm_inputs:
            (sk, S), (ok, O) = fpx
            for spec in rules.all_shapes(*fpx):
                base = rules.run_rule(rules.build_rule(spec), shared)
                for Sp in list(itertools.permutations(S))[:6]:
                    for Op in list(itertools.permutations(O))[:6]:
                        s2 = dict(spec, subj=(sk, list(Sp) + [Sp[0]]))
                        if spec.get("obj") is not None:
                            s2["obj"] = (ok, list(Op))
                        out = rules.run_rule(rules.build_rule(s2), shared)
                        n_eval += 1
                        if out != base:
                            viol.append((dict(nodes=nodes, edges=edges, spec=rules._jsonable_spec(spec), permuted=rules._jsonable_spec(s2), base=base[0], permuted_outcome=out[0]),
                                         "outcome depends on the order/duplication of listed subjects or objects", {"kind": "permutation"}))
        if len({r[0] for r in ref}) > 1:
            nontriv += 1
        stats[mode] = stats.get(mode, 0) + 1
        if sample is None:
            sample = dict(nodes=nodes, edges=edges, pool_size=len(pool), history_length=40)
    return dict(n=n_eval, nontrivial=nontriv, stats=stats, violations=viol, disagreements=[], pairs=[], samples=[sample] if sample else [])


def shared_layered_architecture(ctx, n):
    """One LayeredArchitecture object used by many LayerRules (the documented usage): every rule must give the outcome it
    gives with a freshly defined architecture, and str(architecture) must not change."""
    for it in range(n):
        rng = ctx.rng
        c = None
        for _ in range(10):
            c = c05.gen_case(random.Random(rng.randrange(1 << 30)))
            if c is not None and len(c["arch_calls"]) >= 3:
                break
        if c is None or len(c["arch_calls"]) < 3:
            continue
        names = [a for a, _, _ in c["arch_calls"]]
        hist_pool = []
        for subj in names:
            others = [x for x in names if x != subj]
            for objs in ([others[0]], others[:2], list(reversed(others[:2])), others):
                cc = dict(arch_calls=c["arch_calls"], subj=subj, objs=list(objs), obj_as_str=False)
                hs, _ = c05.histories(cc)
                hist_pool.extend(hs)
        arch = rules.make_arch_direct(c["nodes"], c["edges"])
        shared = layers.build_arch(c["arch_calls"])
        text0 = str(shared)
        picks = [rng.randrange(len(hist_pool)) for _ in range(25)]
        for step, i in enumerate(picks):
            alone = layers.run_lr_impl(hist_pool[i], arch)
            got = layers.run_lr_impl(hist_pool[i], arch, shared_layered_arch=shared)
            ctx.evaluations += 2
            if got != alone:
                ctx.violation(dict(nodes=c["nodes"], edges=c["edges"], layers=[list(x) for x in c["arch_calls"]], step=step,
                                   rule=[list(x) if isinstance(x, tuple) else x for x in hist_pool[i][1:]], alone=alone[0], shared=got[0]),
                              f"layer rule #{step} on a LayeredArchitecture object used by earlier rules gives {got[0]}, with a freshly defined architecture {alone[0]}", {"kind": "shared_layered_architecture"})
                break
        if str(shared) != text0:
            ctx.violation(dict(layers=[list(x) for x in c["arch_calls"]], before=text0[:300], after=str(shared)[:300]),
                          "evaluating layer rules changed the LayeredArchitecture object", {"kind": "purity"})
        ctx.mark_nontrivial(("sharedla", it))


def reused_layer_and_diagram_rules(ctx, n):
    """LayerRule and DiagramRule objects applied to several architectures, interleaved with other rule objects: each
    evaluation must equal that of a freshly built rule object."""
    from pytestarch import DiagramRule
    from harness.props import c07
    d = common.scratch_dir()
    try:
        for it in range(n):
            rng = ctx.rng
            # ---- LayerRule (layers by regex and by name) on three architectures
            c = None
            for _ in range(10):
                c = c05.gen_case(random.Random(rng.randrange(1 << 30)))
                if c is not None:
                    break
            if c is not None:
                hs, _ = c05.histories(dict(c, obj_as_str=False))
                drop = rng.choice([x for x in c["nodes"] if x != "r"])
                v2 = [x for x in c["nodes"] if not (x == drop or x.startswith(drop + "."))]
                archs = [rules.make_arch_direct(c["nodes"], c["edges"]),
                         rules.make_arch_direct(v2, [(a, b) for a, b in c["edges"] if a in v2 and b in v2]),
                         rules.make_arch_direct(c["nodes"], c["edges"][: len(c["edges"]) // 2])]
                for h in rng.sample(hs, min(4, len(hs))):
                    try:
                        robj = layers.build_lr(h)
                    except Exception:  # noqa: BLE001
                        continue
                    for k in (0, 1, 2, 0):
                        got = rules.run_rule(robj, archs[k])
                        fresh = layers.run_lr_impl(h, archs[k])
                        ctx.evaluations += 2
                        if got != fresh:
                            ctx.violation(dict(nodes=c["nodes"], edges=c["edges"], layers=[list(x) for x in c["arch_calls"]], architecture_index=k,
                                               reused=got[0], fresh=fresh[0]),
                                          f"a LayerRule object re-applied to architecture #{k} gives {got[0]}, a fresh one {fresh[0]}", {"kind": "reapply_layer_rule"})
                            break
            # ---- a LayerRule whose layer is given by a regex that matches DIFFERENT modules on the architectures it is applied to
            nodes = rules.rand_tree(rng, rng.choice((rules.COLLISION_FREE, rules.ADVERSARIAL)), max_nodes=12)
            parents = [x for x in nodes if x != "r" and sum(1 for y in nodes if y.startswith(x + ".") and y.count(".") == x.count(".") + 1) >= 2]
            if parents:
                import re as _re
                P = rng.choice(parents)
                kids = [y for y in nodes if y.startswith(P + ".") and y.count(".") == P.count(".") + 1]
                gone = rng.choice(kids)
                others = [x for x in nodes if x != "r" and not rules.related(x, P)]
                if others:
                    O = rng.choice(others)
                    edges = sorted(set(rules.rand_edges(rng, nodes, 10)) | {(rng.choice(kids), O), (O, rng.choice(kids))})
                    small = [x for x in nodes if not (x == gone or x.startswith(gone + "."))]
                    archs = [rules.make_arch_direct(small, [(a, b) for a, b in edges if a in small and b in small]), rules.make_arch_direct(nodes, edges)]
                    la_calls = [("kids", "regex", _re.escape(P) + r"\.[^.]+$"), ("other", "list", [O])]
                    for h in c05.histories(dict(arch_calls=la_calls, subj="kids", objs=["other"], obj_as_str=False))[0][::3] + \
                            c05.histories(dict(arch_calls=la_calls, subj="other", objs=["kids"], obj_as_str=False))[0][::3]:
                        try:
                            robj = layers.build_lr(h)
                        except Exception:  # noqa: BLE001
                            continue
                        for k in (0, 1, 0, 1):
                            got = rules.run_rule(robj, archs[k])
                            fresh = layers.run_lr_impl(h, archs[k])
                            ctx.evaluations += 2
                            if got != fresh:
                                ctx.violation(dict(nodes=nodes, edges=edges, smaller_architecture_lacks=gone, layers=[list(x) for x in la_calls], rule=[list(x) if isinstance(x, tuple) else x for x in h[1:]],
                                                   architecture_index=k, reused=[got[0], got[1][:200]], fresh=[fresh[0], fresh[1][:200]]),
                                              f"a LayerRule with a regex layer applied to a second architecture (where the regex matches other modules) gives {got[0]}, a fresh rule object {fresh[0]}"
                                              + ("" if got[0] != fresh[0] else " with a different report"), {"kind": "reapply_layer_rule_regex"})
                                break
                    ctx.stat("regex_layer_rule_on_two_architectures")
            # ---- DiagramRule objects for two diagrams, interleaved, on two architectures each
            c1, c2 = c07.gen_case(rng), c07.gen_case(rng)
            files = []
            for j, cc in enumerate((c1, c2)):
                p = c07.write_puml(d, f"d{it}_{j}.puml", cc["comps"], cc["rel"], random.Random(rng.randrange(1 << 30)))
                p.write_text(p.read_text().replace("@startuml\n", "@startuml\n" + "".join(f"component [{x}]\n" for x in cc["comps"])))
                files.append(p)
            objs = [DiagramRule().from_file(files[0]).base_module_included_in_module_names(), DiagramRule().from_file(files[1]).base_module_included_in_module_names()]
            arch_of = [[rules.make_arch_direct(cc["nodes"], cc["edges"]), rules.make_arch_direct(cc["nodes"], cc["edges"][: len(cc["edges"]) // 2])] for cc in (c1, c2)]
            for (j, k) in ((0, 0), (1, 0), (0, 1), (1, 1), (0, 0), (1, 0)):
                got = rules.run_rule(objs[j], arch_of[j][k])
                fresh = rules.run_rule(DiagramRule().from_file(files[j]).base_module_included_in_module_names(), arch_of[j][k])
                ctx.evaluations += 2
                if got != fresh:
                    ctx.violation(dict(diagram=files[j].read_text(), nodes=(c1, c2)[j]["nodes"], edges=(c1, c2)[j]["edges"], architecture_index=k, reused=got[0], fresh=fresh[0]),
                                  f"a DiagramRule object re-applied (diagram {j}, architecture {k}) gives {got[0]}, a fresh one {fresh[0]}", {"kind": "reapply_diagram_rule"})
                    break
            ctx.mark_nontrivial(("reuse", it))
    finally:
        import shutil
        shutil.rmtree(d, ignore_errors=True)


def layer_order_permutations(ctx, n):
    for _ in range(n):
        c = c05.gen_case(ctx.rng)
        if c is None:
            continue
        c["obj_as_str"] = False
        arch = rules.make_arch_direct(c["nodes"], c["edges"])
        hs, metas = c05.histories(c)
        base = [layers.run_lr_impl(h, arch) for h in hs]
        calls = list(c["arch_calls"])
        for perm in list(itertools.permutations(range(len(calls))))[1:4]:
            c2 = dict(c, arch_calls=[calls[i] if calls[i][1] != "list" else (calls[i][0], "list", list(reversed(calls[i][2]))) for i in perm], objs=list(reversed(c["objs"])))
            hs2, _ = c05.histories(c2)
            out = [layers.run_lr_impl(h, arch) for h in hs2]
            ctx.evaluations += len(out)
            if out != base:
                i = next(i for i in range(len(out)) if out[i] != base[i])
                ctx.violation(dict(nodes=c["nodes"], edges=c["edges"], layers=[list(x) for x in calls], permuted_layers=[list(x) for x in c2["arch_calls"]], rule=metas[i], base=base[i][0], permuted=out[i][0]),
                              "layer rule outcome depends on the order in which layers / modules / object layers are listed", {"kind": "layer_permutation"})
                break
        # a layer named twice in the list of object layers (in front, in the middle): naming it twice states nothing new
        if len(c["objs"]) >= 1:
            for dup in ([c["objs"][0]] + list(c["objs"]), list(c["objs"][:1]) + list(c["objs"][:1]) + list(reversed(c["objs"][1:])) + list(c["objs"][:1])):
                c3 = dict(c, objs=dup)
                hs3, _ = c05.histories(c3)
                out = [layers.run_lr_impl(h, arch) for h in hs3]
                ctx.evaluations += len(out)
                ctx.stat("object_layer_named_twice")
                if out != base:
                    i = next(i for i in range(len(out)) if out[i] != base[i])
                    ctx.violation(dict(nodes=c["nodes"], edges=c["edges"], layers=[list(x) for x in calls], object_layers=dup, rule=metas[i], base=base[i][0], with_duplicate=out[i][0]),
                                  "layer rule outcome changes when an object layer is named twice", {"kind": "layer_duplicate"})
                    break
        ctx.mark_nontrivial(("lperm", tuple(c["nodes"]), tuple(map(str, calls))))


def scan_determinism(ctx, n):
    """Two scans of one tree, shuffled directory enumeration, permuted exclusion tuples."""
    from pytestarch import get_evaluable_architecture
    import pathlib
    import shutil
    for it in range(n):
        rng = ctx.rng
        nodes = rules.rand_tree(rng, rules.ADVERSARIAL, max_nodes=12)
        inner = {x for x in nodes if any(m.startswith(x + ".") for m in nodes)}
        leaves = [x for x in nodes if x not in inner]
        edges = [(a, b) for a, b in rules.rand_edges(rng, nodes, 10) if a in leaves]
        d = common.scratch_dir()
        try:
            for x in nodes:
                p = d.joinpath(*x.split("."))
                if x in inner:
                    p.mkdir(parents=True, exist_ok=True)
            for x in leaves:
                p = d.joinpath(*x.split("."))
                p.parent.mkdir(parents=True, exist_ok=True)
                p.with_suffix(".py").write_text("".join(f"import {b}\n" for a, b in edges if a == x))
            # now and then a package that is also reachable under a second name (a symbolic link next to it)
            inner_dirs = sorted(x for x in inner if x != "r")
            if inner_dirs and rng.random() < 0.4:
                tdir = rng.choice(inner_dirs)
                link = d.joinpath(*tdir.split(".")[:-1], tdir.split(".")[-1] + "_l")
                if not link.exists():
                    os.symlink(tdir.split(".")[-1], link)
                    ctx.stat("scan_trees_with_a_symlinked_package")
                    # the linked package exists a second time, under the link's name
                    lname = tdir + "_l"
                    copies = {x: lname + x[len(tdir):] for x in nodes if x == tdir or x.startswith(tdir + ".")}
                    nodes = sorted(set(nodes) | set(copies.values()))
                    inner = inner | {copies[x] for x in copies if x in inner}
                    leaves = [x for x in nodes if x not in inner]
                    edges = edges + [(copies[a], b) for a, b in edges if a in copies]
            rp = str(d / "r")
            excl = tuple(rng.sample(["*" + leaves[0].split(".")[-1] + "*", "*zz*", "*__pycache__*", "*" + nodes[-1].split(".")[-1] + ".py"], 3))
            base = snapshot(get_evaluable_architecture(rp, rp, exclusions=excl))
            again = snapshot(get_evaluable_architecture(rp, rp, exclusions=excl))
            ctx.evaluations += 2
            if (set(base[0]), set(base[-1])) != (set(again[0]), set(again[-1])):
                ctx.violation(dict(nodes=nodes, edges=edges), "two scans of the same tree differ", {"kind": "scan"})
            for perm in list(itertools.permutations(excl))[1:3]:
                o = snapshot(get_evaluable_architecture(rp, rp, exclusions=perm))
                ctx.evaluations += 1
                if (set(o[0]), set(o[-1])) != (set(base[0]), set(base[-1])):
                    ctx.violation(dict(nodes=nodes, edges=edges, exclusions=list(excl), permuted=list(perm)), "scan depends on the order of exclusion patterns", {"kind": "scan"})
            # regex exclusions (and regex external exclusions are handled alike) whose patterns are not self-contained: an inline
            # flag, a numbered back reference.  Every order must give the architecture in which a path is excluded exactly
            # when ONE of the patterns matches it (re.match on the absolute path)
            import re
            lf = leaves[0].split(".")[-1]
            rx_pool = ["(?i).*/" + re.escape(lf.upper()) + r"\.py$", ".*/" + re.escape(leaves[-1].split(".")[-1].upper()) + r"\.py$", r".*/(\w)\1\.py$", ".*/zz.*", r"(.*)/(\w+)/\2\.py$"]
            rxs = tuple(rng.sample(rx_pool, 3))
            outs = []
            for perm in list(itertools.permutations(rxs))[:4]:
                try:
                    o = snapshot(get_evaluable_architecture(rp, rp, exclusions=(), regex_exclusions=perm))
                    outs.append((perm, (frozenset(o[0]), frozenset(o[-1]))))
                except Exception as e:  # noqa: BLE001
                    outs.append((perm, ("ERR", type(e).__name__)))
                ctx.evaluations += 1
            paths_of = {x: str(d.joinpath(*x.split("."))) + ("" if x in inner else ".py") for x in nodes}
            gone = {x for x in nodes if any(any(re.match(rx, paths_of[y]) for rx in rxs) for y in nodes if x == y or x.startswith(y + "."))}
            documented = frozenset(x for x in nodes if x not in gone)
            for perm, o in outs:
                if o != outs[0][1]:
                    ctx.violation(dict(nodes=nodes, edges=edges, regex_exclusions=list(outs[0][0]), permuted=list(perm), first=str(outs[0][1])[:300], permuted_result=str(o)[:300]),
                                  "scan depends on the order of the regex exclusion patterns", {"kind": "scan"})
                    break
                if o[0] == "ERR" or o[0] != documented:
                    ctx.violation(dict(nodes=nodes, edges=edges, regex_exclusions=list(perm), result=str(o)[:300], documented_modules=sorted(documented)),
                                  "regex exclusion patterns are not applied one by one (each on its own) to the paths", {"kind": "scan"})
                    break
            ctx.stat("regex_exclusion_orders", len(outs))
            # a module file next to a package directory of the same name (t.py beside t/), importing a module of that package
            # which another module imports too: whichever the walk meets first, the architecture is the same
            twin_dirs = [x for x in inner_dirs if any(y.startswith(x + ".") and y in leaves for y in nodes) and any(not y.startswith(x + ".") for y in leaves)]
            if twin_dirs and rng.random() < 0.5:
                t = rng.choice(twin_dirs)
                direct = [y for y in leaves if y.startswith(t + ".") and y.count(".") == t.count(".") + 1]
                child = rng.choice(direct or [y for y in leaves if y.startswith(t + ".")])     # preferably its own direct child
                other = rng.choice([y for y in leaves if not y.startswith(t + ".")])
                d.joinpath(*t.split(".")).with_suffix(".py").write_text(f"import {child}\n")
                with open(d.joinpath(*other.split(".")).with_suffix(".py"), "a") as fh:
                    fh.write(f"import {child}\n")
                edges = edges + [(t, child), (other, child)]
                ctx.stat("scan_trees_with_a_file_and_a_directory_of_one_name")
                base = snapshot(get_evaluable_architecture(rp, rp, exclusions=excl))
            orig = pathlib.Path.iterdir
            for s in range(4):
                srng = random.Random(s)

                def shuffled(self, _orig=orig, _r=srng):
                    items = list(_orig(self))
                    _r.shuffle(items)
                    return iter(items)
                pathlib.Path.iterdir = shuffled
                try:
                    o = snapshot(get_evaluable_architecture(rp, rp, exclusions=excl))
                finally:
                    pathlib.Path.iterdir = orig
                ctx.evaluations += 1
                if (set(o[0]), set(o[-1])) != (set(base[0]), set(base[-1])):
                    ctx.violation(dict(nodes=nodes, edges=edges, shuffle_seed=s), "scan depends on the order in which the file system enumerates directory entries", {"kind": "iterdir"})
            ctx.mark_nontrivial(("scan", tuple(nodes), tuple(edges)))
        finally:
            shutil.rmtree(d, ignore_errors=True)


def scan_history(ctx, n):
    """Scans do not depend on which trees were scanned before in the same interpreter: tree A, then a different tree B
    that re-uses A's module names (other imports, all import forms incl. relative ones), then A again, then A with another
    module_path - every scan of A must equal the first one."""
    from harness import scan
    for it in range(n):
        rng = ctx.rng
        root, dirs, files = scan.gen_tree(rng, max_depth=4, root="proj")
        scan.gen_imports(rng, dirs, files, nested=True)
        files_b = {f: {"py": v["py"], "body": []} for f, v in files.items()}
        scan.gen_imports(rng, dirs, files_b, nested=True)
        base_a = scan.materialise(dirs, files)
        base_b = scan.materialise(dirs, files_b)
        try:
            first = scan.real_scan(base_a, root, (root,))
            if first[0] != "OK":
                continue
            scan.real_scan(base_b, root, (root,))
            sub = [d for d in dirs if len(d) == 2][:1]
            for mp in sub:
                scan.real_scan(base_a, root, mp)
            again = scan.real_scan(base_a, root, (root,))
            ctx.evaluations += 3 + len(sub)
            if again[0] != "OK" or (first[1], first[2]) != (again[1], again[2]):
                ctx.violation(dict(dirs=[list(d) for d in dirs], files={scan.dotted(f): (scan.render_v(v) if v["py"] else None) for f, v in files.items()},
                                   files_of_interleaved_scan={scan.dotted(f): (scan.render_v(v) if v["py"] else None) for f, v in files_b.items()},
                                   edges_lost=sorted(set(first[2]) - set(again[2] or []))[:5], edges_gained=sorted(set(again[2] or []) - set(first[2]))[:5]),
                              "a scan of the same tree differs after other scans in the same interpreter", {"kind": "scan_history"})
            if first[2]:
                ctx.mark_nontrivial(("scanhist", it, len(first[2])))
        finally:
            scan.cleanup(base_a)
            scan.cleanup(base_b)


def hash_seeds(ctx, n_cases):
    seeds = [0, 1, 2, 3, 17, 101, 4242, 99999]
    battery_seed = ctx.rng.randrange(1 << 30)
    procs = []
    for s in seeds:
        env = dict(os.environ, PYTHONHASHSEED=str(s), PYTHONPATH=str(common.REPO / "src"))
        procs.append((s, subprocess.Popen([sys.executable, "-B", str(VERIF / "harness" / "seed_battery.py"), str(battery_seed), str(n_cases)],
                                          stdout=subprocess.PIPE, stderr=subprocess.PIPE, text=True, env=env)))
    digests = {}
    for s, p in procs:
        out, err = p.communicate(timeout=1200)
        if p.returncode != 0:
            ctx.disagreement(dict(hash_seed=s, stderr=err[-500:]), "seed battery crashed")
            continue
        digests[s] = out.strip()
    ctx.stat("hash_seeds", len(digests))
    if digests:
        ctx.evaluations += sum(int(v.split()[1]) for v in digests.values())
    if len(set(digests.values())) > 1:
        # locate the first evaluation whose outcome differs between two hash seeds
        s0 = seeds[0]
        s1 = next(s for s in seeds if digests.get(s) != digests.get(s0))
        first = hash_seed_difference(battery_seed, n_cases, s0, s1)
        ctx.violation(dict(battery_seed=battery_seed, n_cases=n_cases, digests=digests, hash_seeds=[s0, s1], first_difference=first),
                      "verdicts/messages depend on the interpreter's hash seed" + (f": {first['what']}" if first else ""), {"kind": "hash_seed"})
    ctx.extra["hash_seed_digests"] = digests


def hash_seed_difference(battery_seed, n_cases, s0, s1, flags=("", "")):
    """Re-run the battery under two hash seeds (or interpreter flags) with every evaluation written out; the first record that differs."""
    import ast
    d = common.scratch_dir()
    try:
        recs = []
        for i, s in enumerate((s0, s1)):
            f = d / f"dump{i}.txt"
            env = dict(os.environ, PYTHONHASHSEED=str(s), PYTHONPATH=str(common.REPO / "src"))
            env.pop("PYTHONOPTIMIZE", None)
            subprocess.run([sys.executable, "-B"] + ([flags[i]] if flags[i] else []) + [str(VERIF / "harness" / "seed_battery.py"), str(battery_seed), str(n_cases), str(f)],
                           env=env, capture_output=True, timeout=1200)
            recs.append(f.read_text().splitlines() if f.exists() else [])
        for a, b in zip(*recs):
            if a != b:
                ra, rb = ast.literal_eval(a), ast.literal_eval(b)
                if ra[:-1] != rb[:-1]:
                    return dict(what="the battery itself is not deterministic (harness problem)", a=a[:500], b=b[:500])
                return dict(what=f"{ra[0]} gives {ra[-1][0]} under both seeds but the reports differ" if ra[-1][0] == rb[-1][0] else f"{ra[0]} gives {ra[-1][0]} under PYTHONHASHSEED={s0} and {rb[-1][0]} under {s1}",
                            kind=ra[0], input=list(ra[1:-1]), outcome_a=list(ra[-1]), outcome_b=list(rb[-1]))
        return None
    finally:
        import shutil
        shutil.rmtree(d, ignore_errors=True)


def run(ctx: Ctx):
    n = 320 if ctx.quick else 8000
    per = 20
    jobs = [(ctx.rng.randrange(1 << 30), per) for _ in range(n // per)]
    with Pool(NCPU) as pool:
        rs = pool.map(_history_job, jobs, chunksize=1)
    for r in rs:
        rules.merge_into(ctx, r)
    layer_order_permutations(ctx, 60 if ctx.quick else 2000)
    shared_layered_architecture(ctx, 60 if ctx.quick else 1500)
    reused_layer_and_diagram_rules(ctx, 40 if ctx.quick else 1000)
    scan_determinism(ctx, 40 if ctx.quick else 800)
    scan_history(ctx, 60 if ctx.quick else 1500)
    hash_seeds(ctx, 40 if ctx.quick else 600)
    ctx.stat("shared_evaluables", n)
    ctx.rule = (f"{n} shared evaluables (3/4 built directly, 1/4 scanned), each: 40 evaluations drawn from a pool of 14 module-rule shapes + 14 layer-rule shapes, every outcome compared with the same "
                "evaluation alone on a fresh architecture, snapshot (modules + edges with hierarchy flags) before/after; same rule object re-applied and applied to a second architecture (also rule objects with regex / partial-name filters on architectures where the pattern matches other modules or nothing); all permutations "
                "(<=6 each) and a duplication of subject/object lists; layer order / module order / object-layer order permuted; LayerRule and DiagramRule objects re-applied to several architectures and interleaved (each compared with a fresh object); one LayeredArchitecture object shared by 25 layer rules (each compared with a freshly defined architecture, str(architecture) unchanged); two scans, permuted exclusion tuples, 3 shuffled Path.iterdir orders; scan of a tree repeated after scans of a different tree with the same module names and of a sub-directory (all import forms); "
                "8 hash seeds in fresh interpreters (sha256 of all (verdict, message) pairs of a deterministic battery must coincide). This runtime part is checked by execution only (partial): "
                "the theorems cover the model's order independence and re-application. non-trivial = evaluable whose pool gives different verdicts / distinct scanned trees")
    ctx.notes.append("partial: CPython set/dict iteration, Path.iterdir, networkx freeze are exercised, not proved")


def replay(ctx: Ctx, path: str) -> int:
    r = json.load(open(path))
    if r.get("tags", {}).get("kind") == "hash_seed":
        c = r["case"]
        s0, s1 = c.get("hash_seeds", [0, 1])
        outs = []
        for s in (s0, s1):
            env = dict(os.environ, PYTHONHASHSEED=str(s), PYTHONPATH=str(common.REPO / "src"))
            p = subprocess.run([sys.executable, "-B", str(VERIF / "harness" / "seed_battery.py"), str(c["battery_seed"]), str(c["n_cases"])], env=env, capture_output=True, text=True, timeout=1200)
            outs.append(p.stdout.strip())
        print("digests under PYTHONHASHSEED=%s / %s: %s" % (s0, s1, outs))
        if outs[0] != outs[1] or not outs[0]:
            print(f"VIOLATION property=C15 replay={path}")
            return 1
        return 0
    print("C15 replays are histories/seeds; re-run ./check C15 with VERIF_SEED=%s; case: %s" % (r.get("seed"), json.dumps(r["case"])[:600]))
    return 2
